// Package c11: automatic HTTPS phase 1 (modules/caddyhttp/autohttps.go) —
// correspondence cases against caddy.ProvisionContext and the impl-side oracle.
//
// A case is a whole HTTP+TLS app configuration (see lean/CaddyModel/C11/Driver.lean
// for the line format). Run builds the JSON, provisions it K times through the
// public caddy.ProvisionContext (fresh Go maps, hence fresh iteration orders, every
// time; the order of the "servers" object is rotated as well), reads the provisioned
// apps back (exported fields plus the verif hook App.VerifAllCertDomains) and prints
// the observation table of the first run. The oracle compares the K runs with each
// other and evaluates coverage / internal issuer / redirect / HTTP-only on the
// provisioned structures.
package c11

import (
	"context"
	"net/http/httptest"
	"crypto/ecdsa"
	"crypto/elliptic"
	"crypto/rand"
	"crypto/x509"
	"crypto/x509/pkix"
	"encoding/json"
	"encoding/pem"
	"fmt"
	"math/big"
	"os"
	"regexp"
	"sort"
	"strconv"
	"strings"
	"sync"
	"time"

	"github.com/caddyserver/caddy/v2"
	"github.com/caddyserver/caddy/v2/modules/caddyhttp"
	_ "github.com/caddyserver/caddy/v2/modules/caddypki"
	"github.com/caddyserver/caddy/v2/modules/caddytls"
	_ "github.com/caddyserver/caddy/v2/modules/filestorage"
	"github.com/caddyserver/certmagic"

	"verif/harness/internal/core"
)

const reservedName = "remaining_auto_https_redirects"

type prop struct{}

func New() core.Prop { return prop{} }

func (prop) ID() string { return "C11" }

// ---------------------------------------------------------------- case

type nameInfo struct {
	s                  string
	q, pub, ip, in, ld bool
	mw                 []bool
	hm                 []bool // hm[j]: the real MatchHost{name j} matches a request whose Host is this name
}

type addr struct {
	net    int
	host   string
	sp, ep int
}

var netNames = []string{"tcp", "tcp4", "tcp6", "udp"}

func (a addr) String() string {
	return fmt.Sprintf("%d.%s.%d.%d", a.net, core.Hex(a.host), a.sp, a.ep)
}

// listen renders the address the way a user writes it in "listen".
func (a addr) listen() string {
	p := strconv.Itoa(a.sp)
	if a.ep != a.sp {
		p += "-" + strconv.Itoa(a.ep)
	}
	s := a.host + ":" + p
	if strings.Contains(a.host, ":") {
		s = "[" + a.host + "]:" + p
	}
	if a.net != 0 {
		s = netNames[a.net] + "/" + s
	}
	return s
}

type uroute struct {
	hms [][]int // nil = no host matcher
}

type server struct {
	name                                           string
	listen                                         []addr
	disabled, disableRedir, disableCerts, ignoreLd bool
	tls                                            int
	skip, skipCerts                                []int
	routes                                         []uroute
}

type policy struct {
	subjects []int
	issuers  string
}

type kase struct {
	k, hp, sp int
	names     []nameInfo
	servers   []server
	policies  []policy
	loaded    bool
}

func (c *kase) httpPort() int {
	if c.hp == 0 {
		return 80
	}
	return c.hp
}

func (c *kase) httpsPort() int {
	if c.sp == 0 {
		return 443
	}
	return c.sp
}

func bits(s string) ([]bool, bool) {
	out := make([]bool, len(s))
	for i, ch := range s {
		switch ch {
		case '0':
		case '1':
			out[i] = true
		default:
			return nil, false
		}
	}
	return out, true
}

func nat(s string) (int, bool) {
	if s == "" || len(s) > 6 {
		return 0, false
	}
	for _, ch := range s {
		if ch < '0' || ch > '9' {
			return 0, false
		}
	}
	n, err := strconv.Atoi(s)
	return n, err == nil
}

func natList(s, sep string) ([]int, bool) {
	if s == "-" {
		return nil, true
	}
	var out []int
	for _, p := range strings.Split(s, sep) {
		n, ok := nat(p)
		if !ok {
			return nil, false
		}
		out = append(out, n)
	}
	return out, true
}

func parseAddr(s string) (addr, bool) {
	f := strings.Split(s, ".")
	if len(f) != 4 {
		return addr{}, false
	}
	n, ok1 := nat(f[0])
	h, err := core.UnHex(f[1])
	a, ok2 := nat(f[2])
	b, ok3 := nat(f[3])
	if !ok1 || err != nil || !ok2 || !ok3 || n > 3 || a < 1 || a > b || b >= 65536 {
		return addr{}, false
	}
	return addr{n, h, a, b}, true
}

func parseServer(s string) (server, bool) {
	f := strings.Split(s, "/")
	if len(f) != 6 {
		return server{}, false
	}
	var sv server
	var err error
	if sv.name, err = core.UnHex(f[0]); err != nil || sv.name == "" {
		return sv, false
	}
	if f[1] != "-" {
		for _, as := range strings.Split(f[1], ",") {
			a, ok := parseAddr(as)
			if !ok {
				return sv, false
			}
			sv.listen = append(sv.listen, a)
		}
	}
	if len(f[2]) != 5 {
		return sv, false
	}
	fl, ok := bits(f[2][:4])
	if !ok || f[2][4] < '0' || f[2][4] > '2' {
		return sv, false
	}
	sv.disabled, sv.disableRedir, sv.disableCerts, sv.ignoreLd = fl[0], fl[1], fl[2], fl[3]
	sv.tls = int(f[2][4] - '0')
	if sv.skip, ok = natList(f[3], ","); !ok {
		return sv, false
	}
	if sv.skipCerts, ok = natList(f[4], ","); !ok {
		return sv, false
	}
	if f[5] != "-" {
		for _, rs := range strings.Split(f[5], ",") {
			var r uroute
			if rs != "c" {
				for _, hm := range strings.Split(rs, "_") {
					if !strings.HasPrefix(hm, "h") {
						return sv, false
					}
					l := []int{}
					if hm != "h" {
						if l, ok = natList(hm[1:], "+"); !ok || hm[1:] == "-" {
							return sv, false
						}
					}
					r.hms = append(r.hms, l)
				}
			}
			sv.routes = append(sv.routes, r)
		}
	}
	return sv, true
}

func parseCase(f []string) (*kase, bool) {
	if len(f) != 8 || f[0] != "cfg" {
		return nil, false
	}
	c := &kase{}
	var ok bool
	if c.k, ok = nat(f[1]); !ok || c.k < 1 || c.k > 64 {
		return nil, false
	}
	if c.hp, ok = nat(f[2]); !ok || c.hp >= 65536 {
		return nil, false
	}
	if c.sp, ok = nat(f[3]); !ok || c.sp >= 65536 {
		return nil, false
	}
	if f[4] == "-" {
		return nil, false
	}
	for _, ns := range strings.Split(f[4], ";") {
		p := strings.Split(ns, ":")
		if len(p) != 4 || len(p[1]) != 5 {
			return nil, false
		}
		s, err := core.UnHex(p[0])
		fl, ok1 := bits(p[1])
		row, ok2 := bits(p[2])
		hrow, ok3 := bits(p[3])
		if err != nil || !ok1 || !ok2 || !ok3 {
			return nil, false
		}
		for i := 0; i < len(s); i++ {
			if s[i] >= 128 {
				return nil, false
			}
		}
		c.names = append(c.names, nameInfo{s, fl[0], fl[1], fl[2], fl[3], fl[4], row, hrow})
	}
	if c.names[0].s != "" || len(c.names) > 160 {
		return nil, false
	}
	seen := map[string]bool{}
	for _, n := range c.names {
		// names are pairwise distinct ignoring (ASCII) case
		if len(n.mw) != len(c.names) || len(n.hm) != len(c.names) || seen[strings.ToLower(n.s)] {
			return nil, false
		}
		seen[strings.ToLower(n.s)] = true
	}
	if f[5] != "-" {
		for _, ss := range strings.Split(f[5], ";") {
			sv, ok := parseServer(ss)
			if !ok {
				return nil, false
			}
			c.servers = append(c.servers, sv)
		}
	}
	if f[6] != "-" {
		for _, ps := range strings.Split(f[6], ";") {
			p := strings.Split(ps, "/")
			if len(p) != 2 {
				return nil, false
			}
			subs, ok := natList(p[0], ",")
			if !ok {
				return nil, false
			}
			if p[1] != "-" && strings.Trim(p[1], "ia") != "" {
				return nil, false
			}
			iss := p[1]
			if iss == "-" {
				iss = ""
			}
			c.policies = append(c.policies, policy{subs, iss})
		}
	}
	switch f[7] {
	case "0":
	case "1":
		c.loaded = true
	default:
		return nil, false
	}
	// well-formedness (mirrors Driver.wellFormed)
	if len(c.servers) > 8 || len(c.policies) > 8 {
		return nil, false
	}
	n := len(c.names)
	inRange := func(l []int) bool {
		for _, x := range l {
			if x >= n {
				return false
			}
		}
		return true
	}
	sseen := map[string]bool{}
	for _, sv := range c.servers {
		if sseen[sv.name] {
			return nil, false
		}
		sseen[sv.name] = true
		if !inRange(sv.skip) || !inRange(sv.skipCerts) {
			return nil, false
		}
		for _, r := range sv.routes {
			for _, hm := range r.hms {
				if !inRange(hm) {
					return nil, false
				}
			}
		}
	}
	for _, p := range c.policies {
		if !inRange(p.subjects) {
			return nil, false
		}
	}
	if !c.loaded {
		for _, nm := range c.names {
			if nm.ld {
				return nil, false
			}
		}
	}
	return c, true
}

// ---------------------------------------------------------------- static certificate

var (
	certOnce         sync.Once
	certPEM, keyPEM  string
	staticCertNames  = []string{"loaded.test", "*.wild.test"}
	storageDir       string
	storageDirOnce   sync.Once
	errStaticCertGen error
)

func staticCert() (string, string) {
	certOnce.Do(func() {
		key, err := ecdsa.GenerateKey(elliptic.P256(), rand.Reader)
		if err != nil {
			errStaticCertGen = err
			return
		}
		tmpl := &x509.Certificate{
			SerialNumber: big.NewInt(11),
			Subject:      pkix.Name{CommonName: "verif c11"},
			NotBefore:    time.Now().Add(-time.Hour),
			NotAfter:     time.Now().Add(24 * time.Hour),
			DNSNames:     staticCertNames,
			KeyUsage:     x509.KeyUsageDigitalSignature,
			ExtKeyUsage:  []x509.ExtKeyUsage{x509.ExtKeyUsageServerAuth},
		}
		der, err := x509.CreateCertificate(rand.Reader, tmpl, tmpl, &key.PublicKey, key)
		if err != nil {
			errStaticCertGen = err
			return
		}
		kb, err := x509.MarshalECPrivateKey(key)
		if err != nil {
			errStaticCertGen = err
			return
		}
		certPEM = string(pem.EncodeToMemory(&pem.Block{Type: "CERTIFICATE", Bytes: der}))
		keyPEM = string(pem.EncodeToMemory(&pem.Block{Type: "EC PRIVATE KEY", Bytes: kb}))
	})
	return certPEM, keyPEM
}

func privateStorage() string {
	storageDirOnce.Do(func() {
		os.MkdirAll("/verif/.run", 0o755)
		d, err := os.MkdirTemp("/verif/.run", "c11-store-")
		if err != nil {
			panic(err)
		}
		storageDir = d
	})
	return storageDir
}

// Finish removes the private storage directory (called by core.Main).
func (prop) Finish(*core.Session) {
	if storageDir != "" {
		os.RemoveAll(storageDir)
	}
}

// ---------------------------------------------------------------- JSON

func jstr(s string) string {
	b, _ := json.Marshal(s)
	return string(b)
}

func (c *kase) nameList(idx []int) string {
	var p []string
	for _, i := range idx {
		p = append(p, jstr(c.names[i].s))
	}
	return "[" + strings.Join(p, ",") + "]"
}

// buildJSON renders the config; rot rotates the order of the "servers" object.
func (c *kase) buildJSON(rot int) string {
	var srvs []string
	for _, s := range c.servers {
		var ls []string
		for _, a := range s.listen {
			ls = append(ls, jstr(a.listen()))
		}
		var rts []string
		for i, r := range s.routes {
			var ms []string
			for _, hm := range r.hms {
				ms = append(ms, `{"host":`+c.nameList(hm)+`}`)
			}
			m := ""
			if len(ms) > 0 {
				m = `"match":[` + strings.Join(ms, ",") + `],`
			}
			rts = append(rts, `{`+m+`"handle":[{"handler":"static_response","body":"u`+strconv.Itoa(i)+`"}]}`)
		}
		ah := fmt.Sprintf(`{"disable":%v,"disable_redirects":%v,"disable_certificates":%v,"ignore_loaded_certificates":%v`,
			s.disabled, s.disableRedir, s.disableCerts, s.ignoreLd)
		if len(s.skip) > 0 {
			ah += `,"skip":` + c.nameList(s.skip)
		}
		if len(s.skipCerts) > 0 {
			ah += `,"skip_certificates":` + c.nameList(s.skipCerts)
		}
		ah += "}"
		tls := ""
		switch s.tls {
		case 1:
			tls = `,"tls_connection_policies":[]`
		case 2:
			tls = `,"tls_connection_policies":[{}]`
		}
		srvs = append(srvs, jstr(s.name)+`:{"listen":[`+strings.Join(ls, ",")+`],"routes":[`+strings.Join(rts, ",")+
			`],"automatic_https":`+ah+tls+`}`)
	}
	if n := len(srvs); n > 0 {
		rot %= n
		srvs = append(srvs[rot:], srvs[:rot]...)
	}
	httpApp := `{`
	if c.hp != 0 {
		httpApp += `"http_port":` + strconv.Itoa(c.hp) + `,`
	}
	if c.sp != 0 {
		httpApp += `"https_port":` + strconv.Itoa(c.sp) + `,`
	}
	httpApp += `"servers":{` + strings.Join(srvs, ",") + `}}`

	var pols []string
	for _, p := range c.policies {
		var parts []string
		if len(p.subjects) > 0 {
			parts = append(parts, `"subjects":`+c.nameList(p.subjects))
		}
		if p.issuers != "" {
			var is []string
			for _, ch := range p.issuers {
				if ch == 'i' {
					is = append(is, `{"module":"internal"}`)
				} else {
					is = append(is, `{"module":"acme"}`)
				}
			}
			parts = append(parts, `"issuers":[`+strings.Join(is, ",")+`]`)
		}
		pols = append(pols, "{"+strings.Join(parts, ",")+"}")
	}
	var tlsParts []string
	if len(pols) > 0 {
		tlsParts = append(tlsParts, `"automation":{"policies":[`+strings.Join(pols, ",")+`]}`)
	}
	if c.loaded {
		cp, kp := staticCert()
		tlsParts = append(tlsParts, `"certificates":{"load_pem":[{"certificate":`+jstr(cp)+`,"key":`+jstr(kp)+`}]}`)
	}
	apps := `"http":` + httpApp
	if len(tlsParts) > 0 {
		apps += `,"tls":{` + strings.Join(tlsParts, ",") + `}`
	}
	return `{"logging":{"logs":{"default":{"writer":{"output":"discard"},"level":"ERROR"}}},` +
		`"storage":{"module":"file_system","root":` + jstr(privateStorage()) + `},"apps":{` + apps + `}}`
}

// ---------------------------------------------------------------- observation of one provisioned config

type oroute struct {
	user    int      // >= 0: user route number
	redir   bool     // redirect route
	hosts   []string // host matcher entries (redirect routes); nil = none
	hasHost bool
	port    int  // explicit port of the Location (0 = none)
	odd     bool // not exactly the shape makeRedirRoute builds
}

type oserver struct {
	name     string
	listen   []addr
	badAddr  int
	disabled bool
	tls      int
	routes   []oroute
	served   []string // per probe (names in index order, then the unknown host): what a plain HTTP request gets
}

type opolicy struct {
	subjects []string
	issuers  string
	managers int
}

type obs struct {
	errClass string
	certs    []string
	policies []opolicy
	servers  map[string]*oserver
	loadedOK bool // HasCertificateForSubject agrees with the l flags of the case
	phase2    bool
	phase2Err bool
	managing  map[string]string // TLS.managing after phase 2: subject -> issuer key
}

var locRe = regexp.MustCompile(`^https://\{http\.request\.host\}(?::([0-9]+))?\{http\.request\.uri\}$`)

func classifyErr(err error) string {
	s := err.Error()
	switch {
	case strings.Contains(s, "listener address repeated"):
		return "err:addr"
	case strings.Contains(s, "is repeated at index"):
		return "err:matcher"
	case strings.Contains(s, "automation policy"):
		return "err:tls"
	}
	return "err:other"
}

func observeRoute(r caddyhttp.Route) oroute {
	o := oroute{user: -1}
	if len(r.Handlers) == 1 {
		switch h := r.Handlers[0].(type) {
		case *caddyhttp.StaticResponse:
			if strings.HasPrefix(h.Body, "u") {
				if n, err := strconv.Atoi(h.Body[1:]); err == nil {
					o.user = n
					return o
				}
			}
		case caddyhttp.StaticResponse:
			loc := h.Headers.Get("Location")
			m := locRe.FindStringSubmatch(loc)
			if m != nil {
				o.redir = true
				if m[1] != "" {
					o.port, _ = strconv.Atoi(m[1])
					if o.port == 0 {
						o.odd = true
					}
				}
				if string(h.StatusCode) != "308" || !h.Close || len(h.Headers) != 1 {
					o.odd = true
				}
				if len(r.MatcherSets) != 1 {
					o.odd = true
				}
				proto := false
				for _, ms := range r.MatcherSets {
					for _, mm := range ms {
						switch v := mm.(type) {
						case caddyhttp.MatchHost:
							o.hasHost = true
							o.hosts = append(o.hosts, []string(v)...)
						case *caddyhttp.MatchHost:
							o.hasHost = true
							o.hosts = append(o.hosts, []string(*v)...)
						case caddyhttp.MatchProtocol:
							if string(v) == "http" {
								proto = true
							}
						default:
							o.odd = true
						}
					}
				}
				if !proto {
					o.odd = true
				}
				return o
			}
		}
	}
	return o
}

func netCode(n string) int {
	for i, x := range netNames {
		if x == n {
			return i
		}
	}
	return -1
}

func observe(ctx caddy.Context, c *kase, cfg *caddy.Config, phase2, keepAlive bool) *obs {
	o := &obs{servers: map[string]*oserver{}, loadedOK: true}
	appI, err := ctx.App("http")
	if err != nil {
		o.errClass = "err:other"
		return o
	}
	app := appI.(*caddyhttp.App)
	tlsI, err := ctx.App("tls")
	if err != nil {
		o.errClass = "err:other"
		return o
	}
	tlsApp := tlsI.(*caddytls.TLS)
	o.certs = app.VerifAllCertDomains()
	if tlsApp.Automation != nil {
		for _, ap := range tlsApp.Automation.Policies {
			p := opolicy{subjects: append([]string(nil), ap.Subjects()...), managers: len(ap.Managers)}
			for _, iss := range ap.Issuers {
				switch iss.(type) {
				case *caddytls.InternalIssuer:
					p.issuers += "i"
				case *caddytls.ACMEIssuer:
					p.issuers += "a"
				default:
					p.issuers += "x"
				}
			}
			o.policies = append(o.policies, p)
		}
	}
	for name, srv := range app.Servers {
		s := &oserver{name: name}
		for _, l := range srv.Listen {
			na, err := caddy.ParseNetworkAddress(l)
			nc := netCode(na.Network)
			if err != nil || nc < 0 {
				s.badAddr++
				continue
			}
			s.listen = append(s.listen, addr{nc, na.Host, int(na.StartPort), int(na.EndPort)})
		}
		s.disabled = srv.AutoHTTPS != nil && srv.AutoHTTPS.Disabled
		switch {
		case srv.TLSConnPolicies == nil:
			s.tls = 0
		case len(srv.TLSConnPolicies) == 0:
			s.tls = 1
		default:
			s.tls = 2
		}
		for _, r := range srv.Routes {
			or := observeRoute(r)
			// the redirect matcher is provisioned: in a large list the exact names are lower-cased.
			// The names of a case are pairwise distinct ignoring case, so spell them as the table does
			for i, h := range or.hosts {
				for _, n := range c.names {
					if h != n.s && strings.EqualFold(h, n.s) {
						or.hosts[i] = n.s
					}
				}
			}
			s.routes = append(s.routes, or)
		}
		for _, a := range s.listen {
			if a.coversPort(c.httpPort()) {
				s.served = c.dispatch(srv)
				break
			}
		}
		o.servers[name] = s
	}
	for _, n := range c.names {
		if tlsApp.HasCertificateForSubject(n.s) != n.ld {
			o.loadedOK = false
		}
	}
	if phase2 {
		// automatic HTTPS phase 2: hand allCertDomains to the TLS app's Manage, read what it
		// took on, then cancel the config's context (stops the asynchronous issuance and
		// cleans the modules up)
		o.phase2 = true
		if err := app.VerifPhase2(); err != nil {
			o.phase2Err = true
		}
		o.managing = tlsApp.VerifManaging()
		if !keepAlive {
			caddy.VerifCancelConfig(cfg)
		}
		return o
	}
	if !keepAlive {
		tlsApp.Cleanup()
	}
	return o
}

// ---------------------------------------------------------------- plain HTTP requests against the provisioned server

const unknownHost = "zz.nomatch.invalid"

// probeable: the name can be the Host of a request as it is (letters, digits, dots, dashes, stars).
func probeable(s string) bool {
	if s == "" {
		return false
	}
	for i := 0; i < len(s); i++ {
		ch := s[i]
		if !(ch >= 'a' && ch <= 'z' || ch >= 'A' && ch <= 'Z' || ch >= '0' && ch <= '9' || ch == '.' || ch == '-' || ch == '*') {
			return false
		}
	}
	return true
}

// hostMatches runs the real host matcher for one pattern against a request host.
func hostMatches(host, pattern string) bool {
	if !probeable(host) {
		return false
	}
	m := caddyhttp.MatchHost{pattern}
	if err := m.Provision(caddy.Context{}); err != nil {
		return false
	}
	req := httptest.NewRequest("GET", "http://placeholder.invalid/p?q=1", nil)
	req.Host = host
	repl := caddy.NewReplacer()
	req = req.WithContext(context.WithValue(req.Context(), caddy.ReplacerCtxKey, repl))
	return m.Match(req)
}

// serveOne sends one plain HTTP request to the provisioned server (Server.ServeHTTP: the
// compiled route list, the real matchers and the real static_response handler) and names
// the answer: u<i> a user route, r<port> the redirect makeRedirRoute builds (308, Location
// https://<host>[:port]<uri>, Connection: close), - nothing matched, ? anything else.
func serveOne(srv *caddyhttp.Server, host string) (tok string) {
	defer func() {
		if r := recover(); r != nil {
			tok = "panic"
		}
	}()
	req := httptest.NewRequest("GET", "http://placeholder.invalid/p?q=1", nil)
	req.Host = host
	req.RemoteAddr = "192.0.2.1:1234"
	rec := httptest.NewRecorder()
	srv.ServeHTTP(rec, req)
	body := rec.Body.String()
	switch {
	case rec.Code == 200 && strings.HasPrefix(body, "u"):
		if _, err := strconv.Atoi(body[1:]); err == nil {
			return body
		}
	case rec.Code == 200 && body == "":
		return "-"
	case rec.Code == 308:
		loc := rec.Header().Get("Location")
		pre, suf := "https://"+host, "/p?q=1"
		if strings.HasPrefix(loc, pre) && strings.HasSuffix(loc, suf) && len(loc) >= len(pre)+len(suf) && body == "" &&
			strings.EqualFold(rec.Header().Get("Connection"), "close") {
			mid := loc[len(pre) : len(loc)-len(suf)]
			if mid == "" {
				return "r0"
			}
			if mid[0] == ':' {
				if n, ok := nat(mid[1:]); ok && n > 0 {
					return "r" + strconv.Itoa(n)
				}
			}
		}
	}
	return "?" + strconv.Itoa(rec.Code)
}

func (c *kase) dispatch(srv *caddyhttp.Server) []string {
	var out []string
	for _, n := range c.names {
		if probeable(n.s) {
			out = append(out, serveOne(srv, n.s))
		} else {
			out = append(out, "~")
		}
	}
	return append(out, serveOne(srv, unknownHost))
}

// provision runs the real provisioning once.
func provision(c *kase, rot int) *obs {
	var cfg caddy.Config
	if err := json.Unmarshal([]byte(c.buildJSON(rot)), &cfg); err != nil {
		return &obs{errClass: "err:json"}
	}
	ctx, err := caddy.ProvisionContext(&cfg)
	if err != nil {
		return &obs{errClass: classifyErr(err)}
	}
	return observe(ctx, c, &cfg, rot == 0, false)
}

// ---------------------------------------------------------------- canonical line (mirrors Driver.canon)

func (c *kase) nameIdx(s string) int {
	for i, n := range c.names {
		if n.s == s {
			return i
		}
	}
	return -1
}

func (c *kase) portUniverse() []int {
	set := map[int]bool{0: true}
	for _, s := range c.servers {
		for _, a := range s.listen {
			set[a.sp] = true
		}
	}
	var out []int
	for p := range set {
		out = append(out, p)
	}
	sort.Ints(out)
	return out
}

func (c *kase) addrUniverse() []addr {
	var out []addr
	add := func(a addr) {
		for _, x := range out {
			if x == a {
				return
			}
		}
		out = append(out, a)
	}
	for _, s := range c.servers {
		for _, a := range s.listen {
			add(a)
		}
	}
	for _, s := range c.servers {
		for _, a := range s.listen {
			add(addr{a.net, a.host, c.httpPort(), c.httpPort()})
		}
	}
	return out
}

func joinOr(sep string, l []string) string {
	if len(l) == 0 {
		return "-"
	}
	return strings.Join(l, sep)
}

// redirPorts: the explicit ports of the redirect routes that list name d (d >= 0)
// or have no host matcher (d < 0).
func (c *kase) redirPorts(s *oserver, d int) map[int]bool {
	out := map[int]bool{}
	for _, r := range s.routes {
		if !r.redir {
			continue
		}
		if d < 0 {
			if !r.hasHost {
				out[r.port] = true
			}
			continue
		}
		if r.hasHost {
			for _, h := range r.hosts {
				if h == c.names[d].s {
					out[r.port] = true
				}
			}
		}
	}
	return out
}

func (c *kase) showServer(key string, s *oserver) string {
	var ls []string
	strange := s.badAddr > 0
	univ := c.addrUniverse()
	for _, u := range univ {
		for _, a := range s.listen {
			if a == u {
				ls = append(ls, u.String())
				break
			}
		}
	}
	for _, a := range s.listen {
		found := false
		for _, u := range univ {
			if a == u {
				found = true
			}
		}
		if !found {
			strange = true
		}
	}
	listen := joinOr(",", ls) + ":n" + strconv.Itoa(len(s.listen)+s.badAddr)
	if strange {
		listen += "!"
	}
	var sk []string
	odd := false
	ports := c.portUniverse()
	inPorts := func(p int) bool {
		for _, x := range ports {
			if x == p {
				return true
			}
		}
		return false
	}
	for _, r := range s.routes {
		switch {
		case r.user >= 0:
			sk = append(sk, "u"+strconv.Itoa(r.user))
		case r.redir:
			if len(sk) == 0 || sk[len(sk)-1] != "R" {
				sk = append(sk, "R")
			}
			if r.odd || !inPorts(r.port) {
				odd = true
			}
			for _, h := range r.hosts {
				if c.nameIdx(h) < 0 {
					odd = true
				}
			}
		default:
			sk = append(sk, "?")
		}
	}
	var rows []string
	showPorts := func(m map[int]bool) string {
		var p []string
		for _, x := range ports {
			if m[x] {
				p = append(p, strconv.Itoa(x))
			}
		}
		return strings.Join(p, "+")
	}
	for d := range c.names {
		if s := showPorts(c.redirPorts(s, d)); s != "" {
			rows = append(rows, strconv.Itoa(d)+"="+s)
		}
	}
	if s := showPorts(c.redirPorts(s, -1)); s != "" {
		rows = append(rows, "*="+s)
	}
	table := joinOr(",", rows)
	if odd {
		table += "!"
	}
	d := "0"
	if s.disabled {
		d = "1"
	}
	return key + "/" + d + strconv.Itoa(s.tls) + "/" + listen + "/" + joinOr(",", sk) + "/" + table
}

func (c *kase) canon(o *obs) string {
	if o.errClass != "" {
		return o.errClass
	}
	if !o.loadedOK {
		return "bad-op:loaded-flags"
	}
	var sb strings.Builder
	sb.WriteString("ok c=")
	extra := false
	for _, n := range c.names {
		b := "0"
		for _, d := range o.certs {
			if d == n.s {
				b = "1"
			}
		}
		sb.WriteString(b)
	}
	for _, d := range o.certs {
		if c.nameIdx(d) < 0 {
			extra = true
		}
	}
	if extra {
		sb.WriteString("!")
	}
	var pols []string
	for _, p := range o.policies {
		var idx []string
		bad := false
		for i, n := range c.names {
			for _, s := range p.subjects {
				if s == n.s {
					idx = append(idx, strconv.Itoa(i))
					break
				}
			}
		}
		for _, s := range p.subjects {
			if c.nameIdx(s) < 0 {
				bad = true
			}
		}
		ps := joinOr(",", idx)
		if bad {
			ps += "!"
		}
		iss := p.issuers
		if iss == "" {
			iss = "-"
		}
		pols = append(pols, ps+"/"+iss+"/"+strconv.Itoa(p.managers))
	}
	sb.WriteString(" p=" + joinOr(";", pols))
	var srvs, served []string
	seen := map[string]bool{}
	for i, s := range c.servers {
		seen[s.name] = true
		if os, ok := o.servers[s.name]; ok {
			srvs = append(srvs, c.showServer("s"+strconv.Itoa(i), os))
			if os.served != nil {
				served = append(served, "s"+strconv.Itoa(i)+":"+strings.Join(os.served, ","))
			}
		} else {
			srvs = append(srvs, "s"+strconv.Itoa(i)+"/missing")
		}
	}
	var others []string
	for name := range o.servers {
		if !seen[name] {
			others = append(others, name)
		}
	}
	sort.Strings(others)
	for _, name := range others {
		key := "x" + core.Hex(name)
		if name == reservedName {
			key = "new"
		}
		srvs = append(srvs, c.showServer(key, o.servers[name]))
		if o.servers[name].served != nil {
			served = append(served, key+":"+strings.Join(o.servers[name].served, ","))
		}
	}
	sb.WriteString(" s=" + joinOr(";", srvs))
	sb.WriteString(" h=" + joinOr(";", served))
	if o.phase2 {
		m := ""
		if o.phase2Err {
			m = "err"
		} else {
			for _, n := range c.names {
				key, ok := o.managing[n.s]
				switch {
				case !ok:
					m += "0"
				case key != "":
					m += "i"
				default:
					m += "a"
				}
			}
			for k := range o.managing {
				if c.nameIdx(k) < 0 {
					m += "!"
					break
				}
			}
		}
		sb.WriteString(" m=" + m)
	}
	return sb.String()
}

// ---------------------------------------------------------------- Run

// flagsOK checks that the certmagic values carried by the line are the values the
// real functions return (a replayed line must not lie about its parameters).
func (c *kase) flagsOK() bool {
	for _, n := range c.names {
		if certmagic.SubjectQualifiesForCert(n.s) != n.q || certmagic.SubjectQualifiesForPublicCert(n.s) != n.pub ||
			certmagic.SubjectIsIP(n.s) != n.ip || certmagic.SubjectIsInternal(n.s) != n.in {
			return false
		}
		for j, m := range c.names {
			if certmagic.MatchWildcard(n.s, m.s) != n.mw[j] || hostMatches(n.s, m.s) != n.hm[j] {
				return false
			}
		}
	}
	for _, s := range c.servers {
		for _, a := range s.listen {
			na, err := caddy.ParseNetworkAddress(a.listen())
			if err != nil || na.Network != netNames[a.net] || na.Host != a.host || int(na.StartPort) != a.sp || int(na.EndPort) != a.ep {
				return false
			}
		}
	}
	return true
}

func (prop) Run(line string) core.Outcome {
	if f := strings.Fields(line); len(f) > 0 && f[0] == "nm" {
		return runNM(f)
	}
	if f := strings.Fields(line); len(f) > 0 && f[0] == "cf" {
		return runCF(line, f)
	}
	if f := strings.Fields(line); len(f) > 0 && f[0] == "hist" {
		return runHist(f)
	}
	c, ok := parseCase(strings.Fields(line))
	if !ok || !c.flagsOK() {
		return core.Outcome{Impl: "bad-op", Tags: []string{"trivial", "bad-op"}}
	}
	runs := make([]*obs, 0, c.k)
	for i := 0; i < c.k; i++ {
		runs = append(runs, provision(c, i))
	}
	o := core.Outcome{Impl: c.canon(runs[0])}
	o.Tags = c.tags(runs[0])
	o.Failures = c.oracle(runs)
	return o
}
