package c11

// nm <hex a> <hex b>: certmagic's subject predicates on a and MatchWildcard(a, b), against the
// byte-level Lean models of lean/CaddyModel/C11/Names.lean.

import (
	"strconv"
	"strings"

	"github.com/caddyserver/certmagic"

	"verif/harness/internal/core"
)

func runNM(f []string) core.Outcome {
	if len(f) != 3 {
		return core.Outcome{Impl: "bad-op", Tags: []string{"trivial", "bad-op"}}
	}
	a, e1 := core.UnHex(f[1])
	b, e2 := core.UnHex(f[2])
	if e1 != nil || e2 != nil {
		return core.Outcome{Impl: "bad-op", Tags: []string{"trivial", "bad-op"}}
	}
	for _, s := range []string{a, b} {
		for i := 0; i < len(s); i++ {
			if s[i] >= 128 {
				return core.Outcome{Impl: "bad-op", Tags: []string{"trivial", "bad-op"}}
			}
		}
	}
	q, p, ip, in := certmagic.SubjectQualifiesForCert(a), certmagic.SubjectQualifiesForPublicCert(a), certmagic.SubjectIsIP(a), certmagic.SubjectIsInternal(a)
	mw := certmagic.MatchWildcard(a, b)
	o := core.Outcome{Impl: "ok " + b01(q) + b01(p) + b01(ip) + b01(in) + " " + b01(mw), Tags: []string{"nm", "nm:q" + b01(q) + "p" + b01(p) + "i" + b01(ip) + "n" + b01(in), "nm:mw" + b01(mw)}}
	// implementation-only relations between the predicates
	if p && !q {
		o.Failures = append(o.Failures, core.Failure{Class: "names:public-but-not-certifiable", What: strconv.Quote(a)})
	}
	if p && in {
		o.Failures = append(o.Failures, core.Failure{Class: "names:public-and-internal", What: strconv.Quote(a)})
	}
	if !certmagic.MatchWildcard(a, a) {
		o.Failures = append(o.Failures, core.Failure{Class: "names:matchwildcard-not-reflexive", What: strconv.Quote(a)})
	}
	if mw && strings.HasSuffix(strings.ToLower(b), ".ts.net") && !strings.HasSuffix(strings.ToLower(a), ".ts.net") {
		o.Failures = append(o.Failures, core.Failure{Class: "names:tailscale-pattern-matches-other-name", What: strconv.Quote(a) + " ~ " + strconv.Quote(b)})
	}
	return o
}

var nmAtoms = []string{"a", "b", "x", "ts", "net", "test", "localhost", "local", "internal", "home", "arpa", "*", "", "w", "example", "com", "10", "0", "1", "127", "255", "256", "172", "16", "31", "32", "192", "168", "169", "254", "01", "fe80", "fc00", "fd12", "ffff", "0", "1:2", "::", ":", "[", "]", "443", " ", "!", "%eth0", "A", "TS", "NET", "LocalHost"}

func genName(rng *core.Rand) string {
	switch rng.Intn(10) {
	case 0:
		return rng.Pick(namePool)
	case 1: // dotted quad-ish
		var p []string
		for n := 3 + rng.Intn(3); n > 0; n-- {
			p = append(p, rng.Pick([]string{"0", "1", "10", "127", "172", "16", "31", "32", "192", "168", "169", "254", "255", "256", "01", "8", "", "a"}))
		}
		s := strings.Join(p, ".")
		if rng.Chance(1, 6) {
			s += ":443"
		}
		return s
	case 2: // IPv6-ish
		v6 := []string{"::1", "::", "fe80::1", "fc00::", "fd12:3456::1", "::ffff:10.0.0.1", "::ffff:8.8.8.8", "1:2:3:4:5:6:7:8", "1:2:3:4:5:6:7::", "1:2:3:4:5:6:7:8:9",
			"2001:db8::1", "1::2::3", "12345::", "::1.2.3.4", "1:2:3:4:5:6:1.2.3.4", "1:2:3:4:5:1.2.3.4", "fe80::1%eth0", ":1", "1:", "::g", "[::1]:443", "[fe80::1]", "0:0:0:0:0:0:0:1", "0100::", "FEBF::1", "fec0::1", "::1:"}
		return rng.Pick(v6)
	default:
		var p []string
		for n := 1 + rng.Intn(5); n > 0; n-- {
			p = append(p, rng.Pick(nmAtoms))
		}
		sep := "."
		if rng.Chance(1, 10) {
			sep = ""
		}
		s := strings.Join(p, sep)
		if rng.Chance(1, 12) {
			s += "."
		}
		if rng.Chance(1, 12) {
			s += ":443"
		}
		return s
	}
}

func genNM(rng *core.Rand) string {
	a := genName(rng)
	b := genName(rng)
	if rng.Chance(1, 2) { // a pattern derived from a
		l := strings.Split(strings.ToLower(a), ".")
		for i := 0; i <= rng.Intn(len(l)); i++ {
			if rng.Chance(2, 3) {
				l[i] = "*"
			}
		}
		b = strings.Join(l, ".")
		if rng.Chance(1, 8) {
			b = strings.ToUpper(b)
		}
	}
	return "nm " + core.Hex(a) + " " + core.Hex(b)
}
