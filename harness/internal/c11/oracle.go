package c11

import (
	"fmt"
	"sort"
	"strconv"
	"strings"

	"github.com/caddyserver/certmagic"

	"verif/harness/internal/core"
)

// ---------------------------------------------------------------- the property's vocabulary on the CONFIG

func contains(l []int, x int) bool {
	for _, y := range l {
		if y == x {
			return true
		}
	}
	return false
}

// coversPort: the listener's port range contains p.
func (a addr) coversPort(p int) bool { return a.sp <= p && p <= a.ep }

// usesOther is listenersUseAnyPortOtherThan as the property reads it: some listener
// does not include port p.
func usesOther(l []addr, p int) bool {
	for _, a := range l {
		if !a.coversPort(p) {
			return true
		}
	}
	return false
}

// domainSet: the names of the server's host matchers minus its skip list, deduplicated.
func (s *server) domainSet() []int {
	var out []int
	for _, r := range s.routes {
		for _, hm := range r.hms {
			for _, d := range hm {
				if !contains(s.skip, d) && !contains(out, d) {
					out = append(out, d)
				}
			}
		}
	}
	return out
}

func (c *kase) active(s *server) bool { return !s.disabled && usesOther(s.listen, c.httpPort()) }

// redirOn: the server takes part in redirect construction (it is active, has names or
// TLS connection policies, and redirects are not disabled).
func (c *kase) redirOn(s *server) bool {
	if !c.active(s) || s.disableRedir {
		return false
	}
	tls := s.tls
	if tls == 0 && !usesOther(s.listen, c.httpsPort()) {
		tls = 2
	}
	return len(s.domainSet()) > 0 || tls == 2
}

// keysOf: the redirect keys the server contributes (name 0 = catch-all when it has no names).
func (s *server) keysOf() []int {
	if d := s.domainSet(); len(d) > 0 {
		return d
	}
	return []int{0}
}

// ambName (Spec.ambName): two redirect-enabled servers contribute key d and one that has
// names of its own listens on a port other than the HTTPS port — which address the
// redirect for d names then depends on the iteration order of the servers map.
func (c *kase) ambName(d int) bool {
	for i := range c.servers {
		si := &c.servers[i]
		if !c.redirOn(si) || !contains(si.keysOf(), d) || len(si.domainSet()) == 0 {
			continue
		}
		nonHTTPS := false
		for _, a := range si.listen {
			if a.sp != c.httpsPort() {
				nonHTTPS = true
			}
		}
		if !nonHTTPS {
			continue
		}
		for j := range c.servers {
			sj := &c.servers[j]
			if j != i && c.redirOn(sj) && contains(sj.keysOf(), d) {
				return true
			}
		}
	}
	return false
}

// ambRecv (Spec.ambRecv): two servers listen on the HTTP port of the same network — which of
// them receives the redirect routes depends on the iteration order of the servers map.
func (c *kase) ambRecv() bool {
	for i := range c.servers {
		for j := range c.servers {
			if i == j {
				continue
			}
			for _, a := range c.servers[i].listen {
				for _, b := range c.servers[j].listen {
					if a.net == b.net && a.coversPort(c.httpPort()) && b.coversPort(c.httpPort()) {
						return true
					}
				}
			}
		}
	}
	return false
}

func (c *kase) ambiguous() bool {
	if c.ambRecv() {
		return true
	}
	for d := range c.names {
		if c.ambName(d) {
			return true
		}
	}
	return false
}

func (c *kase) portRule(p int) int {
	if p != c.httpPort() && p != c.httpsPort() && p != 80 && p != 443 {
		return p
	}
	return 0
}

func isTailscale(s string) bool { return strings.HasSuffix(strings.ToLower(s), ".ts.net") }

// ---------------------------------------------------------------- observations used by the oracle

// effective: the explicit port of the first redirect route that lists name s or has no
// host matcher; ok=false when there is none.
func effective(srv *oserver, name string) (int, bool) {
	for _, r := range srv.routes {
		if !r.redir {
			continue
		}
		if !r.hasHost {
			return r.port, true
		}
		for _, h := range r.hosts {
			if h == name {
				return r.port, true
			}
		}
	}
	return 0, false
}

func (c *kase) effTable(o *obs) string {
	var names []string
	for n := range o.servers {
		names = append(names, n)
	}
	sort.Strings(names)
	var sb strings.Builder
	for _, n := range names {
		sb.WriteString(n + ":")
		for i, nm := range c.names {
			if p, ok := effective(o.servers[n], nm.s); ok {
				sb.WriteString(strconv.Itoa(i) + ">" + strconv.Itoa(p) + ",")
			}
		}
		sb.WriteString(";")
	}
	return sb.String()
}

// detailed is the full order-insensitive observation table (never the masked form).
func (c *kase) detailed(o *obs) string {
	var srvs []string
	var names []string
	for n := range o.servers {
		names = append(names, n)
	}
	sort.Strings(names)
	for _, n := range names {
		srvs = append(srvs, c.showServer(core.Hex(n), o.servers[n]))
	}
	return strings.Join(srvs, ";")
}

// invariantPart: certificates, policies, per-server flags.
func (c *kase) invariantPart(o *obs) string {
	var sb strings.Builder
	sb.WriteString(strings.Join(o.certs, ","))
	sb.WriteString("|")
	for _, p := range o.policies {
		subs := append([]string(nil), p.subjects...)
		sort.Strings(subs)
		sb.WriteString(strings.Join(subs, ",") + "/" + p.issuers + "/" + strconv.Itoa(p.managers) + ";")
	}
	sb.WriteString("|")
	var names []string
	for n := range o.servers {
		names = append(names, n)
	}
	sort.Strings(names)
	for _, n := range names {
		if n == reservedName {
			continue
		}
		s := o.servers[n]
		sb.WriteString(fmt.Sprintf("%s:%v:%d;", n, s.disabled, s.tls))
	}
	return sb.String()
}

// redirFacts: the set of (name or *, port) facts over all servers, ignoring placement.
func (c *kase) redirFacts(o *obs) string {
	set := map[string]bool{}
	for _, s := range o.servers {
		for _, r := range s.routes {
			if !r.redir {
				continue
			}
			if !r.hasHost {
				set["*>"+strconv.Itoa(r.port)] = true
			}
			for _, h := range r.hosts {
				set[core.Hex(h)+">"+strconv.Itoa(r.port)] = true
			}
		}
	}
	var l []string
	for k := range set {
		l = append(l, k)
	}
	sort.Strings(l)
	return strings.Join(l, ",")
}

func policyFor(pols []opolicy, name string) *opolicy {
	for i := range pols {
		if len(pols[i].subjects) == 0 {
			return &pols[i]
		}
		for _, h := range pols[i].subjects {
			if certmagic.MatchWildcard(name, h) {
				return &pols[i]
			}
		}
	}
	return nil
}

// ---------------------------------------------------------------- oracle

func (c *kase) oracle(runs []*obs) []core.Failure {
	var fails []core.Failure
	seenClass := map[string]bool{}
	fail := func(class, what string) {
		if !seenClass[class] {
			seenClass[class] = true
			fails = append(fails, core.Failure{Class: class, What: what})
		}
	}
	o0 := runs[0]
	// ---- the same configuration provisions the same way every time
	for i, o := range runs[1:] {
		if o.errClass != o0.errClass {
			fail("nondeterministic:error", fmt.Sprintf("provision 1 gave %q, provision %d gave %q", o0.errClass, i+2, o.errClass))
		}
	}
	if o0.errClass != "" {
		if o0.errClass == "err:other" || o0.errClass == "err:json" {
			fail("unexpected-provision-error", "provisioning failed with an error no validation rule of the model explains")
		}
		return fails
	}
	amb := c.ambiguous()
	for i, o := range runs[1:] {
		if o.errClass != "" {
			continue
		}
		switch {
		case c.invariantPart(o) != c.invariantPart(o0):
			fail("nondeterministic:certificates-policies-or-server-flags",
				fmt.Sprintf("provision 1: %s ; provision %d: %s", c.invariantPart(o0), i+2, c.invariantPart(o)))
		case c.detailed(o) != c.detailed(o0):
			what := fmt.Sprintf("provision 1: %s ; provision %d: %s", c.detailed(o0), i+2, c.detailed(o))
			// every `range` of phase 1 runs over sorted keys: nothing may depend on map order
			_ = amb
			fail("nondeterministic:redirect-routes", what)
		case c.effTable(o) != c.effTable(o0):
			fail("nondeterministic:redirect-route-order",
				fmt.Sprintf("same redirect routes, different order: provision 1 answers %s ; provision %d answers %s", c.effTable(o0), i+2, c.effTable(o)))
		}
	}
	// ---- the property's clauses on each provisioned result
	done := map[string]bool{}
	for _, o := range runs {
		if o.errClass != "" {
			continue
		}
		key := c.invariantPart(o) + "#" + c.detailed(o) + "#" + c.effTable(o)
		if done[key] {
			continue
		}
		done[key] = true
		c.clauses(o, fail)
	}
	return fails
}

func (c *kase) anyAmbName() bool {
	for d := range c.names {
		if c.ambName(d) {
			return true
		}
	}
	return false
}

func (c *kase) explicitPolicy(d int) *policy {
	for i := range c.policies {
		if contains(c.policies[i].subjects, d) {
			return &c.policies[i]
		}
	}
	return nil
}

func has(l []string, s string) bool {
	for _, x := range l {
		if x == s {
			return true
		}
	}
	return false
}

// confinedExact: every listener is exactly the HTTP port.
func (c *kase) confinedExact(s *server) bool {
	for _, a := range s.listen {
		if a.sp != c.httpPort() || a.ep != c.httpPort() {
			return false
		}
	}
	return true
}

func (c *kase) clauses(o *obs, fail func(class, what string)) {
	hp := c.httpPort()
	// ---- (a) coverage and issuer
	for si := range c.servers {
		s := &c.servers[si]
		if !c.active(s) || s.disableCerts {
			continue
		}
		for _, d := range s.domainSet() {
			n := c.names[d]
			if !n.q || contains(s.skipCerts, d) || (n.ld && !s.ignoreLd) {
				continue
			}
			ep := c.explicitPolicy(d)
			if isTailscale(n.s) && ep == nil {
				p := policyFor(o.policies, n.s)
				if p == nil || p.managers == 0 {
					fail("coverage:tailscale-name-without-manager-policy", fmt.Sprintf("%q (server %s)", n.s, s.name))
				}
				continue
			}
			if !has(o.certs, n.s) {
				fail("coverage:qualifying-name-not-managed", fmt.Sprintf("%q is named by server %s, which is not confined to the HTTP port, and is not skipped, but is not in allCertDomains %v", n.s, s.name, o.certs))
				continue
			}
			p := policyFor(o.policies, n.s)
			if p == nil {
				fail("coverage:no-applicable-policy", fmt.Sprintf("%q has no applicable automation policy", n.s))
				continue
			}
			if !n.pub && ep == nil && p.issuers != "i" {
				fail("internal-issuer:non-public-name-gets-other-issuer", fmt.Sprintf("%q cannot get a public certificate but its policy has issuers %q", n.s, p.issuers))
			}
			if ep != nil && ep.issuers == "" {
				allInt := true
				for _, x := range ep.subjects {
					if !c.names[x].in {
						allInt = false
					}
				}
				if allInt {
					for _, rp := range o.policies {
						if has(rp.subjects, n.s) && rp.issuers != "i" {
							fail("internal-issuer:explicit-internal-policy-without-issuer", fmt.Sprintf("policy for %q lists only internal names and no issuer, got issuers %q", n.s, rp.issuers))
						}
					}
				}
			}
		}
	}
	// ---- (a') nothing is managed or redirected that the skip settings exclude
	for _, dn := range o.certs {
		d := c.nameIdx(dn)
		ok := false
		for si := range c.servers {
			s := &c.servers[si]
			if d >= 0 && c.active(s) && !s.disableCerts && contains(s.domainSet(), d) && c.names[d].q &&
				!contains(s.skipCerts, d) && !(c.names[d].ld && !s.ignoreLd) {
				ok = true
			}
		}
		if !ok {
			fail("coverage:non-qualifying-name-managed", fmt.Sprintf("%q is in allCertDomains %v but no server that is enabled, off the HTTP port and manages certificates names it without skipping it", dn, o.certs))
		}
	}
	for _, os := range o.servers {
		for _, r := range os.routes {
			if !r.redir {
				continue
			}
			for _, h := range r.hosts {
				d := c.nameIdx(h)
				ok := false
				for si := range c.servers {
					s := &c.servers[si]
					if d >= 0 && c.active(s) && !s.disableRedir && contains(s.keysOf(), d) {
						ok = true
					}
				}
				if !ok {
					fail("redirect:name-redirected-without-redirect-enabled-server", fmt.Sprintf("server %s redirects %q but no enabled server with redirects names it (skip list, disable_redirects)", os.name, h))
				}
			}
		}
	}
	// ---- (a'') phase 2: every name of allCertDomains is handed to certmagic, or a wildcard that
	// covers it is; nothing else is; the issuer key is recorded exactly for internal-only policies
	if o.phase2 && !o.phase2Err {
		for _, dn := range o.certs {
			if _, ok := o.managing[dn]; ok {
				continue
			}
			covered := false
			for w := range o.managing {
				if w != dn && strings.Contains(w, "*") && certmagic.MatchWildcard(dn, w) {
					covered = true
				}
			}
			if !covered {
				fail("phase2:name-neither-managed-nor-covered-by-a-managed-wildcard", fmt.Sprintf("%q is in allCertDomains %v but Manage took on only %v", dn, o.certs, o.managing))
			}
		}
		for w, key := range o.managing {
			if !has(o.certs, w) {
				fail("phase2:managing-a-name-outside-allCertDomains", fmt.Sprintf("%q", w))
			}
			if p := policyFor(o.policies, w); p != nil && (p.issuers == "i") != (key != "") {
				fail("phase2:issuer-key-does-not-match-policy", fmt.Sprintf("%q: policy issuers %q, recorded issuer key %q", w, p.issuers, key))
			}
		}
	}
	if o.phase2Err {
		fail("phase2:manage-failed", "automaticHTTPSPhase2 returned an error")
	}
	// ---- (b) servers confined to the HTTP port (or disabled) get neither
	for d := 1; d < len(c.names); d++ {
		named, onlyOff := false, true
		for si := range c.servers {
			s := &c.servers[si]
			if !contains(s.domainSet(), d) {
				continue
			}
			named = true
			if !(s.disabled || c.confinedExact(s)) {
				onlyOff = false
			}
		}
		if !named || !onlyOff {
			continue
		}
		if has(o.certs, c.names[d].s) {
			fail("http-only:name-of-confined-server-managed", fmt.Sprintf("%q is named only by disabled / HTTP-port-only servers but is in allCertDomains", c.names[d].s))
		}
		for _, os := range o.servers {
			for _, r := range os.routes {
				if r.redir && has(r.hosts, c.names[d].s) {
					fail("http-only:name-of-confined-server-redirected", fmt.Sprintf("%q is named only by disabled / HTTP-port-only servers but server %s redirects it", c.names[d].s, os.name))
				}
			}
		}
	}
	for si := range c.servers {
		s := &c.servers[si]
		os := o.servers[s.name]
		if os == nil || s.name == reservedName {
			continue
		}
		if !s.disabled && len(s.listen) > 0 && c.confinedExact(s) {
			if !os.disabled || os.tls != s.tls {
				fail("http-only:confined-server-touched", fmt.Sprintf("server %s listens only on the HTTP port: disabled=%v tls %d->%d", s.name, os.disabled, s.tls, os.tls))
			}
		}
		if s.disabled && os.tls != s.tls {
			fail("http-only:disabled-server-touched", fmt.Sprintf("server %s has automatic HTTPS disabled: tls %d->%d", s.name, s.tls, os.tls))
		}
	}
	// ---- (c) redirects
	userHostRoute := func(srvName string, d int) bool {
		for si := range c.servers {
			if c.servers[si].name != srvName {
				continue
			}
			for _, r := range c.servers[si].routes {
				for _, hm := range r.hms {
					if contains(hm, d) {
						return true
					}
				}
			}
		}
		return false
	}
	var httpSrvs []*oserver
	var hnames []string
	for n := range o.servers {
		hnames = append(hnames, n)
	}
	sort.Strings(hnames)
	for _, n := range hnames {
		for _, a := range o.servers[n].listen {
			if a.coversPort(hp) {
				httpSrvs = append(httpSrvs, o.servers[n])
				break
			}
		}
	}
	for d := 1; d < len(c.names) && !c.hasReserved(); d++ {
		// the ports a redirect for d may name: the listeners of the redirect-enabled servers naming d
		right := map[int]bool{}
		any := false
		for si := range c.servers {
			s := &c.servers[si]
			if !c.active(s) || s.disableRedir || !contains(s.domainSet(), d) {
				continue
			}
			any = true
			for _, a := range s.listen {
				right[c.portRule(a.sp)] = true
			}
		}
		if !any {
			continue
		}
		name := c.names[d].s
		if len(httpSrvs) == 0 {
			fail("redirect:no-http-port-server", fmt.Sprintf("%q should be redirected but no server listens on the HTTP port", name))
			continue
		}
		// HTTP-port servers that carry no user route for d
		var cands []*oserver
		for _, t := range httpSrvs {
			if !userHostRoute(t.name, d) {
				cands = append(cands, t)
			}
		}
		if len(cands) == 0 {
			continue
		}
		good, shadowed := false, false
		for _, t := range cands {
			p, ok := effective(t, name)
			if ok && right[p] {
				good = true
			}
			// every redirect route of t that covers d (lists it, or has no host matcher)
			cover := map[int]bool{}
			lists := false
			for _, r := range t.routes {
				if r.redir && (!r.hasHost || has(r.hosts, name)) {
					cover[r.port] = true
					if r.hasHost {
						lists = true
					}
				}
			}
			anyRight := false
			for q := range cover {
				if right[q] {
					anyRight = true
				}
			}
			if ok && !right[p] && anyRight {
				shadowed = true
			}
			if lists && ok && !right[p] {
				cls := "redirect:listed-name-answered-with-unserved-port"
				if anyRight {
					cls = "redirect:right-redirect-shadowed-by-route-order"
				}
				fail(cls, fmt.Sprintf("server %s has a redirect route for %q but a request gets port %d; served ports (after the port rule): %v", t.name, name, p, keys(right)))
			}
		}
		// the existence claim is made only where the HTTP port carries no user route for d at all
		if !good && len(cands) == len(httpSrvs) {
			cls := "redirect:no-redirect-to-served-port"
			switch {
			case shadowed:
				cls = "redirect:right-redirect-shadowed-by-route-order"
			case len(o.certs) == 0 && c.existingReceiverHasOnlyCatchAll(o, cands):
				cls = "redirect:names-dropped-when-no-name-has-managed-certificates"
			}
			fail(cls, fmt.Sprintf("%q: no HTTP-port server without a user route for it redirects to a served port %v (effective: %s)", name, keys(right), c.effTable(o)))
		}
	}
	// ---- (c'') the same clause on what REAL plain-HTTP requests get (Server.ServeHTTP on the
	// provisioned servers: compiled routes, real host/protocol matchers, real static_response)
	for _, t := range httpSrvs {
		for i, tok := range t.served {
			if strings.HasPrefix(tok, "?") || tok == "panic" {
				fail("redirect:unexpected-response", fmt.Sprintf("server %s answers probe %d with %s (neither a user route, nor the 308/Location/Connection: close redirect, nor the empty handler)", t.name, i, tok))
			}
		}
	}
	for d := 1; d < len(c.names) && !c.hasReserved(); d++ {
		name := c.names[d].s
		if !probeable(name) {
			continue
		}
		right := map[int]bool{}
		any := false
		for si := range c.servers {
			s := &c.servers[si]
			if !c.active(s) || s.disableRedir {
				continue
			}
			// the server serves d if it names it, or names a pattern that matches it
			serves := false
			for _, q := range s.domainSet() {
				if q == d || hostMatches(name, c.names[q].s) {
					serves = true
				}
			}
			if !serves {
				continue
			}
			if contains(s.domainSet(), d) {
				any = true
			}
			for _, a := range s.listen {
				right[c.portRule(a.sp)] = true
			}
		}
		if !any || len(httpSrvs) == 0 {
			continue
		}
		anyUser, anyRight, shadowed := false, false, false
		for _, t := range httpSrvs {
			if d >= len(t.served) {
				continue
			}
			tok := t.served[d]
			if strings.HasPrefix(tok, "u") {
				anyUser = true
				continue
			}
			p, isRedir := -1, false
			if strings.HasPrefix(tok, "r") {
				if n, ok := nat(tok[1:]); ok {
					p, isRedir = n, true
				}
			}
			// the redirect route that has to answer: the first one, in route order, whose host list
			// contains a pattern that (on its own) matches d, or that has no host matcher. The
			// answer must be its port — whatever the size of the host list (the redirect matcher is
			// a MatchHost that is never provisioned; above the large-list threshold its lookup is a
			// binary search that relies on the order phase 1 happens to build the list in)
			firstPort := -1
			for _, r := range t.routes {
				if !r.redir {
					continue
				}
				m := !r.hasHost
				for _, h := range r.hosts {
					if hostMatches(name, h) {
						m = true
						break
					}
				}
				if m {
					firstPort = r.port
					break
				}
			}
			if firstPort >= 0 && (!isRedir || p != firstPort) {
				fail("redirect:name-not-answered-by-the-first-redirect-route-that-lists-it", fmt.Sprintf("server %s: the first redirect route whose host list has a pattern matching %q names port %d, but a plain HTTP request for it gets %s (host lists of %d, ... entries)", t.name, name, firstPort, tok, maxHosts(t)))
			}
			if isRedir && right[p] {
				anyRight = true
				continue
			}
			// the redirect routes of t that really match a request for d
			matchRight, matchHostSpecific := false, false
			for _, r := range t.routes {
				if !r.redir {
					continue
				}
				m := !r.hasHost
				for _, h := range r.hosts {
					if hostMatches(name, h) {
						m = true
						matchHostSpecific = true
					}
				}
				if m && right[r.port] {
					matchRight = true
				}
			}
			if matchRight {
				shadowed = true
			}
			if isRedir && matchHostSpecific {
				cls := "redirect:request-redirected-to-unserved-port"
				if matchRight {
					cls = "redirect:right-redirect-shadowed-by-route-order"
				}
				fail(cls, fmt.Sprintf("a plain HTTP request for %q to server %s is redirected to port %d; served ports (after the port rule): %v", name, t.name, p, keys(right)))
			}
		}
		if !anyRight && !anyUser {
			cls := "redirect:request-not-redirected-to-served-port"
			switch {
			case shadowed:
				cls = "redirect:right-redirect-shadowed-by-route-order"
			case len(o.certs) == 0 && c.existingReceiverHasOnlyCatchAll(o, httpSrvs):
				cls = "redirect:names-dropped-when-no-name-has-managed-certificates"
			}
			var toks []string
			for _, t := range httpSrvs {
				if d < len(t.served) {
					toks = append(toks, t.name+":"+t.served[d])
				}
			}
			fail(cls, fmt.Sprintf("a plain HTTP request for %q is answered %v by the HTTP-port servers: by no user route and by no redirect to a served port %v", name, toks, keys(right)))
		}
	}
	// ---- (c') every interface a name is served on at the HTTPS port gets its redirect listener:
	// when no configured server listens on the HTTP port of that network, the generated
	// redirect server must listen on exactly that interface's HTTP port and redirect the name
	// (the `bind` case, upstream issue 3443)
	for si := range c.servers {
		s := &c.servers[si]
		if c.hasReserved() || !c.active(s) || s.disableRedir {
			continue
		}
		for _, d := range s.domainSet() {
			if d == 0 {
				continue
			}
			for _, a := range s.listen {
				if a.sp != c.httpsPort() {
					continue
				}
				covered := false
				for sj := range c.servers {
					for _, b := range c.servers[sj].listen {
						if b.net == a.net && b.coversPort(hp) {
							covered = true
						}
					}
				}
				if covered {
					continue
				}
				want := addr{a.net, a.host, hp, hp}
				ns := o.servers[reservedName]
				okListen, okRoute := false, false
				if ns != nil {
					for _, l := range ns.listen {
						if l == want {
							okListen = true
						}
					}
					for _, r := range ns.routes {
						if r.redir && (!r.hasHost || has(r.hosts, c.names[d].s)) {
							okRoute = true
						}
					}
				}
				if !okListen || !okRoute {
					fail("redirect:https-interface-without-http-redirect-listener", fmt.Sprintf("%q is served by server %s on %s (HTTPS port) and nothing is configured on the HTTP port there, but the redirect server does not listen on %s with a redirect for it (listen ok %v, route ok %v)", c.names[d].s, s.name, a.listen(), want.listen(), okListen, okRoute))
				}
			}
		}
	}
	// ---- (d) position and port rule of every redirect route
	for _, os := range o.servers {
		lastHost := 0
		users := 0
		var cfgSrv *server
		for si := range c.servers {
			if c.servers[si].name == os.name {
				cfgSrv = &c.servers[si]
			}
		}
		for _, r := range os.routes {
			if r.user >= 0 {
				users++
				if cfgSrv != nil && r.user < len(cfgSrv.routes) && len(cfgSrv.routes[r.user].hms) > 0 {
					lastHost = users
				}
			}
		}
		users = 0
		for _, r := range os.routes {
			if r.user >= 0 {
				users++
				continue
			}
			if !r.redir {
				continue
			}
			if r.hasHost && users != lastHost {
				fail("redirect:position", fmt.Sprintf("server %s: a redirect route with a host matcher sits after %d user routes, the last user route with a host matcher is number %d", os.name, users, lastHost))
			}
			if r.port != 0 && (r.port == 80 || r.port == 443 || r.port == hp || r.port == c.httpsPort()) {
				fail("redirect:port-rule", fmt.Sprintf("server %s: redirect names port %d explicitly (http %d https %d)", os.name, r.port, hp, c.httpsPort()))
			}
			if r.odd {
				fail("redirect:shape", fmt.Sprintf("server %s: a redirect route is not the 308 / Location / protocol http shape", os.name))
			}
		}
	}
}

// hasReserved: a user server carries the name of the generated redirect server (it is
// overwritten when that server is created; no redirect claim is made for such configs).
func (c *kase) hasReserved() bool {
	for i := range c.servers {
		if c.servers[i].name == reservedName {
			return true
		}
	}
	return false
}

// existingReceiverHasOnlyCatchAll: one of the candidate servers comes from the config (it
// is not the generated redirect server) and holds matcher-less redirect routes only —
// the shape `if len(uniqueDomainsForCerts) != 0 { insert }; appendCatchAll` leaves behind.
func (c *kase) existingReceiverHasOnlyCatchAll(o *obs, cands []*oserver) bool {
	for _, t := range cands {
		if t.name == reservedName {
			continue
		}
		n, withHost := 0, 0
		for _, r := range t.routes {
			if r.redir {
				n++
				if r.hasHost {
					withHost++
				}
			}
		}
		if n > 0 && withHost == 0 {
			return true
		}
	}
	return false
}

func maxHosts(t *oserver) int {
	n := 0
	for _, r := range t.routes {
		if r.redir && len(r.hosts) > n {
			n = len(r.hosts)
		}
	}
	return n
}

func keys(m map[int]bool) []int {
	var l []int
	for k := range m {
		l = append(l, k)
	}
	sort.Ints(l)
	return l
}

// ---------------------------------------------------------------- tags

func (c *kase) tags(o *obs) []string {
	var t []string
	if o.errClass != "" {
		return []string{o.errClass}
	}
	anyActive := false
	for si := range c.servers {
		s := &c.servers[si]
		if c.active(s) {
			anyActive = true
		}
		if c.redirOn(s) {
			t = append(t, "redirect-enabled-server")
		}
		if !s.disabled && !usesOther(s.listen, c.httpPort()) {
			t = append(t, "http-only-server")
		}
		if c.active(s) && len(s.domainSet()) == 0 {
			t = append(t, "no-domain-server-tls"+strconv.Itoa(s.tls))
		}
	}
	if !anyActive {
		t = append(t, "trivial")
	}
	if c.ambRecv() {
		t = append(t, "amb:recv")
	}
	if c.anyAmbName() {
		t = append(t, "amb:name")
	}
	if _, ok := o.servers[reservedName]; ok {
		t = append(t, "new-redirect-server")
	}
	for si := range c.servers {
		if os := o.servers[c.servers[si].name]; os != nil {
			for _, r := range os.routes {
				if r.redir {
					t = append(t, "redirects-into-existing-server")
					break
				}
			}
		}
	}
	if len(o.certs) == 0 {
		t = append(t, "no-cert-domains")
	}
	if o.phase2 && len(o.managing) < len(o.certs) {
		t = append(t, "phase2:name-covered-by-managed-wildcard")
	}
	for _, p := range o.policies {
		if p.issuers == "i" && len(p.subjects) > 0 {
			t = append(t, "internal-policy")
		}
		if p.managers > 0 {
			t = append(t, "tailscale-policy")
		}
	}
	if c.loaded {
		t = append(t, "loaded-cert")
	}
	if len(c.policies) > 0 {
		t = append(t, "explicit-policies")
	}
	if c.hp != 0 || c.sp != 0 {
		t = append(t, "custom-ports")
	}
	// dedupe
	seen := map[string]bool{}
	var out []string
	for _, x := range t {
		if !seen[x] {
			seen[x] = true
			out = append(out, x)
		}
	}
	return out
}
