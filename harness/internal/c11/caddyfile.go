package c11

// The Caddyfile side of automatic HTTPS: how the global option `auto_https`, the scheme and
// port of a site address and the http_port / https_port options reach Server.Listen,
// Server.AutoHTTPS (flags, skip) and Server.TLSConnPolicies — httpcaddyfile's
// listenersForServerBlockAddress and serversFromPairings, driven through the real adapter.
//
//	cf <hp> <sp> <opts> <names> <sites>
//	opts   4 bits: off, disable_redirects, disable_certs, ignore_loaded_certs
//	names  `;`-joined hex host names, name 0 is the empty host
//	sites  `;`-joined  <scheme>.<nameidx>.<port>   scheme 0 none / 1 http / 2 https, port 0 = none
//
// answer: err | ok p<port>/<flags>/<skip idx,…|->/<host idx,…|-><* if a route has no host matcher>;…  (ascending ports)

import (
	"encoding/json"
	"os"
	"sort"
	"strconv"
	"strings"

	"github.com/caddyserver/caddy/v2"
	"github.com/caddyserver/caddy/v2/caddyconfig/caddyfile"
	"github.com/caddyserver/caddy/v2/caddyconfig/httpcaddyfile"
	"github.com/caddyserver/caddy/v2/modules/caddyhttp"

	"verif/harness/internal/core"
)

type cfSite struct{ scheme, name, port int }

type cfCase struct {
	hp, sp int
	opts   []bool
	names  []string
	sites  []cfSite
}

var cfOptNames = []string{"off", "disable_redirects", "disable_certs", "ignore_loaded_certs"}

func parseCF(f []string) (*cfCase, bool) {
	if len(f) != 6 || f[0] != "cf" {
		return nil, false
	}
	c := &cfCase{}
	var ok bool
	if c.hp, ok = nat(f[1]); !ok || c.hp >= 65536 {
		return nil, false
	}
	if c.sp, ok = nat(f[2]); !ok || c.sp >= 65536 {
		return nil, false
	}
	if c.opts, ok = bits(f[3]); !ok || len(c.opts) != 4 {
		return nil, false
	}
	for _, h := range strings.Split(f[4], ";") {
		s, err := core.UnHex(h)
		if err != nil || !cfHostOK(s) {
			return nil, false
		}
		c.names = append(c.names, s)
	}
	if c.names[0] != "" || len(c.names) > 12 {
		return nil, false
	}
	seen := map[string]bool{}
	for _, n := range c.names {
		if seen[n] {
			return nil, false
		}
		seen[n] = true
	}
	if f[5] == "-" {
		return nil, false
	}
	for _, ss := range strings.Split(f[5], ";") {
		p := strings.Split(ss, ".")
		if len(p) != 3 {
			return nil, false
		}
		a, ok1 := nat(p[0])
		b, ok2 := nat(p[1])
		d, ok3 := nat(p[2])
		if !ok1 || !ok2 || !ok3 || a > 2 || b >= len(c.names) || d >= 65536 {
			return nil, false
		}
		if b == 0 && d == 0 {
			return nil, false // a site address needs a host or a port
		}
		c.sites = append(c.sites, cfSite{a, b, d})
	}
	if len(c.sites) > 8 {
		return nil, false
	}
	return c, true
}

// cfHostOK: lower-case host names the Caddyfile lexer and ParseAddress take as they are.
func cfHostOK(s string) bool {
	for i := 0; i < len(s); i++ {
		ch := s[i]
		if !(ch >= 'a' && ch <= 'z' || ch >= '0' && ch <= '9' || ch == '.' || ch == '-' || ch == '*') {
			return false
		}
	}
	return true
}

func (c *cfCase) text() string {
	var sb strings.Builder
	var g []string
	if c.hp != 0 {
		g = append(g, "\thttp_port "+strconv.Itoa(c.hp))
	}
	if c.sp != 0 {
		g = append(g, "\thttps_port "+strconv.Itoa(c.sp))
	}
	var o []string
	for i, b := range c.opts {
		if b {
			o = append(o, cfOptNames[i])
		}
	}
	if len(o) > 0 {
		g = append(g, "\tauto_https "+strings.Join(o, " "))
	}
	if len(g) > 0 {
		sb.WriteString("{\n" + strings.Join(g, "\n") + "\n}\n")
	}
	for i, s := range c.sites {
		key := []string{"", "http://", "https://"}[s.scheme] + c.names[s.name]
		if s.port != 0 {
			key += ":" + strconv.Itoa(s.port)
		}
		sb.WriteString(key + " {\n\trespond \"k" + strconv.Itoa(i) + "\"\n}\n")
	}
	return sb.String()
}

func runCF(line string, f []string) core.Outcome {
	c, ok := parseCF(f)
	if !ok {
		return core.Outcome{Impl: "bad-op", Tags: []string{"trivial", "bad-op"}}
	}
	adapter := caddyfile.Adapter{ServerType: httpcaddyfile.ServerType{}}
	out, _, err := adapter.Adapt([]byte(c.text()), nil)
	if err != nil {
		if os.Getenv("C11_CFDBG") != "" {
			println("CFERR:", err.Error())
		}
		return core.Outcome{Impl: "err", Tags: []string{"cf:err"}}
	}
	var cfg struct {
		Apps struct {
			HTTP *caddyhttp.App `json:"http"`
		} `json:"apps"`
	}
	if err := json.Unmarshal(out, &cfg); err != nil || cfg.Apps.HTTP == nil {
		return core.Outcome{Impl: "err:json", Tags: []string{"cf:err"}}
	}
	nameIdx := func(s string) int {
		for i, n := range c.names {
			if n == s {
				return i
			}
		}
		return 999
	}
	showSet := func(l []int) string {
		sort.Ints(l)
		var out []string
		for i, x := range l {
			if i == 0 || l[i-1] != x {
				out = append(out, strconv.Itoa(x))
			}
		}
		return joinOr(",", out)
	}
	type srvOut struct {
		port int
		s    string
	}
	var srvs []srvOut
	tags := []string{"cf"}
	for _, srv := range cfg.Apps.HTTP.Servers {
		port := -1
		if len(srv.Listen) == 1 {
			if na, err := caddy.ParseNetworkAddress(srv.Listen[0]); err == nil && na.Host == "" && na.Network == "tcp" && na.StartPort == na.EndPort {
				port = int(na.StartPort)
			}
		}
		fl, skip := "0000", []int{}
		if ah := srv.AutoHTTPS; ah != nil {
			fl = b01(ah.Disabled) + b01(ah.DisableRedir) + b01(ah.DisableCerts) + b01(ah.IgnoreLoadedCerts)
			for _, h := range ah.Skip {
				skip = append(skip, nameIdx(h))
			}
			if len(ah.SkipCerts) > 0 {
				fl += "+skipcerts"
			}
			if len(ah.Skip) > 0 {
				tags = append(tags, "cf:skip")
			}
		}
		var hosts []int
		star := ""
		for _, r := range srv.Routes {
			has := false
			for _, ms := range r.MatcherSetsRaw {
				if raw, ok := ms["host"]; ok {
					has = true
					var hl []string
					json.Unmarshal(raw, &hl)
					for _, h := range hl {
						hosts = append(hosts, nameIdx(h))
					}
				}
			}
			if !has {
				star = "*"
			}
		}
		if len(srv.TLSConnPolicies) > 0 {
			tags = append(tags, "cf:tls-policy")
		}
		srvs = append(srvs, srvOut{port, "p" + strconv.Itoa(port) + "/" + fl + "/" + showSet(skip) + "/" + showSet(hosts) + star})
	}
	// ---- implementation-only oracle: the options and the scheme of every site reach its server
	var fails []core.Failure
	fail := func(class, what string) {
		for _, f := range fails {
			if f.Class == class {
				return
			}
		}
		fails = append(fails, core.Failure{Class: class, What: what})
	}
	effp := func(x, d int) int {
		if x == 0 {
			return d
		}
		return x
	}
	hpE, spE := effp(c.hp, 80), effp(c.sp, 443)
	byPort := map[int]*caddyhttp.Server{}
	for _, srv := range cfg.Apps.HTTP.Servers {
		for _, l := range srv.Listen {
			if na, err := caddy.ParseNetworkAddress(l); err == nil {
				byPort[int(na.StartPort)] = srv
			}
		}
		ah := srv.AutoHTTPS
		got := []bool{ah != nil && ah.Disabled, ah != nil && ah.DisableRedir, ah != nil && ah.DisableCerts, ah != nil && ah.IgnoreLoadedCerts}
		for i := range got {
			if got[i] != c.opts[i] {
				fail("caddyfile:auto_https-option-not-applied:"+cfOptNames[i], "server "+strings.Join(srv.Listen, ",")+": auto_https "+cfOptNames[i]+" configured "+b01(c.opts[i])+", server has "+b01(got[i]))
			}
		}
	}
	for _, st := range c.sites {
		p := st.port
		if p == 0 {
			p = spE
			if st.scheme == 1 {
				p = hpE
			}
		}
		srv := byPort[p]
		if srv == nil {
			fail("caddyfile:site-without-server", "no server listens on port "+strconv.Itoa(p)+" for a site of the Caddyfile")
			continue
		}
		if st.name == 0 {
			continue
		}
		host := c.names[st.name]
		named := false
		for _, r := range srv.Routes {
			for _, ms := range r.MatcherSetsRaw {
				if raw, ok := ms["host"]; ok {
					var hl []string
					json.Unmarshal(raw, &hl)
					for _, h := range hl {
						named = named || h == host
					}
				}
			}
		}
		if !named {
			fail("caddyfile:site-host-not-matched", "site "+host+" has no route with a host matcher for it on port "+strconv.Itoa(p))
		}
		if st.scheme == 1 && p != hpE {
			if srv.AutoHTTPS == nil || !has(srv.AutoHTTPS.Skip, host) {
				fail("caddyfile:http-scheme-host-not-skipped", "http://"+host+" on port "+strconv.Itoa(p)+" (not the HTTP port) is not in automatic_https.skip: it would get a certificate and a redirect")
			}
		}
	}
	sort.Slice(srvs, func(i, j int) bool { return srvs[i].port < srvs[j].port })
	var parts []string
	for _, s := range srvs {
		parts = append(parts, s.s)
	}
	return core.Outcome{Impl: "ok " + joinOr(";", parts), Tags: tags, Failures: fails}
}

var cfNamePool = []string{"a.test", "b.test", "c.example.com", "*.w.test", "x.w.test", "localhost", "10.0.0.1", "node.ts.net", "h.internal"}

func genCF(rng *core.Rand) string {
	hp, sp := 0, 0
	switch rng.Intn(6) {
	case 0:
		hp, sp = 8080, 8443
	case 1:
		hp = 8080
	case 2:
		sp = 8443
	}
	opts := b01(rng.Chance(1, 8)) + b01(rng.Chance(1, 5)) + b01(rng.Chance(1, 5)) + b01(rng.Chance(1, 5))
	names := []string{""}
	for n := 1 + rng.Intn(4); len(names) < 1+n; {
		s := rng.Pick(cfNamePool)
		dup := false
		for _, x := range names {
			dup = dup || x == s
		}
		if !dup {
			names = append(names, s)
		}
	}
	eff := func(x, d int) int {
		if x == 0 {
			return d
		}
		return x
	}
	ports := []int{0, 0, 0, 0, 80, 443, 8080, 8443, 9443, eff(hp, 80), eff(sp, 443)}
	var sites []string
	for n := 1 + rng.Intn(5); n > 0; n-- {
		scheme := []int{0, 0, 0, 1, 1, 2}[rng.Intn(6)]
		name := 1 + rng.Intn(len(names)-1)
		if rng.Chance(1, 8) {
			name = 0
		}
		port := ports[rng.Intn(len(ports))]
		if name == 0 && port == 0 {
			port = 8443
		}
		sites = append(sites, strconv.Itoa(scheme)+"."+strconv.Itoa(name)+"."+strconv.Itoa(port))
	}
	var hn []string
	for _, n := range names {
		hn = append(hn, core.Hex(n))
	}
	return "cf " + strconv.Itoa(hp) + " " + strconv.Itoa(sp) + " " + opts + " " + strings.Join(hn, ";") + " " + strings.Join(sites, ";")
}
