package c11

// The Caddyfile side of automatic HTTPS: how the global option `auto_https`, the scheme and
// port of a site address and the http_port / https_port options reach Server.Listen,
// Server.AutoHTTPS (flags, skip) and Server.TLSConnPolicies — httpcaddyfile's
// listenersForServerBlockAddress and serversFromPairings, driven through the real adapter.
//
//	cf <hp> <sp> <opts> <names> <sites>
//	opts   4 bits: off, disable_redirects, disable_certs, ignore_loaded_certs
//	names  `;`-joined hex host names, name 0 is the empty host
//	sites  `;`-joined  <scheme>.<nameidx>.<port>   scheme 0 none / 1 http / 2 https, port 0 = none
//
// answer: err | ok p<port>/<flags>/<skip idx,…|->/<host idx,…|-><* if a route has no host matcher>;…  (ascending ports)

import (
	"encoding/json"
	"fmt"
	"os"
	"sort"
	"strconv"
	"strings"

	"github.com/caddyserver/caddy/v2"
	"github.com/caddyserver/caddy/v2/caddyconfig/caddyfile"
	"github.com/caddyserver/caddy/v2/caddyconfig/httpcaddyfile"
	"github.com/caddyserver/caddy/v2/modules/caddyhttp"
	"github.com/caddyserver/caddy/v2/modules/caddytls"
	"github.com/caddyserver/certmagic"

	"verif/harness/internal/core"
)

type cfSite struct{ scheme, name, port, tls int } // tls 1 = `tls internal` in the block

type cfCase struct {
	tlsT, tlsA string // what the adapter emitted for the TLS app (carried by the line, re-checked by Run)
	hp, sp     int
	opts   []bool
	names  []string
	sites  []cfSite
}

var cfOptNames = []string{"off", "disable_redirects", "disable_certs", "ignore_loaded_certs"}

func parseCF(f []string) (*cfCase, bool) {
	if len(f) != 8 || f[0] != "cf" {
		return nil, false
	}
	c := &cfCase{tlsT: f[6], tlsA: f[7]}
	if !cfTLSFieldOK(c.tlsT) || c.tlsA != "-" {
		return nil, false
	}
	var ok bool
	if c.hp, ok = nat(f[1]); !ok || c.hp >= 65536 {
		return nil, false
	}
	if c.sp, ok = nat(f[2]); !ok || c.sp >= 65536 {
		return nil, false
	}
	if c.opts, ok = bits(f[3]); !ok || len(c.opts) != 4 {
		return nil, false
	}
	for _, h := range strings.Split(f[4], ";") {
		s, err := core.UnHex(h)
		if err != nil || !cfHostOK(s) {
			return nil, false
		}
		c.names = append(c.names, s)
	}
	if c.names[0] != "" || len(c.names) > 12 {
		return nil, false
	}
	seen := map[string]bool{}
	for _, n := range c.names {
		if seen[n] {
			return nil, false
		}
		seen[n] = true
	}
	if f[5] == "-" {
		return nil, false
	}
	for _, ss := range strings.Split(f[5], ";") {
		p := strings.Split(ss, ".")
		if len(p) != 4 {
			return nil, false
		}
		tl, ok4 := nat(p[3])
		if !ok4 || tl > 1 {
			return nil, false
		}
		a, ok1 := nat(p[0])
		b, ok2 := nat(p[1])
		d, ok3 := nat(p[2])
		if !ok1 || !ok2 || !ok3 || a > 2 || b >= len(c.names) || d >= 65536 {
			return nil, false
		}
		if b == 0 && d == 0 {
			return nil, false // a site address needs a host or a port
		}
		c.sites = append(c.sites, cfSite{a, b, d, tl})
	}
	if len(c.sites) > 8 {
		return nil, false
	}
	return c, true
}

// cfHostOK: lower-case host names the Caddyfile lexer and ParseAddress take as they are.
func cfHostOK(s string) bool {
	for i := 0; i < len(s); i++ {
		ch := s[i]
		if !(ch >= 'a' && ch <= 'z' || ch >= '0' && ch <= '9' || ch == '.' || ch == '-' || ch == '*') {
			return false
		}
	}
	return true
}

func (c *cfCase) text() string {
	var sb strings.Builder
	var g []string
	if c.hp != 0 {
		g = append(g, "\thttp_port "+strconv.Itoa(c.hp))
	}
	if c.sp != 0 {
		g = append(g, "\thttps_port "+strconv.Itoa(c.sp))
	}
	var o []string
	for i, b := range c.opts {
		if b {
			o = append(o, cfOptNames[i])
		}
	}
	if len(o) > 0 {
		g = append(g, "\tauto_https "+strings.Join(o, " "))
	}
	if len(g) > 0 {
		sb.WriteString("{\n" + strings.Join(g, "\n") + "\n}\n")
	}
	for i, s := range c.sites {
		key := []string{"", "http://", "https://"}[s.scheme] + c.names[s.name]
		if s.port != 0 {
			key += ":" + strconv.Itoa(s.port)
		}
		tl := ""
		if s.tls == 1 {
			tl = "\ttls internal\n"
		}
		sb.WriteString(key + " {\n" + tl + "\trespond \"k" + strconv.Itoa(i) + "\"\n}\n")
	}
	return sb.String()
}

func runCF(line string, f []string) core.Outcome {
	c, ok := parseCF(f)
	if !ok {
		return core.Outcome{Impl: "bad-op", Tags: []string{"trivial", "bad-op"}}
	}
	adapter := caddyfile.Adapter{ServerType: httpcaddyfile.ServerType{}}
	out, _, err := adapter.Adapt([]byte(c.text()), nil)
	if err != nil {
		if os.Getenv("C11_CFDBG") != "" {
			println("CFERR:", err.Error())
		}
		return core.Outcome{Impl: "err", Tags: []string{"cf:err"}}
	}
	var cfg struct {
		Apps struct {
			HTTP *caddyhttp.App `json:"http"`
		} `json:"apps"`
	}
	if err := json.Unmarshal(out, &cfg); err != nil || cfg.Apps.HTTP == nil {
		return core.Outcome{Impl: "err:json", Tags: []string{"cf:err"}}
	}
	nameIdx := func(s string) int {
		for i, n := range c.names {
			if n == s {
				return i
			}
		}
		return 999
	}
	showSet := func(l []int) string {
		sort.Ints(l)
		var out []string
		for i, x := range l {
			if i == 0 || l[i-1] != x {
				out = append(out, strconv.Itoa(x))
			}
		}
		return joinOr(",", out)
	}
	type srvOut struct {
		port int
		s    string
	}
	var srvs []srvOut
	tags := []string{"cf"}
	for _, srv := range cfg.Apps.HTTP.Servers {
		port := -1
		if len(srv.Listen) == 1 {
			if na, err := caddy.ParseNetworkAddress(srv.Listen[0]); err == nil && na.Host == "" && na.Network == "tcp" && na.StartPort == na.EndPort {
				port = int(na.StartPort)
			}
		}
		fl, skip := "0000", []int{}
		if ah := srv.AutoHTTPS; ah != nil {
			fl = b01(ah.Disabled) + b01(ah.DisableRedir) + b01(ah.DisableCerts) + b01(ah.IgnoreLoadedCerts)
			for _, h := range ah.Skip {
				skip = append(skip, nameIdx(h))
			}
			if len(ah.SkipCerts) > 0 {
				fl += "+skipcerts"
			}
			if len(ah.Skip) > 0 {
				tags = append(tags, "cf:skip")
			}
		}
		var hosts []int
		star := ""
		for _, r := range srv.Routes {
			has := false
			for _, ms := range r.MatcherSetsRaw {
				if raw, ok := ms["host"]; ok {
					has = true
					var hl []string
					json.Unmarshal(raw, &hl)
					for _, h := range hl {
						hosts = append(hosts, nameIdx(h))
					}
				}
			}
			if !has {
				star = "*"
			}
		}
		if len(srv.TLSConnPolicies) > 0 {
			tags = append(tags, "cf:tls-policy")
		}
		srvs = append(srvs, srvOut{port, "p" + strconv.Itoa(port) + "/" + fl + "/" + showSet(skip) + "/" + showSet(hosts) + star})
	}
	// ---- implementation-only oracle: the options and the scheme of every site reach its server
	var fails []core.Failure
	fail := func(class, what string) {
		for _, f := range fails {
			if f.Class == class {
				return
			}
		}
		fails = append(fails, core.Failure{Class: class, What: what})
	}
	effp := func(x, d int) int {
		if x == 0 {
			return d
		}
		return x
	}
	hpE, spE := effp(c.hp, 80), effp(c.sp, 443)
	byPort := map[int]*caddyhttp.Server{}
	for _, srv := range cfg.Apps.HTTP.Servers {
		for _, l := range srv.Listen {
			if na, err := caddy.ParseNetworkAddress(l); err == nil {
				byPort[int(na.StartPort)] = srv
			}
		}
		ah := srv.AutoHTTPS
		got := []bool{ah != nil && ah.Disabled, ah != nil && ah.DisableRedir, ah != nil && ah.DisableCerts, ah != nil && ah.IgnoreLoadedCerts}
		for i := range got {
			if got[i] != c.opts[i] {
				fail("caddyfile:auto_https-option-not-applied:"+cfOptNames[i], "server "+strings.Join(srv.Listen, ",")+": auto_https "+cfOptNames[i]+" configured "+b01(c.opts[i])+", server has "+b01(got[i]))
			}
		}
	}
	for _, st := range c.sites {
		p := st.port
		if p == 0 {
			p = spE
			if st.scheme == 1 {
				p = hpE
			}
		}
		srv := byPort[p]
		if srv == nil {
			fail("caddyfile:site-without-server", "no server listens on port "+strconv.Itoa(p)+" for a site of the Caddyfile")
			continue
		}
		if st.name == 0 {
			continue
		}
		host := c.names[st.name]
		named := false
		for _, r := range srv.Routes {
			for _, ms := range r.MatcherSetsRaw {
				if raw, ok := ms["host"]; ok {
					var hl []string
					json.Unmarshal(raw, &hl)
					for _, h := range hl {
						named = named || h == host
					}
				}
			}
		}
		if !named {
			fail("caddyfile:site-host-not-matched", "site "+host+" has no route with a host matcher for it on port "+strconv.Itoa(p))
		}
		if st.scheme == 1 && p != hpE {
			if srv.AutoHTTPS == nil || !has(srv.AutoHTTPS.Skip, host) {
				fail("caddyfile:http-scheme-host-not-skipped", "http://"+host+" on port "+strconv.Itoa(p)+" (not the HTTP port) is not in automatic_https.skip: it would get a certificate and a redirect")
			}
		}
	}
	sort.Slice(srvs, func(i, j int) bool { return srvs[i].port < srvs[j].port })
	var parts []string
	for _, s := range srvs {
		parts = append(parts, s.s)
	}
	tlsSum, tlsTags := c.tlsAppSummary(out)
	tags = append(tags, tlsTags...)
	if tlsSum != "T="+c.tlsT+" A="+c.tlsA {
		// the line does not carry what the adapter emits for this Caddyfile
		return core.Outcome{Impl: "bad-op:stale-tls-app " + tlsSum, Tags: []string{"cf:stale"}}
	}
	prov, provFails := c.provisionAdapted(out)
	fails = append(fails, provFails...)
	return core.Outcome{Impl: "ok " + joinOr(";", parts) + " " + tlsSum + " | " + prov, Tags: tags, Failures: fails}
}

var cfNamePool = []string{"a.test", "b.test", "c.example.com", "*.w.test", "x.w.test", "localhost", "10.0.0.1", "node.ts.net", "h.internal"}

func genCF(rng *core.Rand) string {
	hp, sp := 0, 0
	switch rng.Intn(6) {
	case 0:
		hp, sp = 8080, 8443
	case 1:
		hp = 8080
	case 2:
		sp = 8443
	}
	opts := b01(rng.Chance(1, 8)) + b01(rng.Chance(1, 5)) + b01(rng.Chance(1, 5)) + b01(rng.Chance(1, 5))
	names := []string{""}
	for n := 1 + rng.Intn(4); len(names) < 1+n; {
		s := rng.Pick(cfNamePool)
		dup := false
		for _, x := range names {
			dup = dup || x == s
		}
		if !dup {
			names = append(names, s)
		}
	}
	eff := func(x, d int) int {
		if x == 0 {
			return d
		}
		return x
	}
	ports := []int{0, 0, 0, 0, 80, 443, 8080, 8443, 9443, eff(hp, 80), eff(sp, 443)}
	var sites []string
	for n := 1 + rng.Intn(5); n > 0; n-- {
		scheme := []int{0, 0, 0, 1, 1, 2}[rng.Intn(6)]
		name := 1 + rng.Intn(len(names)-1)
		if rng.Chance(1, 8) {
			name = 0
		}
		port := ports[rng.Intn(len(ports))]
		if name == 0 && port == 0 {
			port = 8443
		}
		tl := 0
		if rng.Chance(1, 4) {
			tl = 1
		}
		sites = append(sites, strconv.Itoa(scheme)+"."+strconv.Itoa(name)+"."+strconv.Itoa(port)+"."+strconv.Itoa(tl))
	}
	var hn []string
	for _, n := range names {
		hn = append(hn, core.Hex(n))
	}
	return "cf " + strconv.Itoa(hp) + " " + strconv.Itoa(sp) + " " + opts + " " + strings.Join(hn, ";") + " " + strings.Join(sites, ";")
}

// tlsAppSummary: the TLS app the adapter emits (buildTLSApp): automation policies (subjects,
// issuers) and the names of the `automate` certificate loader.
//
//	T=<subject idx,…|->/<issuer kinds|->;…  A=<idx,…|->
func (c *cfCase) tlsAppSummary(out []byte) (string, []string) {
	var cfg struct {
		Apps struct {
			TLS *struct {
				Automation *struct {
					Policies []struct {
						Subjects []string          `json:"subjects"`
						Issuers  []json.RawMessage `json:"issuers"`
						OnDemand bool              `json:"on_demand"`
					} `json:"policies"`
				} `json:"automation"`
				Certificates map[string]json.RawMessage `json:"certificates"`
			} `json:"tls"`
		} `json:"apps"`
	}
	json.Unmarshal(out, &cfg)
	idx := func(s string) int {
		for i, n := range c.names {
			if n == s {
				return i
			}
		}
		return 999
	}
	set := func(l []string) string {
		var is []int
		for _, x := range l {
			is = append(is, idx(x))
		}
		sort.Ints(is)
		var o []string
		for i, x := range is {
			if i == 0 || is[i-1] != x {
				o = append(o, strconv.Itoa(x))
			}
		}
		return joinOr(",", o)
	}
	var pols []string
	var tags []string
	autom := "-"
	if t := cfg.Apps.TLS; t != nil {
		if t.Automation != nil {
			for _, p := range t.Automation.Policies {
				iss := ""
				for _, raw := range p.Issuers {
					var m struct {
						Module string `json:"module"`
					}
					json.Unmarshal(raw, &m)
					switch m.Module {
					case "internal":
						iss += "i"
					case "acme":
						iss += "a"
					default:
						iss += "x"
					}
				}
				if iss == "" {
					iss = "-"
				}
				od := ""
				if p.OnDemand {
					od = "+ondemand"
				}
				pols = append(pols, set(p.Subjects)+"/"+iss+od)
			}
			tags = append(tags, "cf:tls-automation-policy")
		}
		if raw, ok := t.Certificates["automate"]; ok {
			var l []string
			json.Unmarshal(raw, &l)
			autom = set(l)
			tags = append(tags, "cf:automate-loader")
		}
		for k := range t.Certificates {
			if k != "automate" {
				autom += "+" + k
			}
		}
	}
	return "T=" + joinOr(";", pols) + " A=" + autom, tags
}

// provisionAdapted provisions the JSON the adapter produced (only logging and storage are
// injected) through caddy.ProvisionContext, runs phase 2, and reports what automatic HTTPS
// made of the Caddyfile:  c=<allCertDomains bit per name> p=<policies> m=<TLS.managing per name>
func (c *cfCase) provisionAdapted(out []byte) (res string, fails []core.Failure) {
	defer func() {
		if r := recover(); r != nil {
			res = "panic"
			fails = append(fails, core.Failure{Class: "caddyfile:provision-panic", What: fmt.Sprint(r)})
		}
	}()
	var m map[string]json.RawMessage
	if err := json.Unmarshal(out, &m); err != nil {
		return "perr:json", nil
	}
	m["logging"] = json.RawMessage(`{"logs":{"default":{"writer":{"output":"discard"},"level":"ERROR"}}}`)
	m["storage"] = json.RawMessage(`{"module":"file_system","root":` + jstr(privateStorage()) + `}`)
	raw, _ := json.Marshal(m)
	var cfg caddy.Config
	if err := json.Unmarshal(raw, &cfg); err != nil {
		return "perr:json", nil
	}
	ctx, err := caddy.ProvisionContext(&cfg)
	if err != nil {
		if os.Getenv("C11_CFDBG") != "" {
			println("CFPERR:", err.Error())
		}
		return "perr", nil
	}
	defer caddy.VerifCancelConfig(&cfg)
	appI, e1 := ctx.App("http")
	tlsI, e2 := ctx.App("tls")
	if e1 != nil || e2 != nil {
		return "perr:apps", nil
	}
	app := appI.(*caddyhttp.App)
	tlsApp := tlsI.(*caddytls.TLS)
	certs := app.VerifAllCertDomains()
	idx := func(s string) int {
		for i, n := range c.names {
			if n == s {
				return i
			}
		}
		return -1
	}
	cb := ""
	for _, n := range c.names {
		cb += b01(has(certs, n))
	}
	for _, d := range certs {
		if idx(d) < 0 {
			cb += "!"
			break
		}
	}
	var pols []string
	var opols []opolicy
	if tlsApp.Automation != nil {
		for _, ap := range tlsApp.Automation.Policies {
			var is []int
			for _, sj := range ap.Subjects() {
				is = append(is, idx(sj))
			}
			sort.Ints(is)
			var o []string
			for _, x := range is {
				o = append(o, strconv.Itoa(x))
			}
			iss := ""
			for _, i := range ap.Issuers {
				switch i.(type) {
				case *caddytls.InternalIssuer:
					iss += "i"
				case *caddytls.ACMEIssuer:
					iss += "a"
				default:
					iss += "x"
				}
			}
			opols = append(opols, opolicy{subjects: append([]string(nil), ap.Subjects()...), issuers: iss, managers: len(ap.Managers)})
			if iss == "" {
				iss = "-"
			}
			pols = append(pols, joinOr(",", o)+"/"+iss+"/"+strconv.Itoa(len(ap.Managers)))
		}
	}
	mg := ""
	if err := app.VerifPhase2(); err != nil {
		mg = "err"
	} else {
		managing := tlsApp.VerifManaging()
		for _, n := range c.names {
			key, ok := managing[n]
			switch {
			case !ok:
				mg += "0"
			case key != "":
				mg += "i"
			default:
				mg += "a"
			}
		}
		// implementation-only, the property's clauses across the Caddyfile glue:
		// (1) a managed name no public CA can certify resolves to the internal issuer
		for _, d := range certs {
			if certmagic.SubjectQualifiesForPublicCert(d) || strings.HasSuffix(strings.ToLower(d), ".ts.net") {
				continue
			}
			if p := policyFor(opols, d); p == nil || p.issuers != "i" {
				got := "none"
				if p != nil {
					got = p.issuers
				}
				fails = append(fails, core.Failure{Class: "caddyfile:non-public-name-without-internal-issuer", What: fmt.Sprintf("%q cannot get a public certificate; the policy that applies to it has issuers %q", d, got)})
				break
			}
		}
		// (2) every named site that is not written http://, not on the HTTP port, with certificates
		// not switched off, is handed to certificate management (or a managed wildcard covers it)
		if !c.opts[0] && !c.opts[2] {
			for _, st := range c.sites {
				sp := st.port
				if sp == 0 {
					sp = effPort(c.sp, 443)
					if st.scheme == 1 {
						sp = effPort(c.hp, 80)
					}
				}
				if st.name == 0 || st.scheme == 1 || sp == effPort(c.hp, 80) {
					continue
				}
				n := c.names[st.name]
				twin := false
				for _, u := range c.sites {
					up := u.port
					if up == 0 {
						up = effPort(c.sp, 443)
						if u.scheme == 1 {
							up = effPort(c.hp, 80)
						}
					}
					if u.scheme == 1 && u.name == st.name && up == sp {
						twin = true
					}
				}
				if twin || !certmagic.SubjectQualifiesForCert(n) {
					continue
				}
				isTS := strings.HasSuffix(strings.ToLower(n), ".ts.net")
				if !has(certs, n) && !isTS {
					fails = append(fails, core.Failure{Class: "caddyfile:named-https-site-not-managed", What: fmt.Sprintf("site %q (port %d) is not in allCertDomains %v", n, sp, certs)})
					break
				}
				if _, ok := managing[n]; !ok && !isTS {
					covered := false
					for w := range managing {
						if strings.Contains(w, "*") && certmagic.MatchWildcard(n, w) {
							covered = true
						}
					}
					if !covered {
						fails = append(fails, core.Failure{Class: "caddyfile:named-https-site-not-handed-to-certmagic", What: fmt.Sprintf("site %q: Manage took on %v", n, managing)})
						break
					}
				}
			}
		}
		// (3) auto_https off / disable_certs: nothing is managed
		if (c.opts[0] || c.opts[2]) && len(certs) > 0 {
			fails = append(fails, core.Failure{Class: "caddyfile:certificates-managed-although-switched-off", What: fmt.Sprintf("allCertDomains %v", certs)})
		}
	}
	return "c=" + cb + " p=" + joinOr(";", pols) + " m=" + mg, fails
}

// cfTLSFieldOK: `-` or `;`-joined  <idx,…|->/<string over {i,a}|->
func cfTLSFieldOK(t string) bool {
	if t == "-" {
		return true
	}
	for _, p := range strings.Split(t, ";") {
		q := strings.Split(p, "/")
		if len(q) != 2 {
			return false
		}
		if _, ok := natList(q[0], ","); !ok {
			return false
		}
		if q[1] != "-" && strings.Trim(q[1], "ia") != "" {
			return false
		}
	}
	return true
}

// cfLine completes a generated Caddyfile case with the TLS app the real adapter emits for it
// (empty string if the adapter rejects it or emits something outside the protocol).
func cfLine(base string) string {
	f := strings.Fields(base + " - -")
	c, ok := parseCF(f)
	if !ok {
		return base + " - -"
	}
	adapter := caddyfile.Adapter{ServerType: httpcaddyfile.ServerType{}}
	out, _, err := adapter.Adapt([]byte(c.text()), nil)
	if err != nil {
		if strings.Contains(err.Error(), "automation policy") {
			return "" // rejected by buildTLSApp's policy checks, which are outside the model
		}
		return base + " - -"
	}
	sum, _ := c.tlsAppSummary(out)
	g := strings.Fields(sum)
	t, a := strings.TrimPrefix(g[0], "T="), strings.TrimPrefix(g[1], "A=")
	if !cfTLSFieldOK(t) || a != "-" {
		return ""
	}
	return base + " " + t + " " + a
}

func effPort(x, d int) int {
	if x == 0 {
		return d
	}
	return x
}
