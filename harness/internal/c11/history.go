package c11

// hist <n> <cfg fields of load 1> … <cfg fields of load n>   (7 fields per load: the fields of a
// `cfg` line without the word cfg)
//
// A history of n loads in ONE process, the way a reload does it: load i+1 is provisioned
// (caddy.ProvisionContext) while the contexts of the earlier loads are still alive — their TLS
// apps, their hand-loaded certificates in the process-wide certificate cache — and phase 2 runs
// on it; the earlier contexts are cancelled only after the last load. The answer is the
// answer of every load, ` || `-joined; the model answers each config ON ITS OWN
// (Props.history_independent): what a load makes of its config must not depend on what was
// loaded before.

import (
	"encoding/json"
	"fmt"
	"strconv"
	"strings"

	"github.com/caddyserver/caddy/v2"

	"verif/harness/internal/core"
)

func runHist(f []string) core.Outcome {
	bad := core.Outcome{Impl: "bad-op", Tags: []string{"trivial", "bad-op"}}
	if len(f) < 2 {
		return bad
	}
	n, ok := nat(f[1])
	if !ok || n < 1 || n > 4 || len(f) != 2+7*n {
		return bad
	}
	var cs []*kase
	for i := 0; i < n; i++ {
		c, ok := parseCase(append([]string{"cfg"}, f[2+7*i:2+7*(i+1)]...))
		if !ok || !c.flagsOK() {
			return bad
		}
		cs = append(cs, c)
	}
	// every config on its own first (nothing else alive): the reference of the oracle
	var fresh []string
	for _, c := range cs {
		fresh = append(fresh, c.canon(provision(c, 0)))
	}
	// the history: keep every context alive until the end
	var cfgs []*caddy.Config
	var answers []string
	var fails []core.Failure
	for i, c := range cs {
		cfg := new(caddy.Config)
		var o *obs
		if err := json.Unmarshal([]byte(c.buildJSON(0)), cfg); err != nil {
			o = &obs{errClass: "err:json"}
		} else if ctx, err := caddy.ProvisionContext(cfg); err != nil {
			o = &obs{errClass: classifyErr(err)}
		} else {
			cfgs = append(cfgs, cfg)
			o = observe(ctx, c, cfg, true, true)
		}
		if o.errClass == "" && !o.loadedOK {
			// the lookup phase 1 uses answers differently than for this config on its own
			fails = append(fails, core.Failure{Class: "history-dependence:has-certificate-lookup-sees-another-config",
				What: fmt.Sprintf("load %d of %d: TLS.HasCertificateForSubject does not answer what this config's own loaded certificates say (earlier configs are still alive)", i+1, n)})
			o.loadedOK = true // show what the load made of it
		}
		a := c.canon(o)
		answers = append(answers, a)
		if a != fresh[i] {
			fails = append(fails, core.Failure{Class: "history-dependence:load-differs-from-the-same-config-in-a-fresh-process",
				What: fmt.Sprintf("load %d of %d: with the earlier configs still alive the config provisions as %.300s — on its own as %.300s", i+1, n, a, fresh[i])})
		}
		if o.errClass == "" {
			for _, fl := range c.oracle([]*obs{o}) {
				fl.What = "load " + strconv.Itoa(i+1) + ": " + fl.What
				fails = append(fails, fl)
			}
		}
	}
	for _, cfg := range cfgs {
		caddy.VerifCancelConfig(cfg)
	}
	// keep one failure per class
	seen := map[string]bool{}
	var out []core.Failure
	for _, fl := range fails {
		if !seen[fl.Class] {
			seen[fl.Class] = true
			out = append(out, fl)
		}
	}
	return core.Outcome{Impl: strings.Join(answers, " || "), Tags: []string{"hist", "hist:" + strconv.Itoa(n)}, Failures: out}
}

// genHist: config A hand-loads the static certificate (loaded.test, *.wild.test); config B names
// those hosts in host matchers of a server off the HTTP port and loads nothing.
func genHist(rng *core.Rand) string {
	names := []string{"", "loaded.test", "y.wild.test", "a.test", "localhost", "*.wild.test"}
	mk := func(loaded bool) *kase {
		c := &kase{k: 1, loaded: loaded}
		for _, n := range names {
			c.names = append(c.names, nameInfo{s: n})
		}
		c.fillFlags()
		port := []int{443, 8443, 9443}[rng.Intn(3)]
		s := server{name: "s0", listen: []addr{{0, "", port, port}}}
		pick := func() []int {
			var l []int
			for d := 1; d < len(names); d++ {
				if rng.Chance(1, 2) {
					l = append(l, d)
				}
			}
			if len(l) == 0 {
				l = []int{1}
			}
			return l
		}
		s.routes = []uroute{{hms: [][]int{pick()}}}
		if rng.Chance(1, 3) {
			s.routes = append(s.routes, uroute{})
		}
		s.ignoreLd = rng.Chance(1, 6)
		if rng.Chance(1, 8) {
			s.skipCerts = []int{1 + rng.Intn(len(names)-1)}
		}
		c.servers = []server{s}
		if rng.Chance(1, 3) {
			c.servers = append(c.servers, server{name: "s1", listen: []addr{{0, "", 80, 80}}, routes: []uroute{{}}})
		}
		return c
	}
	a, b := mk(true), mk(false)
	var seq []*kase
	switch rng.Intn(4) {
	case 0:
		seq = []*kase{a, b}
	case 1:
		seq = []*kase{a, b, b}
	case 2:
		seq = []*kase{b, a, b}
	default:
		seq = []*kase{a, mk(false), mk(true)}
	}
	var parts []string
	for _, c := range seq {
		parts = append(parts, strings.TrimPrefix(c.encode(), "cfg "))
	}
	return "hist " + strconv.Itoa(len(seq)) + " " + strings.Join(parts, " ")
}
