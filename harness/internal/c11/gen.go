package c11

import (
	"fmt"
	"strconv"
	"strings"

	"github.com/caddyserver/certmagic"

	"verif/harness/internal/core"
)

// the name pool: public names, wildcards, IPs, local names, a tailscale name, names the
// static certificate covers, and subjects no certificate can be issued for
var namePool = []string{
	"a.test", "b.test", "c.example.com", "*.w.test", "x.w.test", "localhost", "app.localhost",
	"10.0.0.1", "8.8.8.8", "node.ts.net", "h.internal", "*.h.internal", "bad name", "*.com",
	"loaded.test", "y.wild.test", "Up.Ts.Net", "::1", "sub.*.test", "d.home.arpa",
	"wiki.h.internal", "db.h.internal", "*.localhost",
}

func staticCertCovers(s string) bool {
	if s == "loaded.test" || s == "*.wild.test" {
		return true
	}
	if strings.HasSuffix(s, ".wild.test") {
		return !strings.Contains(strings.TrimSuffix(s, ".wild.test"), ".")
	}
	return false
}

func (c *kase) fillFlags() {
	for i := range c.names {
		n := &c.names[i]
		n.q = certmagic.SubjectQualifiesForCert(n.s)
		n.pub = certmagic.SubjectQualifiesForPublicCert(n.s)
		n.ip = certmagic.SubjectIsIP(n.s)
		n.in = certmagic.SubjectIsInternal(n.s)
		n.ld = c.loaded && staticCertCovers(n.s)
		n.mw = make([]bool, len(c.names))
		n.hm = make([]bool, len(c.names))
		for j := range c.names {
			n.mw[j] = certmagic.MatchWildcard(n.s, c.names[j].s)
			n.hm[j] = hostMatches(n.s, c.names[j].s)
		}
	}
}

func b01(b bool) string {
	if b {
		return "1"
	}
	return "0"
}

func idxList(l []int, sep string) string {
	if len(l) == 0 {
		return "-"
	}
	var p []string
	for _, x := range l {
		p = append(p, strconv.Itoa(x))
	}
	return strings.Join(p, sep)
}

func (c *kase) encode() string {
	var names []string
	for _, n := range c.names {
		row := ""
		for _, m := range n.mw {
			row += b01(m)
		}
		hrow := ""
		for _, m := range n.hm {
			hrow += b01(m)
		}
		names = append(names, core.Hex(n.s)+":"+b01(n.q)+b01(n.pub)+b01(n.ip)+b01(n.in)+b01(n.ld)+":"+row+":"+hrow)
	}
	var srvs []string
	for _, s := range c.servers {
		var ls []string
		for _, a := range s.listen {
			ls = append(ls, a.String())
		}
		var rs []string
		for _, r := range s.routes {
			if r.hms == nil {
				rs = append(rs, "c")
				continue
			}
			var hs []string
			for _, hm := range r.hms {
				if len(hm) == 0 {
					hs = append(hs, "h")
				} else {
					hs = append(hs, "h"+idxList(hm, "+"))
				}
			}
			rs = append(rs, strings.Join(hs, "_"))
		}
		srvs = append(srvs, core.Hex(s.name)+"/"+joinOr(",", ls)+"/"+b01(s.disabled)+b01(s.disableRedir)+b01(s.disableCerts)+b01(s.ignoreLd)+strconv.Itoa(s.tls)+
			"/"+idxList(s.skip, ",")+"/"+idxList(s.skipCerts, ",")+"/"+joinOr(",", rs))
	}
	var pols []string
	for _, p := range c.policies {
		iss := p.issuers
		if iss == "" {
			iss = "-"
		}
		pols = append(pols, idxList(p.subjects, ",")+"/"+iss)
	}
	return fmt.Sprintf("cfg %d %d %d %s %s %s %s", c.k, c.hp, c.sp, strings.Join(names, ";"), joinOr(";", srvs), joinOr(";", pols), b01(c.loaded))
}

var listenHosts = []string{"", "", "", "127.0.0.1", "10.1.1.1", "localhost", "::1"}

func genCase(rng *core.Rand, k int) *kase {
	c := &kase{k: k}
	switch rng.Intn(8) {
	case 0:
		c.hp = 8080
	case 1:
		c.sp = 8443
	case 2:
		c.hp, c.sp = 8080, 8443
	case 3:
		c.hp, c.sp = 80, 443
	}
	c.loaded = rng.Chance(1, 6)
	// names
	c.names = []nameInfo{{s: ""}}
	nn := 2 + rng.Intn(5)
	for len(c.names) < 1+nn {
		s := rng.Pick(namePool)
		dup := false
		for _, n := range c.names {
			if strings.EqualFold(n.s, s) {
				dup = true
			}
		}
		if !dup {
			c.names = append(c.names, nameInfo{s: s})
		}
	}
	for _, pair := range [][2]string{{"*.h.internal", "wiki.h.internal"}, {"*.h.internal", "db.h.internal"}, {"*.localhost", "app.localhost"}, {"*.w.test", "x.w.test"}} {
		hasW, hasN := false, false
		for _, n := range c.names {
			hasW = hasW || n.s == pair[0]
			hasN = hasN || n.s == pair[1]
		}
		if hasW && !hasN && len(c.names) < 10 && rng.Chance(1, 2) {
			c.names = append(c.names, nameInfo{s: pair[1]})
		}
	}
	c.fillFlags()
	ns := 1 + rng.Intn(4)
	if rng.Chance(1, 30) {
		ns = 0
	}
	cur := 0 // the server being generated: names are mostly private to one server
	pickName := func() int {
		if rng.Chance(1, 40) {
			return 0
		}
		var own []int
		for d := 1; d < len(c.names); d++ {
			if ns <= 1 || d%ns == cur%ns {
				own = append(own, d)
			}
		}
		if len(own) == 0 || rng.Chance(1, 12) {
			return 1 + rng.Intn(len(c.names)-1)
		}
		return own[rng.Intn(len(own))]
	}
	pickNames := func(max int) []int {
		var l []int
		for j := 1 + rng.Intn(max); j > 0; j-- {
			d := pickName()
			if !contains(l, d) || rng.Chance(1, 60) {
				l = append(l, d)
			}
		}
		return l
	}
	ports := []int{80, 443, 443, 8080, 8443, 8443, 9443, 7443, c.httpPort(), c.httpsPort(), c.httpsPort()}
	used := map[string]bool{}
	httpTaken := false
	for i := 0; i < ns; i++ {
		cur = i
		s := server{name: "s" + strconv.Itoa(i)}
		if rng.Chance(1, 50) {
			s.name = reservedName
		}
		nl := 1
		if rng.Chance(1, 4) {
			nl = 2
		}
		if rng.Chance(1, 40) {
			nl = 0
		}
		for j := 0; j < nl; j++ {
			a := addr{host: rng.Pick(listenHosts)}
			a.sp = ports[rng.Intn(len(ports))]
			if a.sp == c.httpPort() && httpTaken && !rng.Chance(1, 8) {
				a.sp = ports[rng.Intn(len(ports))]
			}
			if a.sp == c.httpPort() {
				httpTaken = true
			}
			a.ep = a.sp
			if rng.Chance(1, 12) {
				a.ep = a.sp + 1 + rng.Intn(2)
			}
			if rng.Chance(1, 15) {
				a.net = 1 + rng.Intn(3)
			}
			key := fmt.Sprintf("%d/%s/%d", a.net, a.host, a.sp)
			if used[key] && !rng.Chance(1, 25) {
				continue
			}
			used[key] = true
			s.listen = append(s.listen, a)
		}
		s.disabled = rng.Chance(1, 12)
		s.disableRedir = rng.Chance(1, 8)
		s.disableCerts = rng.Chance(1, 8)
		s.ignoreLd = rng.Chance(1, 3)
		switch rng.Intn(10) {
		case 0:
			s.tls = 1
		case 1, 2:
			s.tls = 2
		}
		if rng.Chance(1, 5) {
			s.skip = pickNames(2)
		}
		if rng.Chance(1, 5) {
			s.skipCerts = pickNames(2)
		}
		nr := rng.Intn(4)
		for j := 0; j < nr; j++ {
			var r uroute
			switch rng.Intn(8) {
			case 0, 1:
				// no host matcher
			case 2:
				r.hms = [][]int{pickNames(2), pickNames(2)}
			case 3:
				if rng.Chance(1, 4) {
					r.hms = [][]int{{}}
				} else {
					r.hms = [][]int{pickNames(3)}
				}
			default:
				r.hms = [][]int{pickNames(2)}
			}
			s.routes = append(s.routes, r)
		}
		c.servers = append(c.servers, s)
	}
	// explicit automation policies
	np := 0
	if rng.Chance(1, 3) {
		np = 1 + rng.Intn(3)
	}
	cur = rng.Intn(4)
	usedSub := map[int]bool{}
	catchAll := false
	for i := 0; i < np; i++ {
		var p policy
		// a user policy whose only subject is a wildcard of the table: it covers some of the
		// names the implicit internal / tailscale policy will hold, not all of them
		var wild []int
		for d := 1; d < len(c.names); d++ {
			if strings.HasPrefix(c.names[d].s, "*.") && !usedSub[d] {
				wild = append(wild, d)
			}
		}
		if len(wild) > 0 && rng.Chance(1, 3) {
			d := wild[rng.Intn(len(wild))]
			usedSub[d] = true
			p.subjects = []int{d}
		} else if rng.Chance(1, 4) && (!catchAll || rng.Chance(1, 25)) {
			catchAll = true
		} else {
			for _, d := range pickNames(2) {
				if d != 0 && (!usedSub[d] || rng.Chance(1, 30)) {
					usedSub[d] = true
					p.subjects = append(p.subjects, d)
				}
			}
			if len(p.subjects) == 0 {
				continue
			}
		}
		p.issuers = rng.Pick([]string{"", "", "i", "a", "a"})
		c.policies = append(c.policies, p)
	}
	return c
}

func (prop) Generate(rng *core.Rand, tier string, emit func(string)) {
	n := 3000
	k := 4
	switch tier {
	case "thorough":
		n = 40000
		k = 6
	case "search":
		n = 1500
	}
	// hand-written cases first: the classic shapes of the documentation
	for _, l := range fixedCases {
		emit(l)
	}
	for i := 0; i < n; i++ {
		kk := k
		if rng.Chance(1, 50) {
			kk = 24
		}
		c := genCase(rng, kk)
		emit(c.encode())
	}
	// servers with more names than MatchHost's large-list threshold (100): the redirect route's
	// host matcher is built by phase 1 and never provisioned, its lookup is then a binary search
	nbig := 3
	if tier == "thorough" {
		nbig = 12
	}
	bigr := rng.Fork()
	for i := 0; i < nbig; i++ {
		emit(genBig(bigr))
	}
	// histories of loads in one process (a reload provisions the new config while the old one is
	// alive): what a load makes of its config must not depend on the loads before it
	nh := 60
	if tier == "thorough" {
		nh = 600
	}
	hr := rng.Fork()
	for i := 0; i < nh; i++ {
		emit(genHist(hr))
	}
	// the Caddyfile adapter's part: auto_https option, schemes and ports -> Listen / AutoHTTPS / host matchers
	ncf := n / 3
	cfr := rng.Fork()
	for i := 0; i < ncf; i++ {
		if l := cfLine(genCF(cfr)); l != "" {
			emit(l)
		}
	}
	for _, l := range []string{"cf 0 0 0000 - 0.0.0.0 - -", "cf 0 0 000 -;61 0.1.0.0 - -", "cf 0 0 0000 -;61 3.1.0.0 - -", "cf 0 0 0000 -;61 0.2.0.0 - -", "cf 0 0 0000 -;41 0.1.0.0 - -", "cf 0 0 0000 -;61 0.1.0 - -", "cf 0 0 0000 -;61 0.1.0.2 - -", "cf 0 0 0000 -;61 0.1.0.0 1/x -", "cf 0 0 0000 -;61 0.1.0.0 - 1", "cf 0 0 0000 -;61 0.1.0.0"} {
		emit(l)
	}
	// certmagic's subject predicates against their byte-level models
	nmr := rng.Fork()
	for i := 0; i < n; i++ {
		emit(genNM(nmr))
	}
	// malformed stream
	for _, l := range []string{
		"cfg", "cfg 4 0 0 - - - 0", "nop 1 2 3", "cfg 0 0 0 -:00000:1:0 - - 0", "cfg 4 0 0 -:00000:1:0 - - 2",
		"cfg 4 0 0 -:00000:1:0 7330/0.-.0.0/00000/-/-/- - 0", "cfg 4 0 0 -:00000:1:0 7330/0.-.443.443/00000/-/-/h1 - 0",
		"cfg 4 0 0 61:00000:1:0 - - 0", "cfg 4 0 0 -:00000:1:0;-:00000:11:00 - - 0", "cfg 4 0 0 -:00000:1:0 - 1/a 0",
		"cfg 4 70000 0 -:00000:1:0 - - 0", "cfg 4 0 0 -:00000:1:0 7330/0.-.443.443/00003/-/-/- - 0",
	} {
		emit(l)
	}
}

// fixedCases are filled in by init from small literal configs.
var fixedCases []string

func init() {
	mk := func(names []string, f func(c *kase)) {
		c := &kase{k: 8, names: []nameInfo{{s: ""}}}
		for _, n := range names {
			c.names = append(c.names, nameInfo{s: n})
		}
		f(c)
		c.fillFlags()
		fixedCases = append(fixedCases, c.encode())
	}
	h := func(d ...int) uroute { return uroute{hms: [][]int{d}} }
	// one HTTPS site
	mk([]string{"a.test"}, func(c *kase) {
		c.servers = []server{{name: "s0", listen: []addr{{0, "", 443, 443}}, routes: []uroute{h(1)}}}
	})
	// HTTPS site + own HTTP server with a catch-all
	mk([]string{"a.test", "localhost"}, func(c *kase) {
		c.servers = []server{
			{name: "s0", listen: []addr{{0, "", 443, 443}}, routes: []uroute{h(1), h(2)}},
			{name: "s1", listen: []addr{{0, "", 80, 80}}, routes: []uroute{h(1), {}}},
		}
	})
	// custom port
	mk([]string{"a.test"}, func(c *kase) {
		c.servers = []server{{name: "s0", listen: []addr{{0, "", 8443, 8443}}, routes: []uroute{h(1)}}}
	})
	// HTTP only
	mk([]string{"a.test"}, func(c *kase) {
		c.servers = []server{{name: "s0", listen: []addr{{0, "", 80, 80}}, routes: []uroute{h(1)}}}
	})
	// user policy with a wildcard subject that covers one of two internal names (no issuer / ACME issuer):
	// the implicit internal policy must still come first for the covered name
	for _, iss := range []string{"", "a"} {
		iss := iss
		mk([]string{"wiki.h.internal", "localhost", "*.h.internal"}, func(c *kase) {
			c.servers = []server{{name: "s0", listen: []addr{{0, "", 443, 443}}, routes: []uroute{h(1), h(2)}}}
			c.policies = []policy{{subjects: []int{3}, issuers: iss}}
		})
	}
	// … and with a second user policy in front that has more subjects than the implicit one
	mk([]string{"wiki.h.internal", "localhost", "*.h.internal", "a.test", "b.test", "c.example.com"}, func(c *kase) {
		c.servers = []server{{name: "s0", listen: []addr{{0, "", 443, 443}}, routes: []uroute{h(1), h(2), h(4)}}}
		c.policies = []policy{{subjects: []int{4, 5, 6}, issuers: "a"}, {subjects: []int{3}, issuers: "a"}}
	})
	// one site bound to two interfaces on the HTTPS port (upstream issue 3443): both need a redirect listener
	mk([]string{"a.test"}, func(c *kase) {
		c.servers = []server{{name: "s0", listen: []addr{{0, "10.1.1.1", 443, 443}, {0, "127.0.0.1", 443, 443}}, routes: []uroute{h(1)}}}
	})
	// a name on the skip list of one server and served (not skipped) by another: skip lists are per server
	mk([]string{"a.test", "b.test"}, func(c *kase) {
		c.servers = []server{
			{name: "s0", listen: []addr{{0, "", 8443, 8443}}, skip: []int{1}, routes: []uroute{h(1), h(2)}},
			{name: "s1", listen: []addr{{0, "", 443, 443}}, routes: []uroute{h(1)}},
		}
	})
	// catch-all with TLS connection policies (on-demand shape)
	mk([]string{"a.test"}, func(c *kase) {
		c.servers = []server{{name: "s0", listen: []addr{{0, "", 443, 443}}, tls: 2, routes: []uroute{{}}}}
	})
}

// genBig: one site server on a non-standard port with 105-130 names of different lengths (and a
// wildcard), split over a few routes; sometimes the user's own HTTP server with a catch-all.
func genBig(rng *core.Rand) string {
	c := &kase{k: 2, names: []nameInfo{{s: ""}}}
	n := 105 + rng.Intn(26)
	stems := []string{"n", "tenant-", "t", "very-long-customer-name-", "x", "ab", "svc", "zz9-"}
	tails := []string{".big.test", ".b.test", ".example.com", ".io.test"}
	seen := map[string]bool{}
	for len(c.names) < 1+n {
		s := rng.Pick(stems) + strconv.Itoa(rng.Intn(2000)) + rng.Pick(tails)
		if rng.Chance(1, 60) {
			s = "*." + strconv.Itoa(rng.Intn(50)) + ".w.test"
		}
		// (lower-case names only: in a host matcher with more than 100 entries MatchHost.Provision
		// lower-cases the exact names in place — also the user's, which phase 1 then reads — and
		// the case's name table is compared by exact spelling)
		if !seen[strings.ToLower(s)] {
			seen[strings.ToLower(s)] = true
			c.names = append(c.names, nameInfo{s: s})
		}
	}
	c.fillFlags()
	port := []int{8443, 9443, 7443}[rng.Intn(3)]
	s0 := server{name: "s0", listen: []addr{{0, "", port, port}}}
	per := 1 + rng.Intn(3)
	for r := 0; r < per; r++ {
		var hm []int
		for d := 1; d < len(c.names); d++ {
			if d%per == r {
				hm = append(hm, d)
			}
		}
		s0.routes = append(s0.routes, uroute{hms: [][]int{hm}})
	}
	c.servers = []server{s0}
	if rng.Chance(1, 2) {
		c.servers = append(c.servers, server{name: "s1", listen: []addr{{0, "", 80, 80}}, routes: []uroute{{}}})
	}
	return c.encode()
}
