package c05

import (
	"fmt"
	"strconv"
)

// ---------------------------------------------------------------- request state

type state struct {
	q      request
	groups map[int]bool
	ctxErr int // -1: no error in the request context; else raw status (0 = not a HandlerError)
	repl   int // -1: {http.error.status_code} unset; the replacer is shared by all copies of a request
	// RequestURI is a field of the request STRUCT (the URL sits behind a shared pointer): every
	// WithError makes a new request object. uris holds the RequestURI (a path index) of every
	// object in creation order; running code always holds the newest one.
	uris []int
}

func (s state) uriStr() string {
	if u := s.uris[len(s.uris)-1]; u != requestLineOf(s.q.path) {
		return pathStr(u)
	}
	return ""
}

// withError is HTTPErrorConfig.WithError: the placeholder is only set for a HandlerError.
func (s *state) withError(st int) {
	s.ctxErr = st
	if st != 0 {
		s.repl = st
	}
}

func (s state) replStr() string {
	if s.repl < 0 {
		return "n"
	}
	return strconv.Itoa(s.repl)
}

// resolve is strconv.Atoi(repl.ReplaceAll(status_code, "")) of the real error / static_response
// handlers; ok=false: Atoi failed.
func (s state) resolve(src int) (int, bool) {
	switch src {
	case 1:
		return s.repl, s.repl >= 0
	case 2:
		return 0, false
	}
	return src, true
}

// realHandler is what the real `error` ('x') and `static_response` ('y') handlers do with their
// status_code: isErr, status.
func (s state) realHandler(kind byte, src int) (bool, int) {
	if kind == 'x' {
		if src == 0 {
			return true, 500
		}
		if n, ok := s.resolve(src); ok {
			return true, n
		}
		return true, 500
	}
	if src == 0 {
		if s.ctxErr > 0 {
			return false, s.ctxErr
		}
		return false, 200
	}
	if n, ok := s.resolve(src); ok {
		return false, n
	}
	return true, 500
}

func (s state) field(f int) int {
	switch f {
	case 0:
		return s.q.method
	case 1:
		return s.q.host
	case 2:
		return s.q.path
	}
	return s.q.hdr
}

func (s state) errStr() string {
	if s.ctxErr < 0 {
		return "n"
	}
	return strconv.Itoa(s.ctxErr)
}

func writeStatus(raw int) int {
	if raw <= 0 {
		return 500
	}
	return raw
}

type outcome struct {
	events []event
	status int // -1: nothing written
}

func (o outcome) observed() observed {
	ob := observed{events: o.events}
	if o.status >= 0 {
		ob.codes = []int{o.status}
	}
	return ob
}

// ---------------------------------------------------------------- matchers (documented: OR of ANDs, not = NOT(OR of ANDs), errors abort)

type mres struct {
	ok  bool
	err int // -1 none
}

func evalMatcher(m *matcher, s state) mres {
	switch m.kind {
	case 'a':
		v := s.field(m.field)
		for _, x := range m.vals {
			if x == v {
				return mres{true, -1}
			}
		}
		return mres{false, -1}
	case 'e':
		return mres{false, m.status}
	case 'l':
		return mres{m.ekind == 1, -1}
	case 'c':
		if s.repl < 0 {
			return mres{false, 0} // CEL cannot compare the unset placeholder: a plain error
		}
		return mres{m.vals[0] <= s.repl && s.repl <= m.vals[1], -1}
	case 'k':
		for _, v := range m.vals {
			if v == s.repl {
				return mres{true, -1}
			}
		}
		return mres{false, -1}
	}
	for _, set := range m.sets {
		r := evalSet(set, s)
		if r.err >= 0 {
			return r
		}
		if r.ok {
			return mres{false, -1}
		}
	}
	return mres{true, -1}
}

func evalSet(set []*matcher, s state) mres {
	for _, m := range set {
		r := evalMatcher(m, s)
		if r.err >= 0 || !r.ok {
			return mres{false, r.err}
		}
	}
	return mres{true, -1}
}

func applies(sets [][]*matcher, s state) mres {
	if len(sets) == 0 {
		return mres{true, -1}
	}
	for _, set := range sets {
		r := evalSet(set, s)
		if r.err >= 0 || r.ok {
			return r
		}
	}
	return mres{false, -1}
}

// ---------------------------------------------------------------- the documented rules, written directly

// A run either passes the request on (stop == nil) or ends routing.
type stop struct {
	isErr  bool
	status int // done: status written or -1; err: raw error status
}

type specRun struct {
	s      state
	events []event
	tags   map[string]bool
}

func (x *specRun) tag(t string) { x.tags[t] = true }

func (x *specRun) record(id int) {
	x.events = append(x.events, event{id: id, path: pathStr(x.s.q.path), uri: x.s.uriStr(), err: x.s.errStr(), repl: x.s.replStr()})
}

func (x *specRun) handlers(hs []*handler) *stop {
	for _, h := range hs {
		switch h.kind {
		case 'p':
			x.record(h.id)
		case 'r':
			x.record(h.id)
			x.tag("respond")
			return &stop{false, h.arg}
		case 'w':
			x.record(h.id)
			x.tag("rewrite")
			x.s.q.path = h.arg
			x.s.uris[len(x.s.uris)-1] = h.arg // the rewrite sets RequestURI on the object it was handed
		case 'f':
			x.record(h.id)
			x.tag("handler-error")
			return &stop{true, h.arg}
		case 'z':
			x.tag("real-rewrite:strip-prefix")
			x.s.q.path = stripPath(x.s.q.path)
			x.s.uris[len(x.s.uris)-1] = requestLineOf(x.s.q.path)
		case 'i': // a name that is not among the server's named routes (defined ones are inlined)
			x.tag("invoke:unknown-name")
			return &stop{true, 0}
		case 'x', 'y':
			isErr, st := x.s.realHandler(h.kind, h.arg)
			if h.kind == 'y' && !isErr && st == 103 {
				// Early Hints: the interim header is written and the request passed on
				x.tag("real-static-response:early-hints")
				x.events = append(x.events, event{hint: true})
				continue
			}
			x.tag(map[byte]string{'x': "real-error-handler", 'y': "real-static-response"}[h.kind] + ":" + []string{"default", "placeholder", "not-a-number", "number"}[min(h.arg, 3)])
			if h.arg == 1 && x.s.repl >= 0 && x.s.repl != x.s.ctxErr {
				x.tag("placeholder-stale-after-plain-error")
			}
			return &stop{isErr, st}
		case 's':
			x.tag("subroute")
			own := len(x.s.uris) - 1 // the request object this invocation of the subroute holds
			st := x.routes(h.routes)
			if st != nil && st.isErr && h.hasErrs {
				x.tag("subroute-errors-run")
				if x.s.uris[own] != requestLineOf(x.s.q.path) {
					x.tag("subroute-errors:stale-request-uri")
				}
				x.s.uris = append(x.s.uris, x.s.uris[own]) // WithError copies ITS request object
				x.s.withError(st.status)
				st = x.routes(h.errs)
			}
			if st != nil {
				return st
			}
		}
	}
	return nil
}

func (x *specRun) tagSets(sets [][]*matcher) {
	for _, s := range sets {
		if len(s) == 0 {
			x.tag("matcher:empty-set")
		}
		for _, m := range s {
			switch m.kind {
			case 'a':
				x.tag("matcher:" + []string{"method", "host", "path", "header"}[m.field])
			case 'e':
				x.tag("matcher:error-kind-" + strconv.Itoa(m.ekind))
			case 'l':
				x.tag("matcher:legacy")
			case 'c':
				x.tag("matcher:expression-status-range")
			case 'k':
				x.tag("matcher:expression-status-list")
			case 'n':
				x.tag("matcher:not")
				x.tagSets(m.sets)
			}
		}
	}
}

func (x *specRun) routes(rs []*route) *stop {
	for _, r := range rs {
		x.tagSets(r.sets)
		m := applies(r.sets, x.s)
		if m.err >= 0 {
			x.tag("matcher-error")
			return &stop{true, m.err}
		}
		if !m.ok {
			x.tag("route-skipped:no-match")
			continue
		}
		if len(r.sets) == 0 {
			x.tag("route-applies:no-sets")
		} else {
			x.tag("route-applies:set-matched")
		}
		if r.group != 0 {
			if x.s.groups[r.group] {
				x.tag("route-skipped:group-satisfied")
				continue
			}
			x.s.groups[r.group] = true
		}
		inErr := x.s.ctxErr >= 0
		if st := x.handlers(r.hs); st != nil {
			return st
		}
		if r.terminal {
			x.tag("terminal-stops")
			if inErr {
				return &stop{false, writeStatus(x.s.ctxErr)}
			}
			return &stop{false, -1}
		}
	}
	return nil
}

// specEval evaluates a request by the documented routing rules.
func specEval(rs []*route, hasErrs bool, errs []*route, q request) (outcome, map[string]bool) {
	x := &specRun{s: state{q: q, groups: map[int]bool{}, ctxErr: -1, repl: -1, uris: []int{q.path}}, tags: map[string]bool{}}
	st := x.routes(rs)
	switch {
	case st == nil:
		x.tag("unanswered:empty-default")
		return outcome{x.events, -1}, x.tags
	case !st.isErr:
		return outcome{x.events, st.status}, x.tags
	}
	if !hasErrs || len(errs) == 0 {
		x.tag("error:no-error-routes")
		return outcome{x.events, writeStatus(st.status)}, x.tags
	}
	x.tag("error-routes-run")
	if x.s.q.path != q.path {
		x.tag("error-routes:uri-restored")
	}
	x.s.q.path = q.path
	x.s.uris = append(x.s.uris, q.path) // RequestURI restored on the server's object, then copied
	x.s.withError(st.status)
	st2 := x.routes(errs)
	switch {
	case st2 == nil:
		x.tag("error-routes:unanswered")
		return outcome{x.events, writeStatus(x.s.ctxErr)}, x.tags
	case !st2.isErr:
		return outcome{x.events, st2.status}, x.tags
	}
	x.tag("error-routes:failed-again")
	return outcome{x.events, writeStatus(st.status)}, x.tags
}

// ---------------------------------------------------------------- comparison

func sameEvents(a, b []event) bool {
	if len(a) != len(b) {
		return false
	}
	for i := range a {
		if a[i].id != b[i].id || a[i].path != b[i].path || a[i].uri != b[i].uri || a[i].err != b[i].err || a[i].repl != b[i].repl || a[i].hint != b[i].hint {
			return false
		}
	}
	return true
}

// diffClass names the first routing clause on which an observation departs from the rules.
func diffClass(got observed, want outcome) (string, string) {
	w := want.observed()
	ids := func(ev []event) []int {
		var o []int
		for _, e := range ev {
			o = append(o, e.id)
		}
		return o
	}
	gi, wi := ids(got.events), ids(w.events)
	same := len(gi) == len(wi)
	for i := 0; same && i < len(gi); i++ {
		same = gi[i] == wi[i]
	}
	switch {
	case !same:
		return "rules:handlers-run", fmt.Sprintf("handlers that ran %v, the routing rules prescribe %v", gi, wi)
	case !sameEvents(got.events, w.events):
		return "rules:request-seen", fmt.Sprintf("handlers saw %s, the routing rules prescribe %s", canon(got), canon(w))
	case canon(got) != canon(w):
		return "rules:response", fmt.Sprintf("response %s, the routing rules prescribe %s", canon(got), canon(w))
	}
	return "", ""
}
