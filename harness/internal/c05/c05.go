package c05

import (
	"fmt"
	"os"
	"strings"

	"verif/harness/internal/core"
)

type prop struct{}

func New() core.Prop { return prop{} }

func (prop) ID() string { return "C05" }

// Finish removes the private data directory of this process.
func (prop) Finish(*core.Session) { Cleanup() }

// ---------------------------------------------------------------- generator

type gen struct {
	rng    *core.Rand
	nextID int
	budget int // remaining handlers + routes
	exprLeft int // real expression matchers still allowed in this tree (each costs a CEL compilation)
	exprOdds int
	nNamed int // named routes of the tree being drawn
	minInv int // invoke handlers drawn now must name a route > minInv
}

func (g *gen) id() int { g.nextID++; return g.nextID }

func (g *gen) subset(n, min int) []int {
	for {
		var out []int
		for v := min; v < n; v++ {
			if g.rng.Chance(1, 2) {
				out = append(out, v)
			}
		}
		if len(out) > 0 {
			return out
		}
	}
}

var errStatuses = []int{0, 400, 403, 404, 500, 503}
var okStatuses = []int{200, 201, 204, 404, 418}

func (g *gen) matcher(kind int, depth int, errOdds, legacyOdds int) *matcher {
	switch {
	case kind <= 3:
		min := 0
		if kind == 3 {
			min = 1
		}
		return &matcher{kind: 'a', field: kind, vals: g.subset(fieldSize[kind], min)}
	case kind <= 6:
		return &matcher{kind: 'e', ekind: kind - 4, status: errStatuses[g.rng.Intn(len(errStatuses))]}
	case kind == 10:
		codes := []int{400, 403, 404, 500, 503}
		if g.rng.Chance(1, 2) {
			lo := []int{400, 404, 500}[g.rng.Intn(3)]
			return &matcher{kind: 'c', vals: []int{lo, []int{lo, 499, 599}[g.rng.Intn(3)]}}
		}
		m := &matcher{kind: 'k'}
		for _, c := range codes {
			if g.rng.Chance(2, 5) {
				m.vals = append(m.vals, c)
			}
		}
		if len(m.vals) == 0 {
			m.vals = []int{404}
		}
		return m
	case kind >= 8:
		return &matcher{kind: 'l', ekind: kind - 8}
	}
	m := &matcher{kind: 'n'}
	for n := g.rng.Intn(3); n > 0; n-- {
		m.sets = append(m.sets, g.set(depth+1, errOdds, legacyOdds))
	}
	return m
}

// set draws a matcher set: distinct kinds in random order (the order is part of the case).
func (g *gen) set(depth int, errOdds, legacyOdds int) []*matcher {
	var kinds []int
	for k := 0; k <= 10; k++ {
		var take bool
		switch {
		case k == 10:
			take = g.exprLeft > 0 && g.rng.Chance(g.exprOdds, 100)
			if take {
				g.exprLeft--
			}
		case k <= 3:
			take = g.rng.Chance(3, 10)
		case k <= 6:
			take = g.rng.Chance(errOdds, 100)
		case k == 7:
			take = depth < 2 && g.rng.Chance(15, 100)
		default:
			take = g.rng.Chance(legacyOdds, 100)
		}
		if take {
			kinds = append(kinds, k)
		}
	}
	for i := len(kinds) - 1; i > 0; i-- {
		j := g.rng.Intn(i + 1)
		kinds[i], kinds[j] = kinds[j], kinds[i]
	}
	set := []*matcher{}
	for _, k := range kinds {
		set = append(set, g.matcher(k, depth, errOdds, legacyOdds))
	}
	return set
}

func (g *gen) sets(errOdds, legacyOdds, noSetOdds int) [][]*matcher {
	if g.rng.Chance(noSetOdds, 100) {
		return nil
	}
	var out [][]*matcher
	for n := 1 + g.rng.Intn(2); n > 0; n-- {
		out = append(out, g.set(0, errOdds, legacyOdds))
	}
	return out
}

type shape struct {
	errOdds, failOdds, subOdds, subErrOdds, termOdds, groupOdds, rewriteOdds, noSetOdds, legacyOdds, realOdds int
}

func (g *gen) handlers(depth int, sh shape) []*handler {
	hs := []*handler{}
	n := 1 + g.rng.Intn(3)
	if g.rng.Chance(1, 8) {
		n = 0
	}
	for ; n > 0 && g.budget > 0; n-- {
		g.budget--
		x := g.rng.Intn(100)
		if g.rng.Chance(sh.rewriteOdds, 400) {
			hs = append(hs, &handler{kind: 'z'}) // the real rewrite handler, strip_path_prefix
			continue
		}
		if g.nNamed > 0 && g.minInv <= g.nNamed && g.rng.Chance(12, 100) {
			// names minInv+1 … nNamed are defined, nNamed+1 is not
			hs = append(hs, &handler{kind: 'i', arg: g.minInv + 1 + g.rng.Intn(g.nNamed+1-g.minInv)})
			continue
		}
		switch {
		case x < sh.subOdds && depth < 3:
			h := &handler{kind: 's', routes: g.routes(depth+1, 3, sh)}
			if g.rng.Chance(sh.subErrOdds, 100) {
				h.hasErrs = true
				h.errs = g.routes(depth+1, 2, sh)
			}
			hs = append(hs, h)
		case x < sh.subOdds+sh.failOdds:
			switch y := g.rng.Intn(100); {
			case y < sh.realOdds/2:
				hs = append(hs, &handler{kind: 'x', arg: g.src(400)})
			case y < sh.realOdds:
				hs = append(hs, &handler{kind: 'y', arg: g.src(200)})
			default:
				hs = append(hs, &handler{kind: 'f', id: g.id(), arg: errStatuses[g.rng.Intn(len(errStatuses))]})
			}
		case x < sh.subOdds+sh.failOdds+12:
			hs = append(hs, &handler{kind: 'r', id: g.id(), arg: okStatuses[g.rng.Intn(len(okStatuses))]})
		case x < sh.subOdds+sh.failOdds+12+sh.rewriteOdds:
			hs = append(hs, &handler{kind: 'w', id: g.id(), arg: g.rng.Intn(len(paths))})
		default:
			hs = append(hs, &handler{kind: 'p', id: g.id()})
		}
	}
	return hs
}

func (g *gen) routes(depth, max int, sh shape) []*route {
	rs := []*route{}
	n := 1 + g.rng.Intn(max)
	if g.rng.Chance(1, 10) {
		n = 0
	}
	for ; n > 0 && g.budget > 0; n-- {
		g.budget--
		r := &route{}
		if g.rng.Chance(sh.groupOdds, 100) {
			r.group = 1 + g.rng.Intn(2)
		}
		r.terminal = g.rng.Chance(sh.termOdds, 100)
		r.sets = g.sets(sh.errOdds, sh.legacyOdds, sh.noSetOdds)
		r.hs = g.handlers(depth, sh)
		rs = append(rs, r)
	}
	return rs
}

func (g *gen) tree(tier string) (rs []*route, hasErrs bool, errs []*route, named []*route) {
	g.nextID = 0
	g.nNamed, g.minInv = 0, 0
	g.exprLeft, g.exprOdds = 0, 0
	if g.rng.Chance(1, 4) {
		g.exprLeft, g.exprOdds = 2, 25
	}
	if g.rng.Chance(3, 10) {
		g.nNamed = 1 + g.rng.Intn(3)
	}
	g.budget = 10 + g.rng.Intn(8)
	if tier != "quick" {
		g.budget = 10 + g.rng.Intn(40)
	}
	sh := shape{errOdds: 4, failOdds: 12, subOdds: 18, subErrOdds: 30, termOdds: 18, groupOdds: 35, rewriteOdds: 18, noSetOdds: 40, legacyOdds: 5, realOdds: 30}
	switch g.rng.Intn(10) {
	case 0: // no failures at all: routing proper
		sh.errOdds, sh.failOdds = 0, 0
	case 1: // error-heavy
		sh.errOdds, sh.failOdds = 10, 25
	case 2: // deep nesting
		sh.subOdds, sh.subErrOdds = 35, 45
	case 3: // groups and terminals
		sh.groupOdds, sh.termOdds = 70, 35
	case 4: // rewrite, then fail: the error routes must see the original URI
		sh.rewriteOdds, sh.failOdds, sh.noSetOdds = 35, 20, 60
	case 6: // the error path as deployed: real error / static_response handlers driven by the error placeholders
		sh.failOdds, sh.realOdds, sh.subErrOdds, sh.noSetOdds = 30, 75, 50, 60
		g.exprLeft, g.exprOdds = 3, 40
	case 7: // nested subroutes with error routes that rewrite and fail again: request copies
		sh.subOdds, sh.subErrOdds, sh.rewriteOdds, sh.failOdds, sh.noSetOdds = 40, 70, 30, 25, 70
	case 5: // error matchers next to legacy (RequestMatcher-only) matchers
		sh.errOdds, sh.legacyOdds, sh.noSetOdds = 12, 30, 15
	}
	rs = g.routes(0, 5, sh)
	switch x := g.rng.Intn(100); {
	case x < 25:
	case x < 30:
		hasErrs, errs = true, []*route{}
	default:
		hasErrs = true
		g.budget += 6
		errs = g.routes(0, 3, sh)
	}
	for j := 1; j <= g.nNamed; j++ {
		g.minInv = j
		g.budget = 4
		one := g.routes(1, 1, sh)
		if len(one) == 0 {
			one = []*route{{hs: []*handler{{kind: 'p', id: g.id()}}}}
		}
		named = append(named, one[0])
	}
	return
}

// src draws a status source for the real handlers: none, the error placeholder, text, a number.
func (g *gen) src(lo int) int {
	switch g.rng.Intn(10) {
	case 0, 1:
		return 0
	case 2, 3, 4, 5:
		return 1
	case 6:
		return 2
	}
	if lo == 200 && g.rng.Chance(1, 3) {
		return 103 // static_response: Early Hints, writes and passes on
	}
	return []int{lo, 404, 500, 503}[g.rng.Intn(4)]
}

func (g *gen) request() request {
	return request{g.rng.Intn(2), g.rng.Intn(3), g.rng.Intn(6), g.rng.Intn(3)}
}

// malformed produces lines both sides must reject as bad-op.
func (g *gen) malformed(good string) string {
	f := strings.Fields(good)
	toks := strings.Split(f[0], ",")
	switch g.rng.Intn(9) {
	case 0:
		return f[0] + " " + f[1]
	case 1:
		return good + " 0"
	case 2:
		if len(toks) > 1 {
			toks = toks[:len(toks)-1]
		}
	case 3:
		toks = append(toks, "0")
	case 4:
		toks[g.rng.Intn(len(toks))] = g.rng.Pick([]string{"x", "", "01", "-1", "+1", "1_0", "9999999999", "P", "1.0", " "})
	case 5:
		return f[0] + " " + f[1] + " " + g.rng.Pick([]string{"2,0,0,0", "0,3,0,0", "0,0,6,0", "0,0,0,3", "0,0,0", "0,0,0,0,0", "a,0,0,0", "", "00,0,0,0"})
	case 6: // invalid values inside a well-formed tree
		return g.rng.Pick([]string{
			"1,0,0,1,1,a,2,1,6,0", "1,0,0,1,1,a,3,1,0,0", "1,0,0,1,1,a,0,0,0", "1,0,0,1,1,e,3,404,0", "1,0,0,1,1,e,0,200,0",
			"1,0,0,1,2,a,1,1,0,a,1,1,1,0", "1,0,0,1,2,e,0,404,e,0,500,0", "1,0,0,0,1,r,1,100", "1,0,0,0,1,w,1,6", "1,0,0,0,1,f,1,200",
			"1,0,2,0,0", "1,0,0,0,1,s,0,2", "1,0,0,1,1,a,4,1,0,0", "1,0,0,1,1,n,1,2,a,0,1,0,a,0,1,1,0", "1,0,0,0,1,s,0,1,1,0,0,0,1,r,1,99",
		}) + " " + f[1] + " " + f[2]
	case 7:
		return f[0] + " " + g.rng.Pick([]string{"x", "1", "--", "1,0,0,0,1,w,1,7"}) + " " + f[2]
	case 8:
		return ""
	}
	return strings.Join(toks, ",") + " " + f[1] + " " + f[2]
}

func (prop) Generate(rng *core.Rand, tier string, emit func(string)) {
	n := 10000
	switch tier {
	case "thorough":
		n = 150000
	case "search":
		n = 30000
	}
	g := &gen{rng: rng}
	for c := 0; c < n; {
		if g.rng.Chance(1, 16) {
			emit(g.heLine())
			c++
			continue
		}
		if g.rng.Chance(1, 25) {
			emit(g.hdLine())
			c++
			continue
		}
		if g.rng.Chance(1, 20) {
			emit(g.cfLine())
			c++
			continue
		}
		if g.rng.Chance(1, 20) {
			emit(g.msLine())
			c++
			continue
		}
		if g.rng.Chance(1, 20) {
			emit(g.icLine())
			c++
			continue
		}
		rs, hasErrs, errs, named := g.tree(tier)
		// a few requests per tree: the same routes seen from different hosts/paths/methods
		for k := 1 + g.rng.Intn(3); k > 0 && c < n; k-- {
			line := encCase(rs, hasErrs, errs, g.request(), named)
			if g.rng.Chance(1, 60) {
				line = g.malformed(line)
			}
			emit(line)
			c++
		}
	}
}

// ---------------------------------------------------------------- one case

func fail(class, what string) core.Failure { return core.Failure{Class: class, What: what} }

func fnv(s string) uint32 {
	h := uint32(2166136261)
	for i := 0; i < len(s); i++ {
		h = (h ^ uint32(s[i])) * 16777619
	}
	return h
}

type tcase struct {
	rs      []*route
	hasErrs bool
	errs    []*route
	q       request
	named   []*route
}

func (c tcase) line() string { return encCase(c.rs, c.hasErrs, c.errs, c.q, c.named) }

// evaluate runs one case on the real code and applies the oracles to what was observed.
func evaluate(c tcase) (got observed, tags []string, fails []core.Failure, err error) {
	defer func() {
		if r := recover(); r != nil {
			tags = []string{"panic"}
			fails = []core.Failure{fail("impl-panic", fmt.Sprint("routing panicked: ", r))}
			err = nil
			got = observed{panicked: true}
		}
	}()
	rs, hasErrs, errs, q, named := c.rs, c.hasErrs, c.errs, c.q, c.named
	// the oracle's reading of `invoke`: the named route, evaluated in place by the same rules
	irs, ierrs := inlineNamed(named, rs), inlineNamed(named, errs)
	// one server, three requests: the case's request, a different one, the case's request again
	other := request{(q.method + 1) % 2, (q.host + 1) % 3, (q.path + 1 + int(fnv(c.line())%5)) % 6, (q.hdr + 1) % 3}
	seq, err := func() ([]observed, error) {
		serveConcurrently = fnv(c.line())%3 == 1
		defer func() { serveConcurrently = false }()
		return serveSeq(rs, hasErrs, errs, []request{q, other, q}, named)
	}()
	if err != nil {
		return
	}
	got = seq[2]
	// ---- oracle 5: requests served at the same time on one server do not interfere
	if len(seq) == 7 {
		tags = append(tags, "concurrent-requests-checked")
		for i, o := range seq[3:] {
			if canon(o) != canon(seq[i%2]) {
				fails = append(fails, fail("concurrent-requests-interfere",
					fmt.Sprintf("four requests served concurrently by one server: one of them got %s, alone it gets %s", canon(o), canon(seq[i%2]))))
				break
			}
		}
	}

	// ---- oracle 1: the documented routing rules, evaluated directly
	want, tset := specEval(irs, hasErrs, ierrs, q)
	for t := range tset {
		tags = append(tags, t)
	}
	if len(got.events) == 0 && len(got.codes) == 0 {
		tags = append(tags, "trivial")
	}
	if len(named) > 0 {
		tags = append(tags, "named-routes-defined")
		if !invGt(len(named), rs) || !invGt(len(named), errs) || !invGt(len(named), named) {
			tags = append(tags, "invoke:defined-name")
		}
	}
	if class, what := diffClass(got, want); class != "" {
		fails = append(fails, fail(class, what))
	}

	// ---- oracle 1c: what WithError tells the error routes besides the status code
	// ({http.error}, .status_text, .message, .id, .trace) fits the error being handled
	for _, e := range got.events {
		if e.bad != "" {
			fails = append(fails, fail("error-placeholders-do-not-fit", fmt.Sprintf("handler %d: %s", e.id, e.bad)))
			break
		}
	}

	// ---- oracle 0: routing is a function of the configuration and the request — nothing is
	// carried from one request to the next on the same server (per-request chain compilation,
	// per-request group set)
	if canon(seq[0]) != canon(seq[2]) {
		fails = append(fails, fail("state-carried-between-requests",
			fmt.Sprintf("the same request served twice by one server: first %s, then (after one other request) %s", canon(seq[0]), canon(seq[2]))))
	}
	if wantO, _ := specEval(irs, hasErrs, ierrs, other); canon(seq[1]) != canon(wantO.observed()) {
		fails = append(fails, fail("rules:second-request",
			fmt.Sprintf("request %d,%d,%d,%d served after the case's request on the same server: %s, the routing rules prescribe %s",
				other.method, other.host, other.path, other.hdr, canon(seq[1]), canon(wantO.observed()))))
	}

	// the two-run relations cost a provisioning each: applied to a fixed third of the cases
	// (chosen by a hash of the case, so a replayed case is always treated the same way)
	if fnv(c.line())%3 != 0 {
		return
	}
	tags = append(tags, "two-run-relations-checked")
	// ---- oracle 2 (two-run relation): nesting follows the same rules — wrapping the whole
	// primary route list into one matcher-less subroute must not change anything observable
	wrapped := []*route{{hs: []*handler{{kind: 's', routes: rs}}}}
	if got2, err := serveReal(wrapped, hasErrs, errs, q, named); err != nil || canon(got2) != canon(got) {
		fails = append(fails, fail("subroute-wrap-changes-outcome",
			fmt.Sprintf("the same routes inside one subroute give %s instead of %s (%v)", canon(got2), canon(got), err)))
	}
	// ---- oracle 4 (two-run relation): the metrics instrumentation wrapped around every handler
	// of the top-level and named routes is transparent to routing
	got4, err4 := func() (observed, error) {
		withMetrics = true
		defer func() { withMetrics = false }()
		return serveReal(rs, hasErrs, errs, q, named)
	}()
	if err4 != nil || canon(got4) != canon(got) {
		fails = append(fails, fail("metrics-instrumentation-changes-outcome",
			fmt.Sprintf("with http metrics enabled the same request gives %s instead of %s (%v)", canon(got4), canon(got), err4)))
	}
	// ---- oracle 3 (two-run relation): a route that does not apply has no effect at all, even
	// if it is terminal and shares a group with later routes
	dead := &route{group: 1, terminal: true,
		sets: [][]*matcher{{{kind: 'a', field: 1, vals: []int{(q.host + 1) % 3}}}},
		hs:   []*handler{{kind: 'r', id: 999999, arg: 599}}}
	if got3, err := serveReal(append([]*route{dead}, rs...), hasErrs, errs, q, named); err != nil || canon(got3) != canon(got) {
		fails = append(fails, fail("inapplicable-route-changes-outcome",
			fmt.Sprintf("prepending a route whose host matcher does not match gives %s instead of %s (%v)", canon(got3), canon(got), err)))
	}
	return
}

// shrunk counts, per failure class, how many failing inputs were minimised in this process.
var shrunk = map[string]int{}

func (prop) Run(line string) (o core.Outcome) {
	f := strings.Fields(line)
	if len(f) == 4 && f[0] == "he" {
		return runHE(line, f)
	}
	if len(f) == 3 && f[0] == "hd" {
		return runHD(line, f)
	}
	if len(f) == 4 && f[0] == "cf" {
		return runCF(line, f)
	}
	if len(f) == 4 && f[0] == "ms" {
		return runMS(line, f)
	}
	if len(f) == 4 && f[0] == "ic" {
		return runIC(line, f)
	}
	if len(f) != 3 && len(f) != 4 {
		return core.Outcome{Impl: "bad-op", Tags: []string{"trivial", "malformed"}}
	}
	var named []*route
	if len(f) == 4 {
		var okn bool
		named, okn = parseRoutes(f[3])
		if !okn || len(named) == 0 || !routesValid(named) || !namedValid(named) {
			return core.Outcome{Impl: "bad-op", Tags: []string{"trivial", "malformed"}}
		}
	}
	rs, ok1 := parseRoutes(f[0])
	q, ok3 := parseReq(f[2])
	hasErrs, errs, ok2 := false, []*route(nil), true
	if f[1] != "-" {
		hasErrs = true
		errs, ok2 = parseRoutes(f[1])
	}
	if !ok1 || !ok2 || !ok3 || !routesValid(rs) || !routesValid(errs) {
		return core.Outcome{Impl: "bad-op", Tags: []string{"trivial", "malformed"}}
	}
	c := tcase{rs, hasErrs, errs, q, named}
	got, tags, fails, err := evaluate(c)
	if err != nil {
		return core.Outcome{Impl: "harness-error", Tags: []string{"harness-error"},
			Failures: []core.Failure{fail("config-rejected", "a route tree over the alphabets could not be provisioned or inspected: "+err.Error())}}
	}
	if len(fails) > 0 {
		// a failing case is evaluated again (fresh provisioning) before it is reported: only what
		// reproduces counts; an observation that does not reproduce is counted in evidence
		got2, _, fails2, err2 := evaluate(c)
		if err2 == nil {
			again := map[string]bool{}
			for _, f := range fails2 {
				again[f.Class] = true
			}
			var kept []core.Failure
			for _, f := range fails {
				if again[f.Class] || f.Class == "concurrent-requests-interfere" { // (a race need not repeat)
					kept = append(kept, f)
				}
			}
			if len(kept) != len(fails) || canon(got2) != canon(got) {
				tags = append(tags, "evaluation-not-reproducible")
				fmt.Fprintf(os.Stderr, "C05: evaluation not reproducible: %s | first %s (%d failures) | again %s (%d failures)\n",
					c.line(), canon(got), len(fails), canon(got2), len(fails2))
				if len(fails2) == 0 {
					got = got2
				}
			}
			fails = kept
		}
	}
	o.Impl, o.Tags = canon(got), tags
	for _, fl := range fails {
		if shrunk[fl.Class] < 4 {
			shrunk[fl.Class]++
			small, sf := shrink(c, fl.Class)
			if sf.Class == fl.Class { // (a shrink whose starting point did not fail again keeps the original)
				fl = sf
				fl.Case = small.line()
			}
		}
		o.Failures = append(o.Failures, fl)
	}
	return o
}
