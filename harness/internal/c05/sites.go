package c05

import (
	"encoding/json"
	"fmt"
	"net/http"
	"net/http/httptest"
	"strconv"
	"strings"

	"github.com/caddyserver/caddy/v2"
	"github.com/caddyserver/caddy/v2/caddyconfig"
	"github.com/caddyserver/caddy/v2/modules/caddyhttp"

	"verif/harness/internal/core"
)

// op `ms`: several Caddyfile sites on one server go through the REAL adapter (site-address
// wrapping: host matcher + subroute + terminal, for routes and error routes; one group counter for
// the whole Caddyfile); the adapted app is provisioned and asked for host H, path P.
//
//	ms <H> <P> <sites>     sites = S (HOST nodes eblocks)^S    HOST 0 = no host (last, once), k = host k-1

type msSite struct {
	host   int // -1: no host
	nodes  []*hdNode
	blocks []cfBlock
}

// siteWritten reads ONE site as written for an error-free or failing request: the status it
// answers ("-" = nothing), and whether a status argument is one the adapter must refuse.
func siteWritten(ns []*hdNode, blocks []cfBlock, p int) (want string, refuse bool, errRaised bool) {
	type eb struct {
		sel      heSel
		body     []*hdNode
		hasMatch bool
		empty    bool
	}
	var ebs []eb
	for _, b := range blocks {
		sel, ok := parseHEArgs(b.args)
		if !ok {
			return "", true, false
		}
		first := len(b.body) > 0 && b.body[0].handle && b.body[0].path >= 0
		ebs = append(ebs, eb{sel, b.body, !sel.any || first, len(b.body) == 0})
	}
	for i := 1; i < len(ebs); i++ {
		for j := i; j > 0; j-- {
			a, b := ebs[j], ebs[j-1]
			if a.empty || b.empty || (!a.hasMatch && b.hasMatch) {
				break
			}
			ebs[j], ebs[j-1] = ebs[j-1], ebs[j]
		}
	}
	want = "-"
	pp := p
	if kind, st := cfEval(ns, &pp); kind == 1 {
		want = strconv.Itoa(st)
	} else if kind == 2 {
		want = strconv.Itoa(st)
		errRaised = true
		pe := p // the error routes see the original URI; the blocks of a site are ONE route list: a handle_path in one block strips the prefix for the blocks behind it too
		for _, b := range ebs {
			if !b.sel.selects(st) {
				continue
			}
			k2, st2 := cfEval(b.body, &pe)
			if k2 == 1 {
				want = strconv.Itoa(st2)
			}
			if k2 != 0 {
				break
			}
		}
	}
	return want, false, errRaised
}

func runMS(line string, f []string) (o core.Outcome) {
	bad := core.Outcome{Impl: "bad-op", Tags: []string{"trivial", "malformed"}}
	h, ok1 := natTok(f[1])
	p, ok2 := natTok(f[2])
	ps := &parser{toks: strings.Split(f[3], ",")}
	var sites []msSite
	for n := ps.count(); n > 0 && !ps.bad; n-- {
		var s msSite
		ht := ps.nat()
		if ht > 3 {
			ps.bad = true
		}
		s.host = ht - 1
		s.nodes = ps.cfNodes(3, true)
		for b := ps.count(); b > 0 && !ps.bad; b-- {
			var bl cfBlock
			for a := ps.count(); a > 0 && !ps.bad; a-- {
				arg, err := core.UnHex(ps.word())
				if err != nil {
					ps.bad = true
				}
				bl.args = append(bl.args, arg)
			}
			bl.body = ps.cfNodes(3, true)
			s.blocks = append(s.blocks, bl)
		}
		sites = append(sites, s)
	}
	if !ok1 || !ok2 || ps.bad || ps.pos != len(ps.toks) || h >= 3 || p >= 6 || len(sites) == 0 || len(sites) > 3 {
		return bad
	}
	seen := map[int]bool{}
	unsafe := false
	for i, s := range sites {
		if (s.host < 0 && i != len(sites)-1) || seen[s.host] || !hdBodyValid(s.nodes) || len(s.blocks) > 2 {
			return bad
		}
		seen[s.host] = true
		for _, b := range s.blocks {
			if len(b.args) > 3 || !hdBodyValid(b.body) {
				return bad
			}
			for _, a := range b.args {
				unsafe = unsafe || !caddyfileSafe(a)
			}
		}
	}
	defer func() {
		if r := recover(); r != nil {
			o = core.Outcome{Impl: "panic", Tags: []string{"panic"},
				Failures: []core.Failure{fail("impl-panic", fmt.Sprint("site adaptation or routing panicked: ", r))}}
		}
	}()
	o.Tags = []string{"op:ms", fmt.Sprintf("ms:sites=%d", len(sites))}

	// ---- the Caddyfile read as written: site blocks do not cascade nor inherit — the request
	// belongs to the first site whose host matches (the site without a host takes the rest), and
	// only that site's directives and handle_errors blocks see it
	want, refuse := "-", false
	picked := -1
	for i, s := range sites {
		if _, r, _ := siteWritten(s.nodes, s.blocks, p); r {
			refuse = true
		}
		if picked < 0 && (s.host < 0 || s.host == h) {
			picked = i
		}
	}
	if picked >= 0 && !refuse {
		var raised bool
		want, _, raised = siteWritten(sites[picked].nodes, sites[picked].blocks, p)
		o.Tags = append(o.Tags, "ms:site-picked")
		if raised {
			o.Tags = append(o.Tags, "ms:error-raised")
		}
	}
	if unsafe {
		o.Impl = "ms err"
		return o
	}
	var b strings.Builder
	for _, s := range sites {
		if s.host >= 0 {
			fmt.Fprintf(&b, "http://%s:8080 {\n", hosts[s.host])
		} else {
			b.WriteString(":8080 {\n")
		}
		hdCaddyfile(&b, s.nodes, "\t")
		for _, bl := range s.blocks {
			b.WriteString("\thandle_errors")
			for _, a := range bl.args {
				b.WriteString(" " + a)
			}
			b.WriteString(" {\n")
			hdCaddyfile(&b, bl.body, "\t\t")
			b.WriteString("\t}\n")
		}
		b.WriteString("}\n")
	}
	out, _, err := caddyconfig.GetAdapter("caddyfile").Adapt([]byte(b.String()), map[string]any{"filename": "Caddyfile"})
	if err != nil {
		o.Impl = "ms err"
		if !refuse {
			o.Failures = append(o.Failures, fail("sites:refused", "the adapter refuses the sites: "+err.Error()))
		}
		return o
	}
	var top struct {
		Apps map[string]json.RawMessage `json:"apps"`
	}
	if err := json.Unmarshal(out, &top); err != nil {
		panic(err)
	}
	var shape struct {
		Servers map[string]struct {
			Routes []jsonRoute `json:"routes"`
			Errors *struct {
				Routes []jsonRoute `json:"routes"`
			} `json:"errors"`
		} `json:"servers"`
	}
	json.Unmarshal(top.Apps["http"], &shape)
	var g1, g2 []string
	st := "-"
	if top.Apps["http"] != nil {
		groupsPreorder(shape.Servers["srv0"].Routes, &g1)
		if e := shape.Servers["srv0"].Errors; e != nil {
			groupsPreorder(e.Routes, &g2)
		}
		bc, err := base()
		if err != nil {
			panic(err)
		}
		ctx, cancel := caddy.NewContext(bc)
		defer cancel()
		v, err := ctx.LoadModuleByID("http", top.Apps["http"])
		if err != nil {
			o.Impl = "ms unloadable"
			o.Failures = append(o.Failures, fail("sites:unloadable", "the adapted config does not load: "+err.Error()))
			return o
		}
		w := &heWriter{h: http.Header{}}
		req := httptest.NewRequest("GET", paths[p], nil)
		req.Host = hosts[h]
		v.(*caddyhttp.App).Servers["srv0"].ServeHTTP(w, req)
		if len(w.codes) > 0 {
			var cs []string
			for _, c := range w.codes {
				cs = append(cs, strconv.Itoa(c))
			}
			st = strings.Join(cs, "+")
		}
	}
	join := func(g []string) string {
		if len(g) == 0 {
			return "-"
		}
		return strings.Join(g, ",")
	}
	o.Impl = "ms s=" + st + " g=" + join(g1) + "|" + join(g2)
	if refuse {
		o.Failures = append(o.Failures, fail("sites:accepted", "the adapter accepts status arguments it should refuse"))
	} else if want != st && picked >= 0 && len(sites[picked].blocks) == 0 && st == msInherited(sites, picked, h, p) {
		// OBSERVATION, not a failure: only sites that have handle_errors get a wrapper in the server's
		// error routes, so the error of a site without any is handled by the handle_errors of a later
		// site block whose address also matches. The server evaluates the emitted route tree exactly by
		// the rules; what the adapter emits here is its design (candidate patch: .run/fixes/C05-site-errors-stay-in-their-site.patch)
		o.Tags = append(o.Tags, "ms:observation:site-error-handled-by-another-sites-handle-errors")
	} else if want != st {
		o.Failures = append(o.Failures, fail("sites:status",
			fmt.Sprintf("%s%s is answered with %s, the Caddyfile says %s (site blocks do not cascade nor inherit)", hosts[h], paths[p], st, want)))
	}
	return o
}

func (g *gen) msLine() string {
	g.nextID = 0
	var e enc
	hostsOrder := []int{0, 1, 2}
	for i := 2; i > 0; i-- {
		j := g.rng.Intn(i + 1)
		hostsOrder[i], hostsOrder[j] = hostsOrder[j], hostsOrder[i]
	}
	n := 1 + g.rng.Intn(3)
	catchAll := g.rng.Chance(1, 2)
	e.n(n)
	for i := 0; i < n; i++ {
		if catchAll && i == n-1 {
			e.n(0)
		} else {
			e.n(hostsOrder[i] + 1)
		}
		encCF(&e, g.cfBody(2))
		nb := g.rng.Intn(3)
		e.n(nb)
		for k := 0; k < nb; k++ {
			na := g.rng.Intn(3)
			e.n(na)
			for j := 0; j < na; j++ {
				e.w(core.Hex(heArgs[g.rng.Intn(11)]))
			}
			encCF(&e, g.cfBody(2))
		}
	}
	return fmt.Sprintf("ms %d %d %s", g.rng.Intn(3), g.rng.Intn(6), strings.Join(e.b, ","))
}

// msInherited: what comes out if the error of a site without handle_errors blocks is handled by
// the handle_errors blocks of the next site (in order) that has some and whose address matches.
func msInherited(sites []msSite, picked, h, p int) string {
	pp := p
	kind, st := cfEval(sites[picked].nodes, &pp)
	if kind != 2 {
		return "?"
	}
	for i := picked + 1; i < len(sites); i++ {
		s := sites[i]
		if len(s.blocks) == 0 || (s.host >= 0 && s.host != h) {
			continue
		}
		// that site's blocks, applied to this error
		fake := []*hdNode{{status: st, isErr: true}}
		w, _, _ := siteWritten(fake, s.blocks, p)
		return w
	}
	return strconv.Itoa(st)
}
