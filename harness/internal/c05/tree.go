// Package c05: HTTP route evaluation (routes.go, subroute.go, server.go, MatchNot) —
// generated route trees are provisioned as a real caddyhttp.App and served through the real
// Server.ServeHTTP; probe handlers/matchers record what ran. The oracle is a direct
// interpreter of the documented routing rules, evaluated against the implementation alone.
package c05

import (
	"fmt"
	"strconv"
	"strings"
)

// alphabets (the Lean driver only sees the indices)
var (
	methods = []string{"GET", "POST"}
	hosts   = []string{"a.test", "b.test", "c.test"}
	paths   = []string{"/", "/a", "/a/b", "/b", "/c", "/a/c"}
	hdrVals = []string{"", "1", "2"} // header X-T; index 0 = absent
)

const hdrName = "X-T"

var fieldSize = []int{2, 3, 6, 3}

type matcher struct {
	kind   byte // 'a' atom, 'e' error matcher, 'l' legacy RequestMatcher (answers ekind == 1), 'n' not,
	// 'c' / 'k': real expression matcher on {http.error.status_code}: in vals[0]..vals[1] / one of vals
	field  int  // atom: 0 method 1 host 2 path 3 header
	vals   []int
	ekind  int // error matcher: 0 (false,err) 1 (true,err) 2 legacy Match+var
	status int
	sets   [][]*matcher // not
}

type handler struct {
	kind    byte // 'p' pass 'r' respond 'w' rewrite 'f' fail 's' subroute; 'x' real error handler, 'y' real static_response
	id      int
	arg     int // status or path index; x/y: status source (0 none, 1 "{http.error.status_code}", 2 not a number, else the number)
	routes  []*route
	hasErrs bool
	errs    []*route
}

type route struct {
	group    int
	terminal bool
	sets     [][]*matcher
	hs       []*handler
}

type request struct{ method, host, path, hdr int }

// natTok is the strict decimal of the protocol: digits only, no sign, no leading zero, ≤ 9 digits.
func natTok(s string) (int, bool) {
	if len(s) == 0 || len(s) > 9 {
		return 0, false
	}
	if len(s) > 1 && s[0] == '0' {
		return 0, false
	}
	for i := 0; i < len(s); i++ {
		if s[i] < '0' || s[i] > '9' {
			return 0, false
		}
	}
	n, err := strconv.Atoi(s)
	return n, err == nil
}

type parser struct {
	toks []string
	pos  int
	bad  bool
}

func (p *parser) nat() int {
	if p.bad || p.pos >= len(p.toks) {
		p.bad = true
		return 0
	}
	n, ok := natTok(p.toks[p.pos])
	if !ok {
		p.bad = true
		return 0
	}
	p.pos++
	return n
}

func (p *parser) word() string {
	if p.bad || p.pos >= len(p.toks) {
		p.bad = true
		return ""
	}
	p.pos++
	return p.toks[p.pos-1]
}

// count reads a repetition count; counts larger than the remaining input are malformed.
func (p *parser) count() int {
	n := p.nat()
	if n > len(p.toks)-p.pos {
		p.bad = true
		return 0
	}
	return n
}

func (p *parser) matcher() *matcher {
	switch p.word() {
	case "a":
		m := &matcher{kind: 'a', field: p.nat()}
		if m.field > 3 {
			p.bad = true
		}
		for n := p.count(); n > 0 && !p.bad; n-- {
			m.vals = append(m.vals, p.nat())
		}
		return m
	case "e":
		return &matcher{kind: 'e', ekind: p.nat(), status: p.nat()}
	case "c":
		return &matcher{kind: 'c', vals: []int{p.nat(), p.nat()}}
	case "k":
		m := &matcher{kind: 'k'}
		for n := p.count(); n > 0 && !p.bad; n-- {
			m.vals = append(m.vals, p.nat())
		}
		return m
	case "l":
		m := &matcher{kind: 'l', ekind: p.nat()}
		if m.ekind > 1 {
			p.bad = true
		}
		return m
	case "n":
		m := &matcher{kind: 'n'}
		for n := p.count(); n > 0 && !p.bad; n-- {
			m.sets = append(m.sets, p.set())
		}
		return m
	}
	p.bad = true
	return nil
}

func (p *parser) set() []*matcher {
	set := []*matcher{}
	for n := p.count(); n > 0 && !p.bad; n-- {
		set = append(set, p.matcher())
	}
	return set
}

func (p *parser) handler() *handler {
	switch p.word() {
	case "p":
		return &handler{kind: 'p', id: p.nat()}
	case "r":
		return &handler{kind: 'r', id: p.nat(), arg: p.nat()}
	case "w":
		return &handler{kind: 'w', id: p.nat(), arg: p.nat()}
	case "f":
		return &handler{kind: 'f', id: p.nat(), arg: p.nat()}
	case "i":
		return &handler{kind: 'i', arg: p.nat()}
	case "z":
		return &handler{kind: 'z'}
	case "x":
		return &handler{kind: 'x', arg: p.nat()}
	case "y":
		return &handler{kind: 'y', arg: p.nat()}
	case "s":
		h := &handler{kind: 's', routes: p.routes()}
		switch p.nat() {
		case 0:
		case 1:
			h.hasErrs = true
			h.errs = p.routes()
		default:
			p.bad = true
		}
		return h
	}
	p.bad = true
	return nil
}

func (p *parser) route() *route {
	r := &route{group: p.nat()}
	switch p.nat() {
	case 0:
	case 1:
		r.terminal = true
	default:
		p.bad = true
	}
	for n := p.count(); n > 0 && !p.bad; n-- {
		r.sets = append(r.sets, p.set())
	}
	for n := p.count(); n > 0 && !p.bad; n-- {
		r.hs = append(r.hs, p.handler())
	}
	return r
}

func (p *parser) routes() []*route {
	rs := []*route{}
	for n := p.count(); n > 0 && !p.bad; n-- {
		rs = append(rs, p.route())
	}
	return rs
}

func parseRoutes(s string) ([]*route, bool) {
	p := &parser{toks: strings.Split(s, ",")}
	rs := p.routes()
	if p.bad || p.pos != len(p.toks) {
		return nil, false
	}
	return rs, true
}

func parseReq(s string) (request, bool) {
	f := strings.Split(s, ",")
	if len(f) != 4 {
		return request{}, false
	}
	var v [4]int
	for i := range f {
		n, ok := natTok(f[i])
		if !ok {
			return request{}, false
		}
		v[i] = n
	}
	if v[0] >= 2 || v[1] >= 3 || v[2] >= 6 || v[3] >= 3 {
		return request{}, false
	}
	return request{v[0], v[1], v[2], v[3]}, true
}

// ---- validation: what can be expressed as a caddy JSON config over the alphabets

func errStatusOK(st int) bool { return st == 0 || (st >= 400 && st <= 599) }

func kindKey(m *matcher) int {
	switch m.kind {
	case 'a':
		return m.field
	case 'e':
		return 4 + m.ekind
	case 'l':
		return 8 + m.ekind
	case 'c', 'k':
		return 10
	}
	return 7
}

func setsValid(sets [][]*matcher) bool {
	for _, s := range sets {
		seen := map[int]bool{}
		for _, m := range s {
			switch m.kind {
			case 'a':
				if len(m.vals) == 0 {
					return false
				}
				for _, v := range m.vals {
					if v >= fieldSize[m.field] || (m.field == 3 && v < 1) {
						return false
					}
				}
			case 'e':
				if m.ekind >= 3 || !errStatusOK(m.status) {
					return false
				}
			case 'c', 'k':
				if len(m.vals) == 0 {
					return false
				}
				for _, v := range m.vals {
					if v < 100 || v > 599 {
						return false
					}
				}
			case 'n':
				if !setsValid(m.sets) {
					return false
				}
			}
			if seen[kindKey(m)] {
				return false
			}
			seen[kindKey(m)] = true
		}
	}
	return true
}

func routesValid(rs []*route) bool {
	for _, r := range rs {
		if !setsValid(r.sets) {
			return false
		}
		for _, h := range r.hs {
			switch h.kind {
			case 'r':
				if h.arg < 200 || h.arg > 599 {
					return false
				}
			case 'w':
				if h.arg >= 6 {
					return false
				}
			case 'f':
				if !errStatusOK(h.arg) {
					return false
				}
			case 'i':
				if h.arg < 1 {
					return false
				}
			case 'x':
				if h.arg > 2 && (h.arg < 400 || h.arg > 599) {
					return false
				}
			case 'y':
				if h.arg > 2 && (h.arg < 200 || h.arg > 599) && h.arg != 103 {
					return false
				}
			case 's':
				if !routesValid(h.routes) || !routesValid(h.errs) {
					return false
				}
			}
		}
	}
	return true
}

// ---- encoder

type enc struct{ b []string }

func (e *enc) n(v int)       { e.b = append(e.b, strconv.Itoa(v)) }
func (e *enc) w(s string)    { e.b = append(e.b, s) }
func (e *enc) bool01(v bool) { e.n(map[bool]int{false: 0, true: 1}[v]) }

func (e *enc) sets(sets [][]*matcher) {
	e.n(len(sets))
	for _, s := range sets {
		e.n(len(s))
		for _, m := range s {
			switch m.kind {
			case 'a':
				e.w("a")
				e.n(m.field)
				e.n(len(m.vals))
				for _, v := range m.vals {
					e.n(v)
				}
			case 'e':
				e.w("e")
				e.n(m.ekind)
				e.n(m.status)
			case 'l':
				e.w("l")
				e.n(m.ekind)
			case 'c':
				e.w("c")
				e.n(m.vals[0])
				e.n(m.vals[1])
			case 'k':
				e.w("k")
				e.n(len(m.vals))
				for _, v := range m.vals {
					e.n(v)
				}
			case 'n':
				e.w("n")
				e.sets(m.sets)
			}
		}
	}
}

func (e *enc) routes(rs []*route) {
	e.n(len(rs))
	for _, r := range rs {
		e.n(r.group)
		e.bool01(r.terminal)
		e.sets(r.sets)
		e.n(len(r.hs))
		for _, h := range r.hs {
			e.w(string(h.kind))
			switch h.kind {
			case 'p':
				e.n(h.id)
			case 'r', 'w', 'f':
				e.n(h.id)
				e.n(h.arg)
			case 'x', 'y', 'i':
				e.n(h.arg)
			case 'z':
			case 's':
				e.routes(h.routes)
				e.bool01(h.hasErrs)
				if h.hasErrs {
					e.routes(h.errs)
				}
			}
		}
	}
}

func encRoutes(rs []*route) string {
	e := &enc{}
	e.routes(rs)
	return strings.Join(e.b, ",")
}

func encCase(rs []*route, hasErrs bool, errs []*route, q request, named []*route) string {
	es := "-"
	if hasErrs {
		es = encRoutes(errs)
	}
	s := fmt.Sprintf("%s %s %d,%d,%d,%d", encRoutes(rs), es, q.method, q.host, q.path, q.hdr)
	if len(named) > 0 {
		s += " " + encRoutes(named)
	}
	return s
}

// ---- named routes: the route named j may only invoke names > j (no cycles)

func invGt(b int, rs []*route) bool {
	for _, r := range rs {
		for _, h := range r.hs {
			switch h.kind {
			case 'i':
				if h.arg <= b {
					return false
				}
			case 's':
				if !invGt(b, h.routes) || !invGt(b, h.errs) {
					return false
				}
			}
		}
	}
	return true
}

func namedValid(named []*route) bool {
	for j, r := range named {
		if !invGt(j+1, []*route{r}) {
			return false
		}
	}
	return true
}

// inlineNamed resolves invoke handlers by substitution (Model.lean: inlineNamed): an invoke of a
// defined name is a subroute holding that one route; unknown names stay.
func inlineNamed(named, rs []*route) []*route {
	for round := 0; round < len(named); round++ {
		rs = inlineOnce(named, rs)
	}
	return rs
}

func inlineOnce(named, rs []*route) []*route {
	if rs == nil {
		return nil
	}
	out := make([]*route, len(rs))
	for i, r := range rs {
		c := *r
		c.hs = make([]*handler, len(r.hs))
		for j, h := range r.hs {
			hc := *h
			switch h.kind {
			case 'i':
				if h.arg >= 1 && h.arg <= len(named) {
					hc = handler{kind: 's', routes: []*route{named[h.arg-1]}}
				}
			case 's':
				hc.routes = inlineOnce(named, h.routes)
				hc.errs = inlineOnce(named, h.errs)
			}
			c.hs[j] = &hc
		}
		out[i] = &c
	}
	return out
}
