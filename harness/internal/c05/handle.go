package c05

import (
	"encoding/json"
	"fmt"
	"net/http"
	"net/http/httptest"
	"strconv"
	"strings"

	"github.com/caddyserver/caddy/v2"
	"github.com/caddyserver/caddy/v2/caddyconfig"
	"github.com/caddyserver/caddy/v2/modules/caddyhttp"

	"verif/harness/internal/core"
)

// op `hd`: a Caddyfile site of nested `handle [<path>] { … }` blocks and `respond <status>` goes
// through the REAL adapter; the adapted app is provisioned and asked for path P.
//
//	hd <P> <nodes>     nodes = N node^N, node = h PATH nodes | r ST     (PATH 0 = no matcher, k = path k-1)

type hdNode struct {
	handle bool
	path   int // -1: no matcher
	status int
	isErr  bool // leaf `error <status>` instead of `respond <status>` (op cf only)
	body   []*hdNode
}

func (p *parser) hdNodes(depth int) []*hdNode { return p.cfNodes(depth, false) }

func (p *parser) cfNodes(depth int, errLeaves bool) []*hdNode {
	ns := []*hdNode{}
	for n := p.count(); n > 0 && !p.bad; n-- {
		switch p.word() {
		case "r":
			ns = append(ns, &hdNode{status: p.nat()})
		case "f":
			if !errLeaves {
				p.bad = true
				return nil
			}
			ns = append(ns, &hdNode{status: p.nat(), isErr: true})
		case "h":
			pt := p.nat()
			if pt > 7 || depth == 0 {
				p.bad = true
				return nil
			}
			path := pt - 1
			if pt == 7 {
				path = 100 // handle_path /a/*
			}
			ns = append(ns, &hdNode{handle: true, path: path, body: p.cfNodes(depth-1, errLeaves)})
		default:
			p.bad = true
		}
	}
	return ns
}

// hdBodyValid: the order sortRoutes leaves (longer paths first, the matcher-less handle last, then
// one respond at most), no two handles with the same matcher (they would be consolidated).
func hdBodyValid(ns []*hdNode) bool {
	if len(ns) > 4 {
		return false
	}
	seen := map[int]bool{}
	plen := func(p int) int {
		if p == 100 {
			return 4
		}
		return pathLen[p]
	}
	for _, n := range ns {
		if n.handle && n.path >= 0 {
			if seen[n.path] {
				return false
			}
			seen[n.path] = true
		}
	}
	if seen[100] && (seen[2] || seen[5]) {
		return false // handle_path /a/* next to /a/b or /a/c: their order is the adapter sort's business
	}
	seen = map[int]bool{}
	for i, n := range ns {
		if !n.handle {
			lo := 200
			if n.isErr {
				lo = 400
			}
			if n.status < lo || n.status > 599 || i != len(ns)-1 {
				return false
			}
			continue
		}
		if n.path >= 0 {
			if seen[n.path] {
				return false
			}
			seen[n.path] = true
		}
		if i > 0 {
			prev := ns[i-1]
			if prev.path < 0 || (n.path >= 0 && plen(prev.path) < plen(n.path)) {
				return false
			}
		}
		if !hdBodyValid(n.body) {
			return false
		}
	}
	return true
}

func hdCaddyfile(b *strings.Builder, ns []*hdNode, ind string) {
	for _, n := range ns {
		if !n.handle {
			fmt.Fprintf(b, "%s%s %d\n", ind, map[bool]string{false: "respond", true: "error"}[n.isErr], n.status)
			continue
		}
		if n.path == 100 {
			fmt.Fprintf(b, "%shandle_path /a/* {\n", ind)
		} else if n.path >= 0 {
			fmt.Fprintf(b, "%shandle %s {\n", ind, paths[n.path])
		} else {
			fmt.Fprintf(b, "%shandle {\n", ind)
		}
		hdCaddyfile(b, n.body, ind+"\t")
		b.WriteString(ind + "}\n")
	}
}

// hdExpect reads the Caddyfile as written: of the handle blocks of one body only the first whose
// matcher matches is evaluated; what it does not answer goes on to the body's respond, then up.
func hdExpect(ns []*hdNode, p int) (status int, answered bool) {
	if k, st := cfEval(ns, &p); k == 1 {
		return st, true
	}
	return 0, false
}

// nodeMatches: handle_path /a/* (100) matches /a/b and /a/c
func nodeMatches(n *hdNode, p int) bool {
	if n.path == 100 {
		return p == 2 || p == 5
	}
	return n.path < 0 || n.path == p
}

type jsonRoute struct {
	Group  string `json:"group"`
	Handle []struct {
		Handler string      `json:"handler"`
		Routes  []jsonRoute `json:"routes"`
	} `json:"handle"`
}

func groupsPreorder(rs []jsonRoute, out *[]string) {
	for _, r := range rs {
		g := "-"
		if r.Group != "" {
			g = strings.TrimPrefix(r.Group, "group")
		}
		*out = append(*out, g)
		for _, h := range r.Handle {
			if h.Handler == "subroute" {
				groupsPreorder(h.Routes, out)
			}
		}
	}
}

func runHD(line string, f []string) (o core.Outcome) {
	p, ok := natTok(f[1])
	ps := &parser{toks: strings.Split(f[2], ",")}
	ns := ps.hdNodes(3)
	if !ok || ps.bad || ps.pos != len(ps.toks) || p >= 6 || !hdBodyValid(ns) {
		return core.Outcome{Impl: "bad-op", Tags: []string{"trivial", "malformed"}}
	}
	defer func() {
		if r := recover(); r != nil {
			o = core.Outcome{Impl: "panic", Tags: []string{"panic"},
				Failures: []core.Failure{fail("impl-panic", fmt.Sprint("handle adaptation or routing panicked: ", r))}}
		}
	}()
	var b strings.Builder
	b.WriteString(":8080 {\n")
	hdCaddyfile(&b, ns, "\t")
	b.WriteString("}\n")
	out, _, err := caddyconfig.GetAdapter("caddyfile").Adapt([]byte(b.String()), map[string]any{"filename": "Caddyfile"})
	if err != nil {
		return core.Outcome{Impl: "hd err", Tags: []string{"op:hd"},
			Failures: []core.Failure{fail("handle:refused", "the adapter refuses a site of handle blocks: "+err.Error())}}
	}
	var top struct {
		Apps map[string]json.RawMessage `json:"apps"`
	}
	if err := json.Unmarshal(out, &top); err != nil {
		panic(err)
	}
	var shape struct {
		Servers map[string]struct {
			Routes []jsonRoute `json:"routes"`
		} `json:"servers"`
	}
	json.Unmarshal(top.Apps["http"], &shape)
	var groups []string
	st := "-"
	if len(ns) > 0 { // an empty site has no http app at all
		groupsPreorder(shape.Servers["srv0"].Routes, &groups)
		bc, err := base()
		if err != nil {
			panic(err)
		}
		ctx, cancel := caddy.NewContext(bc)
		defer cancel()
		v, err := ctx.LoadModuleByID("http", top.Apps["http"])
		if err != nil {
			return core.Outcome{Impl: "hd unloadable", Tags: []string{"op:hd"},
				Failures: []core.Failure{fail("handle:unloadable", "the adapted config does not load: "+err.Error())}}
		}
		w := &heWriter{h: http.Header{}}
		v.(*caddyhttp.App).Servers["srv0"].ServeHTTP(w, httptest.NewRequest("GET", paths[p], nil))
		if len(w.codes) > 0 {
			var cs []string
			for _, c := range w.codes {
				cs = append(cs, strconv.Itoa(c))
			}
			st = strings.Join(cs, "+")
		}
	}
	gs := "-"
	if len(groups) > 0 {
		gs = strings.Join(groups, ",")
	}
	o.Impl = "hd s=" + st + " g=" + gs
	o.Tags = []string{"op:hd"}
	want, answered := hdExpect(ns, p)
	ws := "-"
	if answered {
		ws = strconv.Itoa(want)
		o.Tags = append(o.Tags, "hd:answered")
	}
	if ws != st {
		o.Failures = append(o.Failures, fail("handle:status",
			fmt.Sprintf("%s is answered with %s, the Caddyfile says %s (only the first matching handle block of a body is evaluated)", paths[p], st, ws)))
	}
	return o
}

// ---- generator

func (g *gen) hdBody(depth int) []*hdNode {
	var ns []*hdNode
	cands := []int{2, 5, 1, 3, 4, 0}
	if g.rng.Chance(1, 3) {
		cands = []int{100, 1, 3, 4, 0} // handle_path /a/* instead of /a/b and /a/c
	}
	for _, p := range cands {
		if len(ns) < 3 && depth > 0 && g.rng.Chance(1, 4) {
			ns = append(ns, &hdNode{handle: true, path: p, body: g.hdBody(depth - 1)})
		}
	}
	if len(ns) < 3 && depth > 0 && g.rng.Chance(1, 3) {
		ns = append(ns, &hdNode{handle: true, path: -1, body: g.hdBody(depth - 1)})
	}
	if g.rng.Chance(1, 2) {
		g.nextID++
		ns = append(ns, &hdNode{status: 200 + g.nextID%50})
	}
	return ns
}

func encHD(e *enc, ns []*hdNode) {
	e.n(len(ns))
	for _, n := range ns {
		if n.handle {
			e.w("h")
			if n.path == 100 {
				e.n(7)
			} else {
				e.n(n.path + 1)
			}
			encHD(e, n.body)
		} else {
			e.w("r")
			e.n(n.status)
		}
	}
}

func (g *gen) hdLine() string {
	g.nextID = 0
	var e enc
	encHD(&e, g.hdBody(3))
	return fmt.Sprintf("hd %d %s", g.rng.Intn(6), strings.Join(e.b, ","))
}

// ---------------------------------------------------------------- op cf: a whole site
//
//	cf <P> <nodes> <eblocks>     nodes as in hd plus the leaf `f ST` (= `error ST`);
//	                             eblocks = B (A hexarg^A nodes)^B  (= `handle_errors <args> { nodes }`)

type cfBlock struct {
	args []string
	body []*hdNode
}

// cfEval reads a body as written: 0 passed on, 1 answered with st, 2 failed with st.
func cfEval(ns []*hdNode, p *int) (kind, st int) {
	taken := false
	for _, n := range ns {
		if !n.handle {
			if n.isErr {
				return 2, n.status
			}
			return 1, n.status
		}
		if taken || !nodeMatches(n, *p) {
			continue
		}
		taken = true
		if n.path == 100 {
			*p = stripPath(*p) // handle_path strips the prefix; the path stays stripped afterwards
		}
		if k, st := cfEval(n.body, p); k != 0 {
			return k, st
		}
	}
	return 0, 0
}

func runCF(line string, f []string) (o core.Outcome) {
	bad := core.Outcome{Impl: "bad-op", Tags: []string{"trivial", "malformed"}}
	p, ok := natTok(f[1])
	ps := &parser{toks: strings.Split(f[2], ",")}
	ns := ps.cfNodes(3, true)
	if !ok || ps.bad || ps.pos != len(ps.toks) || p >= 6 || !hdBodyValid(ns) {
		return bad
	}
	pe := &parser{toks: strings.Split(f[3], ",")}
	var blocks []cfBlock
	for n := pe.count(); n > 0 && !pe.bad; n-- {
		var b cfBlock
		for a := pe.count(); a > 0 && !pe.bad; a-- {
			arg, err := core.UnHex(pe.word())
			if err != nil {
				pe.bad = true
			}
			b.args = append(b.args, arg)
		}
		b.body = pe.cfNodes(3, true)
		blocks = append(blocks, b)
	}
	if pe.bad || pe.pos != len(pe.toks) || len(blocks) > 3 {
		return bad
	}
	unsafe := false
	for _, b := range blocks {
		if len(b.args) > 3 || !hdBodyValid(b.body) {
			return bad
		}
		for _, a := range b.args {
			unsafe = unsafe || !caddyfileSafe(a)
		}
	}
	defer func() {
		if r := recover(); r != nil {
			o = core.Outcome{Impl: "panic", Tags: []string{"panic"},
				Failures: []core.Failure{fail("impl-panic", fmt.Sprint("site adaptation or routing panicked: ", r))}}
		}
	}()
	o.Tags = []string{"op:cf"}

	// ---- the site read as written
	verdictErr := false
	type eb struct {
		sel      heSel
		body     []*hdNode
		hasMatch bool
		empty    bool
	}
	var ebs []eb
	for _, b := range blocks {
		sel, ok := parseHEArgs(b.args)
		if !ok {
			verdictErr = true
			break
		}
		// what the adapter's block sort looks at: does the block have routes, does its first route carry a matcher
		first := len(b.body) > 0 && b.body[0].handle && b.body[0].path >= 0 // (handle_path included)
		ebs = append(ebs, eb{sel, b.body, !sel.any || first, len(b.body) == 0})
	}
	for i := 1; i < len(ebs) && !verdictErr; i++ {
		for j := i; j > 0; j-- {
			a, b := ebs[j], ebs[j-1]
			if a.empty || b.empty || (!a.hasMatch && b.hasMatch) {
				break
			}
			ebs[j], ebs[j-1] = ebs[j-1], ebs[j]
		}
	}
	want := "-"
	pp := p
	if kind, st := cfEval(ns, &pp); kind == 1 {
		want = strconv.Itoa(st)
	} else if kind == 2 {
		want = strconv.Itoa(st) // nobody handles it: the error's status
		o.Tags = append(o.Tags, "cf:error-raised")
		pe := p // the error routes see the original URI; a handle_path in one block strips the prefix for the blocks behind it too
		for _, b := range ebs {
			if !b.sel.selects(st) {
				continue
			}
			k2, st2 := cfEval(b.body, &pe)
			if k2 == 1 {
				want = strconv.Itoa(st2)
				o.Tags = append(o.Tags, "cf:error-route-answers")
			}
			if k2 != 0 {
				break // answered, or failed again: the first error's status
			}
		}
	}

	if unsafe {
		o.Impl = "cf err"
		return o
	}
	var b strings.Builder
	b.WriteString(":8080 {\n")
	hdCaddyfile(&b, ns, "\t")
	for _, bl := range blocks {
		b.WriteString("\thandle_errors")
		for _, a := range bl.args {
			b.WriteString(" " + a)
		}
		b.WriteString(" {\n")
		hdCaddyfile(&b, bl.body, "\t\t")
		b.WriteString("\t}\n")
	}
	b.WriteString("}\n")
	out, _, err := caddyconfig.GetAdapter("caddyfile").Adapt([]byte(b.String()), map[string]any{"filename": "Caddyfile"})
	if err != nil {
		o.Impl = "cf err"
		if !verdictErr {
			o.Failures = append(o.Failures, fail("site:refused", "the adapter refuses the site: "+err.Error()))
		}
		return o
	}
	var top struct {
		Apps map[string]json.RawMessage `json:"apps"`
	}
	if err := json.Unmarshal(out, &top); err != nil {
		panic(err)
	}
	var shape struct {
		Servers map[string]struct {
			Routes []jsonRoute `json:"routes"`
			Errors *struct {
				Routes []jsonRoute `json:"routes"`
			} `json:"errors"`
		} `json:"servers"`
	}
	json.Unmarshal(top.Apps["http"], &shape)
	var g1, g2 []string
	st := "-"
	if top.Apps["http"] != nil {
		groupsPreorder(shape.Servers["srv0"].Routes, &g1)
		if e := shape.Servers["srv0"].Errors; e != nil {
			groupsPreorder(e.Routes, &g2)
		}
		bc, err := base()
		if err != nil {
			panic(err)
		}
		ctx, cancel := caddy.NewContext(bc)
		defer cancel()
		v, err := ctx.LoadModuleByID("http", top.Apps["http"])
		if err != nil {
			o.Impl = "cf unloadable"
			o.Failures = append(o.Failures, fail("site:unloadable", "the adapted config does not load: "+err.Error()))
			return o
		}
		w := &heWriter{h: http.Header{}}
		v.(*caddyhttp.App).Servers["srv0"].ServeHTTP(w, httptest.NewRequest("GET", paths[p], nil))
		if len(w.codes) > 0 {
			var cs []string
			for _, c := range w.codes {
				cs = append(cs, strconv.Itoa(c))
			}
			st = strings.Join(cs, "+")
		}
	}
	join := func(g []string) string {
		if len(g) == 0 {
			return "-"
		}
		return strings.Join(g, ",")
	}
	o.Impl = "cf s=" + st + " g=" + join(g1) + "|" + join(g2)
	if verdictErr {
		o.Failures = append(o.Failures, fail("site:accepted", "the adapter accepts status arguments it should refuse"))
	} else if want != st {
		o.Failures = append(o.Failures, fail("site:status",
			fmt.Sprintf("%s is answered with %s, the Caddyfile says %s", paths[p], st, want)))
	}
	return o
}

func (g *gen) cfBody(depth int) []*hdNode {
	ns := g.hdBody(depth)
	// turn some respond leaves into error leaves
	var walk func(ns []*hdNode)
	walk = func(ns []*hdNode) {
		for _, n := range ns {
			if n.handle {
				walk(n.body)
			} else if g.rng.Chance(2, 5) {
				n.isErr = true
				n.status = []int{400, 403, 404, 410, 500, 503}[g.rng.Intn(6)]
			}
		}
	}
	walk(ns)
	return ns
}

func encCF(e *enc, ns []*hdNode) {
	e.n(len(ns))
	for _, n := range ns {
		switch {
		case n.handle:
			e.w("h")
			if n.path == 100 {
				e.n(7)
			} else {
				e.n(n.path + 1)
			}
			encCF(e, n.body)
		case n.isErr:
			e.w("f")
			e.n(n.status)
		default:
			e.w("r")
			e.n(n.status)
		}
	}
}

func (g *gen) cfLine() string {
	g.nextID = 0
	var e1, e2 enc
	encCF(&e1, g.cfBody(3))
	nb := g.rng.Intn(4)
	e2.n(nb)
	for i := 0; i < nb; i++ {
		na := g.rng.Intn(3)
		e2.n(na)
		for j := 0; j < na; j++ {
			a := heArgs[g.rng.Intn(11)]
			if g.rng.Chance(1, 15) {
				a = heArgs[g.rng.Intn(len(heArgs))]
			}
			e2.w(core.Hex(a))
		}
		encCF(&e2, g.cfBody(2))
	}
	return fmt.Sprintf("cf %d %s %s", g.rng.Intn(6), strings.Join(e1.b, ","), strings.Join(e2.b, ","))
}
