package c05

import (
	"encoding/json"
	"fmt"
	"net/http"
	"net/http/httptest"
	"strconv"
	"strings"

	"github.com/caddyserver/caddy/v2"
	"github.com/caddyserver/caddy/v2/caddyconfig"
	"github.com/caddyserver/caddy/v2/modules/caddyhttp"

	"verif/harness/internal/core"
)

// op `hd`: a Caddyfile site of nested `handle [<path>] { … }` blocks and `respond <status>` goes
// through the REAL adapter; the adapted app is provisioned and asked for path P.
//
//	hd <P> <nodes>     nodes = N node^N, node = h PATH nodes | r ST     (PATH 0 = no matcher, k = path k-1)

type hdNode struct {
	handle bool
	path   int // -1: no matcher
	status int
	body   []*hdNode
}

func (p *parser) hdNodes(depth int) []*hdNode {
	ns := []*hdNode{}
	for n := p.count(); n > 0 && !p.bad; n-- {
		switch p.word() {
		case "r":
			ns = append(ns, &hdNode{status: p.nat()})
		case "h":
			pt := p.nat()
			if pt > 6 || depth == 0 {
				p.bad = true
				return nil
			}
			ns = append(ns, &hdNode{handle: true, path: pt - 1, body: p.hdNodes(depth - 1)})
		default:
			p.bad = true
		}
	}
	return ns
}

// hdBodyValid: the order sortRoutes leaves (longer paths first, the matcher-less handle last, then
// one respond at most), no two handles with the same matcher (they would be consolidated).
func hdBodyValid(ns []*hdNode) bool {
	if len(ns) > 4 {
		return false
	}
	seen := map[int]bool{}
	for i, n := range ns {
		if !n.handle {
			if n.status < 200 || n.status > 599 || i != len(ns)-1 {
				return false
			}
			continue
		}
		if n.path >= 0 {
			if seen[n.path] {
				return false
			}
			seen[n.path] = true
		}
		if i > 0 {
			prev := ns[i-1]
			if prev.path < 0 || (n.path >= 0 && pathLen[prev.path] < pathLen[n.path]) {
				return false
			}
		}
		if !hdBodyValid(n.body) {
			return false
		}
	}
	return true
}

func hdCaddyfile(b *strings.Builder, ns []*hdNode, ind string) {
	for _, n := range ns {
		if !n.handle {
			fmt.Fprintf(b, "%srespond %d\n", ind, n.status)
			continue
		}
		if n.path >= 0 {
			fmt.Fprintf(b, "%shandle %s {\n", ind, paths[n.path])
		} else {
			fmt.Fprintf(b, "%shandle {\n", ind)
		}
		hdCaddyfile(b, n.body, ind+"\t")
		b.WriteString(ind + "}\n")
	}
}

// hdExpect reads the Caddyfile as written: of the handle blocks of one body only the first whose
// matcher matches is evaluated; what it does not answer goes on to the body's respond, then up.
func hdExpect(ns []*hdNode, p int) (status int, answered bool) {
	taken := false
	for _, n := range ns {
		if !n.handle {
			return n.status, true
		}
		if taken || (n.path >= 0 && n.path != p) {
			continue
		}
		taken = true
		if st, ok := hdExpect(n.body, p); ok {
			return st, true
		}
	}
	return 0, false
}

type jsonRoute struct {
	Group  string `json:"group"`
	Handle []struct {
		Handler string      `json:"handler"`
		Routes  []jsonRoute `json:"routes"`
	} `json:"handle"`
}

func groupsPreorder(rs []jsonRoute, out *[]string) {
	for _, r := range rs {
		g := "-"
		if r.Group != "" {
			g = strings.TrimPrefix(r.Group, "group")
		}
		*out = append(*out, g)
		for _, h := range r.Handle {
			if h.Handler == "subroute" {
				groupsPreorder(h.Routes, out)
			}
		}
	}
}

func runHD(line string, f []string) (o core.Outcome) {
	p, ok := natTok(f[1])
	ps := &parser{toks: strings.Split(f[2], ",")}
	ns := ps.hdNodes(3)
	if !ok || ps.bad || ps.pos != len(ps.toks) || p >= 6 || !hdBodyValid(ns) {
		return core.Outcome{Impl: "bad-op", Tags: []string{"trivial", "malformed"}}
	}
	defer func() {
		if r := recover(); r != nil {
			o = core.Outcome{Impl: "panic", Tags: []string{"panic"},
				Failures: []core.Failure{fail("impl-panic", fmt.Sprint("handle adaptation or routing panicked: ", r))}}
		}
	}()
	var b strings.Builder
	b.WriteString(":8080 {\n")
	hdCaddyfile(&b, ns, "\t")
	b.WriteString("}\n")
	out, _, err := caddyconfig.GetAdapter("caddyfile").Adapt([]byte(b.String()), map[string]any{"filename": "Caddyfile"})
	if err != nil {
		return core.Outcome{Impl: "hd err", Tags: []string{"op:hd"},
			Failures: []core.Failure{fail("handle:refused", "the adapter refuses a site of handle blocks: "+err.Error())}}
	}
	var top struct {
		Apps map[string]json.RawMessage `json:"apps"`
	}
	if err := json.Unmarshal(out, &top); err != nil {
		panic(err)
	}
	var shape struct {
		Servers map[string]struct {
			Routes []jsonRoute `json:"routes"`
		} `json:"servers"`
	}
	json.Unmarshal(top.Apps["http"], &shape)
	var groups []string
	st := "-"
	if len(ns) > 0 { // an empty site has no http app at all
		groupsPreorder(shape.Servers["srv0"].Routes, &groups)
		bc, err := base()
		if err != nil {
			panic(err)
		}
		ctx, cancel := caddy.NewContext(bc)
		defer cancel()
		v, err := ctx.LoadModuleByID("http", top.Apps["http"])
		if err != nil {
			return core.Outcome{Impl: "hd unloadable", Tags: []string{"op:hd"},
				Failures: []core.Failure{fail("handle:unloadable", "the adapted config does not load: "+err.Error())}}
		}
		w := &heWriter{h: http.Header{}}
		v.(*caddyhttp.App).Servers["srv0"].ServeHTTP(w, httptest.NewRequest("GET", paths[p], nil))
		if len(w.codes) > 0 {
			var cs []string
			for _, c := range w.codes {
				cs = append(cs, strconv.Itoa(c))
			}
			st = strings.Join(cs, "+")
		}
	}
	gs := "-"
	if len(groups) > 0 {
		gs = strings.Join(groups, ",")
	}
	o.Impl = "hd s=" + st + " g=" + gs
	o.Tags = []string{"op:hd"}
	want, answered := hdExpect(ns, p)
	ws := "-"
	if answered {
		ws = strconv.Itoa(want)
		o.Tags = append(o.Tags, "hd:answered")
	}
	if ws != st {
		o.Failures = append(o.Failures, fail("handle:status",
			fmt.Sprintf("%s is answered with %s, the Caddyfile says %s (only the first matching handle block of a body is evaluated)", paths[p], st, ws)))
	}
	return o
}

// ---- generator

func (g *gen) hdBody(depth int) []*hdNode {
	var ns []*hdNode
	for _, p := range []int{2, 5, 1, 3, 4, 0} {
		if len(ns) < 3 && depth > 0 && g.rng.Chance(1, 4) {
			ns = append(ns, &hdNode{handle: true, path: p, body: g.hdBody(depth - 1)})
		}
	}
	if len(ns) < 3 && depth > 0 && g.rng.Chance(1, 3) {
		ns = append(ns, &hdNode{handle: true, path: -1, body: g.hdBody(depth - 1)})
	}
	if g.rng.Chance(1, 2) {
		g.nextID++
		ns = append(ns, &hdNode{status: 200 + g.nextID%50})
	}
	return ns
}

func encHD(e *enc, ns []*hdNode) {
	e.n(len(ns))
	for _, n := range ns {
		if n.handle {
			e.w("h")
			e.n(n.path + 1)
			encHD(e, n.body)
		} else {
			e.w("r")
			e.n(n.status)
		}
	}
}

func (g *gen) hdLine() string {
	g.nextID = 0
	var e enc
	encHD(&e, g.hdBody(3))
	return fmt.Sprintf("hd %d %s", g.rng.Intn(6), strings.Join(e.b, ","))
}
