package c05

import (
	"encoding/hex"
	"encoding/json"
	"fmt"
	"net/http"
	"net/http/httptest"
	"strconv"
	"strings"

	"github.com/caddyserver/caddy/v2"
	"github.com/caddyserver/caddy/v2/caddyconfig"
	"github.com/caddyserver/caddy/v2/modules/caddyhttp"

	// the real Caddyfile adapter
	_ "github.com/caddyserver/caddy/v2/caddyconfig/httpcaddyfile"

	"verif/harness/internal/core"
)

// op `he`: a Caddyfile site with `error <S>` and `handle_errors [<codes…>] { respond [<path>] <status> … }`
// blocks goes through the REAL adapter; the adapted http app is provisioned and asked for path P.
//
//	he <S> <P> <blocks>     blocks = B (A hexarg^A D (PATH ST)^D)^B    PATH 0 = no matcher, k = path k-1

type heDir struct {
	path   int // -1: no matcher
	status int
}

type heBlock struct {
	args []string
	dirs []heDir
}

var pathLen = []int{1, 2, 4, 2, 2, 4}

func parseHE(f []string) (s, p int, blocks []heBlock, ok bool) {
	s, ok1 := natTok(f[1])
	p, ok2 := natTok(f[2])
	if !ok1 || !ok2 {
		return 0, 0, nil, false
	}
	ps := &parser{toks: strings.Split(f[3], ",")}
	for n := ps.count(); n > 0 && !ps.bad; n-- {
		var b heBlock
		for a := ps.count(); a > 0 && !ps.bad; a-- {
			arg, err := core.UnHex(ps.word())
			if err != nil {
				ps.bad = true
			}
			b.args = append(b.args, arg)
		}
		for d := ps.count(); d > 0 && !ps.bad; d-- {
			pt, st := ps.nat(), ps.nat()
			if pt > 6 {
				ps.bad = true
			}
			b.dirs = append(b.dirs, heDir{pt - 1, st})
		}
		blocks = append(blocks, b)
	}
	if ps.bad || ps.pos != len(ps.toks) {
		return 0, 0, nil, false
	}
	// validity: what the harness can write as this Caddyfile, body in the order buildSubroute leaves
	if s < 400 || s > 599 || p >= 6 || len(blocks) > 4 {
		return 0, 0, nil, false
	}
	for _, b := range blocks {
		if len(b.args) > 4 || len(b.dirs) > 3 {
			return 0, 0, nil, false
		}
		for i, d := range b.dirs {
			if d.status < 200 || d.status > 599 {
				return 0, 0, nil, false
			}
			if i > 0 {
				prev := b.dirs[i-1]
				if (prev.path < 0 && d.path >= 0) || (prev.path >= 0 && d.path >= 0 && pathLen[prev.path] < pathLen[d.path]) {
					return 0, 0, nil, false
				}
			}
		}
	}
	return s, p, blocks, true
}

// caddyfileSafe: an argument the harness can put into a Caddyfile as one plain token
func caddyfileSafe(a string) bool {
	if a == "" {
		return false
	}
	for i := 0; i < len(a); i++ {
		c := a[i]
		if c <= ' ' || c == '{' || c == '}' || c == '"' || c == '`' || c == '\\' || c == '#' || c >= 0x7f {
			return false
		}
	}
	return true
}

func heCaddyfile(s int, blocks []heBlock) string {
	var b strings.Builder
	fmt.Fprintf(&b, ":8080 {\n\terror %d\n", s)
	for _, bl := range blocks {
		b.WriteString("\thandle_errors")
		for _, a := range bl.args {
			b.WriteString(" " + a)
		}
		b.WriteString(" {\n")
		for _, d := range bl.dirs {
			if d.path >= 0 {
				fmt.Fprintf(&b, "\t\trespond %s %d\n", paths[d.path], d.status)
			} else {
				fmt.Fprintf(&b, "\t\trespond %d\n", d.status)
			}
		}
		b.WriteString("\t}\n")
	}
	b.WriteString("}\n")
	return b.String()
}

// ---- the Caddyfile's meaning, read directly (the oracle)

type heSel struct {
	classes []int
	codes   []int
	any     bool // no arguments: every error
}

// atoiOK: digits only (no sign)
func atoiOK(s string) (int, bool) {
	n, err := strconv.ParseUint(s, 10, 16)
	return int(n), err == nil
}

func parseHEArgs(args []string) (heSel, bool) {
	sel := heSel{any: len(args) == 0}
	for _, a := range args {
		if len(a) != 3 {
			return sel, false
		}
		if strings.HasSuffix(a, "xx") {
			d, ok := atoiOK(a[:1])
			if !ok {
				return sel, false
			}
			sel.classes = append(sel.classes, d)
			continue
		}
		c, ok := atoiOK(a)
		if !ok {
			return sel, false
		}
		sel.codes = append(sel.codes, c)
	}
	return sel, true
}

func (sel heSel) selects(status int) bool {
	if sel.any {
		return true
	}
	for _, d := range sel.classes {
		if status/100 == d {
			return true
		}
	}
	for _, c := range sel.codes {
		if c == status {
			return true
		}
	}
	return false
}

type heRoute struct {
	sel      heSel
	dir      heDir
	hasMatch bool // the adapted route carries a matcher (status expression or path)
}

// heOrder is the order the site's blocks end up in: Go's insertion sort with the comparator of
// httptype.go ("true unless a block is empty, or i has no matcher and j has one").
func heOrder(blocks [][]heRoute) [][]heRoute {
	less := func(i, j []heRoute) bool {
		if len(i) == 0 || len(j) == 0 {
			return false
		}
		if !i[0].hasMatch && j[0].hasMatch {
			return false
		}
		return true
	}
	out := append([][]heRoute(nil), blocks...)
	for i := 1; i < len(out); i++ {
		for j := i; j > 0 && less(out[j], out[j-1]); j-- {
			out[j], out[j-1] = out[j-1], out[j]
		}
	}
	return out
}

// heExpect: the status the site answers, reading the Caddyfile as written: a body directive
// applies iff its block selects the status AND its own path matcher matches.
func heExpect(s, p int, blocks []heBlock) (status int, verdict string) {
	var bl [][]heRoute
	for _, b := range blocks {
		sel, ok := parseHEArgs(b.args)
		if !ok {
			return 0, "err"
		}
		var rs []heRoute
		for _, d := range b.dirs {
			rs = append(rs, heRoute{sel, d, !sel.any || d.path >= 0})
		}
		bl = append(bl, rs)
	}
	for _, rs := range heOrder(bl) {
		for _, r := range rs {
			pathOK := r.dir.path < 0 || r.dir.path == p
			if r.sel.selects(s) && pathOK {
				return r.dir.status, "ok"
			}
		}
	}
	return s, "ok"
}

type heWriter struct {
	h     http.Header
	codes []int
}

func (w *heWriter) Header() http.Header         { return w.h }
func (w *heWriter) Write(b []byte) (int, error) { return len(b), nil }
func (w *heWriter) WriteHeader(c int)           { w.codes = append(w.codes, c) }

func runHE(line string, f []string) (o core.Outcome) {
	s, p, blocks, ok := parseHE(f)
	if !ok {
		return core.Outcome{Impl: "bad-op", Tags: []string{"trivial", "malformed"}}
	}
	defer func() {
		if r := recover(); r != nil {
			o = core.Outcome{Impl: "panic", Tags: []string{"panic"},
				Failures: []core.Failure{fail("impl-panic", fmt.Sprint("handle_errors adaptation or routing panicked: ", r))}}
		}
	}()
	o.Tags = []string{"op:he"}
	want, verdict := heExpect(s, p, blocks)

	unsafe := false
	for _, b := range blocks {
		for _, a := range b.args {
			unsafe = unsafe || !caddyfileSafe(a)
		}
	}
	if unsafe {
		// an argument that cannot be written as one plain Caddyfile token (empty, blank, brace,
		// non-ASCII …): never 3 bytes accepted by Atoi, the adapter refuses it; not sent
		o.Impl = "he err"
		o.Tags = append(o.Tags, "he:bad-status-value")
		return o
	}
	out, _, err := caddyconfig.GetAdapter("caddyfile").Adapt([]byte(heCaddyfile(s, blocks)), map[string]any{"filename": "Caddyfile"})
	if err != nil {
		o.Impl = "he err"
		o.Tags = append(o.Tags, "he:bad-status-value")
		if verdict != "err" {
			o.Failures = append(o.Failures, fail("handle-errors:refused", "the adapter refuses status arguments that are 3 bytes long and numeric or a class: "+err.Error()))
		}
		return o
	}
	var top struct {
		Apps map[string]json.RawMessage `json:"apps"`
	}
	if err := json.Unmarshal(out, &top); err != nil {
		panic(err)
	}
	b, err := base()
	if err != nil {
		panic(err)
	}
	ctx, cancel := caddy.NewContext(b)
	defer cancel()
	v, err := ctx.LoadModuleByID("http", top.Apps["http"])
	if err != nil {
		o.Impl = "he unloadable"
		o.Tags = append(o.Tags, "he:unloadable")
		o.Failures = append(o.Failures, fail("handle-errors:unloadable", "the adapter accepted the Caddyfile but the adapted config does not load: "+err.Error()))
		return o
	}
	srv := v.(*caddyhttp.App).Servers["srv0"]
	// the shape of the adapted error routes, read off the adapter's JSON
	var shape struct {
		Servers map[string]struct {
			Errors *struct {
				Routes []struct {
					Match []map[string]json.RawMessage `json:"match"`
				} `json:"routes"`
			} `json:"errors"`
		} `json:"servers"`
	}
	if err := json.Unmarshal(top.Apps["http"], &shape); err != nil {
		panic(err)
	}
	var descs []string
	if e := shape.Servers["srv0"].Errors; e != nil {
		for _, r := range e.Routes {
			switch {
			case len(r.Match) == 0:
				descs = append(descs, "-")
			case len(r.Match) == 1 && len(r.Match[0]) == 1 && r.Match[0]["expression"] != nil:
				var me caddyhttp.MatchExpression
				if err := json.Unmarshal(r.Match[0]["expression"], &me); err != nil {
					panic(err)
				}
				descs = append(descs, "E"+hex.EncodeToString([]byte(me.Expr)))
			case len(r.Match) == 1 && len(r.Match[0]) == 1 && r.Match[0]["path"] != nil:
				var ps []string
				json.Unmarshal(r.Match[0]["path"], &ps)
				if len(ps) == 1 {
					descs = append(descs, "P"+pathIndex(ps[0]))
				} else {
					descs = append(descs, "?")
				}
			default:
				descs = append(descs, "?"+hex.EncodeToString(mustJSON(r.Match)))
			}
		}
	}
	w := &heWriter{h: http.Header{}}
	srv.ServeHTTP(w, httptest.NewRequest("GET", paths[p], nil))
	st := "-"
	if len(w.codes) > 0 {
		var cs []string
		for _, c := range w.codes {
			cs = append(cs, strconv.Itoa(c))
		}
		st = strings.Join(cs, "+")
	}
	ds := "-"
	if len(descs) > 0 {
		ds = strings.Join(descs, ";")
	}
	o.Impl = "he s=" + st + " r=" + ds
	o.Tags = append(o.Tags, "he:adapted", fmt.Sprintf("he:blocks=%d", len(blocks)))
	if want != s {
		o.Tags = append(o.Tags, "he:error-route-answers")
	}

	// ---- oracle: the site answers what the Caddyfile says
	if verdict != "ok" {
		o.Failures = append(o.Failures, fail("handle-errors:accepted", "the adapter accepts status arguments it should refuse ("+verdict+")"))
	} else if st != strconv.Itoa(want) {
		o.Failures = append(o.Failures, fail("handle-errors:status",
			fmt.Sprintf("error %d on %s is answered with %s, the Caddyfile says %d", s, paths[p], st, want)))
	}
	return o
}

func mustJSON(v any) []byte {
	b, err := json.Marshal(v)
	if err != nil {
		panic(err)
	}
	return b
}

// ---- generator

var heArgs = []string{
	"404", "4xx", "500", "5xx", "410", "503", "403", "400", "3xx", "9xx", "0xx",
	"xxx", "4x4", "40", "4044", "+40", "-12", "007", "abc", "4XX", "-xx", "+xx", "1e2", "0x1", "x4x", "", "4 x",
}

func (g *gen) heLine() string {
	s := []int{400, 403, 404, 410, 500, 503}[g.rng.Intn(6)]
	nb := 1 + g.rng.Intn(3)
	var e enc
	e.n(nb)
	for i := 0; i < nb; i++ {
		na := g.rng.Intn(4)
		if g.rng.Chance(1, 4) {
			na = 0
		}
		e.n(na)
		for j := 0; j < na; j++ {
			a := heArgs[g.rng.Intn(11)] // mostly well-formed
			if g.rng.Chance(1, 12) {
				a = heArgs[g.rng.Intn(len(heArgs))]
			}
			e.w(core.Hex(a))
		}
		// body in buildSubroute's order: longer paths first, matcher-less last
		var dirs []heDir
		for _, p := range []int{2, 5, 1, 3, 4, 0} {
			if len(dirs) < 3 && g.rng.Chance(1, 4) {
				dirs = append(dirs, heDir{p, 0})
			}
		}
		if len(dirs) < 3 && g.rng.Chance(1, 2) {
			dirs = append(dirs, heDir{-1, 0})
		}
		e.n(len(dirs))
		for k, d := range dirs {
			e.n(d.path + 1)
			e.n(201 + 10*i + k)
		}
	}
	return fmt.Sprintf("he %d %d %s", s, g.rng.Intn(6), strings.Join(e.b, ","))
}
