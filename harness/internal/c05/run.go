package c05

import (
	"context"
	"encoding/json"
	"fmt"
	"net/http"
	"net/http/httptest"
	"os"
	"runtime"
	"sort"
	"strconv"
	"strings"
	"sync"

	"github.com/caddyserver/caddy/v2"
	"github.com/caddyserver/caddy/v2/modules/caddyhttp"

	// the http app needs the tls and events apps to provision
	_ "github.com/caddyserver/caddy/v2/modules/caddyevents"
	_ "github.com/caddyserver/caddy/v2/modules/caddyhttp/rewrite"
	_ "github.com/caddyserver/caddy/v2/modules/caddytls"
)

// ---------------------------------------------------------------- probe modules

type traceKey struct{}

type event struct {
	id   int
	path string // r.URL.Path
	uri  string // r.RequestURI when it disagrees with r.URL.RequestURI(), else ""
	err  string // "n" or the status of the error in the request context ("0": not a HandlerError)
	repl string // "n" or the value of the {http.error.status_code} placeholder
	hint bool   // not a probe event: an interim WriteHeader(103) (static_response Early Hints)
	bad  string // the other http.error.* placeholders do not fit the error (not part of the canonical answer)
}

type recorder struct {
	events []event
	yield  bool // give other requests a chance to run at every probe handler
}

// Probe is the handler module http.handlers.verif_c05.
type Probe struct {
	ID     int    `json:"id"`
	Kind   string `json:"kind"`
	Status int    `json:"status,omitempty"`
	Path   string `json:"path,omitempty"`
}

func (Probe) CaddyModule() caddy.ModuleInfo {
	return caddy.ModuleInfo{ID: "http.handlers.verif_c05", New: func() caddy.Module { return new(Probe) }}
}

func probeErr(status int) error {
	if status == 0 {
		return fmt.Errorf("verif plain error")
	}
	return caddyhttp.Error(status, fmt.Errorf("verif probe error"))
}

func (p *Probe) ServeHTTP(w http.ResponseWriter, r *http.Request, next caddyhttp.Handler) error {
	if rec, ok := r.Context().Value(traceKey{}).(*recorder); ok {
		e := "n"
		if v := r.Context().Value(caddyhttp.ErrorCtxKey); v != nil {
			if he, ok := v.(caddyhttp.HandlerError); ok {
				e = strconv.Itoa(he.StatusCode)
			} else {
				e = "0"
			}
		}
		uri := ""
		if r.RequestURI != r.URL.RequestURI() {
			// RequestURI lives in the request struct, the URL behind a pointer: a shallow copy
			// of the request (WithError) can hold a stale RequestURI next to a rewritten URL
			uri = r.RequestURI
		}
		rs, bad := "n", ""
		if repl, ok := r.Context().Value(caddy.ReplacerCtxKey).(*caddy.Replacer); ok {
			if v, ok := repl.Get("http.error.status_code"); ok {
				rs = fmt.Sprint(v)
			}
			bad = errorPlaceholdersFit(repl, r.Context().Value(caddyhttp.ErrorCtxKey))
		}
		rec.events = append(rec.events, event{id: p.ID, path: r.URL.Path, uri: uri, err: e, repl: rs, bad: bad})
	}
	if rec, ok := r.Context().Value(traceKey{}).(*recorder); ok && rec.yield {
		runtime.Gosched()
	}
	switch p.Kind {
	case "pass":
		return next.ServeHTTP(w, r)
	case "respond":
		w.WriteHeader(p.Status)
		return nil
	case "rewrite":
		r.URL.Path = p.Path
		r.URL.RawPath = ""
		r.RequestURI = r.URL.RequestURI()
		return next.ServeHTTP(w, r)
	case "fail":
		return probeErr(p.Status)
	}
	return fmt.Errorf("verif probe: unknown kind %q", p.Kind)
}

// errorPlaceholdersFit checks what WithError tells the error routes besides the status code:
// {http.error} is the error in the request context; for a HandlerError status_text is the text of
// status_code, id and trace are those of the error, message is the message of the wrapped error.
func errorPlaceholdersFit(repl *caddy.Replacer, ctxErr any) string {
	get := func(k string) any { v, _ := repl.Get("http.error." + k); return v }
	raw, _ := repl.Get("http.error")
	if ctxErr == nil {
		if raw != nil || get("status_code") != nil || get("status_text") != nil || get("message") != nil || get("id") != nil {
			return "http.error.* placeholders are set although no error is being handled"
		}
		return ""
	}
	he, isHE := ctxErr.(caddyhttp.HandlerError)
	if fmt.Sprint(raw) != fmt.Sprint(ctxErr) {
		return fmt.Sprintf("{http.error} is %q, the error being handled is %q", fmt.Sprint(raw), fmt.Sprint(ctxErr))
	}
	if !isHE {
		return "" // the other placeholders are left as they were (modelled for status_code)
	}
	if code, ok := get("status_code").(int); !ok || code != he.StatusCode {
		return fmt.Sprintf("{http.error.status_code} is %v for a HandlerError with status %d", get("status_code"), he.StatusCode)
	}
	if get("status_text") != http.StatusText(he.StatusCode) {
		return fmt.Sprintf("{http.error.status_text} is %q for status %d", get("status_text"), he.StatusCode)
	}
	if get("id") != he.ID || get("trace") != he.Trace {
		return "{http.error.id} / {http.error.trace} are not those of the error being handled"
	}
	want := http.StatusText(he.StatusCode)
	if he.Err != nil {
		want = he.Err.Error()
	}
	if get("message") != want {
		return fmt.Sprintf("{http.error.message} is %q, the error's message is %q", get("message"), want)
	}
	return ""
}

// ErrMatcher0 reports (false, err); ErrMatcher1 reports (true, err); ErrMatcher2 is a legacy
// RequestMatcher: Match returns false after storing the error under MatcherErrorVarKey.
type ErrMatcher0 struct {
	Status int `json:"status"`
}
type ErrMatcher1 struct {
	Status int `json:"status"`
}
type ErrMatcher2 struct {
	Status int `json:"status"`
}

// LegacyFalse / LegacyTrue implement only the deprecated RequestMatcher interface.
type LegacyFalse struct{}
type LegacyTrue struct{}

func (LegacyFalse) CaddyModule() caddy.ModuleInfo {
	return caddy.ModuleInfo{ID: "http.matchers.verif_c05_l0", New: func() caddy.Module { return new(LegacyFalse) }}
}
func (LegacyTrue) CaddyModule() caddy.ModuleInfo {
	return caddy.ModuleInfo{ID: "http.matchers.verif_c05_l1", New: func() caddy.Module { return new(LegacyTrue) }}
}
func (*LegacyFalse) Match(*http.Request) bool { return false }
func (*LegacyTrue) Match(*http.Request) bool  { return true }

func (ErrMatcher0) CaddyModule() caddy.ModuleInfo {
	return caddy.ModuleInfo{ID: "http.matchers.verif_c05_e0", New: func() caddy.Module { return new(ErrMatcher0) }}
}
func (ErrMatcher1) CaddyModule() caddy.ModuleInfo {
	return caddy.ModuleInfo{ID: "http.matchers.verif_c05_e1", New: func() caddy.Module { return new(ErrMatcher1) }}
}
func (ErrMatcher2) CaddyModule() caddy.ModuleInfo {
	return caddy.ModuleInfo{ID: "http.matchers.verif_c05_e2", New: func() caddy.Module { return new(ErrMatcher2) }}
}

func (m *ErrMatcher0) Match(r *http.Request) bool { return false }
func (m *ErrMatcher0) MatchWithError(*http.Request) (bool, error) {
	return false, probeErr(m.Status)
}
func (m *ErrMatcher1) Match(r *http.Request) bool { return true }
func (m *ErrMatcher1) MatchWithError(*http.Request) (bool, error) {
	return true, probeErr(m.Status)
}
func (m *ErrMatcher2) Match(r *http.Request) bool {
	caddyhttp.SetVar(r.Context(), caddyhttp.MatcherErrorVarKey, probeErr(m.Status))
	return false
}

var (
	_ caddyhttp.MiddlewareHandler       = (*Probe)(nil)
	_ caddyhttp.RequestMatcherWithError = (*ErrMatcher0)(nil)
	_ caddyhttp.RequestMatcherWithError = (*ErrMatcher1)(nil)
	_ caddyhttp.RequestMatcher          = (*ErrMatcher2)(nil)
	_ caddyhttp.RequestMatcher          = (*LegacyFalse)(nil)
	_ caddyhttp.RequestMatcher          = (*LegacyTrue)(nil)
)

// ---------------------------------------------------------------- config JSON

type obj = map[string]any

func setJSON(s []*matcher) obj {
	o := obj{}
	for _, m := range s {
		switch m.kind {
		case 'a':
			var vals []string
			for _, v := range m.vals {
				vals = append(vals, [][]string{methods, hosts, paths, hdrVals}[m.field][v])
			}
			switch m.field {
			case 0:
				o["method"] = vals
			case 1:
				o["host"] = vals
			case 2:
				o["path"] = vals
			case 3:
				o["header"] = obj{hdrName: vals}
			}
		case 'e':
			o["verif_c05_e"+strconv.Itoa(m.ekind)] = obj{"status": m.status}
		case 'l':
			o["verif_c05_l"+strconv.Itoa(m.ekind)] = obj{}
		case 'c': // what httpcaddyfile makes of `handle_errors 4xx`
			o["expression"] = fmt.Sprintf("{http.error.status_code} >= %d && {http.error.status_code} <= %d", m.vals[0], m.vals[1])
		case 'k': // … and of `handle_errors 404 500`
			var cs []string
			for _, v := range m.vals {
				cs = append(cs, strconv.Itoa(v))
			}
			o["expression"] = "{http.error.status_code} in [" + strings.Join(cs, ", ") + "]"
		case 'n':
			o["not"] = setsJSON(m.sets)
		}
	}
	return o
}

func setsJSON(sets [][]*matcher) []obj {
	out := []obj{}
	for _, s := range sets {
		out = append(out, setJSON(s))
	}
	return out
}

func routesJSON(rs []*route) []obj {
	out := []obj{} // always present (a nil Subroute.Routes would skip provisioning of its errors)
	for _, r := range rs {
		o := obj{}
		if r.group != 0 {
			o["group"] = "g" + strconv.Itoa(r.group)
		}
		if r.terminal {
			o["terminal"] = true
		}
		if len(r.sets) > 0 {
			o["match"] = setsJSON(r.sets)
		}
		hs := []obj{}
		for _, h := range r.hs {
			switch h.kind {
			case 'p':
				hs = append(hs, obj{"handler": "verif_c05", "id": h.id, "kind": "pass"})
			case 'r':
				hs = append(hs, obj{"handler": "verif_c05", "id": h.id, "kind": "respond", "status": h.arg})
			case 'w':
				hs = append(hs, obj{"handler": "verif_c05", "id": h.id, "kind": "rewrite", "path": paths[h.arg]})
			case 'f':
				hs = append(hs, obj{"handler": "verif_c05", "id": h.id, "kind": "fail", "status": h.arg})
			case 'z': // what `handle_path /a/*` puts in front of its body
				hs = append(hs, obj{"handler": "rewrite", "strip_path_prefix": "/a"})
			case 'i':
				hs = append(hs, obj{"handler": "invoke", "name": "n" + strconv.Itoa(h.arg)})
			case 'x', 'y':
				o := obj{"handler": map[byte]string{'x': "error", 'y': "static_response"}[h.kind]}
				switch h.arg {
				case 0:
				case 1:
					o["status_code"] = "{http.error.status_code}"
				case 2:
					o["status_code"] = "teapot"
				default:
					if h.arg%2 == 0 { // WeakString: a JSON number or a JSON string
						o["status_code"] = h.arg
					} else {
						o["status_code"] = strconv.Itoa(h.arg)
					}
				}
				hs = append(hs, o)
			case 's':
				s := obj{"handler": "subroute", "routes": routesJSON(h.routes)}
				if h.hasErrs {
					s["errors"] = obj{"routes": routesJSON(h.errs)}
				}
				hs = append(hs, s)
			}
		}
		if len(hs) > 0 {
			o["handle"] = hs
		}
		out = append(out, o)
	}
	return out
}

func appJSON(rs []*route, hasErrs bool, errs []*route, named []*route) []byte {
	srv := obj{
		"listen":          []string{":0"},
		"automatic_https": obj{"disable": true},
		"routes":          routesJSON(rs),
	}
	if hasErrs {
		srv["errors"] = obj{"routes": routesJSON(errs)}
	}
	if len(named) > 0 {
		nr := obj{}
		for j, r := range routesJSON(named) {
			nr["n"+strconv.Itoa(j+1)] = r
		}
		srv["named_routes"] = nr
	}
	app := obj{"servers": obj{"s": srv}}
	if withMetrics {
		app["metrics"] = obj{}
	}
	b, err := json.Marshal(app)
	if err != nil {
		panic(err)
	}
	return b
}

// withMetrics makes appJSON switch on the http app's metrics: every handler of the top-level and
// named routes is then wrapped by the metrics instrumentation (routes.go:wrapMiddleware).
var withMetrics bool

// ---------------------------------------------------------------- provisioning

var (
	baseOnce sync.Once
	baseCtx  caddy.Context
	baseErr  error
)

// base provisions, once per process, an otherwise empty caddy config (logs discarded, no admin
// endpoint, data dir under /verif/.run) and loads the tls and events apps the http app needs.
func base() (caddy.Context, error) {
	baseOnce.Do(func() {
		caddy.RegisterModule(Probe{})
		caddy.RegisterModule(ErrMatcher0{})
		caddy.RegisterModule(ErrMatcher1{})
		caddy.RegisterModule(ErrMatcher2{})
		caddy.RegisterModule(LegacyFalse{})
		caddy.RegisterModule(LegacyTrue{})
		dir, err := os.MkdirTemp("/verif/.run", "c05-data-")
		if err != nil {
			baseErr = err
			return
		}
		dataDir = dir
		os.Setenv("XDG_DATA_HOME", dir)
		os.Setenv("XDG_CONFIG_HOME", dir)
		caddy.DefaultStorage.Path = dir
		cfg := &caddy.Config{
			Admin: &caddy.AdminConfig{Disabled: true},
			Logging: &caddy.Logging{Logs: map[string]*caddy.CustomLog{
				"default": {BaseLog: caddy.BaseLog{WriterRaw: json.RawMessage(`{"output":"discard"}`)}},
			}},
			AppsRaw: caddy.ModuleMap{},
		}
		baseCtx, baseErr = caddy.ProvisionContext(cfg)
		if baseErr != nil {
			return
		}
		if _, baseErr = baseCtx.App("tls"); baseErr != nil {
			return
		}
		_, baseErr = baseCtx.App("events")
	})
	return baseCtx, baseErr
}

var dataDir string

// Cleanup removes the private data directory.
func Cleanup() {
	if dataDir != "" {
		os.RemoveAll(dataDir)
	}
}

func implKind(m any) int {
	switch m.(type) {
	case *caddyhttp.MatchMethod:
		return 0
	case *caddyhttp.MatchHost:
		return 1
	case *caddyhttp.MatchPath:
		return 2
	case *caddyhttp.MatchHeader:
		return 3
	case *ErrMatcher0:
		return 4
	case *ErrMatcher1:
		return 5
	case *ErrMatcher2:
		return 6
	case *caddyhttp.MatchNot:
		return 7
	case *LegacyFalse:
		return 8
	case *LegacyTrue:
		return 9
	case *caddyhttp.MatchExpression:
		return 10
	}
	return -1
}

// pinOrder puts the matchers of every provisioned matcher set into the order listed in the case.
// A matcher set is a JSON object, so caddy builds it by ranging over a Go map: the order inside a
// set is random per provisioning. The model takes the order as part of the input (theorems hold
// for every order); pinning it makes the comparison deterministic. Nothing else is touched.
func pinOrder(want [][]*matcher, got []caddyhttp.MatcherSet) error {
	if len(want) != len(got) {
		return fmt.Errorf("matcher sets: want %d got %d", len(want), len(got))
	}
	for i, ws := range want {
		gs := got[i]
		if len(ws) != len(gs) {
			return fmt.Errorf("matcher set %d: want %d matchers got %d", i, len(ws), len(gs))
		}
		pos := map[int]int{}
		for j, m := range ws {
			pos[kindKey(m)] = j
		}
		for _, g := range gs {
			if _, ok := pos[implKind(g)]; !ok {
				return fmt.Errorf("unexpected matcher %T", g)
			}
		}
		sort.SliceStable(gs, func(a, b int) bool { return pos[implKind(gs[a])] < pos[implKind(gs[b])] })
		for j, m := range ws {
			if m.kind == 'n' {
				not := gs[j].(*caddyhttp.MatchNot)
				if err := pinOrder(m.sets, not.MatcherSets); err != nil {
					return err
				}
			}
		}
	}
	return nil
}

func pinRoutes(want []*route, got caddyhttp.RouteList) error {
	if len(want) != len(got) {
		return fmt.Errorf("routes: want %d got %d", len(want), len(got))
	}
	for i, wr := range want {
		if err := pinOrder(wr.sets, got[i].MatcherSets); err != nil {
			return err
		}
		if len(wr.hs) != len(got[i].Handlers) {
			return fmt.Errorf("handlers: want %d got %d", len(wr.hs), len(got[i].Handlers))
		}
		for j, h := range wr.hs {
			if h.kind != 's' {
				continue
			}
			sr, ok := got[i].Handlers[j].(*caddyhttp.Subroute)
			if !ok {
				return fmt.Errorf("handler %d is %T, not a subroute", j, got[i].Handlers[j])
			}
			if err := pinRoutes(h.routes, sr.Routes); err != nil {
				return err
			}
			if h.hasErrs {
				if sr.Errors == nil {
					return fmt.Errorf("subroute lost its errors")
				}
				if err := pinRoutes(h.errs, sr.Errors.Routes); err != nil {
					return err
				}
			}
		}
	}
	return nil
}

// respWriter records every WriteHeader call.
type respWriter struct {
	h      http.Header
	codes  []int
	writes int
	rec    *recorder
}

func (w *respWriter) Header() http.Header         { return w.h }
func (w *respWriter) Write(b []byte) (int, error) { w.writes++; return len(b), nil }
func (w *respWriter) WriteHeader(code int) {
	if code == http.StatusEarlyHints {
		// an interim header; what follows is still the same response: kept in the event order
		w.rec.events = append(w.rec.events, event{hint: true})
		return
	}
	w.codes = append(w.codes, code)
}

type observed struct {
	events   []event
	codes    []int
	writes   int
	panicked bool
}

// serveReal provisions the tree as a real http app and serves one request through
// Server.ServeHTTP.
func serveReal(rs []*route, hasErrs bool, errs []*route, q request, named []*route) (observed, error) {
	obs, err := serveSeq(rs, hasErrs, errs, []request{q}, named)
	if err != nil {
		return observed{}, err
	}
	return obs[0], nil
}

// serveSeq provisions the tree once and serves the requests one after the other on the same
// server.
func serveSeq(rs []*route, hasErrs bool, errs []*route, qs []request, named []*route) (obs []observed, err error) {
	b, err := base()
	if err != nil {
		return obs, err
	}
	ctx, cancel := caddy.NewContext(b)
	defer cancel()
	v, err := ctx.LoadModuleByID("http", appJSON(rs, hasErrs, errs, named))
	if err != nil {
		return obs, fmt.Errorf("provision: %v", err)
	}
	srv := v.(*caddyhttp.App).Servers["s"]
	if err := pinRoutes(rs, srv.Routes); err != nil {
		return obs, err
	}
	if hasErrs {
		if srv.Errors == nil {
			return obs, fmt.Errorf("server lost its errors")
		}
		if err := pinRoutes(errs, srv.Errors.Routes); err != nil {
			return obs, err
		}
	}
	for j, nr := range named {
		p := srv.NamedRoutes["n"+strconv.Itoa(j+1)]
		if p == nil {
			return obs, fmt.Errorf("server lost named route %d", j+1)
		}
		if err := pinRoutes([]*route{nr}, caddyhttp.RouteList{*p}); err != nil {
			return obs, err
		}
	}
	one := func(q request, yield bool) (o observed) {
		defer func() {
			if r := recover(); r != nil && yield {
				o = observed{panicked: true}
			} else if r != nil {
				panic(r)
			}
		}()
		req := httptest.NewRequest(methods[q.method], paths[q.path], nil)
		req.Host = hosts[q.host]
		if q.hdr > 0 {
			req.Header.Set(hdrName, hdrVals[q.hdr])
		}
		rec := &recorder{yield: yield}
		req = req.WithContext(context.WithValue(req.Context(), traceKey{}, rec))
		w := &respWriter{h: http.Header{}, rec: rec}
		srv.ServeHTTP(w, req)
		return observed{events: rec.events, codes: w.codes, writes: w.writes}
	}
	for _, q := range qs {
		obs = append(obs, one(q, false))
	}
	if serveConcurrently && len(qs) >= 2 {
		// the first two requests again, twice each, at the same time on the same server; every
		// probe handler yields the processor so that the four requests interleave
		res := make([]observed, 4)
		var wg sync.WaitGroup
		for i := range res {
			wg.Add(1)
			go func(i int) {
				defer wg.Done()
				res[i] = one(qs[i%2], true)
			}(i)
		}
		wg.Wait()
		obs = append(obs, res...)
	}
	return obs, nil
}

// serveConcurrently makes serveSeq add four concurrent requests (see there).
var serveConcurrently bool

// pathStr: index 6 is the empty path (strip_path_prefix "/a" applied to "/a")
func pathStr(i int) string {
	if i == 6 {
		return ""
	}
	if i == 7 {
		return "." // CleanPath("") inside the rewrite handler
	}
	return paths[i]
}

// stripPath is strip_path_prefix "/a" on the path alphabet.
func stripPath(p int) int {
	switch p {
	case 1:
		return 6
	case 2:
		return 3
	case 5:
		return 4
	case 6:
		return 7
	}
	return p
}

// requestLineOf: the empty path is written "/" in the request line.
func requestLineOf(p int) int {
	if p == 6 {
		return 0
	}
	return p
}

func pathIndex(p string) string {
	if p == "" {
		return "6"
	}
	if p == "." {
		return "7"
	}
	for i, s := range paths {
		if s == p {
			return strconv.Itoa(i)
		}
	}
	return "?" + strings.ReplaceAll(p, " ", "_")
}

// canon renders an observation as the canonical answer line.
func canon(o observed) string {
	if o.panicked {
		return "panic"
	}
	var t []string
	for _, e := range o.events {
		if e.hint {
			t = append(t, "H")
			continue
		}
		es := e.err
		if e.repl != e.err {
			es += "/" + e.repl
		}
		ps := pathIndex(e.path)
		if e.uri != "" {
			ps += "!" + pathIndex(e.uri)
		}
		t = append(t, fmt.Sprintf("%d.%s.%s", e.id, ps, es))
	}
	ts := "-"
	if len(t) > 0 {
		ts = strings.Join(t, ",")
	}
	ss := "-"
	if len(o.codes) > 0 {
		var c []string
		for _, x := range o.codes {
			c = append(c, strconv.Itoa(x))
		}
		ss = strings.Join(c, "+")
	}
	if o.writes > 0 {
		ss += "+body"
	}
	return "t=" + ts + " s=" + ss
}
