package c05

import "verif/harness/internal/core"

// ---- minimisation of a failing input: greedily delete routes, handlers, matcher sets,
// matchers, flags and error blocks while the same oracle failure class persists.

func cloneSets(sets [][]*matcher) [][]*matcher {
	if sets == nil {
		return nil
	}
	out := make([][]*matcher, len(sets))
	for i, s := range sets {
		out[i] = make([]*matcher, len(s))
		for j, m := range s {
			c := *m
			c.vals = append([]int(nil), m.vals...)
			c.sets = cloneSets(m.sets)
			out[i][j] = &c
		}
	}
	return out
}

func cloneRoutes(rs []*route) []*route {
	if rs == nil {
		return nil
	}
	out := make([]*route, len(rs))
	for i, r := range rs {
		c := *r
		c.sets = cloneSets(r.sets)
		c.hs = make([]*handler, len(r.hs))
		for j, h := range r.hs {
			hc := *h
			hc.routes = cloneRoutes(h.routes)
			hc.errs = cloneRoutes(h.errs)
			c.hs[j] = &hc
		}
		out[i] = &c
	}
	return out
}

func (c tcase) clone() tcase {
	return tcase{cloneRoutes(c.rs), c.hasErrs, cloneRoutes(c.errs), c.q, c.named}
}

// editor applies the k-th possible one-step reduction during a walk.
type editor struct {
	k, n int
	done bool
}

func (e *editor) hit() bool {
	if e.done {
		return false
	}
	e.n++
	if e.n-1 == e.k {
		e.done = true
		return true
	}
	return false
}

func (e *editor) sets(sets *[][]*matcher) {
	for i := 0; i < len(*sets) && !e.done; i++ {
		if e.hit() {
			*sets = append((*sets)[:i:i], (*sets)[i+1:]...)
			return
		}
		set := &(*sets)[i]
		for j := 0; j < len(*set) && !e.done; j++ {
			if e.hit() {
				*set = append((*set)[:j:j], (*set)[j+1:]...)
				return
			}
			m := (*set)[j]
			switch m.kind {
			case 'n':
				e.sets(&m.sets)
			case 'a':
				if len(m.vals) > 1 && e.hit() {
					m.vals = m.vals[:len(m.vals)-1]
					return
				}
			}
		}
	}
}

func (e *editor) routes(rs *[]*route) {
	for i := 0; i < len(*rs) && !e.done; i++ {
		if e.hit() {
			*rs = append((*rs)[:i:i], (*rs)[i+1:]...)
			return
		}
		r := (*rs)[i]
		if r.terminal && e.hit() {
			r.terminal = false
			return
		}
		if r.group != 0 && e.hit() {
			r.group = 0
			return
		}
		e.sets(&r.sets)
		for j := 0; j < len(r.hs) && !e.done; j++ {
			if e.hit() {
				r.hs = append(r.hs[:j:j], r.hs[j+1:]...)
				return
			}
			h := r.hs[j]
			if h.kind != 's' {
				continue
			}
			if h.hasErrs && e.hit() {
				h.hasErrs, h.errs = false, nil
				return
			}
			e.routes(&h.routes)
			if h.hasErrs {
				e.routes(&h.errs)
			}
		}
	}
}

func hasClass(c tcase, class string) (core.Failure, bool) {
	_, _, fails, err := evaluate(c)
	if err != nil {
		return core.Failure{}, false
	}
	for _, f := range fails {
		if f.Class == class {
			return f, true
		}
	}
	return core.Failure{}, false
}

func shrink(c tcase, class string) (tcase, core.Failure) {
	best, _ := hasClass(c, class)
	evals := 0
	for progress := true; progress && evals < 3000; {
		progress = false
		for k := 0; evals < 3000; k++ {
			cand := c.clone()
			e := &editor{k: k}
			if cand.hasErrs && e.hit() {
				cand.hasErrs, cand.errs = false, nil
			}
			e.routes(&cand.rs)
			if cand.hasErrs {
				e.routes(&cand.errs)
			}
			if !e.done {
				break
			}
			evals++
			if f, ok := hasClass(cand, class); ok {
				c, best, progress = cand, f, true
				k--
			}
		}
	}
	return c, best
}
