package c05

import (
	"context"
	"encoding/json"
	"fmt"
	"net/http"
	"net/http/httptest"
	"strings"

	"github.com/caddyserver/caddy/v2"
	"github.com/caddyserver/caddy/v2/modules/caddyhttp"
	"github.com/caddyserver/caddy/v2/modules/caddyhttp/intercept"

	"verif/harness/internal/core"
)

// op `ic`: the routes of a response handler (caddyhttp.ResponseHandler: ResponseHandler.Provision,
// rh.Routes.Compile(next)) through the REAL intercept handler placed in front of a static_response.
//
//	ic <ST> <request> <handlers>    handlers = H (C code^C K (SC | routes))^H   K 0 = replace the status by SC, 1 = routes

type respHandler struct {
	codes   []int
	replace int // -1: routes
	routes  []*route
}

func statusCodeMatches(actual, configured int) bool {
	return actual == configured || (configured < 100 && actual >= configured*100 && actual < (configured+1)*100)
}

func (rh respHandler) matches(st int) bool {
	if len(rh.codes) == 0 {
		return true
	}
	for _, c := range rh.codes {
		if statusCodeMatches(st, c) {
			return true
		}
	}
	return false
}

func runIC(line string, f []string) (o core.Outcome) {
	bad := core.Outcome{Impl: "bad-op", Tags: []string{"trivial", "malformed"}}
	st, ok1 := natTok(f[1])
	q, ok2 := parseReq(f[2])
	ps := &parser{toks: strings.Split(f[3], ",")}
	var hs []respHandler
	for n := ps.count(); n > 0 && !ps.bad; n-- {
		rh := respHandler{replace: -1}
		for c := ps.count(); c > 0 && !ps.bad; c-- {
			rh.codes = append(rh.codes, ps.nat())
		}
		switch ps.nat() {
		case 0:
			rh.replace = ps.nat()
		case 1:
			rh.routes = ps.routes()
		default:
			ps.bad = true
		}
		hs = append(hs, rh)
	}
	if !ok1 || !ok2 || ps.bad || ps.pos != len(ps.toks) || st < 200 || st > 599 || len(hs) > 3 {
		return bad
	}
	for _, rh := range hs {
		if len(rh.codes) > 3 || (rh.replace >= 0 && (rh.replace < 200 || rh.replace > 599)) || !routesValid(rh.routes) {
			return bad
		}
		for _, c := range rh.codes {
			if !((c >= 1 && c <= 5) || (c >= 200 && c <= 599)) {
				return bad
			}
		}
	}
	defer func() {
		if r := recover(); r != nil {
			o = core.Outcome{Impl: "panic", Tags: []string{"panic"},
				Failures: []core.Failure{fail("impl-panic", fmt.Sprint("intercept or routing panicked: ", r))}}
		}
	}()
	o.Tags = []string{"op:ic"}

	// ---- config: [intercept {handle_response …}] then static_response ST
	var rhs []obj
	for _, rh := range hs {
		h := obj{}
		if len(rh.codes) > 0 {
			h["match"] = obj{"status_code": rh.codes}
		}
		if rh.replace >= 0 {
			h["status_code"] = rh.replace
		} else {
			h["routes"] = routesJSON(rh.routes)
		}
		rhs = append(rhs, h)
	}
	ic := obj{"handler": "intercept"}
	if len(rhs) > 0 {
		ic["handle_response"] = rhs
	}
	srvJSON := obj{
		"listen":          []string{":0"},
		"automatic_https": obj{"disable": true},
		"routes": []obj{
			{"handle": []obj{ic}},
			{"handle": []obj{{"handler": "static_response", "status_code": st}}},
		},
	}
	raw, err := json.Marshal(obj{"servers": obj{"s": srvJSON}})
	if err != nil {
		panic(err)
	}
	b, err := base()
	if err != nil {
		panic(err)
	}
	ctx, cancel := caddy.NewContext(b)
	defer cancel()
	v, err := ctx.LoadModuleByID("http", raw)
	if err != nil {
		return core.Outcome{Impl: "harness-error", Tags: []string{"harness-error"},
			Failures: []core.Failure{fail("config-rejected", "an intercept config over the alphabets could not be provisioned: "+err.Error())}}
	}
	srv := v.(*caddyhttp.App).Servers["s"]
	icH, ok := srv.Routes[0].Handlers[0].(*intercept.Intercept)
	if !ok {
		panic(fmt.Sprintf("handler is %T", srv.Routes[0].Handlers[0]))
	}
	for i, rh := range hs {
		if rh.replace < 0 {
			if err := pinRoutes(rh.routes, icH.HandleResponse[i].Routes); err != nil {
				panic(err)
			}
		}
	}
	req := httptest.NewRequest(methods[q.method], paths[q.path], nil)
	req.Host = hosts[q.host]
	if q.hdr > 0 {
		req.Header.Set(hdrName, hdrVals[q.hdr])
	}
	rec := &recorder{}
	req = req.WithContext(context.WithValue(req.Context(), traceKey{}, rec))
	w := &respWriter{h: http.Header{}, rec: rec}
	srv.ServeHTTP(w, req)
	got := observed{events: rec.events, codes: w.codes, writes: w.writes}
	o.Impl = canon(got)

	// ---- oracle: the first response handler whose matcher matches ST; its routes are evaluated by
	// the routing rules in front of the rest of the chain (static_response ST again)
	var want outcome
	picked := -1
	for i, rh := range hs {
		if rh.matches(st) {
			picked = i
			break
		}
	}
	switch {
	case picked < 0:
		want = outcome{nil, st}
		o.Tags = append(o.Tags, "ic:not-intercepted")
	case hs[picked].replace >= 0:
		// the replacement is lost on the unchanged tree (Intercept hands a copy of its recorder to
		// next): the original status goes out; no route runs, later handlers are not consulted
		want = outcome{nil, st}
		o.Tags = append(o.Tags, "ic:status-replace-ignored")
	default:
		tail := &route{hs: []*handler{{kind: 'y', arg: st}}}
		var tags map[string]bool
		want, tags = specEval(append(append([]*route{}, hs[picked].routes...), tail), false, nil, q)
		o.Tags = append(o.Tags, "ic:routes-run")
		for t := range tags {
			o.Tags = append(o.Tags, t)
		}
	}
	if class, what := diffClass(got, want); class != "" {
		o.Failures = append(o.Failures, fail("response-handler-"+class, "routes of a response handler: "+what))
	}
	return o
}

func (g *gen) icLine() string {
	st := []int{200, 204, 404, 500, 503}[g.rng.Intn(5)]
	var e enc
	nh := g.rng.Intn(3)
	if g.rng.Chance(2, 3) && nh == 0 {
		nh = 1
	}
	e.n(nh)
	for i := 0; i < nh; i++ {
		nc := g.rng.Intn(3)
		e.n(nc)
		for j := 0; j < nc; j++ {
			e.n([]int{st, st / 100, 404, 5, 2, 500, 4}[g.rng.Intn(7)])
		}
		if g.rng.Chance(1, 5) {
			e.n(0)
			e.n([]int{201, 299, 404, 503}[g.rng.Intn(4)])
			continue
		}
		e.n(1)
		g.nNamed, g.minInv, g.exprLeft, g.exprOdds = 0, 0, 0, 0
		g.nextID = 100 * i
		g.budget = 6 + g.rng.Intn(8)
		sh := shape{errOdds: 4, failOdds: 12, subOdds: 18, subErrOdds: 30, termOdds: 18, groupOdds: 35, rewriteOdds: 18, noSetOdds: 50, legacyOdds: 5, realOdds: 30}
		e.routes(g.routes(0, 3, sh))
	}
	q := g.request()
	return fmt.Sprintf("ic %d %d,%d,%d,%d %s", st, q.method, q.host, q.path, q.hdr, strings.Join(e.b, ","))
}
