package c08

// The proxy loop around Select (`prx` lines): the real reverse_proxy Handler, provisioned
// from JSON, with a probe upstream source (fresh *Upstream values per call, like the built-in
// SRV/A sources) and a probe transport that can hold requests in flight. What the selection
// policy calls "available" has to reflect the requests that really are in flight.

import (
	"encoding/json"
	"fmt"
	"io"
	weakrand "math/rand"
	"net/http"
	"net/http/httptest"
	"strconv"
	"strings"
	"sync"
	"sync/atomic"
	"time"

	"github.com/caddyserver/caddy/v2"
	"github.com/caddyserver/caddy/v2/caddyconfig/caddyfile"
	"github.com/caddyserver/caddy/v2/modules/caddyhttp"
	"github.com/caddyserver/caddy/v2/modules/caddyhttp/reverseproxy"

	"verif/harness/internal/core"
)

// ---------------------------------------------------------------- probe modules

// ProbeSource is a dynamic upstream source handing out brand-new Upstream values for a
// fixed list of addresses on every call.
type ProbeSource struct {
	Dials []string `json:"dials,omitempty"`
	Max   []int    `json:"max,omitempty"`
	Fail  bool     `json:"fail,omitempty"`
}

func (ProbeSource) CaddyModule() caddy.ModuleInfo {
	return caddy.ModuleInfo{
		ID:  "http.reverse_proxy.upstreams.c08probe",
		New: func() caddy.Module { return new(ProbeSource) },
	}
}

func (s ProbeSource) GetUpstreams(*http.Request) ([]*reverseproxy.Upstream, error) {
	if s.Fail {
		return nil, fmt.Errorf("probe source: lookup failed")
	}
	ups := make([]*reverseproxy.Upstream, len(s.Dials))
	for i, d := range s.Dials {
		ups[i] = &reverseproxy.Upstream{Dial: d}
		if i < len(s.Max) {
			ups[i].MaxRequests = s.Max[i]
		}
	}
	return ups, nil
}

// ProbeTransport is the backend: it answers 200 with the address the proxy dialed; a request
// carrying X-C08-Hold: k is parked until hold k is released.
type ProbeTransport struct {
	Case int `json:"case,omitempty"`
}

func (ProbeTransport) CaddyModule() caddy.ModuleInfo {
	return caddy.ModuleInfo{
		ID:  "http.reverse_proxy.transport.c08probe",
		New: func() caddy.Module { return new(ProbeTransport) },
	}
}

// ProbeBreaker is the handler's circuit breaker: open or closed as the case says.
type ProbeBreaker struct {
	Case int `json:"case,omitempty"`
}

func (ProbeBreaker) CaddyModule() caddy.ModuleInfo {
	return caddy.ModuleInfo{
		ID:  "http.reverse_proxy.circuit_breakers.c08probe",
		New: func() caddy.Module { return new(ProbeBreaker) },
	}
}

func (b ProbeBreaker) OK() bool {
	if v, ok := proxyCases.Load(b.Case); ok {
		return !v.(*proxyCase).tripped.Load()
	}
	return true
}

func (ProbeBreaker) RecordMetric(int, time.Duration) {}

type proxyCase struct {
	tripped atomic.Bool
	entered chan string
	release []chan struct{}
	parked  []atomic.Bool     // per hold: the request has been parked (it is parked once only)
	failRel []atomic.Bool     // per hold: the round trip ends with an error when it is released
	bad     map[string]int    // dial address -> 0 answers, 1 dial error, 2 other error, 3 answers with a status listed in unhealthy_status
	attempt func(addr string) // called for every round trip, on the goroutine of the request
}

var (
	proxyCases   sync.Map // int -> *proxyCase
	proxyCaseSeq int
	proxyOnce    sync.Once
	proxyBase    caddy.Context
	proxyBaseErr error
)

func (t ProbeTransport) RoundTrip(req *http.Request) (*http.Response, error) {
	di, ok := reverseproxy.GetDialInfo(req.Context())
	if !ok {
		return nil, fmt.Errorf("no dial info")
	}
	status := http.StatusOK
	if v, ok := proxyCases.Load(t.Case); ok {
		pc := v.(*proxyCase)
		pc.attempt(di.Address)
		switch pc.bad[di.Address] {
		case 1:
			return nil, reverseproxy.VerifDialError(fmt.Errorf("dial %s: connection refused", di.Address))
		case 2:
			return nil, fmt.Errorf("read from %s: connection reset", di.Address)
		}
		if hs := req.Header.Get("X-C08-Hold"); hs != "" {
			k, _ := strconv.Atoi(hs)
			if pc.parked[k].CompareAndSwap(false, true) {
				pc.entered <- di.Address
				<-pc.release[k]
				if pc.failRel[k].Load() {
					return nil, fmt.Errorf("read from %s: connection reset", di.Address)
				}
			}
		}
		if pc.bad[di.Address] == 3 {
			status = strikeStatus
		}
	}
	return &http.Response{
		StatusCode: status, Proto: "HTTP/1.1", ProtoMajor: 1, ProtoMinor: 1,
		Header:        http.Header{"Content-Type": []string{"text/plain"}},
		Body:          io.NopCloser(strings.NewReader(di.Address)),
		ContentLength: int64(len(di.Address)), Request: req,
	}, nil
}

func proxyInit() error {
	proxyOnce.Do(func() {
		caddy.RegisterModule(ProbeSource{})
		caddy.RegisterModule(ProbeTransport{})
		caddy.RegisterModule(ProbeBreaker{})
		caddy.RegisterModule(ProbePolicy{})
		cfg := &caddy.Config{
			Admin: &caddy.AdminConfig{Disabled: true},
			Logging: &caddy.Logging{Logs: map[string]*caddy.CustomLog{
				"default": {BaseLog: caddy.BaseLog{WriterRaw: json.RawMessage(`{"output":"discard"}`)}},
			}},
		}
		proxyBase, proxyBaseErr = caddy.ProvisionContext(cfg)
	})
	return proxyBaseErr
}

// ---------------------------------------------------------------- parsing (mirrors Driver.lean)

// strikeStatus is what a backend of kind `s` answers; the handler lists it in unhealthy_status
const strikeStatus = 418

type pev struct {
	kind byte // h q f x T U
	get  bool
	k    int
}

type pup struct {
	id, max, bad int
}

type proxyCaseT struct {
	dynamic bool
	leaf    node
	deflt   bool // no selection policy configured
	m       int
	fd      bool
	mf      int
	retries int
	cb      bool
	rm      int
	ups     []pup
	evs     []pev
	rnd     randSpec
	viaCf   bool // the configuration is delivered as a Caddyfile
}

func (c proxyCaseT) limit(i int) int {
	if c.ups[i].max > 0 {
		return c.ups[i].max
	}
	return c.m
}

// retryable: may the request be tried again after an error that is not a dial error?
func (c proxyCaseT) retryable(get bool) bool {
	switch c.rm {
	case 1:
		return !get
	case 3:
		return true
	}
	return get
}

func (c proxyCaseT) passive() bool { return c.m > 0 || c.fd || c.mf > 0 }

func (c proxyCaseT) maxFails() int {
	if c.mf == 0 {
		return 1
	}
	return c.mf
}

func parseProxy(f []string) (proxyCaseT, bool) {
	var c proxyCaseT
	if len(f) == 8 && f[7] == "c" {
		c.viaCf = true
		f = f[:7]
	}
	if len(f) != 7 {
		return c, false
	}
	switch f[1] {
	case "dyn":
		c.dynamic = true
	case "sta":
	default:
		return c, false
	}
	var ok bool
	if f[2] == "-" {
		c.deflt = true
		c.leaf = node{kind: "rnd"}
	} else {
		if c.leaf, ok = parseLeaf(f[2]); !ok {
			return c, false
		}
		switch c.leaf.kind {
		case "first", "rr", "lc", "rnd", "rc":
		default:
			return c, false
		}
	}
	cf := strings.Split(f[3], ":")
	if len(cf) == 6 && len(cf[5]) == 1 && cf[5][0] >= '0' && cf[5][0] <= '3' {
		c.rm = int(cf[5][0] - '0')
		cf = cf[:5]
		if cf[4] != "0" && cf[4] != "1" {
			return c, false
		}
	}
	if len(cf) == 5 && (cf[4] == "0" || cf[4] == "1") {
		c.cb = cf[4] == "1"
		cf = cf[:4]
	}
	if len(cf) != 4 {
		return c, false
	}
	m, ok1 := num(1000, cf[0])
	mf, ok2 := num(1000, cf[2])
	r, ok3 := num(8, cf[3])
	if !ok1 || !ok2 || !ok3 || (cf[1] != "0" && cf[1] != "1") {
		return c, false
	}
	c.m, c.fd, c.mf, c.retries = int(m), cf[1] == "1", int(mf), int(r)
	if f[4] != "-" {
		seen := map[uint64]bool{}
		for _, us := range strings.Split(f[4], ",") {
			p := strings.Split(us, ":")
			if len(p) != 3 {
				return c, false
			}
			id, ok1 := num(small, p[0])
			mx, ok2 := num(1000, p[1])
			bad, ok3 := map[string]int{"o": 0, "d": 1, "e": 2, "s": 3}[p[2]]
			if !ok1 || !ok2 || !ok3 || seen[id] {
				return c, false
			}
			seen[id] = true
			c.ups = append(c.ups, pup{int(id), int(mx), bad})
		}
		if len(c.ups) > 16 {
			return c, false
		}
	}
	holds := 0
	for _, e := range strings.Split(f[5], ",") {
		switch {
		case e == "h" || e == "H":
			c.evs = append(c.evs, pev{kind: 'h', get: e == "h"})
			holds++
		case e == "q" || e == "Q":
			c.evs = append(c.evs, pev{kind: 'q', get: e == "q"})
		case e == "T" || e == "U":
			c.evs = append(c.evs, pev{kind: e[0]})
		case strings.HasPrefix(e, "f") || strings.HasPrefix(e, "x"):
			k, ok := num(64, e[1:])
			if !ok || int(k) >= holds {
				return c, false
			}
			c.evs = append(c.evs, pev{kind: e[0], k: int(k)})
		default:
			return c, false
		}
	}
	if len(c.evs) > 32 {
		return c, false
	}
	if c.rnd, ok = parseRand(f[6]); !ok {
		return c, false
	}
	return c, true
}

// ---------------------------------------------------------------- running

func proxyDial(caseID, id int) string { return fmt.Sprintf("c%du%d.test:80", caseID, id) }

func runProxy(f []string) core.Outcome {
	c, ok := parseProxy(f)
	if !ok {
		return core.Outcome{Impl: "bad-op", Tags: []string{"bad-op", "trivial"}}
	}
	if err := proxyInit(); err != nil {
		panic("C08 proxy base context: " + err.Error())
	}
	proxyCaseSeq++
	caseID := proxyCaseSeq
	nholds := 0
	for _, e := range c.evs {
		if e.kind == 'h' {
			nholds++
		}
	}
	pc := &proxyCase{entered: make(chan string, nholds+1), bad: map[string]int{}}
	for i := 0; i < nholds; i++ {
		pc.release = append(pc.release, make(chan struct{}))
	}
	pc.parked = make([]atomic.Bool, nholds)
	pc.failRel = make([]atomic.Bool, nholds)
	n := len(c.ups)
	dials := make([]string, n)
	maxes := make([]int, n)
	dialIdx := map[string]int{}
	for i, u := range c.ups {
		dials[i] = proxyDial(caseID, u.id)
		maxes[i] = u.max
		dialIdx[dials[i]] = i
		pc.bad[dials[i]] = u.bad
	}
	lb := map[string]any{}
	if !c.deflt {
		pol := policyJSON([]node{c.leaf}, 0, 0)
		pol["policy"] = moduleName[c.leaf.kind]
		lb["selection_policy"] = pol
	}
	if c.retries > 0 {
		lb["retries"] = c.retries
	}
	switch c.rm {
	case 1:
		lb["retry_match"] = []map[string]any{{"method": []string{"POST"}}}
	case 2:
		lb["retry_match"] = []map[string]any{{"method": []string{"GET"}}}
	case 3:
		lb["retry_match"] = []map[string]any{{"method": []string{"GET", "POST"}}}
	}
	hj := map[string]any{"transport": map[string]any{"protocol": "c08probe", "case": caseID}}
	if len(lb) > 0 {
		hj["load_balancing"] = lb
	}
	if c.dynamic {
		hj["dynamic_upstreams"] = map[string]any{"source": "c08probe", "dials": dials, "max": maxes}
	} else {
		var ups []map[string]any
		for i, d := range dials {
			u := map[string]any{"dial": d}
			if maxes[i] > 0 {
				u["max_requests"] = maxes[i]
			}
			ups = append(ups, u)
		}
		hj["upstreams"] = ups
	}
	if c.cb {
		hj["circuit_breaker"] = map[string]any{"type": "c08probe", "case": caseID}
	}
	if c.passive() {
		p := map[string]any{}
		if c.m > 0 {
			p["unhealthy_request_count"] = c.m
		}
		if c.fd {
			p["fail_duration"] = "1h"
		}
		if c.mf > 0 {
			p["max_fails"] = c.mf
		}
		for _, u := range c.ups {
			if u.bad == 3 {
				// the exact code, or its class
				p["unhealthy_status"] = []int{[]int{strikeStatus, strikeStatus / 100}[u.id%2]}
				break
			}
		}
		hj["health_checks"] = map[string]any{"passive": p}
	}
	raw, _ := json.Marshal(hj)
	// delivery as a Caddyfile (trailing `c` on the line), if the configuration can be said there
	// (static upstreams have no max_requests of their own in a Caddyfile): the real
	// Handler.UnmarshalCaddyfile with lb_policy, lb_retries, lb_retry_match, the passive health
	// options, unhealthy_status, dynamic; transport and circuit breaker are added to its JSON
	viaCf := c.viaCf
	text := "reverse_proxy"
	if c.dynamic {
		text += " {\n\tdynamic c08probe ok"
		for i, d := range dials {
			text += fmt.Sprintf(" %s|%d", d, maxes[i])
		}
		text += "\n"
	} else {
		for i, d := range dials {
			text += " " + d
			viaCf = viaCf && maxes[i] == 0
		}
		text += " {\n"
	}
	if !c.deflt {
		text += "\tlb_policy " + moduleName[c.leaf.kind]
		if c.leaf.kind == "rc" {
			text += " " + strconv.Itoa(c.leaf.choose)
		}
		text += "\n"
	}
	if c.retries > 0 {
		text += fmt.Sprintf("\tlb_retries %d\n", c.retries)
	}
	switch c.rm {
	case 1:
		text += "\tlb_retry_match {\n\t\tmethod POST\n\t}\n"
	case 2:
		text += "\tlb_retry_match {\n\t\tmethod GET\n\t}\n"
	case 3:
		text += "\tlb_retry_match {\n\t\tmethod GET POST\n\t}\n"
	}
	if c.passive() {
		if c.m > 0 {
			text += fmt.Sprintf("\tunhealthy_request_count %d\n", c.m)
		}
		if c.fd {
			text += "\tfail_duration 1h\n"
		}
		if c.mf > 0 {
			text += fmt.Sprintf("\tmax_fails %d\n", c.mf)
		}
		for _, u := range c.ups {
			if u.bad == 3 {
				text += "\tunhealthy_status " + []string{strconv.Itoa(strikeStatus), strconv.Itoa(strikeStatus/100) + "xx"}[u.id%2] + "\n"
				break
			}
		}
	}
	text += "}\n"
	if viaCf {
		toks, err := caddyfile.Tokenize([]byte(text), "Caddyfile")
		if err != nil {
			return core.Outcome{Impl: "err:tokenize", Tags: []string{"err:tokenize"}}
		}
		hc := new(reverseproxy.Handler)
		if err := hc.UnmarshalCaddyfile(caddyfile.NewDispenser(toks)); err != nil {
			return core.Outcome{Impl: "err:caddyfile " + strings.ReplaceAll(err.Error(), " ", "_"), Tags: []string{"err:caddyfile"}}
		}
		b, _ := json.Marshal(hc)
		var mm map[string]any
		_ = json.Unmarshal(b, &mm)
		mm["transport"] = hj["transport"]
		if c.cb {
			mm["circuit_breaker"] = hj["circuit_breaker"]
		}
		raw, _ = json.Marshal(mm)
	}
	ctx, cancel := caddy.NewContext(proxyBase)
	defer cancel()
	mod, err := ctx.LoadModuleByID("http.handlers.reverse_proxy", raw)
	if err != nil {
		return core.Outcome{Impl: "err:provision", Tags: []string{"err:provision"}}
	}
	h := mod.(*reverseproxy.Handler)
	if rr, ok := h.LoadBalancing.SelectionPolicy.(*reverseproxy.RoundRobinSelection); ok {
		rr.VerifSetCounter(c.leaf.counter)
	}

	budget := len(c.evs)*(c.retries+1)*(n+2) + 8
	if len(c.rnd.draws) > budget {
		budget = len(c.rnd.draws) + 8
	}
	stream := seedStream(c.rnd.seed, budget)
	for i, d := range c.rnd.draws {
		if stream[i] != d {
			return core.Outcome{Impl: "bad-table", Tags: []string{"bad-table"}}
		}
	}
	// The error paths of the handler (caddyhttp.Error) draw from the global math/rand source
	// too, so the source is put back to the position the selections have reached before
	// every request and after every round trip: pos = draws consumed by Select so far.
	// (A Select that returns nil has looked at no available upstream and has drawn nothing.)
	var mu sync.Mutex
	pos := 0
	var attempts []int
	rewind := func() {
		weakrand.Seed(c.rnd.seed) //nolint:staticcheck
		for i := 0; i < pos; i++ {
			weakrand.Int63()
		}
	}
	pc.attempt = func(addr string) {
		mu.Lock()
		defer mu.Unlock()
		next := uint64(weakrand.Int63())
		found := false
		for i := pos; i < len(stream); i++ {
			if stream[i] == next {
				pos, found = i, true
				break
			}
		}
		if !found {
			pos = len(stream) + 1
		}
		rewind()
		attempts = append(attempts, dialIdx[addr])
	}
	proxyCases.Store(caseID, pc)
	defer proxyCases.Delete(caseID)

	serve := func(hold int, get bool) (code, retries int, body string) {
		method := http.MethodGet
		if !get {
			method = http.MethodPost
		}
		req := httptest.NewRequest(method, "http://proxy.test/", nil)
		req.RemoteAddr = "192.0.2.10:40000"
		if hold >= 0 {
			req.Header.Set("X-C08-Hold", strconv.Itoa(hold))
		}
		rec := httptest.NewRecorder()
		repl := caddy.NewReplacer()
		req = caddyhttp.PrepareRequest(req, repl, rec, &caddyhttp.Server{})
		err := h.ServeHTTP(rec, req, caddyhttp.HandlerFunc(func(http.ResponseWriter, *http.Request) error { return nil }))
		if v, ok := repl.Get("http.reverse_proxy.retries"); ok {
			retries, _ = v.(int)
		}
		if err != nil {
			if he, ok := err.(caddyhttp.HandlerError); ok {
				return he.StatusCode, retries, ""
			}
			return 500, retries, ""
		}
		return rec.Code, retries, rec.Body.String()
	}

	// the harness's own books
	heldOn := []int{}      // per held request: address index, -1 = not in flight
	itersAtHold := []int{} // per held request: the loop iterations it had made when it was parked
	type result struct{ code, retries int }
	doneCh := []chan result{}
	inflight := make([]int, n)
	var outs []string
	var fs []core.Failure
	add := func(class, what string) {
		for _, f := range fs {
			if f.Class == class {
				return
			}
		}
		fs = append(fs, core.Failure{Class: class, What: what})
	}
	mode := "static"
	if c.dynamic {
		mode = "dynamic"
	}
	full := func(i int) bool { return c.limit(i) > 0 && inflight[i] >= c.limit(i) }
	// the harness's books of strikes: every failed round trip and every answer with a status listed
	// in unhealthy_status is one (fail_duration is an hour: none expires inside a case)
	strikes := make([]int, n)
	book := func(att []int, ok bool) {
		if !c.fd {
			return
		}
		for k, a := range att {
			if !(ok && k == len(att)-1) {
				strikes[a]++
			}
		}
	}
	bookAnswer := func(i int) {
		if c.fd && c.ups[i].bad == 3 {
			strikes[i]++
		}
	}
	// property oracle for one arriving request, judged against the requests really in flight
	// att = the upstreams tried in order, ok = the last one answered, iterations = loop iterations
	judge := func(t int, e pev, att []int, ok bool, code, iterations int) {
		if iterations > c.retries+1 || len(att) > c.retries+1 {
			add("proxy-too-many-attempts", fmt.Sprintf("%s upstreams, event %d: %d loop iterations (%d round trips) with lb_retries %d", mode, t, iterations, len(att), c.retries))
		}
		failedBefore := map[int]bool{}
		for k, sel := range att {
			if full(sel) {
				add("proxy-selected-full-upstream", fmt.Sprintf("%s upstreams, event %d: request sent to upstream %d which has %d requests in flight, limit %d (in flight %v)", mode, t, sel, inflight[sel], c.limit(sel), inflight))
			}
			if failedBefore[sel] && !c.dynamic && c.fd && c.maxFails() == 1 {
				add("proxy-retried-unhealthy-upstream", fmt.Sprintf("static upstreams, event %d: upstream %d failed earlier in this request (fail_duration set, max_fails 1) and was tried again (tried %v)", t, sel, att))
			}
			if k > 0 && !c.retryable(e.get) && c.ups[att[k-1]].bad == 2 {
				add("proxy-post-retried", fmt.Sprintf("%s upstreams, event %d: a request that must not be repeated (POST by default; not matched by lb_retry_match) was retried after an error that was not a dial error (tried %v)", mode, t, att))
			}
			if !(ok && k == len(att)-1) {
				failedBefore[sel] = true
			}
		}
		if !ok && len(att) > 0 && iterations == len(att) && iterations < c.retries+1 {
			if last := c.ups[att[len(att)-1]].bad; last == 1 || (last == 2 && c.retryable(e.get)) {
				add("proxy-gave-up-with-retries-left", fmt.Sprintf("%s upstreams, event %d: the request failed after %d of %d allowed iterations although it may be tried again (dial error, or GET / matched by lb_retry_match) (tried %v)", mode, t, iterations, c.retries+1, att))
			}
		}
		if len(att) == 0 && !ok {
			anyFree := false
			for i := range c.ups {
				if !full(i) {
					anyFree = true
				}
			}
			// nothing was ever tried: 503, and only if no upstream could be used
			if code == 503 && anyFree && !c.fd && !(c.cb && pc.tripped.Load()) {
				add("proxy-refused-though-available", fmt.Sprintf("%s upstreams, event %d: 503 although an upstream is below its limit (in flight %v)", mode, t, inflight))
			}
		}
		if !ok || len(att) == 0 {
			return
		}
		sel := att[len(att)-1]
		if len(att) > 1 || c.fd {
			return // the contract checks below judge a first selection on a pool without recorded failures
		}
		switch c.leaf.kind {
		case "first":
			for j := 0; j < sel; j++ {
				if !full(j) {
					add("proxy-first-not-earliest", fmt.Sprintf("%s upstreams, event %d: first chose upstream %d although upstream %d is below its limit (in flight %v)", mode, t, sel, j, inflight))
					break
				}
			}
		case "lc":
			for j := range c.ups {
				if !full(j) && inflight[j] < inflight[sel] {
					add("proxy-leastconn-not-minimal", fmt.Sprintf("%s upstreams, event %d: least_conn chose upstream %d with %d requests in flight although upstream %d has %d (in flight %v)", mode, t, sel, inflight[sel], j, inflight[j], inflight))
					break
				}
			}
		case "rc":
			k := c.leaf.choose
			if k == 0 {
				k = 2
			}
			nav, atLeast := 0, 0
			for j := range c.ups {
				if !full(j) {
					nav++
					if inflight[j] >= inflight[sel] {
						atLeast++
					}
				}
			}
			if k > n {
				k = n
			}
			if k > nav {
				k = nav
			}
			if atLeast < k {
				add("proxy-randomchoose-not-minimal-candidate", fmt.Sprintf("%s upstreams, event %d: random_choose chose upstream %d with %d requests in flight: only %d available upstreams carry at least as many, it cannot be the least loaded of %d candidates (in flight %v)", mode, t, sel, inflight[sel], atLeast, k, inflight))
			}
		}
	}
	render := func(att []int, ok bool, code, iterations int) string {
		var p []string
		for k, a := range att {
			if ok && k == len(att)-1 {
				p = append(p, strconv.Itoa(a))
			} else {
				p = append(p, strconv.Itoa(a)+"!")
			}
		}
		if !ok {
			for k := len(att); k < iterations; k++ {
				p = append(p, "-")
			}
			switch code {
			case 502, 503:
				p = append(p, strconv.Itoa(code))
			default:
				p = append(p, "panic")
			}
		}
		return strings.Join(p, "/")
	}
	infra := ""
	for t, e := range c.evs {
		switch e.kind {
		case 'q':
			mu.Lock()
			attempts = nil
			rewind()
			mu.Unlock()
			code, retries, _ := serve(-1, e.get)
			att := append([]int{}, attempts...)
			ok := code == 200 || code == strikeStatus
			book(att, ok)
			if ok && len(att) > 0 {
				bookAnswer(att[len(att)-1])
			}
			outs = append(outs, render(att, ok, code, retries+1))
			if ok || code == 502 || code == 503 {
				judge(t, e, att, ok, code, retries+1)
			}
		case 'h':
			k := len(heldOn)
			done := make(chan result, 1)
			doneCh = append(doneCh, done)
			mu.Lock()
			attempts = nil
			rewind()
			mu.Unlock()
			go func() {
				defer func() {
					if r := recover(); r != nil {
						done <- result{599, 0}
					}
				}()
				code, retries, _ := serve(k, e.get)
				done <- result{code, retries}
			}()
			select {
			case addr := <-pc.entered:
				mu.Lock()
				att := append([]int{}, attempts...)
				mu.Unlock()
				i := dialIdx[addr]
				judge(t, e, att, true, 200, len(att))
				book(att, true)
				heldOn = append(heldOn, i)
				itersAtHold = append(itersAtHold, len(att))
				inflight[i]++
				outs = append(outs, render(att, true, 200, len(att)))
			case r := <-done:
				att := append([]int{}, attempts...)
				book(att, false)
				heldOn = append(heldOn, -1)
				itersAtHold = append(itersAtHold, 0)
				outs = append(outs, render(att, false, r.code, r.retries+1))
				if r.code == 502 || r.code == 503 {
					judge(t, e, att, false, r.code, r.retries+1)
				}
			case <-time.After(60 * time.Second):
				infra = "held request neither reached the backend nor returned"
				heldOn = append(heldOn, -1)
				itersAtHold = append(itersAtHold, 0)
				outs = append(outs, "?")
			}
		case 'T', 'U':
			pc.tripped.Store(e.kind == 'T')
			outs = append(outs, "ok")
		case 'f':
			if heldOn[e.k] < 0 {
				outs = append(outs, "-")
				continue
			}
			close(pc.release[e.k])
			select {
			case <-doneCh[e.k]:
			case <-time.After(60 * time.Second):
				infra = "released request did not complete"
			}
			inflight[heldOn[e.k]]--
			bookAnswer(heldOn[e.k])
			heldOn[e.k] = -1
			outs = append(outs, "ok")
		case 'x':
			// the round trip of a held request ends with an error: the rest of its proxy loop
			if heldOn[e.k] < 0 {
				outs = append(outs, "-")
				continue
			}
			i := heldOn[e.k]
			mu.Lock()
			attempts = nil
			rewind()
			mu.Unlock()
			pc.failRel[e.k].Store(true)
			close(pc.release[e.k])
			var r result
			select {
			case r = <-doneCh[e.k]:
			case <-time.After(60 * time.Second):
				infra = "released request did not complete"
			}
			inflight[i]--
			heldOn[e.k] = -1
			mu.Lock()
			att := append([]int{i}, attempts...)
			mu.Unlock()
			ok := r.code == 200 || r.code == strikeStatus
			book(att, ok)
			if ok {
				bookAnswer(att[len(att)-1])
			}
			for _, sel := range att[1:] {
				if full(sel) {
					add("proxy-selected-full-upstream", fmt.Sprintf("%s upstreams, event %d: after its round trip failed the held request was sent to upstream %d which has %d requests in flight, limit %d (in flight %v)", mode, t, sel, inflight[sel], c.limit(sel), inflight))
				}
			}
			if att[len(att)-1] == i && len(att) > 1 && !c.dynamic && c.fd && c.maxFails() == 1 {
				add("proxy-retried-unhealthy-upstream", fmt.Sprintf("static upstreams, event %d: the round trip of a held request to upstream %d failed (fail_duration set, max_fails 1) and the same upstream was tried again (tried %v)", t, i, att))
			}
			outs = append(outs, render(att, ok, r.code, r.retries+1-(itersAtHold[e.k]-1)))
		}
		// oracle: nothing is proxied while the breaker is open
		if (e.kind == 'q' || e.kind == 'h') && c.cb && pc.tripped.Load() {
			if last := outs[len(outs)-1]; !strings.HasSuffix(last, "503") && !strings.HasSuffix(last, "502") && last != "?" {
				add("proxy-sent-through-open-breaker", fmt.Sprintf("%s upstreams, event %d: the handler's circuit breaker is open, yet the request was proxied (%s)", mode, t, last))
			}
		}
	}
	consumed := pos
	// what the shared host state says
	snap := reverseproxy.VerifHostsSnapshot()
	var ns, fls []string
	for i, d := range dials {
		var nr, fl int64
		if e, ok := snap[d]; ok {
			nr, fl = e.State.NumRequests, e.State.Fails
		}
		ns = append(ns, strconv.FormatInt(nr, 10))
		fls = append(fls, strconv.FormatInt(fl, 10))
		if !c.dynamic && infra == "" && int(fl) != strikes[i] {
			add("proxy-failure-not-counted", fmt.Sprintf("static upstreams, fail_duration 1h: upstream %d has had %d strikes (failed round trips, answers with a status listed in unhealthy_status) but the shared host state that Healthy() reads says %d (strikes %v)", i, strikes[i], fl, strikes))
		}
		if int(nr) != inflight[i] {
			add("proxy-inflight-not-visible", fmt.Sprintf("%s upstreams: %d requests are in flight on upstream %d but the shared host state that Available()/NumRequests() read says %d (in flight %v)", mode, inflight[i], i, nr, inflight))
		}
	}
	// let everything finish
	for k, on := range heldOn {
		if on >= 0 {
			close(pc.release[k])
			select {
			case <-doneCh[k]:
			case <-time.After(60 * time.Second):
				infra = "released request did not complete"
			}
		}
	}
	o := core.Outcome{}
	if infra != "" {
		add("harness-proxy-timeout", infra)
	}
	if consumed > len(c.rnd.draws) {
		o.Impl = "starved"
		o.Tags = []string{"starved"}
		return o
	}
	counter := "-"
	if rr, ok := h.LoadBalancing.SelectionPolicy.(*reverseproxy.RoundRobinSelection); ok {
		counter = strconv.FormatUint(uint64(rr.VerifCounter()), 10)
	}
	join := func(p []string) string {
		if len(p) == 0 {
			return "-"
		}
		return strings.Join(p, ",")
	}
	o.Impl = strings.Join(outs, ",") + " c=" + counter + " n=" + join(ns) + " f=" + join(fls)
	o.Tags = []string{"prx:" + mode, "prx:policy:" + c.leaf.kind}
	if c.deflt {
		o.Tags = append(o.Tags, "prx:default-policy")
	}
	if viaCf {
		o.Tags = append(o.Tags, "prx:via-caddyfile")
	}
	if c.m > 0 {
		o.Tags = append(o.Tags, "prx:limit")
	}
	if c.retries > 0 {
		o.Tags = append(o.Tags, "prx:retries")
	}
	if c.fd {
		o.Tags = append(o.Tags, "prx:fail_duration")
	}
	seenTag := map[string]bool{}
	tag := func(t string) {
		if !seenTag[t] {
			seenTag[t] = true
			o.Tags = append(o.Tags, t)
		}
	}
	for _, u := range c.ups {
		if u.bad == 3 && c.passive() {
			tag("prx:unhealthy_status")
		}
		if u.max > 0 {
			tag("prx:own-max_requests")
			if c.m > 0 && u.max != c.m {
				tag("prx:own-max_requests-vs-unhealthy_request_count")
			}
		}
	}
	for _, x := range outs {
		switch {
		case strings.HasSuffix(x, "503"):
			tag("prx:503")
		case strings.HasSuffix(x, "502"):
			tag("prx:502")
		}
		if strings.Contains(x, "!/") {
			tag("prx:retried")
			if !strings.HasSuffix(x, "502") && !strings.HasSuffix(x, "503") {
				tag("prx:retried-then-sent")
			}
		}
		if strings.Contains(x, "-/") {
			tag("prx:nil-iteration")
		}
	}
	cur, maxOverlap := 0, 0
	for _, e := range c.evs {
		if e.kind == 'h' {
			cur++
			if cur > maxOverlap {
				maxOverlap = cur
			}
		} else if e.kind == 'f' || e.kind == 'x' {
			cur--
			if e.kind == 'x' {
				tag("prx:held-request-fails")
			}
		}
	}
	if maxOverlap >= 2 {
		tag("prx:overlap>=2")
	}
	if consumed > 0 {
		tag("draws-used")
	}
	o.Failures = fs
	return o
}

// ---------------------------------------------------------------- generating

func genProxy(rng *core.Rand) string {
	mode := "dyn"
	if rng.Chance(1, 2) {
		mode = "sta"
	}
	kinds := []string{"first", "first", "rr", "lc", "lc", "rnd", "rc", "rc", "-"}
	kind := kinds[rng.Intn(len(kinds))]
	leaf := node{kind: kind}
	if kind == "-" {
		leaf.kind = "rnd"
	}
	if leaf.kind == "rr" {
		leaf.counter = uint32(rng.Intn(20))
	}
	if leaf.kind == "rc" {
		leaf.choose = []int{0, 2, 2, 3, 4, 1}[rng.Intn(6)]
	}
	m := []int{0, 1, 1, 2, 2, 3}[rng.Intn(6)]
	fd, mf, retries := 0, 0, 0
	if rng.Chance(1, 2) {
		retries = 1 + rng.Intn(4)
	}
	if rng.Chance(1, 2) {
		fd = 1
		mf = []int{0, 0, 1, 2, 3}[rng.Intn(5)]
	} else if rng.Chance(1, 6) {
		mf = 1 + rng.Intn(2)
	}
	nids := 1 + rng.Intn(4)
	if rng.Chance(1, 30) {
		nids = 0
	}
	badBias := []int{0, 0, 25, 50}[rng.Intn(4)]
	var ups []string
	off := rng.Intn(40)
	for i := 0; i < nids; i++ {
		mx := 0
		if rng.Chance(1, 4) {
			mx = 1 + rng.Intn(3)
		}
		bad := "o"
		if rng.Intn(100) < badBias {
			bad = []string{"d", "d", "e", "s"}[rng.Intn(4)]
		}
		ups = append(ups, fmt.Sprintf("%d:%d:%s", 1+off+i*3, mx, bad))
	}
	uf := "-"
	if nids > 0 {
		uf = strings.Join(ups, ",")
	}
	nev := 2 + rng.Intn(9)
	var evs []string
	holds := 0
	var open []int
	for i := 0; i < nev; i++ {
		post := rng.Chance(1, 4)
		switch r := rng.Intn(10); {
		case r < 5:
			if post {
				evs = append(evs, "H")
			} else {
				evs = append(evs, "h")
			}
			open = append(open, holds)
			holds++
		case r < 8 || len(open) == 0:
			if post {
				evs = append(evs, "Q")
			} else {
				evs = append(evs, "q")
			}
		default:
			j := rng.Intn(len(open))
			k := open[j]
			if rng.Chance(1, 10) {
				k = rng.Intn(holds) // possibly one that already completed
			} else {
				open = append(open[:j], open[j+1:]...)
			}
			if rng.Chance(1, 3) {
				evs = append(evs, "x"+strconv.Itoa(k))
			} else {
				evs = append(evs, "f"+strconv.Itoa(k))
			}
		}
	}
	rs := "-"
	switch leaf.kind {
	case "lc", "rnd", "rc":
		seed := int64(rng.U64() >> 1)
		var p []string
		for _, d := range seedStream(seed, nev*(retries+1)*(nids+2)) {
			p = append(p, strconv.FormatUint(d, 10))
		}
		if len(p) > 0 {
			rs = fmt.Sprintf("%d:%s", seed, strings.Join(p, ","))
		}
	}
	pol := kind
	if kind != "-" {
		pol = leaf.String()
	}
	cfg := fmt.Sprintf("%d:%d:%d:%d", m, fd, mf, retries)
	if rng.Chance(1, 4) {
		cfg += ":1"
		// sprinkle breaker events
		for i := 1 + rng.Intn(2); i > 0; i-- {
			at := rng.Intn(len(evs) + 1)
			ev := "T"
			if rng.Chance(1, 3) {
				ev = "U"
			}
			evs = append(evs[:at], append([]string{ev}, evs[at:]...)...)
		}
		if rng.Chance(1, 3) {
			cfg += ":" + strconv.Itoa(rng.Intn(4))
		}
	} else if rng.Chance(1, 4) {
		cfg += ":0:" + strconv.Itoa(rng.Intn(4))
	} else if rng.Chance(1, 10) {
		cfg += ":0"
	}
	via := ""
	if rng.Chance(1, 3) {
		via = " c"
	}
	return fmt.Sprintf("prx %s %s %s %s %s %s%s", mode, pol, cfg, uf, strings.Join(evs, ","), rs, via)
}
