package c08

// The proxy loop around Select (`prx` lines): the real reverse_proxy Handler, provisioned
// from JSON, with a probe upstream source (fresh *Upstream values per call, like the built-in
// SRV/A sources) and a probe transport that can hold requests in flight. What the selection
// policy calls "available" has to reflect the requests that really are in flight.

import (
	"encoding/json"
	"fmt"
	"io"
	weakrand "math/rand"
	"net/http"
	"net/http/httptest"
	"strconv"
	"strings"
	"sync"
	"time"

	"github.com/caddyserver/caddy/v2"
	"github.com/caddyserver/caddy/v2/modules/caddyhttp"
	"github.com/caddyserver/caddy/v2/modules/caddyhttp/reverseproxy"

	"verif/harness/internal/core"
)

// ---------------------------------------------------------------- probe modules

// ProbeSource is a dynamic upstream source handing out brand-new Upstream values for a
// fixed list of addresses on every call.
type ProbeSource struct {
	Dials []string `json:"dials,omitempty"`
}

func (ProbeSource) CaddyModule() caddy.ModuleInfo {
	return caddy.ModuleInfo{
		ID:  "http.reverse_proxy.upstreams.c08probe",
		New: func() caddy.Module { return new(ProbeSource) },
	}
}

func (s ProbeSource) GetUpstreams(*http.Request) ([]*reverseproxy.Upstream, error) {
	ups := make([]*reverseproxy.Upstream, len(s.Dials))
	for i, d := range s.Dials {
		ups[i] = &reverseproxy.Upstream{Dial: d}
	}
	return ups, nil
}

// ProbeTransport is the backend: it answers 200 with the address the proxy dialed; a request
// carrying X-C08-Hold: k is parked until hold k is released.
type ProbeTransport struct {
	Case int `json:"case,omitempty"`
}

func (ProbeTransport) CaddyModule() caddy.ModuleInfo {
	return caddy.ModuleInfo{
		ID:  "http.reverse_proxy.transport.c08probe",
		New: func() caddy.Module { return new(ProbeTransport) },
	}
}

type proxyCase struct {
	entered chan string
	release []chan struct{}
}

var (
	proxyCases   sync.Map // int -> *proxyCase
	proxyCaseSeq int
	proxyOnce    sync.Once
	proxyBase    caddy.Context
	proxyBaseErr error
)

func (t ProbeTransport) RoundTrip(req *http.Request) (*http.Response, error) {
	di, ok := reverseproxy.GetDialInfo(req.Context())
	if !ok {
		return nil, fmt.Errorf("no dial info")
	}
	if hs := req.Header.Get("X-C08-Hold"); hs != "" {
		if v, ok := proxyCases.Load(t.Case); ok {
			pc := v.(*proxyCase)
			k, _ := strconv.Atoi(hs)
			pc.entered <- di.Address
			<-pc.release[k]
		}
	}
	return &http.Response{
		StatusCode: http.StatusOK, Proto: "HTTP/1.1", ProtoMajor: 1, ProtoMinor: 1,
		Header:        http.Header{"Content-Type": []string{"text/plain"}},
		Body:          io.NopCloser(strings.NewReader(di.Address)),
		ContentLength: int64(len(di.Address)), Request: req,
	}, nil
}

func proxyInit() error {
	proxyOnce.Do(func() {
		caddy.RegisterModule(ProbeSource{})
		caddy.RegisterModule(ProbeTransport{})
		cfg := &caddy.Config{
			Admin: &caddy.AdminConfig{Disabled: true},
			Logging: &caddy.Logging{Logs: map[string]*caddy.CustomLog{
				"default": {BaseLog: caddy.BaseLog{WriterRaw: json.RawMessage(`{"output":"discard"}`)}},
			}},
		}
		proxyBase, proxyBaseErr = caddy.ProvisionContext(cfg)
	})
	return proxyBaseErr
}

// ---------------------------------------------------------------- parsing (mirrors Driver.lean)

type pev struct {
	kind byte // h q f
	k    int
}

type proxyCaseT struct {
	dynamic bool
	leaf    node
	m       int
	ids     []int
	evs     []pev
	rnd     randSpec
}

func parseProxy(f []string) (proxyCaseT, bool) {
	var c proxyCaseT
	if len(f) != 7 {
		return c, false
	}
	switch f[1] {
	case "dyn":
		c.dynamic = true
	case "sta":
	default:
		return c, false
	}
	var ok bool
	if c.leaf, ok = parseLeaf(f[2]); !ok {
		return c, false
	}
	switch c.leaf.kind {
	case "first", "rr", "lc", "rnd", "rc":
	default:
		return c, false
	}
	m, ok := num(1000, f[3])
	if !ok {
		return c, false
	}
	c.m = int(m)
	ids, ok := parseNums(small, f[4])
	if !ok || len(ids) > 16 {
		return c, false
	}
	seen := map[uint64]bool{}
	for _, id := range ids {
		if seen[id] {
			return c, false
		}
		seen[id] = true
		c.ids = append(c.ids, int(id))
	}
	holds := 0
	for _, e := range strings.Split(f[5], ",") {
		switch {
		case e == "h":
			c.evs = append(c.evs, pev{kind: 'h'})
			holds++
		case e == "q":
			c.evs = append(c.evs, pev{kind: 'q'})
		case strings.HasPrefix(e, "f"):
			k, ok := num(64, e[1:])
			if !ok || int(k) >= holds {
				return c, false
			}
			c.evs = append(c.evs, pev{kind: 'f', k: int(k)})
		default:
			return c, false
		}
	}
	if len(c.evs) > 32 {
		return c, false
	}
	if c.rnd, ok = parseRand(f[6]); !ok {
		return c, false
	}
	return c, true
}

// ---------------------------------------------------------------- running

func proxyDial(caseID, id int) string { return fmt.Sprintf("c%du%d.test:80", caseID, id) }

func runProxy(f []string) core.Outcome {
	c, ok := parseProxy(f)
	if !ok {
		return core.Outcome{Impl: "bad-op", Tags: []string{"bad-op", "trivial"}}
	}
	if err := proxyInit(); err != nil {
		panic("C08 proxy base context: " + err.Error())
	}
	proxyCaseSeq++
	caseID := proxyCaseSeq
	nholds := 0
	for _, e := range c.evs {
		if e.kind == 'h' {
			nholds++
		}
	}
	pc := &proxyCase{entered: make(chan string, nholds+1)}
	for i := 0; i < nholds; i++ {
		pc.release = append(pc.release, make(chan struct{}))
	}
	proxyCases.Store(caseID, pc)
	defer proxyCases.Delete(caseID)

	dials := make([]string, len(c.ids))
	dialIdx := map[string]int{}
	for i, id := range c.ids {
		dials[i] = proxyDial(caseID, id)
		dialIdx[dials[i]] = i
	}
	pol := policyJSON([]node{c.leaf}, 0, 0)
	pol["policy"] = moduleName[c.leaf.kind]
	hj := map[string]any{
		"transport":      map[string]any{"protocol": "c08probe", "case": caseID},
		"load_balancing": map[string]any{"selection_policy": pol},
	}
	if c.dynamic {
		hj["dynamic_upstreams"] = map[string]any{"source": "c08probe", "dials": dials}
	} else {
		var ups []map[string]any
		for _, d := range dials {
			ups = append(ups, map[string]any{"dial": d})
		}
		hj["upstreams"] = ups
	}
	if c.m > 0 {
		hj["health_checks"] = map[string]any{"passive": map[string]any{"unhealthy_request_count": c.m}}
	}
	raw, _ := json.Marshal(hj)
	ctx, cancel := caddy.NewContext(proxyBase)
	defer cancel()
	mod, err := ctx.LoadModuleByID("http.handlers.reverse_proxy", raw)
	if err != nil {
		return core.Outcome{Impl: "err:provision", Tags: []string{"err:provision"}}
	}
	h := mod.(*reverseproxy.Handler)
	if rr, ok := h.LoadBalancing.SelectionPolicy.(*reverseproxy.RoundRobinSelection); ok {
		rr.VerifSetCounter(c.leaf.counter)
	}

	budget := len(c.evs)*(len(c.ids)+2) + 8
	if len(c.rnd.draws) > budget {
		budget = len(c.rnd.draws) + 8
	}
	stream := seedStream(c.rnd.seed, budget)
	for i, d := range c.rnd.draws {
		if stream[i] != d {
			return core.Outcome{Impl: "bad-table", Tags: []string{"bad-table"}}
		}
	}

	serve := func(hold int) (int, string) {
		req := httptest.NewRequest(http.MethodGet, "http://proxy.test/", nil)
		req.RemoteAddr = "192.0.2.10:40000"
		if hold >= 0 {
			req.Header.Set("X-C08-Hold", strconv.Itoa(hold))
		}
		rec := httptest.NewRecorder()
		repl := caddy.NewReplacer()
		req = caddyhttp.PrepareRequest(req, repl, rec, &caddyhttp.Server{})
		err := h.ServeHTTP(rec, req, caddyhttp.HandlerFunc(func(http.ResponseWriter, *http.Request) error { return nil }))
		if err != nil {
			if he, ok := err.(caddyhttp.HandlerError); ok {
				return he.StatusCode, ""
			}
			return 500, ""
		}
		return rec.Code, rec.Body.String()
	}

	// the harness's own books: which held request is in flight on which address
	heldOn := []int{} // per hold: address index, -1 = not in flight
	doneCh := []chan int{}
	inflight := make([]int, len(c.ids))
	var outs []string
	var fs []core.Failure
	add := func(class, what string) {
		for _, f := range fs {
			if f.Class == class {
				return
			}
		}
		fs = append(fs, core.Failure{Class: class, What: what})
	}
	mode := "static"
	if c.dynamic {
		mode = "dynamic"
	}
	// property oracle for one arriving request, judged against the requests really in flight
	judge := func(t int, sel int) {
		full := func(i int) bool { return c.m > 0 && inflight[i] >= c.m }
		anyFree := false
		for i := range c.ids {
			if !full(i) {
				anyFree = true
			}
		}
		if sel < 0 {
			if anyFree {
				add("proxy-refused-though-available", fmt.Sprintf("%s upstreams, event %d: 503 although an upstream is below its limit %d (in flight %v)", mode, t, c.m, inflight))
			}
			return
		}
		if full(sel) {
			add("proxy-selected-full-upstream", fmt.Sprintf("%s upstreams, event %d: request proxied to upstream %d which has %d requests in flight, limit %d (in flight %v)", mode, t, sel, inflight[sel], c.m, inflight))
		}
		switch c.leaf.kind {
		case "first":
			for j := 0; j < sel; j++ {
				if !full(j) {
					add("proxy-first-not-earliest", fmt.Sprintf("%s upstreams, event %d: first chose upstream %d although upstream %d is below its limit (in flight %v)", mode, t, sel, j, inflight))
					break
				}
			}
		case "lc":
			for j := range c.ids {
				if !full(j) && inflight[j] < inflight[sel] {
					add("proxy-leastconn-not-minimal", fmt.Sprintf("%s upstreams, event %d: least_conn chose upstream %d with %d requests in flight although upstream %d has %d (in flight %v)", mode, t, sel, inflight[sel], j, inflight[j], inflight))
					break
				}
			}
		case "rc":
			k := c.leaf.choose
			if k == 0 {
				k = 2
			}
			nav, atLeast := 0, 0
			for j := range c.ids {
				if !full(j) {
					nav++
					if inflight[j] >= inflight[sel] {
						atLeast++
					}
				}
			}
			if k > len(c.ids) {
				k = len(c.ids)
			}
			if k > nav {
				k = nav
			}
			if atLeast < k {
				add("proxy-randomchoose-not-minimal-candidate", fmt.Sprintf("%s upstreams, event %d: random_choose chose upstream %d with %d requests in flight: only %d available upstreams carry at least as many, it cannot be the least loaded of %d candidates (in flight %v)", mode, t, sel, inflight[sel], atLeast, k, inflight))
			}
		}
	}
	infra := ""
	// The error path of a refused request (caddyhttp.Error) draws from the global math/rand
	// source too, so the source is put back to the position the selections have reached
	// before every request: pos = draws consumed by Select so far. (A Select that returns
	// nil has looked at no available upstream and has drawn nothing.)
	pos := 0
	rewind := func() {
		weakrand.Seed(c.rnd.seed) //nolint:staticcheck
		for i := 0; i < pos; i++ {
			weakrand.Int63()
		}
	}
	advance := func() {
		next := uint64(weakrand.Int63())
		for i := pos; i < len(stream); i++ {
			if stream[i] == next {
				pos = i
				return
			}
		}
		pos = len(stream) + 1
	}
	for t, e := range c.evs {
		if e.kind != 'f' {
			rewind()
		}
		switch e.kind {
		case 'q':
			code, body := serve(-1)
			if code == 200 {
				advance()
			}
			sel := -1
			switch {
			case code == 200:
				if i, ok := dialIdx[body]; ok {
					sel = i
					outs = append(outs, strconv.Itoa(i))
				} else {
					outs = append(outs, "?")
				}
			case code == 503:
				outs = append(outs, "503")
			default:
				outs = append(outs, "panic")
			}
			if code == 200 || code == 503 {
				judge(t, sel)
			}
		case 'h':
			k := len(heldOn)
			done := make(chan int, 1)
			doneCh = append(doneCh, done)
			go func() {
				defer func() {
					if r := recover(); r != nil {
						done <- 599
					}
				}()
				code, _ := serve(k)
				done <- code
			}()
			select {
			case addr := <-pc.entered:
				advance()
				i := dialIdx[addr]
				judge(t, i)
				heldOn = append(heldOn, i)
				inflight[i]++
				outs = append(outs, strconv.Itoa(i))
			case code := <-done:
				heldOn = append(heldOn, -1)
				if code == 503 {
					outs = append(outs, "503")
					judge(t, -1)
				} else {
					outs = append(outs, "panic")
				}
			case <-time.After(60 * time.Second):
				infra = "held request neither reached the backend nor returned"
				heldOn = append(heldOn, -1)
				outs = append(outs, "?")
			}
		case 'f':
			if heldOn[e.k] < 0 {
				outs = append(outs, "-")
				continue
			}
			close(pc.release[e.k])
			select {
			case <-doneCh[e.k]:
			case <-time.After(60 * time.Second):
				infra = "released request did not complete"
			}
			inflight[heldOn[e.k]]--
			heldOn[e.k] = -1
			outs = append(outs, "ok")
		}
	}
	// what the shared host state says is in flight
	consumed := pos
	snap := reverseproxy.VerifHostsSnapshot()
	var ns []string
	for i, d := range dials {
		n := int64(0)
		if e, ok := snap[d]; ok {
			n = e.State.NumRequests
		}
		ns = append(ns, strconv.FormatInt(n, 10))
		if int(n) != inflight[i] {
			add("proxy-inflight-not-visible", fmt.Sprintf("%s upstreams: %d requests are in flight on upstream %d but the shared host state that Available()/NumRequests() read says %d (in flight %v)", mode, inflight[i], i, n, inflight))
		}
	}
	// let everything finish
	for k, on := range heldOn {
		if on >= 0 {
			close(pc.release[k])
			select {
			case <-doneCh[k]:
			case <-time.After(60 * time.Second):
				infra = "released request did not complete"
			}
		}
	}
	o := core.Outcome{}
	if infra != "" {
		add("harness-proxy-timeout", infra)
	}
	if consumed > len(c.rnd.draws) {
		o.Impl = "starved"
		o.Tags = []string{"starved"}
		return o
	}
	counter := "-"
	if rr, ok := h.LoadBalancing.SelectionPolicy.(*reverseproxy.RoundRobinSelection); ok {
		counter = strconv.FormatUint(uint64(rr.VerifCounter()), 10)
	}
	n := "-"
	if len(ns) > 0 {
		n = strings.Join(ns, ",")
	}
	o.Impl = strings.Join(outs, ",") + " c=" + counter + " n=" + n
	o.Tags = []string{"prx:" + mode, "prx:policy:" + c.leaf.kind}
	if c.m > 0 {
		o.Tags = append(o.Tags, "prx:limit")
	}
	maxOverlap := 0
	for _, x := range outs {
		if x == "503" {
			o.Tags = append(o.Tags, "prx:503")
			break
		}
	}
	cur := 0
	for _, e := range c.evs {
		if e.kind == 'h' {
			cur++
			if cur > maxOverlap {
				maxOverlap = cur
			}
		} else if e.kind == 'f' {
			cur--
		}
	}
	if maxOverlap >= 2 {
		o.Tags = append(o.Tags, "prx:overlap>=2")
	}
	if consumed > 0 {
		o.Tags = append(o.Tags, "draws-used")
	}
	o.Failures = fs
	return o
}

// ---------------------------------------------------------------- generating

func genProxy(rng *core.Rand) string {
	mode := "dyn"
	if rng.Chance(1, 3) {
		mode = "sta"
	}
	kinds := []string{"first", "rr", "lc", "lc", "rnd", "rc", "rc"}
	leaf := node{kind: kinds[rng.Intn(len(kinds))]}
	if leaf.kind == "rr" {
		leaf.counter = uint32(rng.Intn(20))
	}
	if leaf.kind == "rc" {
		leaf.choose = []int{0, 2, 2, 3, 4, 1}[rng.Intn(6)]
	}
	m := []int{0, 1, 1, 2, 2, 3}[rng.Intn(6)]
	nids := 1 + rng.Intn(4)
	if rng.Chance(1, 30) {
		nids = 0
	}
	var ids []string
	off := rng.Intn(40)
	for i := 0; i < nids; i++ {
		ids = append(ids, strconv.Itoa(1+off+i*3))
	}
	idf := "-"
	if nids > 0 {
		idf = strings.Join(ids, ",")
	}
	nev := 2 + rng.Intn(9)
	var evs []string
	holds := 0
	var open []int
	for i := 0; i < nev; i++ {
		switch r := rng.Intn(10); {
		case r < 5:
			evs = append(evs, "h")
			open = append(open, holds)
			holds++
		case r < 8 || len(open) == 0:
			evs = append(evs, "q")
		default:
			j := rng.Intn(len(open))
			k := open[j]
			if rng.Chance(1, 10) {
				k = rng.Intn(holds) // possibly one that already completed
			} else {
				open = append(open[:j], open[j+1:]...)
			}
			evs = append(evs, "f"+strconv.Itoa(k))
		}
	}
	rs := "-"
	switch leaf.kind {
	case "lc", "rnd", "rc":
		seed := int64(rng.U64() >> 1)
		var p []string
		for _, d := range seedStream(seed, nev*(nids+2)) {
			p = append(p, strconv.FormatUint(d, 10))
		}
		rs = fmt.Sprintf("%d:%s", seed, strings.Join(p, ","))
	}
	return fmt.Sprintf("prx %s %s %d %s %s %s", mode, leaf.String(), m, idf, strings.Join(evs, ","), rs)
}
