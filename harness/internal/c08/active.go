package c08

// `ah` lines: active health checks — when does the `healthy` flag of an upstream flip? A real
// reverse_proxy handler with health_checks.active checks a local httptest backend whose answers
// follow the script; every round of checks is started on demand through the verif hook.

import (
	"encoding/json"
	"fmt"
	"net/http"
	"net/http/httptest"
	"strings"
	"sync/atomic"
	"time"

	"github.com/caddyserver/caddy/v2"
	"github.com/caddyserver/caddy/v2/modules/caddyhttp/reverseproxy"

	"verif/harness/internal/core"
)

func runAh(f []string) core.Outcome {
	bad := core.Outcome{Impl: "bad-op", Tags: []string{"bad-op", "trivial"}}
	if len(f) != 4 {
		return bad
	}
	p, ok1 := num(20, f[1])
	fl, ok2 := num(20, f[2])
	if !ok1 || !ok2 || f[3] == "" || len(f[3]) > 24 || strings.Trim(f[3], "pf") != "" {
		return bad
	}
	if err := proxyInit(); err != nil {
		panic("C08 proxy base context: " + err.Error())
	}
	var pass atomic.Bool
	srv := httptest.NewServer(http.HandlerFunc(func(w http.ResponseWriter, r *http.Request) {
		if pass.Load() {
			w.WriteHeader(200)
		} else {
			w.WriteHeader(500)
		}
	}))
	defer srv.Close()
	addr := strings.TrimPrefix(srv.URL, "http://")
	active := map[string]any{"uri": "/health", "interval": "1h", "timeout": "5s"}
	if p > 0 {
		active["passes"] = p
	}
	if fl > 0 {
		active["fails"] = fl
	}
	raw, _ := json.Marshal(map[string]any{
		"upstreams":     []map[string]any{{"dial": addr}},
		"health_checks": map[string]any{"active": active},
	})
	pass.Store(f[3][0] == 'p')
	ctx, cancel := caddy.NewContext(proxyBase)
	defer cancel()
	mod, err := ctx.LoadModuleByID("http.handlers.reverse_proxy", raw)
	if err != nil {
		return core.Outcome{Impl: "err:provision", Tags: []string{"err:provision"}}
	}
	h := mod.(*reverseproxy.Handler)
	up := h.Upstreams[0]
	type st struct {
		healthy       bool
		passes, fails int64
	}
	read := func() st {
		hs := up.VerifHostState()
		return st{up.VerifActiveHealthy(), hs.ActivePasses, hs.ActiveFails}
	}
	pth, fth := int64(p), int64(fl)
	if pth < 1 {
		pth = 1
	}
	if fth < 1 {
		fth = 1
	}
	// waitSettled polls until the check of result ok has been fully accounted: the counter of
	// that kind moved (or the flag flipped and both counters were reset), and no flip is pending
	// (a healthy upstream with fails >= threshold / an unhealthy one with passes >= threshold is
	// a state between countHealth…(1) and setHealthy)
	waitSettled := func(prev st, ok bool) (st, bool) {
		deadline := time.Now().Add(20 * time.Second)
		for time.Now().Before(deadline) {
			cur := read()
			flipped := cur.healthy != prev.healthy
			moved := (ok && cur.passes == prev.passes+1) || (!ok && cur.fails == prev.fails+1)
			pending := (cur.healthy && cur.fails >= fth) || (!cur.healthy && cur.passes >= pth)
			if (flipped && cur.passes == 0 && cur.fails == 0) || (!flipped && moved && !pending) {
				return cur, true
			}
			time.Sleep(100 * time.Microsecond)
		}
		return prev, false
	}
	// the documented meaning, on the harness's own books: consecutive results
	specHealthy, lastOK, run := true, true, 0
	cumulative := false
	var outs []string
	o := core.Outcome{Tags: []string{"ah"}}
	prev := st{true, 0, 0}
	for i, c := range f[3] {
		ok := c == 'p'
		if i > 0 {
			pass.Store(ok)
			h.VerifActiveHealthCheckAll()
		}
		cur, changed := waitSettled(prev, ok)
		if !changed {
			o.Failures = append(o.Failures, core.Failure{Class: "harness-active-check-timeout", What: fmt.Sprintf("check %d did not move the counters", i)})
			break
		}
		prev = cur
		hb := 0
		if cur.healthy {
			hb = 1
		}
		outs = append(outs, fmt.Sprintf("h%d:%d:%d", hb, cur.passes, cur.fails))
		if ok == lastOK {
			run++
		} else {
			lastOK, run = ok, 1
		}
		if ok && int64(run) >= pth {
			specHealthy = true
		}
		if !ok && int64(run) >= fth {
			specHealthy = false
		}
		if cur.healthy != specHealthy && !cumulative {
			// observation only (no clause of the property): the counters are cumulative, not consecutive
			cumulative = true
			o.Tags = append(o.Tags, "ah:counts-not-consecutive")
		}
	}
	o.Impl = strings.Join(outs, ",")
	if !prev.healthy {
		o.Tags = append(o.Tags, "ah:ends-unhealthy")
	}
	return o
}

func genAh(rng *core.Rand) string {
	n := 1 + rng.Intn(8)
	var sb strings.Builder
	for i := 0; i < n; i++ {
		if rng.Chance(1, 2) {
			sb.WriteByte('p')
		} else {
			sb.WriteByte('f')
		}
	}
	return fmt.Sprintf("ah %d %d %s", rng.Intn(4), rng.Intn(4), sb.String())
}
