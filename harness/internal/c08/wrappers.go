package c08

// `wr` lines: the three Caddyfile directives that produce a reverse_proxy handler - reverse_proxy,
// forward_auth, php_fastcgi - through the WHOLE Caddyfile adapter (lexer, parser, httpcaddyfile,
// the directive's own parser, Handler.UnmarshalCaddyfile, FinalizeUnmarshalCaddyfile, JSON): what
// upstreams, selection policy, retries and passive health checks does the handler in the adapted
// configuration carry? The model (Wrappers.lean): the wrapper takes its own subdirectives out, the
// rest is what Handler.UnmarshalCaddyfile makes of it. Oracle on the provisioned handler: no
// lb_policy written -> the policy that runs is random; none of the passive options written -> no
// passive health checks.

import (
	"encoding/json"
	"fmt"
	"strings"
	"time"

	"github.com/caddyserver/caddy/v2"
	"github.com/caddyserver/caddy/v2/caddyconfig"
	"github.com/caddyserver/caddy/v2/caddyconfig/caddyfile"
	_ "github.com/caddyserver/caddy/v2/caddyconfig/httpcaddyfile"
	"github.com/caddyserver/caddy/v2/modules/caddyhttp/reverseproxy"
	_ "github.com/caddyserver/caddy/v2/modules/standard"

	"verif/harness/internal/core"
)

var wrDirective = map[string]string{"rp": "reverse_proxy", "fa": "forward_auth", "php": "php_fastcgi"}

var wrOwn = map[string][]string{
	"rp":  nil,
	"fa":  {"uri", "copy_headers"},
	"php": {"root", "split", "env", "index", "try_files", "resolve_root_symlink", "capture_stderr", "dial_timeout", "read_timeout", "write_timeout"},
}

func wrPlain(s string) bool {
	if s == "{" || s == "}" {
		return true
	}
	if s == "" || s == "import" {
		return false
	}
	for _, b := range []byte(s) {
		if !(b >= '0' && b <= '9' || b >= 'A' && b <= 'Z' || b >= 'a' && b <= 'z' || b == '_' || b == '.' || b == ':' || b == '-') {
			return false
		}
	}
	return true
}

func wrGroup(toks []cfTok) [][]cfTok {
	var out [][]cfTok
	for i, t := range toks {
		if i > 0 && toks[i-1].line == t.line {
			out[len(out)-1] = append(out[len(out)-1], t)
		} else {
			out = append(out, []cfTok{t})
		}
	}
	return out
}

func wrIsClose(l []cfTok) bool  { return len(l) == 1 && l[0].text == "}" }
func wrEndsOpen(l []cfTok) bool { return len(l) > 0 && l[len(l)-1].text == "{" }

func wrLineOK(l []cfTok) bool {
	if wrIsClose(l) {
		return true
	}
	if len(l) == 0 || (len(l) == 1 && l[0].text == "{") {
		return false
	}
	for _, t := range l[:len(l)-1] {
		if t.text == "{" || t.text == "}" {
			return false
		}
	}
	return l[len(l)-1].text != "}"
}

// wrCaseOK mirrors wrapperCaseOK of Wrappers.lean
func wrCaseOK(kind string, toks []cfTok) bool {
	if len(toks) == 0 || toks[0].text != wrDirective[kind] {
		return false
	}
	for _, t := range toks {
		if !wrPlain(t.text) {
			return false
		}
	}
	ls := wrGroup(toks)
	for i, l := range ls {
		if !wrLineOK(l) {
			return false
		}
		if i > 0 && !(ls[i-1][0].line < l[0].line) {
			return false
		}
		for _, own := range wrOwn[kind] {
			if l[0].text == own && wrEndsOpen(l) {
				return false
			}
		}
	}
	head, body := ls[0], ls[1:]
	if wrIsClose(head) {
		return false
	}
	if !wrEndsOpen(head) {
		return len(body) == 0
	}
	if len(head) < 2 {
		return false
	}
	n := 1
	for i, l := range body {
		switch {
		case wrIsClose(l):
			if n == 1 {
				return i == len(body)-1
			}
			n--
		case wrEndsOpen(l):
			if n >= 6 {
				return false
			}
			n++
		}
	}
	return false
}

func wrFindHandlers(v any, out *[]json.RawMessage) {
	switch x := v.(type) {
	case map[string]any:
		if x["handler"] == "reverse_proxy" {
			b, _ := json.Marshal(x)
			*out = append(*out, b)
		}
		for _, c := range x {
			wrFindHandlers(c, out)
		}
	case []any:
		for _, c := range x {
			wrFindHandlers(c, out)
		}
	}
}

func runWr(f []string) (o core.Outcome) {
	bad := core.Outcome{Impl: "bad-op", Tags: []string{"bad-op", "trivial"}}
	if len(f) != 5 || wrDirective[f[1]] == "" {
		return bad
	}
	kind := f[1]
	toks, ok := parseCfToks(f[2])
	if !ok && len(toks) == 0 {
		return bad
	}
	if len(toks) > 64 || !wrCaseOK(kind, toks) {
		return bad
	}
	if f[3] != durTable(toks) || f[4] != addrTable(toks) {
		if _, ok := parseDurOK(f[3]); !ok {
			return bad
		}
		return core.Outcome{Impl: "bad-table", Tags: []string{"bad-table"}}
	}
	if err := proxyInit(); err != nil {
		panic("C08 proxy base context: " + err.Error())
	}
	defer func() {
		if r := recover(); r != nil {
			o = core.Outcome{Impl: "panic", Tags: []string{"wr:panic"},
				Failures: []core.Failure{{Class: "unexpected-panic:caddyfile", What: fmt.Sprint(r)}}}
		}
	}()
	// the Caddyfile: site header on line 1, the directive's tokens one line further down than on the case
	var sb strings.Builder
	sb.WriteString(":80 {\n")
	cur := 2
	for _, l := range wrGroup(toks) {
		for ; cur < l[0].line+1; cur++ {
			sb.WriteString("\n")
		}
		var p []string
		for _, t := range l {
			p = append(p, t.text)
		}
		sb.WriteString("\t" + strings.Join(p, " ") + "\n")
		cur++
	}
	sb.WriteString("}\n")
	text := sb.String()
	// the lexer must give the tokens back
	lexed, err := caddyfile.Tokenize([]byte(text), "Caddyfile")
	if err != nil || len(lexed) != len(toks)+3 {
		return core.Outcome{Impl: "?", Tags: []string{"wr:lexer-differs"},
			Failures: []core.Failure{{Class: "harness-wr-lexer", What: fmt.Sprintf("tokens of %q are not the case's tokens", text)}}}
	}
	for i, t := range toks {
		if lexed[i+2].Text != t.text || lexed[i+2].Line-lexed[2].Line != t.line-toks[0].line {
			return core.Outcome{Impl: "?", Tags: []string{"wr:lexer-differs"},
				Failures: []core.Failure{{Class: "harness-wr-lexer", What: fmt.Sprintf("token %d of %q is not the case's token", i, text)}}}
		}
	}
	o.Tags = []string{"wr:" + kind}
	adapter := caddyconfig.GetAdapter("caddyfile")
	out, _, err := adapter.Adapt([]byte(text), map[string]any{"filename": "Caddyfile"})
	if err != nil {
		o.Impl = "err"
		o.Tags = append(o.Tags, "wr:err")
		return o
	}
	var cfg any
	_ = json.Unmarshal(out, &cfg)
	var hs []json.RawMessage
	wrFindHandlers(cfg, &hs)
	if len(hs) != 1 {
		o.Impl = fmt.Sprintf("handlers=%d", len(hs))
		o.Failures = append(o.Failures, core.Failure{Class: "wrapper-handler-count", What: fmt.Sprintf("%s: %d reverse_proxy handlers in the adapted configuration of %q", wrDirective[kind], len(hs), text)})
		return o
	}
	h := &reverseproxy.Handler{}
	if err := json.Unmarshal(hs[0], h); err != nil {
		o.Impl = "?"
		return o
	}
	ups := "-"
	if len(h.Upstreams) > 0 {
		var p []string
		for _, u := range h.Upstreams {
			p = append(p, core.Hex(u.Dial))
		}
		ups = strings.Join(p, ",")
	}
	pol, r, td, ti := "-", 0, int64(0), int64(0)
	polName := ""
	if lb := h.LoadBalancing; lb != nil {
		r, td, ti = lb.Retries, int64(time.Duration(lb.TryDuration)), int64(time.Duration(lb.TryInterval))
		if lb.SelectionPolicyRaw != nil {
			var probe struct {
				Policy string `json:"policy"`
			}
			_ = json.Unmarshal(lb.SelectionPolicyRaw, &probe)
			polName = probe.Policy
			mod, err := caddy.GetModule("http.reverse_proxy.selection_policies." + probe.Policy)
			if err != nil {
				o.Impl = "?"
				return o
			}
			inst := mod.New()
			var m map[string]json.RawMessage
			_ = json.Unmarshal(lb.SelectionPolicyRaw, &m)
			delete(m, "policy")
			rest, _ := json.Marshal(m)
			if err := caddy.StrictUnmarshalJSON(rest, inst); err != nil {
				o.Impl = "?"
				return o
			}
			pol, _ = canonSel(probe.Policy, inst)
			o.Tags = append(o.Tags, "wr:lb_policy")
		}
	}
	p := "-"
	if h.HealthChecks != nil && h.HealthChecks.Passive != nil {
		ph := h.HealthChecks.Passive
		p = fmt.Sprintf("%d,%d,%d", ph.MaxFails, int64(time.Duration(ph.FailDuration)), ph.UnhealthyRequestCount)
		o.Tags = append(o.Tags, "wr:passive")
	}
	o.Impl = fmt.Sprintf("ok ups=%s pol=%s r=%d td=%d ti=%d p=%s", ups, pol, r, td, ti, p)

	// oracle on the provisioned handler: what was written at the top level of the block
	wrote := map[string]bool{}
	n := 0
	for i, l := range wrGroup(toks) {
		if i == 0 {
			n = 1
			continue
		}
		if wrIsClose(l) {
			n--
			continue
		}
		if n == 1 {
			wrote[l[0].text] = true
		}
		if wrEndsOpen(l) {
			n++
		}
	}
	ctx, cancel := caddy.NewContext(proxyBase)
	defer cancel()
	var hm map[string]json.RawMessage
	_ = json.Unmarshal(hs[0], &hm)
	delete(hm, "handler")
	hraw, _ := json.Marshal(hm)
	mod, err := ctx.LoadModuleByID("http.handlers.reverse_proxy", hraw)
	if err != nil {
		o.Tags = append(o.Tags, "wr:provision-refused")
		return o
	}
	ph := mod.(*reverseproxy.Handler)
	got := ""
	if m, ok := ph.LoadBalancing.SelectionPolicy.(caddy.Module); ok {
		got = strings.TrimPrefix(string(m.CaddyModule().ID), "http.reverse_proxy.selection_policies.")
	}
	switch {
	case !wrote["lb_policy"] && got != "random":
		o.Failures = append(o.Failures, core.Failure{Class: "wrapper-default-policy-not-random",
			What: fmt.Sprintf("%s without lb_policy: the provisioned handler selects with %q (Caddyfile %q)", wrDirective[kind], got, text)})
	case wrote["lb_policy"] && polName != "" && got != polName:
		o.Failures = append(o.Failures, core.Failure{Class: "wrapper-policy-not-as-written",
			What: fmt.Sprintf("%s: lb_policy %s written, the provisioned handler selects with %q", wrDirective[kind], polName, got)})
	}
	if !wrote["max_fails"] && !wrote["fail_duration"] && !wrote["unhealthy_request_count"] &&
		ph.HealthChecks != nil && ph.HealthChecks.Passive != nil {
		o.Failures = append(o.Failures, core.Failure{Class: "wrapper-passive-checks-appeared",
			What: fmt.Sprintf("%s: no passive health option written, yet the provisioned handler has passive health checks (Caddyfile %q)", wrDirective[kind], text)})
	}
	if !wrote["lb_retries"] && !wrote["lb_try_duration"] && !wrote["lb_try_interval"] &&
		(ph.LoadBalancing.Retries != 0 || ph.LoadBalancing.TryDuration != 0) {
		o.Failures = append(o.Failures, core.Failure{Class: "wrapper-retries-appeared",
			What: fmt.Sprintf("%s: neither lb_retries nor lb_try_duration written, yet the provisioned handler retries (retries %d, try_duration %d) (Caddyfile %q)", wrDirective[kind], ph.LoadBalancing.Retries, ph.LoadBalancing.TryDuration, text)})
	}
	if !wrote["lb_policy"] {
		o.Tags = append(o.Tags, "wr:default-policy")
	}
	return o
}

func genWr(rng *core.Rand) string {
	kind := []string{"rp", "fa", "fa", "php", "php"}[rng.Intn(5)]
	var toks []cfTok
	line := 1 + rng.Intn(3)
	toks = append(toks, cfTok{wrDirective[kind], line})
	for i := 1 + rng.Intn(2); i > 0; i-- {
		a := fmt.Sprintf("h%d.test:80", rng.Intn(9))
		if rng.Chance(1, 10) {
			a = "h.test:8001-8003"
		}
		toks = append(toks, cfTok{a, line})
	}
	if kind != "fa" && rng.Chance(1, 8) {
		return "wr " + kind + " " + cfToksField(toks) + " " + durTable(toks) + " " + addrTable(toks)
	}
	toks = append(toks, cfTok{"{", line})
	line++
	var lines [][]cfTok
	addLine := func(ts ...string) {
		var l []cfTok
		for _, t := range ts {
			l = append(l, cfTok{t, 0})
		}
		lines = append(lines, l)
	}
	// the wrapper's own subdirectives
	switch kind {
	case "fa":
		if !rng.Chance(1, 10) {
			addLine("uri", "authz")
		}
		if rng.Chance(1, 2) {
			addLine("copy_headers", "Remote-User", "Remote-Email")
		}
		if rng.Chance(1, 10) {
			addLine("copy_headers")
		}
		if rng.Chance(1, 12) {
			addLine("uri", "authz", "extra")
		}
		if rng.Chance(1, 12) {
			addLine("uri")
		}
	case "php":
		own := [][]string{{"root", "srv"}, {"split", ".php", ".php5"}, {"env", "K", "v"}, {"index", "app.php"}, {"index", "off"},
			{"try_files", "a.php"}, {"resolve_root_symlink"}, {"capture_stderr"}, {"dial_timeout", "5s"}, {"read_timeout", "1m"},
			{"write_timeout", "2d"}, {"dial_timeout", "soon"}, {"env", "K"}, {"split"}, {"root"}, {"root", "a", "b"}, {"index"}}
		for i := rng.Intn(4); i > 0; i-- {
			k := rng.Intn(len(own))
			if k >= 11 && !rng.Chance(1, 3) {
				k = rng.Intn(11)
			}
			addLine(own[k]...)
		}
	}
	// load-balancing and health options, as for reverse_proxy
	opts := []string{"to", "lb_policy", "lb_retries", "lb_try_duration", "lb_try_interval", "max_fails", "fail_duration", "unhealthy_request_count"}
	seen := map[string]bool{}
	durs := []string{"5s", "250ms", "1m", "2d"}
	var polLines [][]cfTok
	for i := rng.Intn(5); i > 0; i-- {
		o := rng.Pick(opts)
		if o == "lb_policy" {
			if seen[o] && !rng.Chance(1, 4) {
				continue
			}
			seen[o] = true
			var pt []cfTok
			l := 0
			pt = append(pt, cfTok{"lb_policy", l})
			genCfNode(rng, 1).render(&pt, &l)
			polLines = wrGroup(pt)
			lines = append(lines, polLines...)
			continue
		}
		switch o {
		case "to":
			addLine("to", fmt.Sprintf("h%d.test:80", rng.Intn(9)))
		case "lb_retries":
			addLine(o, []string{"0", "2", "5", "x"}[rng.Intn(4)])
		case "lb_try_duration", "lb_try_interval", "fail_duration":
			addLine(o, rng.Pick(durs))
		case "max_fails":
			addLine(o, []string{"1", "3", "-1"}[rng.Intn(3)])
		case "unhealthy_request_count":
			addLine(o, []string{"1", "40"}[rng.Intn(2)])
		}
	}
	// a wrapper subdirective name inside a nested block is none of the wrapper's business
	if kind != "rp" && rng.Chance(1, 10) {
		addLine("lb_retries", "1")
	}
	// shuffle whole top-level items? keep policy blocks together: shuffle only when there is no block
	if len(polLines) == 0 {
		for i := len(lines) - 1; i > 0; i-- {
			j := rng.Intn(i + 1)
			lines[i], lines[j] = lines[j], lines[i]
		}
	}
	// damage: drop or repeat a line, drop a token
	if rng.Chance(1, 6) && len(lines) > 0 {
		i := rng.Intn(len(lines))
		switch rng.Intn(3) {
		case 0:
			lines = append(lines[:i], lines[i+1:]...)
		case 1:
			lines = append(lines[:i+1], append([][]cfTok{append([]cfTok{}, lines[i]...)}, lines[i+1:]...)...)
		case 2:
			if len(lines[i]) > 1 {
				lines[i] = lines[i][:len(lines[i])-1]
			}
		}
	}
	for _, l := range lines {
		for _, t := range l {
			toks = append(toks, cfTok{t.text, line})
		}
		line++
		if rng.Chance(1, 8) {
			line++
		}
	}
	toks = append(toks, cfTok{"}", line})
	if len(toks) > 48 {
		toks = toks[:1]
	}
	return "wr " + kind + " " + cfToksField(toks) + " " + durTable(toks) + " " + addrTable(toks)
}
