package c08

// `cf` lines: `lb_policy <name> …` of a Caddyfile — the real caddyfile.UnmarshalModule (hence every
// policy's UnmarshalCaddyfile and loadFallbackPolicy) runs on a dispenser over the tokens of the case.

import (
	"encoding/json"
	"fmt"
	"strconv"
	"strings"
	"time"

	"github.com/caddyserver/caddy/v2"
	"github.com/caddyserver/caddy/v2/caddyconfig/caddyfile"
	"github.com/caddyserver/caddy/v2/modules/caddyhttp/reverseproxy"

	"verif/harness/internal/core"
)

type cfTok struct {
	text string
	line int
}

func parseCfToks(s string) ([]cfTok, bool) {
	var out []cfTok
	for _, p := range strings.Split(s, ",") {
		f := strings.Split(p, ".")
		if len(f) != 2 {
			return nil, false
		}
		t, err := core.UnHex(f[0])
		l, ok := num(1000, f[1])
		if err != nil || !ok {
			return nil, false
		}
		out = append(out, cfTok{t, int(l)})
	}
	return out, len(out) <= 48
}

func cfToksField(toks []cfTok) string {
	var p []string
	for _, t := range toks {
		p = append(p, core.Hex(t.text)+"."+strconv.Itoa(t.line))
	}
	return strings.Join(p, ",")
}

// durTable: what caddy.ParseDuration returns for the tokens it accepts.
func durTable(toks []cfTok) string {
	seen := map[string]bool{}
	var p []string
	for _, t := range toks {
		if seen[t.text] {
			continue
		}
		seen[t.text] = true
		if d, err := caddy.ParseDuration(t.text); err == nil {
			p = append(p, core.Hex(t.text)+":"+strconv.FormatInt(int64(d), 10))
		}
	}
	if len(p) == 0 {
		return "-"
	}
	return strings.Join(p, ",")
}

var simpleNames = map[string]int{"random": 0, "least_conn": 1, "round_robin": 2, "first": 3, "ip_hash": 4, "client_ip_hash": 5, "uri_hash": 6}

// canonSel renders what UnmarshalCaddyfile left in the module, following FallbackRaw.
func canonSel(name string, v any) (string, error) {
	fbOf := func(raw json.RawMessage) (string, error) {
		if raw == nil {
			return "", nil
		}
		var probe struct {
			Policy string `json:"policy"`
		}
		if err := json.Unmarshal(raw, &probe); err != nil {
			return "", err
		}
		mod, err := caddy.GetModule("http.reverse_proxy.selection_policies." + probe.Policy)
		if err != nil {
			return "", err
		}
		inst := mod.New()
		// strict decode of the remaining keys
		var m map[string]json.RawMessage
		_ = json.Unmarshal(raw, &m)
		delete(m, "policy")
		rest, _ := json.Marshal(m)
		if err := caddy.StrictUnmarshalJSON(rest, inst); err != nil {
			return "", err
		}
		s, err := canonSel(probe.Policy, inst)
		return ">" + s, err
	}
	switch p := v.(type) {
	case *reverseproxy.WeightedRoundRobinSelection:
		var w []string
		for _, x := range p.Weights {
			w = append(w, strconv.Itoa(x))
		}
		return "wrr[" + strings.Join(w, ",") + "]", nil
	case *reverseproxy.RandomChoiceSelection:
		return "rc[" + strconv.Itoa(p.Choose) + "]", nil
	case *reverseproxy.QueryHashSelection:
		fb, err := fbOf(p.FallbackRaw)
		return "qry[" + core.Hex(p.Key) + "]" + fb, err
	case *reverseproxy.HeaderHashSelection:
		fb, err := fbOf(p.FallbackRaw)
		return "hdr[" + core.Hex(p.Field) + "]" + fb, err
	case *reverseproxy.CookieHashSelection:
		fb, err := fbOf(p.FallbackRaw)
		return "ck[" + core.Hex(p.Name) + "," + core.Hex(p.Secret) + "," + strconv.FormatInt(int64(time.Duration(p.MaxAge)), 10) + "]" + fb, err
	}
	if k, ok := simpleNames[name]; ok {
		return "s" + strconv.Itoa(k), nil
	}
	return "", fmt.Errorf("unknown policy type %T", v)
}

func runCf(f []string) (o core.Outcome) {
	bad := core.Outcome{Impl: "bad-op", Tags: []string{"bad-op", "trivial"}}
	if len(f) != 3 {
		return bad
	}
	toks, ok := parseCfToks(f[1])
	if !ok {
		return bad
	}
	// the duration table must be what caddy.ParseDuration says
	if f[2] != durTable(toks) {
		if _, ok := parseDurOK(f[2]); !ok {
			return bad
		}
		return core.Outcome{Impl: "bad-table", Tags: []string{"bad-table"}}
	}
	var ts []caddyfile.Token
	for _, t := range toks {
		ts = append(ts, caddyfile.Token{File: "Caddyfile", Line: t.line, Text: t.text})
	}
	defer func() {
		if r := recover(); r != nil {
			o = core.Outcome{Impl: "panic", Tags: []string{"cf:panic"},
				Failures: []core.Failure{{Class: "unexpected-panic:caddyfile", What: fmt.Sprint(r)}}}
		}
	}()
	d := caddyfile.NewDispenser(ts)
	d.Next()
	name := d.Val()
	unm, err := caddyfile.UnmarshalModule(d, "http.reverse_proxy.selection_policies."+name)
	o.Tags = []string{"cf"}
	if err != nil {
		o.Impl = "err"
		o.Tags = append(o.Tags, "cf:err")
		return o
	}
	s, err := canonSel(name, unm)
	if err != nil {
		o.Impl = "?" + err.Error()
		return o
	}
	o.Impl = "ok " + s
	o.Tags = append(o.Tags, "cf:"+name, fmt.Sprintf("cf:depth:%d", strings.Count(s, ">")+1))
	// oracle: the configuration says what the text says (for the plain shapes the harness wrote itself)
	if want, ok := cfExpect[f[1]]; ok && want != o.Impl {
		o.Failures = append(o.Failures, core.Failure{Class: "caddyfile-policy-not-as-written",
			What: fmt.Sprintf("lb_policy tokens %v were configured as %q, written to mean %q", toks, o.Impl, want)})
	}
	return o
}

func parseDurOK(s string) (int, bool) {
	if s == "-" {
		return 0, true
	}
	n := 0
	for _, kv := range strings.Split(s, ",") {
		p := strings.Split(kv, ":")
		if len(p) != 2 {
			return 0, false
		}
		if _, err := core.UnHex(p[0]); err != nil {
			return 0, false
		}
		v := strings.TrimPrefix(p[1], "-")
		if _, ok := num(max63, v); !ok {
			return 0, false
		}
		n++
	}
	return n, true
}

// cfExpect: token field -> expected canonical configuration, for well-formed segments the
// generator wrote from a configuration (filled by genCf, consulted by the oracle in the same process).
var cfExpect = map[string]string{}

// ---------------------------------------------------------------- generating

type cfNode struct {
	kind   string // simple name | wrr | rc | qry | hdr | ck
	args   []string
	maxAge string
	fb     *cfNode
}

func genCfNode(rng *core.Rand, depth int) *cfNode {
	kinds := []string{"random", "least_conn", "round_robin", "first", "ip_hash", "client_ip_hash", "uri_hash", "wrr", "wrr", "rc", "qry", "hdr", "hdr", "ck", "ck"}
	n := &cfNode{kind: kinds[rng.Intn(len(kinds))]}
	switch n.kind {
	case "wrr":
		for i := 1 + rng.Intn(4); i > 0; i-- {
			n.args = append(n.args, strconv.Itoa(rng.Intn(6)))
		}
	case "rc":
		n.args = []string{strconv.Itoa(2 + rng.Intn(4))}
	case "qry":
		n.args = []string{[]string{"k", "id", "session"}[rng.Intn(3)]}
	case "hdr":
		n.args = []string{[]string{"X-Key", "Host", "x-user"}[rng.Intn(3)]}
	case "ck":
		switch rng.Intn(3) {
		case 1:
			n.args = []string{"lb"}
		case 2:
			n.args = []string{"sid", "s3cr3t"}
		}
		if rng.Chance(1, 2) {
			n.maxAge = []string{"30s", "1h", "2d", "90m"}[rng.Intn(4)]
		}
	}
	if (n.kind == "qry" || n.kind == "hdr" || n.kind == "ck") && depth < 3 && rng.Chance(2, 3) {
		n.fb = genCfNode(rng, depth+1)
	}
	return n
}

func (n *cfNode) name() string {
	switch n.kind {
	case "wrr":
		return "weighted_round_robin"
	case "rc":
		return "random_choose"
	case "qry":
		return "query"
	case "hdr":
		return "header"
	case "ck":
		return "cookie"
	}
	return n.kind
}

// render writes the node as Caddyfile tokens starting at *line; returns the canonical meaning.
func (n *cfNode) render(toks *[]cfTok, line *int) string {
	*toks = append(*toks, cfTok{n.name(), *line})
	for _, a := range n.args {
		*toks = append(*toks, cfTok{a, *line})
	}
	canon := ""
	switch n.kind {
	case "wrr":
		canon = "wrr[" + strings.Join(n.args, ",") + "]"
	case "rc":
		canon = "rc[" + n.args[0] + "]"
	case "qry":
		canon = "qry[" + core.Hex(n.args[0]) + "]"
	case "hdr":
		canon = "hdr[" + core.Hex(n.args[0]) + "]"
	case "ck":
		a := append(append([]string{}, n.args...), "", "")
		ns := int64(0)
		if n.maxAge != "" {
			d, _ := caddy.ParseDuration(n.maxAge)
			ns = int64(d)
		}
		canon = "ck[" + core.Hex(a[0]) + "," + core.Hex(a[1]) + "," + strconv.FormatInt(ns, 10) + "]"
	default:
		canon = "s" + strconv.Itoa(simpleNames[n.kind])
	}
	if n.fb != nil || n.maxAge != "" {
		*toks = append(*toks, cfTok{"{", *line})
		*line++
		if n.maxAge != "" {
			*toks = append(*toks, cfTok{"max_age", *line}, cfTok{n.maxAge, *line})
			*line++
		}
		if n.fb != nil {
			*toks = append(*toks, cfTok{"fallback", *line})
			canon += ">" + n.fb.render(toks, line)
			*line++
		}
		*toks = append(*toks, cfTok{"}", *line})
	}
	return canon
}

var cfJunk = []string{"{", "}", "fallback", "max_age", "first", "cookie", "header", "x", "3", "-1", "0s", "30s", "abc", "random_choose", "weighted_round_robin", "+2", ""}

func genCf(rng *core.Rand) string {
	var toks []cfTok
	line := 1 + rng.Intn(3)
	canon := genCfNode(rng, 0).render(&toks, &line)
	wellFormed := true
	// mutate: the text a hurried admin writes
	for m := rng.Intn(4); m > 0 && rng.Chance(1, 2); m-- {
		wellFormed = false
		i := rng.Intn(len(toks) + 1)
		switch rng.Intn(5) {
		case 0: // insert a token on the line of its neighbour
			l := 1
			if i > 0 {
				l = toks[i-1].line
			}
			toks = append(toks[:i], append([]cfTok{{rng.Pick(cfJunk), l}}, toks[i:]...)...)
		case 1: // drop a token
			if len(toks) > 1 && i < len(toks) {
				toks = append(toks[:i], toks[i+1:]...)
			}
		case 2: // join two lines
			if i < len(toks) {
				old := toks[i].line
				for j := i; j < len(toks); j++ {
					if toks[j].line >= old {
						toks[j].line--
					}
				}
			}
		case 3: // break a line
			for j := i; j < len(toks); j++ {
				toks[j].line++
			}
		case 4: // replace a token
			if i < len(toks) {
				toks[i].text = rng.Pick(cfJunk)
			}
		}
	}
	for i := range toks {
		if toks[i].line < 0 {
			toks[i].line = 0
		}
	}
	field := cfToksField(toks)
	if wellFormed {
		cfExpect[field] = "ok " + canon
	}
	return "cf " + field + " " + durTable(toks)
}

// ---------------------------------------------------------------- the reverse_proxy directive (`rp` lines)

// addrEntry: what a token stands for as an upstream address — found by letting the real handler
// parse `reverse_proxy <token>`.
func addrEntry(tok string) ([]string, bool) {
	h := &reverseproxy.Handler{}
	d := caddyfile.NewDispenser([]caddyfile.Token{{File: "Caddyfile", Line: 1, Text: "reverse_proxy"}, {File: "Caddyfile", Line: 1, Text: tok}})
	ok := true
	func() {
		defer func() {
			if recover() != nil {
				ok = false
			}
		}()
		if err := h.UnmarshalCaddyfile(d); err != nil {
			ok = false
		}
	}()
	if !ok || tok == "{" {
		return nil, false
	}
	var dials []string
	for _, u := range h.Upstreams {
		dials = append(dials, u.Dial)
	}
	return dials, true
}

func addrTable(toks []cfTok) string {
	seen := map[string]bool{}
	var p []string
	for _, t := range toks {
		if seen[t.text] {
			continue
		}
		seen[t.text] = true
		if dials, ok := addrEntry(t.text); ok {
			v := "_"
			if len(dials) > 0 {
				var hs []string
				for _, dl := range dials {
					hs = append(hs, core.Hex(dl))
				}
				v = strings.Join(hs, "|")
			}
			p = append(p, core.Hex(t.text)+":"+v)
		}
	}
	if len(p) == 0 {
		return "-"
	}
	return strings.Join(p, ",")
}

func runRp(f []string) (o core.Outcome) {
	bad := core.Outcome{Impl: "bad-op", Tags: []string{"bad-op", "trivial"}}
	if len(f) != 4 {
		return bad
	}
	toks, ok := parseCfToks(f[1])
	if !ok && len(toks) == 0 {
		return bad
	}
	if len(toks) > 64 {
		return bad
	}
	if f[2] != durTable(toks) || f[3] != addrTable(toks) {
		if _, ok := parseDurOK(f[2]); !ok {
			return bad
		}
		return core.Outcome{Impl: "bad-table", Tags: []string{"bad-table"}}
	}
	var ts []caddyfile.Token
	for _, t := range toks {
		ts = append(ts, caddyfile.Token{File: "Caddyfile", Line: t.line, Text: t.text})
	}
	defer func() {
		if r := recover(); r != nil {
			o = core.Outcome{Impl: "panic", Tags: []string{"rp:panic"},
				Failures: []core.Failure{{Class: "unexpected-panic:caddyfile", What: fmt.Sprint(r)}}}
		}
	}()
	h := &reverseproxy.Handler{}
	err := h.UnmarshalCaddyfile(caddyfile.NewDispenser(ts))
	o.Tags = []string{"rp"}
	if err != nil {
		o.Impl = "err"
		o.Tags = append(o.Tags, "rp:err")
		if want, ok := cfExpect[f[1]]; ok && want != o.Impl {
			o.Failures = append(o.Failures, core.Failure{Class: "caddyfile-policy-not-as-written",
				What: fmt.Sprintf("reverse_proxy tokens %v were refused, written to mean %q", toks, want)})
		}
		return o
	}
	ups := "-"
	if len(h.Upstreams) > 0 {
		var p []string
		for _, u := range h.Upstreams {
			p = append(p, core.Hex(u.Dial))
		}
		ups = strings.Join(p, ",")
	}
	pol, r, td, ti := "-", 0, int64(0), int64(0)
	if lb := h.LoadBalancing; lb != nil {
		r, td, ti = lb.Retries, int64(time.Duration(lb.TryDuration)), int64(time.Duration(lb.TryInterval))
		if lb.SelectionPolicyRaw != nil {
			var probe struct {
				Policy string `json:"policy"`
			}
			_ = json.Unmarshal(lb.SelectionPolicyRaw, &probe)
			mod, err := caddy.GetModule("http.reverse_proxy.selection_policies." + probe.Policy)
			if err != nil {
				o.Impl = "?"
				return o
			}
			inst := mod.New()
			var m map[string]json.RawMessage
			_ = json.Unmarshal(lb.SelectionPolicyRaw, &m)
			delete(m, "policy")
			rest, _ := json.Marshal(m)
			if err := caddy.StrictUnmarshalJSON(rest, inst); err != nil {
				o.Impl = "?"
				return o
			}
			pol, _ = canonSel(probe.Policy, inst)
			o.Tags = append(o.Tags, "rp:lb_policy")
		}
	}
	p := "-"
	if h.HealthChecks != nil && h.HealthChecks.Passive != nil {
		ph := h.HealthChecks.Passive
		p = fmt.Sprintf("%d,%d,%d", ph.MaxFails, int64(time.Duration(ph.FailDuration)), ph.UnhealthyRequestCount)
		o.Tags = append(o.Tags, "rp:passive")
	}
	o.Impl = fmt.Sprintf("ok ups=%s pol=%s r=%d td=%d ti=%d p=%s", ups, pol, r, td, ti, p)
	if want, ok := cfExpect[f[1]]; ok && want != o.Impl {
		o.Failures = append(o.Failures, core.Failure{Class: "caddyfile-policy-not-as-written",
			What: fmt.Sprintf("reverse_proxy tokens %v were configured as %q, written to mean %q", toks, o.Impl, want)})
	}
	return o
}

func genRp(rng *core.Rand) string {
	var toks []cfTok
	line := 1
	toks = append(toks, cfTok{"reverse_proxy", line})
	var ups []string
	for i := rng.Intn(3); i > 0; i-- {
		a := fmt.Sprintf("h%d.test:80", rng.Intn(9))
		if rng.Chance(1, 8) {
			a = "h.test:8001-8003"
		}
		toks = append(toks, cfTok{a, line})
		ups = append(ups, a)
	}
	toks = append(toks, cfTok{"{", line})
	line++
	pol, r, td, ti := "-", "0", "0", "0"
	mf, fd, urc, passive := "0", "0", "0", false
	seen := map[string]bool{}
	opts := []string{"to", "lb_policy", "lb_retries", "lb_try_duration", "lb_try_interval", "max_fails", "fail_duration", "unhealthy_request_count"}
	for i := rng.Intn(6); i > 0; i-- {
		o := rng.Pick(opts)
		if o == "lb_policy" && seen[o] {
			continue
		}
		seen[o] = true
		toks = append(toks, cfTok{o, line})
		durs := []string{"5s", "250ms", "1m", "2d"}
		switch o {
		case "to":
			for j := 1 + rng.Intn(2); j > 0; j-- {
				a := fmt.Sprintf("h%d.test:80", rng.Intn(9))
				toks = append(toks, cfTok{a, line})
				ups = append(ups, a)
			}
		case "lb_policy":
			pol = genCfNode(rng, 1).render(&toks, &line)
			// render appended the policy name itself on this line: fine, it follows `lb_policy`
		case "lb_retries":
			r = strconv.Itoa(rng.Intn(6))
			toks = append(toks, cfTok{r, line})
		case "lb_try_duration":
			v := rng.Pick(durs)
			dd, _ := caddy.ParseDuration(v)
			td = strconv.FormatInt(int64(dd), 10)
			toks = append(toks, cfTok{v, line})
		case "lb_try_interval":
			v := rng.Pick(durs)
			dd, _ := caddy.ParseDuration(v)
			ti = strconv.FormatInt(int64(dd), 10)
			toks = append(toks, cfTok{v, line})
		case "max_fails":
			mf = strconv.Itoa(1 + rng.Intn(4))
			passive = true
			toks = append(toks, cfTok{mf, line})
		case "fail_duration":
			v := rng.Pick(durs)
			dd, _ := caddy.ParseDuration(v)
			fd = strconv.FormatInt(int64(dd), 10)
			passive = true
			toks = append(toks, cfTok{v, line})
		case "unhealthy_request_count":
			urc = strconv.Itoa(1 + rng.Intn(50))
			passive = true
			toks = append(toks, cfTok{urc, line})
		}
		line++
	}
	dupPolicy := false
	if seen["lb_policy"] && rng.Chance(1, 3) {
		// a second lb_policy in the same block must be refused, not silently win
		dupPolicy = true
		toks = append(toks, cfTok{"lb_policy", line}, cfTok{rng.Pick([]string{"first", "random", "least_conn", "round_robin"}), line})
		line++
	}
	toks = append(toks, cfTok{"}", line})
	wellFormed := true
	for m := rng.Intn(4); m > 0 && rng.Chance(1, 2); m-- {
		wellFormed = false
		i := 1 + rng.Intn(len(toks))
		switch rng.Intn(5) {
		case 0:
			l := toks[i-1].line
			junk := append([]string{"lb_policy", "first", "lb_retries", "to", "bogus", "h1.test:80"}, cfJunk...)
			toks = append(toks[:i], append([]cfTok{{junk[rng.Intn(len(junk))], l}}, toks[i:]...)...)
		case 1:
			if len(toks) > 2 && i < len(toks) {
				toks = append(toks[:i], toks[i+1:]...)
			}
		case 2:
			if i < len(toks) {
				old := toks[i].line
				for j := i; j < len(toks); j++ {
					if toks[j].line >= old && toks[j].line > 0 {
						toks[j].line--
					}
				}
			}
		case 3:
			for j := i; j < len(toks); j++ {
				toks[j].line++
			}
		case 4:
			if i < len(toks) {
				toks[i].text = rng.Pick(cfJunk)
			}
		}
	}
	field := cfToksField(toks)
	if wellFormed {
		// port ranges expand
		var dials []string
		for _, a := range ups {
			if a == "h.test:8001-8003" {
				dials = append(dials, core.Hex("h.test:8001"), core.Hex("h.test:8002"), core.Hex("h.test:8003"))
			} else {
				dials = append(dials, core.Hex(a))
			}
		}
		u := "-"
		if len(dials) > 0 {
			u = strings.Join(dials, ",")
		}
		p := "-"
		if passive {
			p = mf + "," + fd + "," + urc
		}
		cfExpect[field] = fmt.Sprintf("ok ups=%s pol=%s r=%s td=%s ti=%s p=%s", u, pol, r, td, ti, p)
		if dupPolicy {
			cfExpect[field] = "err"
		}
	}
	return "rp " + field + " " + durTable(toks) + " " + addrTable(toks)
}
