package c08

// `dy` lines: the pool an iteration of the proxy loop hands to Select. A real reverse_proxy
// handler (static upstreams, optionally a dynamic upstream source: a probe source that answers or
// fails, the built-in `a` source on IP literals — resolved without any DNS traffic —, the built-in
// `multi` source over those) serves one request; a probe selection policy writes down what it is
// handed — dial address, max_requests, whether the passive policy is attached, Available() while
// the handler's circuit breaker is open — and selects nothing.

import (
	"encoding/json"
	"fmt"
	"net/http"
	"net/http/httptest"
	"strconv"
	"strings"
	"sync"
	"sync/atomic"
	"time"

	"github.com/caddyserver/caddy/v2"
	"github.com/caddyserver/caddy/v2/caddyconfig/caddyfile"
	"github.com/caddyserver/caddy/v2/modules/caddyhttp"
	"github.com/caddyserver/caddy/v2/modules/caddyhttp/reverseproxy"

	"verif/harness/internal/core"
)

// ProbePolicy records the pool it is handed and returns nil.
type ProbePolicy struct {
	Case int `json:"case,omitempty"`
}

func (ProbePolicy) CaddyModule() caddy.ModuleInfo {
	return caddy.ModuleInfo{
		ID:  "http.reverse_proxy.selection_policies.c08probe",
		New: func() caddy.Module { return new(ProbePolicy) },
	}
}

// UnmarshalCaddyfile: `lb_policy c08probe <case>`
func (p *ProbePolicy) UnmarshalCaddyfile(d *caddyfile.Dispenser) error {
	d.Next()
	if !d.NextArg() {
		return d.ArgErr()
	}
	n, err := strconv.Atoi(d.Val())
	if err != nil {
		return d.Errf("bad case %q", d.Val())
	}
	p.Case = n
	return nil
}

// UnmarshalCaddyfile: `dynamic c08probe <ok|fail> [<dial>|<max> ...]`
func (s *ProbeSource) UnmarshalCaddyfile(d *caddyfile.Dispenser) error {
	d.Next()
	args := d.RemainingArgs()
	if len(args) == 0 || (args[0] != "ok" && args[0] != "fail") {
		return d.ArgErr()
	}
	s.Fail = args[0] == "fail"
	for _, a := range args[1:] {
		p := strings.Split(a, "|")
		if len(p) != 2 {
			return d.ArgErr()
		}
		mx, err := strconv.Atoi(p[1])
		if err != nil {
			return d.ArgErr()
		}
		s.Dials = append(s.Dials, p[0])
		s.Max = append(s.Max, mx)
	}
	return nil
}

// caddyfile renders the source as the argument of `dynamic` (or a line of a `multi` block);
// ok = false when the Caddyfile cannot say it (versions can only be switched on there)
func (s dySrc) caddyfile(caseID int, indent string, positional bool) (string, bool) {
	if s.kind == 'p' {
		out := "c08probe ok"
		if !s.ok {
			out = "c08probe fail"
		}
		for _, u := range s.ups {
			out += fmt.Sprintf(" %s|%d", proxyDial(caseID, u.id), u.max)
		}
		return out + "\n", true
	}
	if s.v4 == 'f' || s.v6 == 'f' {
		return "", false
	}
	name := fmt.Sprintf("127.0.0.%d", s.id)
	if s.six {
		name = fmt.Sprintf("::%d", s.id)
	}
	var opts []string
	out := "a"
	if positional {
		// positional form
		out += " " + name
		if s.port > 0 {
			out += " " + strconv.Itoa(s.port)
		}
	} else {
		opts = append(opts, "name "+name)
		if s.port > 0 {
			opts = append(opts, "port "+strconv.Itoa(s.port))
		}
	}
	switch {
	case s.v4 == 't' && s.v6 == 't':
		opts = append(opts, "versions ipv4 ipv6")
	case s.v4 == 't':
		opts = append(opts, "versions ipv4")
	case s.v6 == 't':
		opts = append(opts, "versions ipv6")
	}
	if len(opts) == 0 {
		return out + "\n", true
	}
	out += " {\n"
	for _, o := range opts {
		out += indent + "\t" + o + "\n"
	}
	return out + indent + "}\n", true
}

type dySeen struct {
	dial           string
	max            int
	passive, avail bool
	hostNil        bool
}

var dyCases sync.Map // int -> *[][]dySeen

func (p ProbePolicy) Select(pool reverseproxy.UpstreamPool, _ *http.Request, _ http.ResponseWriter) *reverseproxy.Upstream {
	v, ok := dyCases.Load(p.Case)
	if !ok {
		return nil
	}
	var seen []dySeen
	for _, u := range pool {
		s := dySeen{dial: u.Dial, max: u.MaxRequests, passive: u.VerifPassive() != nil, hostNil: u.Host == nil}
		if !s.hostNil {
			s.avail = u.Available()
		}
		seen = append(seen, s)
	}
	calls := v.(*[][]dySeen)
	*calls = append(*calls, seen)
	return nil
}

type dyUp struct{ id, max int }

type dySrc struct {
	kind   byte // p a
	ok     bool
	ups    []dyUp
	six    bool
	id     int
	port   int // 0 = unset
	v4, v6 byte
}

func parseDyUps(s string) ([]dyUp, bool) {
	if s == "-" {
		return nil, true
	}
	var out []dyUp
	for _, x := range strings.Split(s, "+") {
		p := strings.Split(x, ":")
		if len(p) != 2 {
			return nil, false
		}
		id, ok1 := num(small, p[0])
		mx, ok2 := num(1000, p[1])
		if !ok1 || !ok2 {
			return nil, false
		}
		out = append(out, dyUp{int(id), int(mx)})
	}
	return out, true
}

func parseDySrc(s string) (dySrc, bool) {
	f := strings.Split(s, ".")
	var r dySrc
	switch {
	case len(f) == 3 && f[0] == "p" && (f[1] == "o" || f[1] == "e"):
		ups, ok := parseDyUps(f[2])
		if !ok {
			return r, false
		}
		return dySrc{kind: 'p', ok: f[1] == "o", ups: ups}, true
	case len(f) == 6 && f[0] == "a" && (f[1] == "4" || f[1] == "6"):
		id, ok1 := num(9, f[2])
		port := uint64(0)
		ok2 := true
		if f[3] != "-" {
			port, ok2 = num(65535, f[3])
			ok2 = ok2 && port > 0
		}
		tri := func(x string) bool { return x == "n" || x == "t" || x == "f" }
		if !ok1 || !ok2 || id == 0 || !tri(f[4]) || !tri(f[5]) {
			return r, false
		}
		return dySrc{kind: 'a', six: f[1] == "6", id: int(id), port: int(port), v4: f[4][0], v6: f[5][0]}, true
	}
	return r, false
}

func (s dySrc) json(caseID int) map[string]any {
	if s.kind == 'p' {
		var dials []string
		var maxes []int
		for _, u := range s.ups {
			dials = append(dials, proxyDial(caseID, u.id))
			maxes = append(maxes, u.max)
		}
		return map[string]any{"source": "c08probe", "dials": dials, "max": maxes, "fail": !s.ok}
	}
	name := fmt.Sprintf("127.0.0.%d", s.id)
	if s.six {
		name = fmt.Sprintf("::%d", s.id)
	}
	j := map[string]any{"source": "a", "name": name}
	if s.port > 0 {
		j["port"] = strconv.Itoa(s.port)
	}
	v := map[string]any{}
	if s.v4 != 'n' {
		v["ipv4"] = s.v4 == 't'
	}
	if s.v6 != 'n' {
		v["ipv6"] = s.v6 == 't'
	}
	if len(v) > 0 || s.id%2 == 0 {
		j["versions"] = v
	}
	return j
}

func dyNameOK(n string) bool {
	if strings.HasPrefix(n, "u") {
		_, ok := num(small, n[1:])
		return ok
	}
	p := strings.Split(n, ".")
	if len(p) != 3 || (p[0] != "a4" && p[0] != "a6") {
		return false
	}
	_, ok1 := num(9, p[1])
	_, ok2 := num(65535, p[2])
	return ok1 && ok2
}

// dyDial is the dial address of a symbolic name
func dyDial(caseID int, n string) string {
	if strings.HasPrefix(n, "u") {
		id, _ := strconv.Atoi(n[1:])
		return proxyDial(caseID, id)
	}
	p := strings.Split(n, ".")
	if p[0] == "a4" {
		return "127.0.0." + p[1] + ":" + p[2]
	}
	return "[::" + p[1] + "]:" + p[2]
}

// dyName maps a dial address back to the symbolic name of the line
func dyName(caseID int, dial string) string {
	pre := fmt.Sprintf("c%du", caseID)
	switch {
	case strings.HasPrefix(dial, pre) && strings.HasSuffix(dial, ".test:80"):
		return "u" + strings.TrimSuffix(strings.TrimPrefix(dial, pre), ".test:80")
	case strings.HasPrefix(dial, "127.0.0."):
		hp := strings.SplitN(strings.TrimPrefix(dial, "127.0.0."), ":", 2)
		if len(hp) == 2 {
			return "a4." + hp[0] + "." + hp[1]
		}
	case strings.HasPrefix(dial, "[::"):
		hp := strings.SplitN(strings.TrimPrefix(dial, "[::"), "]:", 2)
		if len(hp) == 2 {
			return "a6." + hp[0] + "." + hp[1]
		}
	}
	return "?" + dial
}

func runDy(f []string) core.Outcome {
	bad := core.Outcome{Impl: "bad-op", Tags: []string{"bad-op", "trivial"}}
	if len(f) != 7 || (f[5] != "j" && f[5] != "c" && f[5] != "p") {
		return bad
	}
	type foreignT struct {
		name string
		k    int
	}
	var foreign []foreignT
	if f[6] != "-" {
		for _, x := range strings.Split(f[6], "+") {
			p := strings.Split(x, "=")
			if len(p) != 2 {
				return bad
			}
			k, ok := num(4, p[1])
			if !ok || k == 0 || !dyNameOK(p[0]) {
				return bad
			}
			foreign = append(foreign, foreignT{p[0], int(k)})
		}
		if len(foreign) > 4 {
			return bad
		}
	}
	cf := strings.Split(f[1], ":")
	if len(cf) != 4 || (cf[1] != "0" && cf[1] != "1") || (cf[3] != "0" && cf[3] != "1") {
		return bad
	}
	m, ok1 := num(1000, cf[0])
	mf, ok2 := num(1000, cf[2])
	static, ok3 := parseDyUps(f[2])
	if !ok1 || !ok2 || !ok3 || len(static) > 16 {
		return bad
	}
	fd, cb := cf[1] == "1", cf[3] == "1"
	var srcs []dySrc
	if f[4] != "-" {
		for _, x := range strings.Split(f[4], ";") {
			s, ok := parseDySrc(x)
			if !ok {
				return bad
			}
			srcs = append(srcs, s)
		}
	}
	if len(srcs) > 8 {
		return bad
	}
	switch {
	case f[3] == "none" && len(srcs) == 0:
	case f[3] == "one" && len(srcs) == 1:
	case f[3] == "multi":
	default:
		return bad
	}
	if err := proxyInit(); err != nil {
		panic("C08 proxy base context: " + err.Error())
	}
	proxyCaseSeq++
	caseID := proxyCaseSeq
	passive := m > 0 || fd || mf > 0

	hj := map[string]any{
		"transport":      map[string]any{"protocol": "c08probe", "case": caseID},
		"load_balancing": map[string]any{"selection_policy": map[string]any{"policy": "c08probe", "case": caseID}},
	}
	var ups []map[string]any
	for _, u := range static {
		x := map[string]any{"dial": proxyDial(caseID, u.id)}
		if u.max > 0 {
			x["max_requests"] = u.max
		}
		ups = append(ups, x)
	}
	if len(ups) > 0 {
		hj["upstreams"] = ups
	}
	switch f[3] {
	case "one":
		hj["dynamic_upstreams"] = srcs[0].json(caseID)
	case "multi":
		var l []map[string]any
		for _, s := range srcs {
			l = append(l, s.json(caseID))
		}
		hj["dynamic_upstreams"] = map[string]any{"source": "multi", "sources": l}
	}
	if cb {
		hj["circuit_breaker"] = map[string]any{"type": "c08probe", "case": caseID}
	}
	if passive {
		p := map[string]any{}
		if m > 0 {
			p["unhealthy_request_count"] = m
		}
		if fd {
			p["fail_duration"] = "1h"
		}
		if mf > 0 {
			p["max_fails"] = mf
		}
		hj["health_checks"] = map[string]any{"passive": p}
	}
	raw, _ := json.Marshal(hj)
	// with delivery c (block form of the a source) or p (positional form) the same configuration is delivered as a Caddyfile, if it can be said there
	// (no max_requests per upstream, no `versions` switched off), through the real
	// Handler.UnmarshalCaddyfile (`dynamic`, the a / multi unmarshalers, the health options);
	// transport and circuit breaker have no Caddyfile form and are added to its JSON
	viaCf := f[5] != "j" && !(f[3] == "none" && len(static) == 0)
	text := "reverse_proxy"
	for _, u := range static {
		text += " " + proxyDial(caseID, u.id)
		viaCf = viaCf && u.max == 0
	}
	text += " {\n"
	switch f[3] {
	case "one":
		t, ok := srcs[0].caddyfile(caseID, "\t", f[5] == "p")
		viaCf = viaCf && ok
		text += "\tdynamic " + t
	case "multi":
		if len(srcs) == 0 {
			text += "\tdynamic multi\n"
		} else {
			text += "\tdynamic multi {\n"
			for _, s := range srcs {
				t, ok := s.caddyfile(caseID, "\t\t", f[5] == "p")
				viaCf = viaCf && ok
				text += "\t\t" + t
			}
			text += "\t}\n"
		}
	}
	if m > 0 {
		text += fmt.Sprintf("\tunhealthy_request_count %d\n", m)
	}
	if fd {
		text += "\tfail_duration 1h\n"
	}
	if mf > 0 {
		text += fmt.Sprintf("\tmax_fails %d\n", mf)
	}
	text += fmt.Sprintf("\tlb_policy c08probe %d\n}\n", caseID)
	if viaCf {
		toks, err := caddyfile.Tokenize([]byte(text), "Caddyfile")
		if err != nil {
			return core.Outcome{Impl: "err:tokenize", Tags: []string{"err:tokenize"}}
		}
		hc := new(reverseproxy.Handler)
		if err := hc.UnmarshalCaddyfile(caddyfile.NewDispenser(toks)); err != nil {
			return core.Outcome{Impl: "err:caddyfile " + strings.ReplaceAll(err.Error(), " ", "_"), Tags: []string{"err:caddyfile"}}
		}
		b, _ := json.Marshal(hc)
		var mm map[string]any
		_ = json.Unmarshal(b, &mm)
		mm["transport"] = hj["transport"]
		if cb {
			mm["circuit_breaker"] = hj["circuit_breaker"]
		}
		raw, _ = json.Marshal(mm)
	}
	nholds := 0
	for _, fo := range foreign {
		nholds += fo.k
	}
	pc := &proxyCase{bad: map[string]int{}, attempt: func(string) {}, entered: make(chan string, nholds+1)}
	for i := 0; i < nholds; i++ {
		pc.release = append(pc.release, make(chan struct{}))
	}
	pc.parked = make([]atomic.Bool, nholds)
	pc.failRel = make([]atomic.Bool, nholds)
	pc.tripped.Store(true) // the circuit breaker, if one is configured, is open
	proxyCases.Store(caseID, pc)
	defer proxyCases.Delete(caseID)
	calls := &[][]dySeen{}
	dyCases.Store(caseID, calls)
	defer dyCases.Delete(caseID)

	ctx, cancel := caddy.NewContext(proxyBase)
	defer cancel()
	mod, err := ctx.LoadModuleByID("http.handlers.reverse_proxy", raw)
	if err != nil {
		return core.Outcome{Impl: "err:provision", Tags: []string{"err:provision"}}
	}
	h := mod.(*reverseproxy.Handler)
	// other handlers (one per address, a single static upstream, policy first, no limits) hold
	// requests in flight at the probe transport
	var wg sync.WaitGroup
	hold := 0
	infra := ""
	for _, fo := range foreign {
		bj, _ := json.Marshal(map[string]any{
			"transport":      hj["transport"],
			"upstreams":      []map[string]any{{"dial": dyDial(caseID, fo.name)}},
			"load_balancing": map[string]any{"selection_policy": map[string]any{"policy": "first"}},
		})
		bm, err := ctx.LoadModuleByID("http.handlers.reverse_proxy", bj)
		if err != nil {
			return core.Outcome{Impl: "err:provision-other", Tags: []string{"err:provision"}}
		}
		bh := bm.(*reverseproxy.Handler)
		for i := 0; i < fo.k; i++ {
			k := hold
			hold++
			wg.Add(1)
			go func() {
				defer wg.Done()
				r := httptest.NewRequest(http.MethodGet, "http://other.test/", nil)
				r.RemoteAddr = "192.0.2.11:40000"
				r.Header.Set("X-C08-Hold", strconv.Itoa(k))
				w := httptest.NewRecorder()
				r = caddyhttp.PrepareRequest(r, caddy.NewReplacer(), w, &caddyhttp.Server{})
				_ = bh.ServeHTTP(w, r, caddyhttp.HandlerFunc(func(http.ResponseWriter, *http.Request) error { return nil }))
			}()
			select {
			case <-pc.entered:
			case <-time.After(30 * time.Second):
				infra = "a request of another handler did not reach the backend"
			}
		}
	}
	defer func() {
		for _, ch := range pc.release {
			close(ch)
		}
		wg.Wait()
	}()
	req := httptest.NewRequest(http.MethodGet, "http://proxy.test/", nil)
	req.RemoteAddr = "192.0.2.10:40000"
	rec := httptest.NewRecorder()
	repl := caddy.NewReplacer()
	req = caddyhttp.PrepareRequest(req, repl, rec, &caddyhttp.Server{})
	code := rec.Code
	if err := h.ServeHTTP(rec, req, caddyhttp.HandlerFunc(func(http.ResponseWriter, *http.Request) error { return nil })); err != nil {
		code = 500
		if he, ok := err.(caddyhttp.HandlerError); ok {
			code = he.StatusCode
		}
	}
	o := core.Outcome{Tags: []string{"dy:" + f[3]}}
	if viaCf {
		o.Tags = append(o.Tags, "dy:via-caddyfile")
	}
	if len(*calls) != 1 {
		o.Impl = fmt.Sprintf("select-calls=%d %d", len(*calls), code)
		return o
	}
	var parts []string
	for i, s := range (*calls)[0] {
		if s.hostNil {
			parts = append(parts, dyName(caseID, s.dial)+":nohost")
			o.Failures = append(o.Failures, core.Failure{Class: "upstream-not-provisioned",
				What: fmt.Sprintf("%s dynamic upstreams: upstream %d (%s) handed to Select has no Host (provisionUpstream was not run on it)", f[3], i, s.dial)})
			continue
		}
		b := func(x bool) string {
			if x {
				return "1"
			}
			return "0"
		}
		parts = append(parts, fmt.Sprintf("%s:%d:%s:%s", dyName(caseID, s.dial), s.max, b(s.passive), b(s.avail)))
		// implementation-only: whatever the source, what Select sees carries the handler's options
		switch {
		case s.passive != passive:
			o.Failures = append(o.Failures, core.Failure{Class: "upstream-not-provisioned",
				What: fmt.Sprintf("%s dynamic upstreams: upstream %d (%s) handed to Select: passive health check policy attached = %v, configured = %v", f[3], i, s.dial, s.passive, passive)})
		case cb && s.avail:
			o.Failures = append(o.Failures, core.Failure{Class: "upstream-not-provisioned",
				What: fmt.Sprintf("%s dynamic upstreams: upstream %d (%s) handed to Select is Available() although the handler's circuit breaker is open", f[3], i, s.dial)})
		case !cb && s.max > 0 && s.avail != (func() bool {
			load := 0
			for _, fo := range foreign {
				if fo.name == dyName(caseID, s.dial) {
					load += fo.k
				}
			}
			return load < s.max
		}()):
			o.Failures = append(o.Failures, core.Failure{Class: "requests-of-other-handlers-not-seen",
				What: fmt.Sprintf("%s dynamic upstreams: upstream %d (%s, max_requests %d) handed to Select: Available() = %v, but other handlers have %s in flight", f[3], i, s.dial, s.max, s.avail, f[6])})
		case m > 0 && s.max == 0:
			o.Failures = append(o.Failures, core.Failure{Class: "upstream-not-provisioned",
				What: fmt.Sprintf("%s dynamic upstreams: upstream %d (%s) handed to Select has no max_requests although unhealthy_request_count is %d", f[3], i, s.dial, m)})
		}
	}
	// implementation-only: which upstreams Select must be handed, stated on the line alone —
	// no source: the static ones; a source that fails: the static ones; one that answers: its
	// upstreams; multi: the answers of its sources in order, failing ones skipped. The a source
	// on a name with a single address yields it unless only the other IP version is asked for.
	answer := func(s dySrc) ([]string, bool) {
		if s.kind == 'p' {
			var l []string
			for _, u := range s.ups {
				l = append(l, "u"+strconv.Itoa(u.id))
			}
			return l, s.ok
		}
		port := s.port
		if port == 0 {
			port = 80
		}
		if s.six {
			return []string{fmt.Sprintf("a6.%d.%d", s.id, port)}, !(s.v4 == 't' && s.v6 != 't')
		}
		return []string{fmt.Sprintf("a4.%d.%d", s.id, port)}, !(s.v6 == 't' && s.v4 != 't')
	}
	var want []string
	for _, u := range static {
		want = append(want, "u"+strconv.Itoa(u.id))
	}
	switch f[3] {
	case "one":
		if l, ok := answer(srcs[0]); ok {
			want = l
		}
	case "multi":
		want = nil
		for _, s := range srcs {
			if l, ok := answer(s); ok {
				want = append(want, l...)
			}
		}
	}
	var got []string
	for _, s := range (*calls)[0] {
		got = append(got, dyName(caseID, s.dial))
	}
	if strings.Join(got, ",") != strings.Join(want, ",") {
		o.Failures = append(o.Failures, core.Failure{Class: "wrong-pool-handed-to-select",
			What: fmt.Sprintf("dynamic upstreams %s: Select was handed [%s], the configuration and the answers of the sources say [%s]", f[3], strings.Join(got, " "), strings.Join(want, " "))})
	}
	if len(o.Failures) > 1 {
		o.Failures = o.Failures[:1]
	}
	if infra != "" {
		o.Failures = append(o.Failures, core.Failure{Class: "harness-proxy-timeout", What: infra})
	}
	if len(foreign) > 0 {
		o.Tags = append(o.Tags, "dy:other-handlers-hold-requests")
		for _, s := range (*calls)[0] {
			if !cb && !s.hostNil && !s.avail {
				o.Tags = append(o.Tags, "dy:full-through-other-handlers")
				break
			}
		}
	}
	if len(parts) == 0 {
		o.Impl = "- " + strconv.Itoa(code)
		o.Tags = append(o.Tags, "dy:empty-pool")
	} else {
		o.Impl = strings.Join(parts, ",") + " " + strconv.Itoa(code)
	}
	for _, s := range srcs {
		if s.kind == 'a' {
			o.Tags = append(o.Tags, "dy:a-source")
			break
		}
	}
	for _, s := range srcs {
		if s.kind == 'p' && !s.ok {
			o.Tags = append(o.Tags, "dy:failing-source")
			break
		}
	}
	if passive {
		o.Tags = append(o.Tags, "dy:passive")
	}
	if cb {
		o.Tags = append(o.Tags, "dy:breaker")
	}
	return o
}

func genDy(rng *core.Rand) string {
	m := []int{0, 0, 1, 2, 3}[rng.Intn(5)]
	fd, mf, cb := rng.Intn(2), []int{0, 0, 1, 2}[rng.Intn(4)], rng.Intn(2)
	ups := func(n, off int) string {
		if n == 0 {
			return "-"
		}
		var p []string
		for i := 0; i < n; i++ {
			mx := 0
			if rng.Chance(1, 3) {
				mx = 1 + rng.Intn(4)
			}
			p = append(p, fmt.Sprintf("%d:%d", off+i, mx))
		}
		return strings.Join(p, "+")
	}
	static := ups(rng.Intn(4), 1)
	src := func(off int) string {
		if rng.Chance(2, 5) {
			port := "-"
			if rng.Chance(2, 3) {
				port = strconv.Itoa([]int{80, 8080, 9000 + rng.Intn(100)}[rng.Intn(3)])
			}
			tri := func() string { return []string{"n", "t", "f"}[rng.Intn(3)] }
			return fmt.Sprintf("a.%s.%d.%s.%s.%s", []string{"4", "6"}[rng.Intn(2)], 1+rng.Intn(9), port, tri(), tri())
		}
		ok := "o"
		if rng.Chance(1, 3) {
			ok = "e"
		}
		return fmt.Sprintf("p.%s.%s", ok, ups(rng.Intn(4), off))
	}
	kind, srcs := "none", "-"
	switch r := rng.Intn(10); {
	case r < 1:
	case r < 5:
		kind, srcs = "one", src(10)
	default:
		kind = "multi"
		var l []string
		for i, n := 0, rng.Intn(4); i < n; i++ {
			l = append(l, src(10*(i+1)))
		}
		if len(l) > 0 {
			srcs = strings.Join(l, ";")
		}
	}
	// requests other handlers have in flight on addresses that occur above
	foreign := "-"
	if rng.Chance(2, 5) {
		var names []string
		for _, part := range append(strings.Split(srcs, ";"), "p.o."+static) {
			sf := strings.Split(part, ".")
			switch {
			case len(sf) == 3 && sf[0] == "p" && sf[2] != "-":
				for _, u := range strings.Split(sf[2], "+") {
					names = append(names, "u"+strings.Split(u, ":")[0])
				}
			case len(sf) == 6 && sf[0] == "a":
				port := sf[3]
				if port == "-" {
					port = "80"
				}
				names = append(names, "a"+sf[1]+"."+sf[2]+"."+port)
			}
		}
		if len(names) > 0 {
			var l []string
			for i, n := 0, 1+rng.Intn(2); i < n; i++ {
				l = append(l, fmt.Sprintf("%s=%d", names[rng.Intn(len(names))], 1+rng.Intn(3)))
			}
			foreign = strings.Join(l, "+")
		}
	}
	return fmt.Sprintf("dy %d:%d:%d:%d %s %s %s %s %s", m, fd, mf, cb, static, kind, srcs, []string{"j", "j", "c", "p"}[rng.Intn(4)], foreign)
}
