package c08

// `key` and `ck` lines: what the hash / header / query / cookie policies take from the request.
// The real policy (fallback `first`) runs on a probe pool of 8 available upstreams, once in
// order and once rotated by one: hashing sends both to the same address, the fallback to the
// respective first one.

import (
	"context"
	"crypto/tls"
	"encoding/json"
	"fmt"
	"net"
	"net/http"
	"net/http/httptest"
	"net/url"
	"strconv"
	"strings"

	"github.com/caddyserver/caddy/v2"
	"github.com/caddyserver/caddy/v2/modules/caddyhttp"
	"github.com/caddyserver/caddy/v2/modules/caddyhttp/reverseproxy"

	"verif/harness/internal/core"
)

const nProbe = 8

func probeDial(j int) string { return fmt.Sprintf("p%d.test:80", j) }

func probePools() (reverseproxy.UpstreamPool, reverseproxy.UpstreamPool) {
	p1 := make(reverseproxy.UpstreamPool, nProbe)
	for j := range p1 {
		p1[j] = reverseproxy.VerifNewUpstream(probeDial(j))
	}
	p2 := append(reverseproxy.UpstreamPool{}, p1[1:]...)
	p2 = append(p2, p1[0])
	return p1, p2
}

type hexPair struct{ k, v string }

func parsePairs(s string) ([]hexPair, bool) {
	if s == "-" {
		return nil, true
	}
	var out []hexPair
	for _, kv := range strings.Split(s, ";") {
		p := strings.Split(kv, ":")
		if len(p) != 2 {
			return nil, false
		}
		k, e1 := core.UnHex(p[0])
		v, e2 := core.UnHex(p[1])
		if e1 != nil || e2 != nil {
			return nil, false
		}
		out = append(out, hexPair{k, v})
	}
	return out, true
}

func pairsField(ps []hexPair) string {
	if len(ps) == 0 {
		return "-"
	}
	var p []string
	for _, kv := range ps {
		p = append(p, core.Hex(kv.k)+":"+core.Hex(kv.v))
	}
	return strings.Join(p, ";")
}

// orderedQuery parses a raw query like url.ParseQuery does, keeping the order of the pairs.
func orderedQuery(raw string) []hexPair {
	var out []hexPair
	for raw != "" {
		var seg string
		seg, raw, _ = strings.Cut(raw, "&")
		if strings.Contains(seg, ";") || seg == "" {
			continue
		}
		k, v, _ := strings.Cut(seg, "=")
		k1, err := url.QueryUnescape(k)
		if err != nil {
			continue
		}
		v1, err := url.QueryUnescape(v)
		if err != nil {
			continue
		}
		out = append(out, hexPair{k1, v1})
	}
	return out
}

// selectTwice runs sel on both probe pools; returns the probe index chosen by hashing / a
// followed cookie, -1 if the fallback (first) decided, -2 otherwise.
func selectTwice(sel reverseproxy.Selector, req *http.Request) int {
	p1, p2 := probePools()
	r1 := sel.Select(p1, req, httptest.NewRecorder())
	r2 := sel.Select(p2, req, httptest.NewRecorder())
	if r1 == nil || r2 == nil {
		return -2
	}
	if r1.Dial == r2.Dial {
		for j, u := range p1 {
			if u == r1 {
				return j
			}
		}
		return -2
	}
	if r1 == p1[0] && r2 == p2[0] {
		return -1
	}
	return -2
}

func loadPolicy(name string, cfg map[string]any) (reverseproxy.Selector, func(), error) {
	cfg["fallback"] = map[string]any{"policy": "first"}
	raw, _ := json.Marshal(cfg)
	ctx, cancel := caddy.NewContext(caddy.Context{Context: context.Background()})
	mod, err := ctx.LoadModuleByID("http.reverse_proxy.selection_policies."+name, raw)
	if err != nil {
		cancel()
		return nil, nil, err
	}
	return mod.(reverseproxy.Selector), cancel, nil
}

func runKey(f []string) (o core.Outcome) {
	bad := core.Outcome{Impl: "bad-op", Tags: []string{"bad-op", "trivial"}}
	if len(f) != 10 {
		return bad
	}
	src := strings.Split(f[1], ":")
	var field string
	switch {
	case len(src) == 1 && (src[0] == "iph" || src[0] == "ciph" || src[0] == "urih"):
	case len(src) == 2 && (src[0] == "hdr" || src[0] == "qry"):
		var err error
		if field, err = core.UnHex(src[1]); err != nil {
			return bad
		}
	default:
		return bad
	}
	remote, e1 := core.UnHex(f[2])
	cip, e2 := core.UnHex(f[3])
	uri, e3 := core.UnHex(f[4])
	host, e4 := core.UnHex(f[5])
	hdrs, ok1 := parsePairs(f[6])
	qry, ok2 := parsePairs(f[7])
	if e1 != nil || e2 != nil || e3 != nil || e4 != nil || !ok1 || !ok2 {
		return bad
	}
	fb := f[8] == "fb"
	lkey := ""
	if !fb {
		var err error
		if lkey, err = core.UnHex(f[8]); err != nil {
			return bad
		}
	}
	tbl, ok := parseNums(max64, f[9])
	if !ok || (fb && len(tbl) != 0) || (!fb && len(tbl) != nProbe) {
		return bad
	}
	// the tables on the line must be what the real external functions return
	best, bestH := -1, uint64(0)
	for j, h := range tbl {
		if h != reverseproxy.VerifHash(probeDial(j)+lkey) {
			return core.Outcome{Impl: "bad-table", Tags: []string{"bad-table"}}
		}
		if h > bestH {
			best, bestH = j, h
		}
	}
	u, err := url.ParseRequestURI(uri)
	if err != nil {
		return core.Outcome{Impl: "bad-table", Tags: []string{"bad-table"}}
	}
	if src[0] == "qry" {
		var vals []string
		for _, kv := range qry {
			if kv.k == field {
				vals = append(vals, kv.v)
			}
		}
		if strings.Join(vals, "\x00") != strings.Join(u.Query()[field], "\x00") {
			return core.Outcome{Impl: "bad-table", Tags: []string{"bad-table"}}
		}
	}
	var sel reverseproxy.Selector
	var closeFn func()
	switch src[0] {
	case "iph":
		sel, closeFn = reverseproxy.IPHashSelection{}, func() {}
	case "ciph":
		sel, closeFn = reverseproxy.ClientIPHashSelection{}, func() {}
	case "urih":
		sel, closeFn = reverseproxy.URIHashSelection{}, func() {}
	case "hdr":
		sel, closeFn, err = loadPolicy("header", map[string]any{"field": field})
	case "qry":
		sel, closeFn, err = loadPolicy("query", map[string]any{"key": field})
	}
	if err != nil {
		return core.Outcome{Impl: "err:provision", Tags: []string{"err:provision"}}
	}
	defer closeFn()
	hdr := http.Header{}
	for _, kv := range hdrs {
		hdr.Add(kv.k, kv.v)
	}
	req := &http.Request{Method: "GET", URL: u, RequestURI: uri, Host: host, Header: hdr, RemoteAddr: remote,
		Proto: "HTTP/1.1", ProtoMajor: 1, ProtoMinor: 1}
	req = req.WithContext(context.WithValue(context.Background(), caddyhttp.VarsCtxKey, map[string]any{
		caddyhttp.ClientIPVarKey: cip, caddyhttp.TrustedProxyVarKey: false,
	}))
	defer func() {
		if r := recover(); r != nil {
			o = core.Outcome{Impl: "panic", Tags: []string{"key:panic"},
				Failures: []core.Failure{{Class: "unexpected-panic:key", What: fmt.Sprint(r)}}}
		}
	}()
	got := selectTwice(sel, req)
	o.Tags = []string{"key:" + src[0]}
	switch {
	case got == -1:
		o.Impl = "fb"
		o.Tags = append(o.Tags, "key:fallback")
	case got >= 0:
		o.Impl = strconv.Itoa(got)
	default:
		o.Impl = "?"
	}
	// oracle: the policy hashes the key the request is supposed to be identified by
	want := "fb"
	if !fb {
		want = strconv.Itoa(best)
	}
	if o.Impl != want {
		o.Failures = append(o.Failures, core.Failure{Class: "hash-key-not-as-specified:" + src[0],
			What: fmt.Sprintf("policy %s: the request should be identified by %q (fallback: %v), which hashes to probe upstream %s; the policy chose %s", f[1], lkey, f[8] == "fb", want, o.Impl)})
	}
	return o
}

func runCk(f []string) (o core.Outcome) {
	bad := core.Outcome{Impl: "bad-op", Tags: []string{"bad-op", "trivial"}}
	if len(f) != 3 {
		return bad
	}
	name, err := core.UnHex(f[1])
	cks, ok := parsePairs(f[2])
	if err != nil || !ok {
		return bad
	}
	cfg := map[string]any{"secret": cookieSecret}
	if name != "" {
		cfg["name"] = name
	} else {
		name = "lb" // what the harness expects Provision to default to
	}
	sel, closeFn, err := loadPolicy("cookie", cfg)
	if err != nil {
		return core.Outcome{Impl: "err:provision", Tags: []string{"err:provision"}}
	}
	defer closeFn()
	req := &http.Request{Method: "GET", URL: &url.URL{Path: "/"}, RequestURI: "/", Host: "h.example", Header: http.Header{},
		RemoteAddr: "10.0.0.1:1", Proto: "HTTP/1.1", ProtoMajor: 1, ProtoMinor: 1}
	var parts []string
	want := "fb"
	first := true
	for _, kv := range cks {
		val := kv.v
		if len(val) == 2 && val[0] == 'p' && val[1] >= '0' && val[1] <= '7' {
			// a truncated token: only a prefix of the HMAC
			full, _ := reverseproxy.VerifHashCookie(cookieSecret, probeDial(int(val[1]-'0')))
			val = full[:16]
		} else if val == "e" {
			val = "" // an empty cookie value
		} else if len(val) == 2 && val[0] == 'w' && val[1] >= '0' && val[1] <= '7' {
			// the token of probe upstream j under another secret: a forged cookie
			val, _ = reverseproxy.VerifHashCookie("not-the-secret", probeDial(int(val[1]-'0')))
		} else if len(val) == 2 && val[0] == 't' && val[1] >= '0' && val[1] <= '7' {
			val, _ = reverseproxy.VerifHashCookie(cookieSecret, probeDial(int(val[1]-'0')))
			if kv.k == name && first {
				want = string(kv.v[1])
			}
		}
		if kv.k == name {
			first = false
		}
		parts = append(parts, kv.k+"="+val)
	}
	if len(parts) > 0 {
		req.Header.Set("Cookie", strings.Join(parts, "; "))
	}
	req = req.WithContext(context.WithValue(context.Background(), caddyhttp.VarsCtxKey, map[string]any{
		caddyhttp.ClientIPVarKey: "10.0.0.1", caddyhttp.TrustedProxyVarKey: false,
	}))
	got := selectTwice(sel, req)
	o.Tags = []string{"key:cookie"}
	switch {
	case got == -1:
		o.Impl = "fb"
		o.Tags = append(o.Tags, "key:fallback")
	case got >= 0:
		o.Impl = strconv.Itoa(got)
	default:
		o.Impl = "?"
	}
	if o.Impl != want {
		o.Failures = append(o.Failures, core.Failure{Class: "cookie-not-followed",
			What: fmt.Sprintf("cookies %v, policy cookie %q: expected %s, the policy chose %s", cks, name, want, o.Impl)})
	}
	return o
}

// ---------------------------------------------------------------- generating

var (
	genAddrs = []string{"10.0.0.5:1234", "10.0.0.5:80", "10.0.0.5", "[fd00::1]:443", "[fd00::1]:8443", "[fd00::1]", "fd00::1",
		"h:1:2", "", ":80", "[::1%eth0]:80", "192.168.1.9:5555", "192.168.1.9", "[fd00::1]x:1", "a]:1", "[a:1"}
	genURIs = []string{"/a?k=1&k=2&z=3", "/p?k=&k=", "/?k=a%2Cb&k=c", "/x", "/a?z=1&k=v", "/a?k=v&z=1", "/a?k=1;k=2&k=3", "/a?k=%zz&k=ok",
		"/a?K=upper&k=lower", "/a?k=a+b", "/a?k", "/a?=v&k=w", "/a?kk=1", "/b?k=1&k=2&z=3"}
	genHosts  = []string{"", "example.com", "h.test:8080", "Example.COM"}
	genFields = []string{"X-Key", "x-key", "X-KEY", "Host", "host", "X-Other", "X_Key", "Cookie"}
	genHVals  = []string{"", "v1", "v2", "a,b", " spaced "}
)

func genKey(rng *core.Rand) string {
	if rng.Chance(1, 5) {
		return genCk(rng)
	}
	if rng.Chance(1, 8) {
		return genSc(rng)
	}
	kind := []string{"iph", "ciph", "urih", "hdr", "hdr", "qry", "qry"}[rng.Intn(7)]
	remote, cip := rng.Pick(genAddrs), rng.Pick(genAddrs)
	uri, host := rng.Pick(genURIs), rng.Pick(genHosts)
	var hdrs []hexPair
	for i := rng.Intn(4); i > 0; i-- {
		hdrs = append(hdrs, hexPair{rng.Pick(genFields), rng.Pick(genHVals)})
	}
	u, _ := url.ParseRequestURI(uri)
	qry := orderedQuery(u.RawQuery)
	src, key, fb := kind, "", false
	switch kind {
	case "iph":
		h, _, err := net.SplitHostPort(remote)
		if err != nil {
			h = remote
		}
		key = h
	case "ciph":
		h, _, err := net.SplitHostPort(cip)
		if err != nil {
			h = cip
		}
		key = h
	case "urih":
		key = uri
	case "hdr":
		field := rng.Pick(genFields)
		src = "hdr:" + core.Hex(field)
		hh := http.Header{}
		for _, kv := range hdrs {
			hh.Add(kv.k, kv.v)
		}
		if field == "Host" && host != "" {
			key = host
		} else {
			key = hh.Get(field)
			fb = key == ""
		}
	case "qry":
		k := []string{"k", "k", "z", "K", "kk", "none", ""}[rng.Intn(7)]
		if k == "" {
			k = "k"
		}
		src = "qry:" + core.Hex(k)
		key = strings.Join(u.Query()[k], ",")
		fb = key == ""
	}
	kf, tf := "fb", "-"
	if !fb {
		kf = core.Hex(key)
		var p []string
		for j := 0; j < nProbe; j++ {
			p = append(p, strconv.FormatUint(reverseproxy.VerifHash(probeDial(j)+key), 10))
		}
		tf = strings.Join(p, ",")
	}
	return fmt.Sprintf("key %s %s %s %s %s %s %s %s %s", src, core.Hex(remote), core.Hex(cip), core.Hex(uri), core.Hex(host),
		pairsField(hdrs), pairsField(qry), kf, tf)
}

func genCk(rng *core.Rand) string {
	names := []string{"lb", "lb", "sid", "LB"}
	name := rng.Pick(names)
	if rng.Chance(1, 5) {
		name = "" // no name configured
	}
	var cks []hexPair
	for i := rng.Intn(4); i > 0; i-- {
		v := "t" + strconv.Itoa(rng.Intn(nProbe))
		switch rng.Intn(5) {
		case 0:
			v = "x" + strconv.Itoa(rng.Intn(100))
		case 1:
			v = "w" + strconv.Itoa(rng.Intn(nProbe)) // forged with another secret
		case 2:
			v = []string{"p" + strconv.Itoa(rng.Intn(nProbe)), "e"}[rng.Intn(2)] // truncated token / empty value
		}
		cks = append(cks, hexPair{rng.Pick(names), v})
	}
	return fmt.Sprintf("ck %s %s", core.Hex(name), pairsField(cks))
}

// ---------------------------------------------------------------- the sticky cookie's attributes (`sc` lines)

func runSc(f []string) (o core.Outcome) {
	bad := core.Outcome{Impl: "bad-op", Tags: []string{"bad-op", "trivial"}}
	if len(f) != 5 || (f[1] != "0" && f[1] != "1") || (f[2] != "0" && f[2] != "1") {
		return bad
	}
	var xfp []string
	if f[3] != "-" {
		for _, h := range strings.Split(f[3], ",") {
			v, err := core.UnHex(h)
			if err != nil {
				return bad
			}
			xfp = append(xfp, v)
		}
	}
	neg := strings.HasPrefix(f[4], "-")
	mav, ok := num(max63, strings.TrimPrefix(f[4], "-"))
	if !ok {
		return bad
	}
	ma := int64(mav)
	if neg {
		ma = -ma
	}
	cfg := map[string]any{"secret": cookieSecret}
	if ma != 0 {
		cfg["max_age"] = ma
	}
	sel, closeFn, err := loadPolicy("cookie", cfg)
	if err != nil {
		return core.Outcome{Impl: "err:provision", Tags: []string{"err:provision"}}
	}
	defer closeFn()
	req := &http.Request{Method: "GET", URL: &url.URL{Path: "/"}, RequestURI: "/", Host: "h.example", Header: http.Header{},
		RemoteAddr: "10.0.0.1:1", Proto: "HTTP/1.1", ProtoMajor: 1, ProtoMinor: 1}
	if f[1] == "1" {
		req.TLS = &tls.ConnectionState{}
	}
	for _, v := range xfp {
		req.Header.Add("X-Forwarded-Proto", v)
	}
	req = req.WithContext(context.WithValue(context.Background(), caddyhttp.VarsCtxKey, map[string]any{
		caddyhttp.ClientIPVarKey: "10.0.0.1", caddyhttp.TrustedProxyVarKey: f[2] == "1",
	}))
	p1, _ := probePools()
	rec := httptest.NewRecorder()
	up := sel.Select(p1, req, rec)
	cks := rec.Result().Cookies()
	o.Tags = []string{"sc"}
	if up == nil || len(cks) != 1 {
		o.Impl = "?"
		return o
	}
	c := cks[0]
	sec, ss := "0", "-"
	if c.Secure {
		sec = "1"
		o.Tags = append(o.Tags, "sc:secure")
	}
	if c.SameSite == http.SameSiteNoneMode {
		ss = "none"
	}
	o.Impl = fmt.Sprintf("secure=%s ss=%s ma=%d", sec, ss, c.MaxAge)
	// oracle: a browser must be able to return the cookie
	https := f[1] == "1" || (f[2] == "1" && len(xfp) > 0 && xfp[len(xfp)-1] == "https")
	tok, _ := reverseproxy.VerifHashCookie(cookieSecret, up.Dial)
	switch {
	case c.Path != "/" || c.Name != "lb" || c.Value != tok:
		o.Failures = append(o.Failures, core.Failure{Class: "sticky-cookie-not-returnable",
			What: fmt.Sprintf("the cookie for upstream %s is %q=%q Path=%q (expected lb=<HMAC of the dial address> Path=/)", up.Dial, c.Name, c.Value, c.Path)})
	case c.Secure != https:
		o.Failures = append(o.Failures, core.Failure{Class: "sticky-cookie-not-returnable",
			What: fmt.Sprintf("tls=%s trusted=%s X-Forwarded-Proto=%q: cookie Secure=%v, the request is https: %v (a Secure cookie is not returned over plain HTTP; SameSite=None needs Secure)", f[1], f[2], xfp, c.Secure, https)})
	}
	return o
}

func genSc(rng *core.Rand) string {
	var xfp []string
	for i := rng.Intn(3); i > 0; i-- {
		xfp = append(xfp, core.Hex(rng.Pick([]string{"https", "http", "HTTPS", "https, http", ""})))
	}
	x := "-"
	if len(xfp) > 0 {
		x = strings.Join(xfp, ",")
	}
	ma := []string{"0", "30000000000", "90000000000", "500000000", "3600000000000", "1999999999"}[rng.Intn(6)]
	return fmt.Sprintf("sc %d %d %s %s", rng.Intn(2), rng.Intn(2), x, ma)
}
