package c08

// `tim` lines: lb_try_duration / lb_try_interval on the real clock. Nothing here is compared
// with the model (its answer is the constant `ok`): the oracle checks the two bounds that hold
// whatever the load of the machine — sleeping never takes less than asked.

import (
	"encoding/json"
	"fmt"
	"net/http"
	"net/http/httptest"
	"sync/atomic"
	"time"

	"github.com/caddyserver/caddy/v2"
	"github.com/caddyserver/caddy/v2/modules/caddyhttp"
	"github.com/caddyserver/caddy/v2/modules/caddyhttp/reverseproxy"

	"verif/harness/internal/core"
)

func runTim(f []string) core.Outcome {
	bad := core.Outcome{Impl: "bad-op", Tags: []string{"bad-op", "trivial"}}
	if len(f) != 3 {
		return bad
	}
	dms, ok1 := num(2000, f[1])
	ims, ok2 := num(2000, f[2])
	if !ok1 || !ok2 || dms == 0 {
		return bad
	}
	if err := proxyInit(); err != nil {
		panic("C08 proxy base context: " + err.Error())
	}
	proxyCaseSeq++
	caseID := proxyCaseSeq
	var calls atomic.Int64
	pc := &proxyCase{entered: make(chan string, 1), bad: map[string]int{}}
	dialAddr := proxyDial(caseID, 1)
	pc.bad[dialAddr] = 1 // every round trip is a dial error: always retryable
	pc.attempt = func(string) { calls.Add(1) }
	proxyCases.Store(caseID, pc)
	defer proxyCases.Delete(caseID)
	lb := map[string]any{"selection_policy": map[string]any{"policy": "first"}, "try_duration": fmt.Sprintf("%dms", dms)}
	if ims > 0 {
		lb["try_interval"] = fmt.Sprintf("%dms", ims)
	}
	raw, _ := json.Marshal(map[string]any{
		"transport":      map[string]any{"protocol": "c08probe", "case": caseID},
		"load_balancing": lb,
		"upstreams":      []map[string]any{{"dial": dialAddr}},
	})
	ctx, cancel := caddy.NewContext(proxyBase)
	defer cancel()
	mod, err := ctx.LoadModuleByID("http.handlers.reverse_proxy", raw)
	if err != nil {
		return core.Outcome{Impl: "err:provision", Tags: []string{"err:provision"}}
	}
	h := mod.(*reverseproxy.Handler)
	req := httptest.NewRequest(http.MethodGet, "http://proxy.test/", nil)
	rec := httptest.NewRecorder()
	repl := caddy.NewReplacer()
	req = caddyhttp.PrepareRequest(req, repl, rec, &caddyhttp.Server{})
	done := make(chan struct{})
	t0 := time.Now()
	go func() {
		defer close(done)
		defer func() { _ = recover() }()
		_ = h.ServeHTTP(rec, req, caddyhttp.HandlerFunc(func(http.ResponseWriter, *http.Request) error { return nil }))
	}()
	o := core.Outcome{Impl: "ok", Tags: []string{"tim"}}
	select {
	case <-done:
	case <-time.After(time.Duration(dms)*time.Millisecond*20 + 30*time.Second):
		cancel()
		o.Failures = append(o.Failures, core.Failure{Class: "proxy-try-duration-bound",
			What: fmt.Sprintf("lb_try_duration %dms: the request had not returned after %v", dms, time.Since(t0))})
		return o
	}
	elapsed := time.Since(t0)
	interval := ims
	if interval == 0 {
		interval = 250 // Provision: a try_duration without try_interval waits 250ms between attempts
	}
	maxIter := int64((dms+interval-1)/interval) + 1
	if n := calls.Load(); n > maxIter {
		o.Failures = append(o.Failures, core.Failure{Class: "proxy-try-duration-bound",
			What: fmt.Sprintf("lb_try_duration %dms, lb_try_interval %dms (0 = default 250ms): %d round trips, at most %d fit (one per interval within the duration, plus the first)", dms, ims, n, maxIter)})
	}
	if elapsed < time.Duration(dms)*time.Millisecond {
		o.Failures = append(o.Failures, core.Failure{Class: "proxy-try-duration-bound",
			What: fmt.Sprintf("lb_try_duration %dms: every round trip failed at the dial, yet the handler gave up after %v", dms, elapsed)})
	}
	return o
}
