package c08

import (
	"fmt"
	"strconv"

	"github.com/caddyserver/caddy/v2/modules/caddyhttp/reverseproxy"

	"verif/harness/internal/core"
)

// oracle evaluates the property itself on what the implementation did (no model involved):
// availability, safety, liveness, and the contract of the policy that decided.
func oracle(c caseT, b *built, pool reverseproxy.UpstreamPool, ri reqInfo, results []selResult, bits string) []core.Failure {
	var fs []core.Failure
	add := func(class, what string) {
		for _, f := range fs {
			if f.Class == class {
				return
			}
		}
		fs = append(fs, core.Failure{Class: class, What: what})
	}
	n := len(c.pool)
	av := make([]bool, n)
	nav := 0
	for i, u := range c.pool {
		av[i] = u.avail()
		if av[i] {
			nav++
		}
	}
	// ---- Available = healthy && below its request limit
	for i := range c.pool {
		if (bits[i] == '1') != av[i] {
			add("available-mismatch", fmt.Sprintf("upstream %d: Available()=%v but its state (healthy flag, fails vs max_fails, circuit breaker, in-flight vs max_requests) says %v", i, bits[i] == '1', av[i]))
			break
		}
	}
	eff := effective(c)
	leaf := c.chain[len(c.chain)-1]
	ws := leaf.weights
	if len(ws) >= 2 && len(ws) > n {
		ws = ws[:n] // the weights of upstreams that are not in the pool take no part
	}
	wsum := 0
	for _, w := range ws {
		wsum += w
	}
	weighted := eff.kind == "wrr" && len(leaf.weights) >= 2
	eligible := func(i int) bool {
		if !av[i] {
			return false
		}
		if weighted {
			return i < len(ws) && ws[i] > 0
		}
		return true
	}
	anyEligible := false
	for i := range c.pool {
		if eligible(i) {
			anyEligible = true
		}
	}
	traversed := traversedCookieNodes(c)

	rrPrev := -1
	if eff.kind == "rr" && n > 0 {
		rrPrev = int(uint64(leaf.counter) % uint64(n))
	}
	for t, r := range results {
		switch {
		case r.idx == -2:
			add("unexpected-panic:"+eff.kind, "Select panicked: index out of range")
		case r.idx == -3:
			add("unexpected-panic:"+eff.kind, "Select panicked: integer divide by zero")
		case r.idx == -4:
			add("unexpected-panic:"+eff.kind, "Select panicked or returned an upstream that is not in the pool")
		case r.idx == -5:
			add("unexpected-panic:"+eff.kind, "Select panicked: nil pointer dereference")
		case r.idx == -1:
			if anyEligible && eff.kind == "rr" && rrWrapped(b, leaf, n) {
				add("rr-counter-wrap", fmt.Sprintf("round_robin returned nil although an upstream is available while its uint32 counter wrapped around (pool of %d, availability %s)", n, bits))
			} else if anyEligible {
				add("nil-though-available:"+eff.kind, fmt.Sprintf("selection %d returned nil although an upstream is available (availability %s)", t, bits))
			}
		default:
			i := r.idx
			if !av[i] {
				add("selected-unavailable:"+eff.kind, fmt.Sprintf("selection %d returned upstream %d which is not available (availability %s)", t, i, bits))
			}
			if weighted && !(i < len(ws) && ws[i] > 0) {
				add("wrr-zero-weight-selected", fmt.Sprintf("selection %d returned upstream %d which has no positive weight", t, i))
			}
			switch eff.kind {
			case "first":
				for j := 0; j < i; j++ {
					if av[j] {
						add("first-not-earliest", fmt.Sprintf("first returned upstream %d although upstream %d is available", i, j))
						break
					}
				}
			case "lc":
				for j := range c.pool {
					if av[j] && c.pool[j].load < c.pool[i].load {
						add("leastconn-not-minimal", fmt.Sprintf("least_conn returned upstream %d (load %d) although available upstream %d has load %d", i, c.pool[i].load, j, c.pool[j].load))
						break
					}
				}
			case "rc":
				k := leaf.choose
				if k == 0 {
					k = 2
				}
				if k > n {
					k = n
				}
				if k > nav {
					k = nav
				}
				atLeast := 0
				for j := range c.pool {
					if av[j] && c.pool[j].load >= c.pool[i].load {
						atLeast++
					}
				}
				if atLeast < k {
					add("randomchoose-not-minimal-candidate", fmt.Sprintf("random_choose returned upstream %d (load %d): only %d available upstreams are loaded at least as much, so it cannot be the least loaded of %d distinct candidates", i, c.pool[i].load, atLeast, k))
				}
			case "ck":
				first := -1
				for j, u := range c.pool {
					if av[j] && u.id == eff.cookie {
						first = j
						break
					}
				}
				if i != first {
					add("cookie-not-followed", fmt.Sprintf("request carries the valid cookie of dial %d (upstream %d) but upstream %d was returned", eff.cookie, first, i))
				}
			}
			// round robin: the available upstreams are visited in cyclic order
			if eff.kind == "rr" && av[i] {
				want := -1
				for s := 1; s <= n; s++ {
					if av[(rrPrev+s)%n] {
						want = (rrPrev + s) % n
						break
					}
				}
				if want != i {
					if rrWrapped(b, leaf, n) {
						add("rr-counter-wrap", fmt.Sprintf("round_robin after upstream %d returned %d instead of %d while its uint32 counter wrapped around (pool of %d)", rrPrev, i, want, n))
					} else {
						add("rr-not-cyclic", fmt.Sprintf("round_robin: selection %d returned upstream %d, the next available one in cyclic order after %d is %d (availability %s)", t, i, rrPrev, want, bits))
					}
				}
				rrPrev = i
			}
			// cookie policies on the way that could not follow a cookie must set the cookie of the selected upstream
			{
				okc := len(r.cookies) == traversed
				for _, ck := range r.cookies {
					if ck != strconv.Itoa(c.pool[i].id) {
						okc = false
					}
				}
				if !okc {
					add("cookie-not-set-for-selected", fmt.Sprintf("upstream %d (dial %d) selected through %d cookie polic(ies) without a valid cookie, Set-Cookie tokens written: %v", i, c.pool[i].id, traversed, r.cookies))
				}
			}
		}
		if eff.kind == "hash" && t > 0 && r.idx != results[0].idx {
			add("hash-not-sticky", fmt.Sprintf("the same request was sent to upstream %d and then to %d", results[0].idx, r.idx))
		}
	}

	if len(results) > 0 && results[0].idx >= 0 {
		sel := results[0].idx
		if eff.kind == "hash" {
			hashRelations(c, b, pool, ri, sel, add)
		}
		if traversed > 0 && eff.kind != "ck" {
			cookieRoundTrip(c, sel, add)
		}
	}
	if weighted && wsum > 0 && wsum <= 256 && uint64(leaf.counter)+uint64(wsum) < u32 {
		wrrWindow(c, av, ws, wsum, add)
	}
	return fs
}

// rrWrapped: did the round-robin counter wrap around 2^32 during this case, with a pool
// size that does not divide 2^32?
func rrWrapped(b *built, leaf node, n int) bool {
	final, _ := strconv.ParseUint(b.counter(), 10, 64)
	return final < uint64(leaf.counter) && n&(n-1) != 0
}

// traversedCookieNodes counts the cookie policies that are passed through on the way to
// the deciding policy (they have to set a cookie for the selected upstream).
func traversedCookieNodes(c caseT) int {
	k := 0
	for _, n := range c.chain {
		switch n.kind {
		case "hdr", "hhost", "qry":
			if n.present {
				return k
			}
		case "ck":
			if n.cookie >= 0 {
				for _, u := range c.pool {
					if u.avail() && u.id == n.cookie {
						return k
					}
				}
			}
			k++
		default:
			return k
		}
	}
	return k
}

// hashRelations: two-run relations of the hash policies, evaluated on the real code.
func hashRelations(c caseT, b *built, pool reverseproxy.UpstreamPool, ri reqInfo, sel int, add func(string, string)) {
	chosen := pool[sel]
	pick := func(p reverseproxy.UpstreamPool, specs []upSpec, ri reqInfo) *reverseproxy.Upstream {
		r := selectOnce(b.sel, p, specs, ri.req)
		if r.idx < 0 {
			return nil
		}
		return p[r.idx]
	}
	// (a) equal keys → same upstream, whatever else differs in the request or in the loads
	ri2 := buildReq(c.chain, c.v, true)
	if ri2.hasKey && ri2.key == ri.key {
		p2 := make(reverseproxy.UpstreamPool, len(pool))
		specs2 := make([]upSpec, len(pool))
		for i, u := range c.pool {
			specs2[i] = u
			if u.maxReq == 0 {
				specs2[i].load = u.load + 1 + i
			}
			p2[i] = buildUpstream(specs2[i])
		}
		r := selectOnce(b.sel, p2, specs2, ri2.req)
		if r.idx != sel {
			add("hash-not-sticky", fmt.Sprintf("key %q went to upstream %d; a request with the same key but another port / unrelated headers, parameters, loads went to %s", ri.key, sel, r))
		}
	}
	// (b) removing other upstreams keeps the choice
	for j := range pool {
		if j == sel || (len(pool) > 5 && (j+c.v)%3 != 0) {
			continue
		}
		var p2 reverseproxy.UpstreamPool
		var s2 []upSpec
		for i := range pool {
			if i != j {
				p2 = append(p2, pool[i])
				s2 = append(s2, c.pool[i])
			}
		}
		if got := pick(p2, s2, ri); got != chosen {
			add("hash-moved-on-removal", fmt.Sprintf("key %q went to upstream %d; after removing upstream %d from the pool it moved", ri.key, sel, j))
			break
		}
	}
	if got := pick(reverseproxy.UpstreamPool{chosen}, []upSpec{c.pool[sel]}, ri); got != chosen {
		add("hash-moved-on-removal", fmt.Sprintf("key %q went to upstream %d; alone in the pool it is not selected", ri.key, sel))
	}
	// (c) failure of other upstreams keeps the choice
	for j := range pool {
		if j == sel || !c.pool[j].avail() {
			continue
		}
		p2 := append(reverseproxy.UpstreamPool{}, pool...)
		s := c.pool[j]
		switch (j + c.v) % 3 {
		case 0:
			s.healthy = false
		case 1:
			s.maxReq, s.load = 1, 1
		default:
			s.cb = 0
		}
		p2[j] = buildUpstream(s)
		if got := pick(p2, c.pool, ri); got != chosen {
			add("hash-moved-on-failure", fmt.Sprintf("key %q went to upstream %d; after upstream %d became unavailable it moved", ri.key, sel, j))
			break
		}
	}
	// (d) adding an upstream: the key stays or moves to the new one
	ns := upSpec{id: 900000 + c.v%1000, healthy: true, maxFails: -1, cb: -1}
	nu := buildUpstream(ns)
	pos := c.v % (len(pool) + 1)
	p2 := append(reverseproxy.UpstreamPool{}, pool[:pos]...)
	p2 = append(p2, nu)
	p2 = append(p2, pool[pos:]...)
	s2 := append([]upSpec{}, c.pool[:pos]...)
	s2 = append(s2, ns)
	s2 = append(s2, c.pool[pos:]...)
	if got := pick(p2, s2, ri); got != chosen && got != nu {
		add("hash-moved-on-addition", fmt.Sprintf("key %q went to upstream %d; after adding a new upstream at position %d it moved to a third one", ri.key, sel, pos))
	}
}

// cookieRoundTrip: the cookie written for the selected upstream, sent back, selects it again.
func cookieRoundTrip(c caseT, sel int, add func(string, string)) {
	c2 := c
	c2.chain = append([]node{}, c.chain...)
	id := c.pool[sel].id
	d := -1
	for i, n := range c2.chain {
		if n.kind == "ck" {
			d = i
			break
		}
		if n.kind == "hdr" || n.kind == "hhost" || n.kind == "qry" {
			if n.present {
				return
			}
		}
	}
	if d < 0 {
		return
	}
	c2.chain[d].cookie = id
	b2, err := buildPolicy(c2.chain, c2.v)
	if err != nil {
		return
	}
	defer b2.close()
	ri2 := buildReq(c2.chain, c2.v, false)
	pool2 := buildPool(c.pool)
	r := selectOnce(b2.sel, pool2, c.pool, ri2.req)
	first := -1
	for j, u := range c.pool {
		if u.avail() && u.id == id {
			first = j
			break
		}
	}
	if r.idx != first || len(r.cookies) != 0 {
		add("cookie-not-followed", fmt.Sprintf("the cookie written for upstream %d (dial %d), sent back, selected %s (expected upstream %d, no new cookie)", sel, id, r, first))
	}
}

// wrrWindow runs one cycle (total weight of the upstreams in the pool) of consecutive selections
// on a fresh policy and compares how often each upstream was chosen with its weight: an upstream
// that can be used (available, positive weight) gets at least its weight, and exactly its weight
// when every upstream with a positive weight can be used.
func wrrWindow(c caseT, av []bool, ws []int, wsum int, add func(string, string)) {
	b2, err := buildPolicy(c.chain, c.v)
	if err != nil {
		return
	}
	defer b2.close()
	ri := buildReq(c.chain, c.v, false)
	pool := buildPool(c.pool)
	n := len(c.pool)
	counts := make([]int, n)
	for t := 0; t < wsum; t++ {
		r := selectOnce(b2.sel, pool, c.pool, ri.req)
		if r.idx < 0 {
			return // nil / panic: reported by the per-selection checks
		}
		counts[r.idx]++
	}
	allUsable := true
	for i, w := range ws {
		if w > 0 && !av[i] {
			allUsable = false
		}
	}
	for i := range counts {
		w := 0
		if i < len(ws) && av[i] {
			w = ws[i]
		}
		switch {
		case counts[i] < w:
			add("wrr-share-below-weight", fmt.Sprintf("weights %v, availability %v: over a cycle of %d consecutive selections upstream %d (weight %d, available) was chosen only %d times (counts %v)", ws, av, wsum, i, w, counts[i], counts))
			return
		case allUsable && counts[i] != w:
			add("wrr-counts-not-weights", fmt.Sprintf("every upstream with a positive weight is available, weights %v, but over a cycle of %d consecutive selections they were chosen %v times", ws, wsum, counts))
			return
		}
	}
}
