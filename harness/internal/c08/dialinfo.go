package c08

// Dial addresses with placeholders (`pd` lines): every upstream of a real reverse_proxy handler has
// the dial address `{http.request.header.<field>}`; the request fills it in - with a good address,
// or with something Upstream.fillDialInfo (hosts.go) cannot make dial info from (port range, named
// port, reversed range, port above 65535). fillDialInfo runs AFTER Select: an error ends the request
// there (502), without a round trip, without counting a request or a failure, without a retry.
// The handler's selection policy is wrapped so that the harness sees every Select (what it was
// handed, what it returned) and keeps the global math/rand source on the case's stream.

import (
	"encoding/json"
	"fmt"
	weakrand "math/rand"
	"net/http"
	"net/http/httptest"
	"strconv"
	"strings"
	"sync"

	"github.com/caddyserver/caddy/v2"
	"github.com/caddyserver/caddy/v2/modules/caddyhttp"
	"github.com/caddyserver/caddy/v2/modules/caddyhttp/reverseproxy"

	"verif/harness/internal/core"
)

type pdPolicy struct {
	inner  reverseproxy.Selector
	before func()
	after  func(pool reverseproxy.UpstreamPool, got *reverseproxy.Upstream)
}

func (p *pdPolicy) Select(pool reverseproxy.UpstreamPool, r *http.Request, w http.ResponseWriter) *reverseproxy.Upstream {
	p.before()
	u := p.inner.Select(pool, r, w)
	p.after(pool, u)
	return u
}

type pdReq struct {
	get  bool
	fill []byte // one letter per upstream: g r m w z
}

func pdField(caseID, id int) string { return fmt.Sprintf("X-C08-K%d-D%d", caseID, id) }

func pdTemplate(caseID, id int) string {
	return "{http.request.header." + pdField(caseID, id) + "}"
}

// pdValue: what the request puts where the placeholder is
func pdValue(caseID, id int, letter byte) string {
	host := fmt.Sprintf("c%du%d.test", caseID, id)
	switch letter {
	case 'r':
		return host + ":80-81"
	case 'm':
		return host + ":http"
	case 'w':
		return host + ":81-80"
	case 'z':
		return host + ":99999"
	}
	return proxyDial(caseID, id)
}

func runPd(f []string) core.Outcome {
	badOp := core.Outcome{Impl: "bad-op", Tags: []string{"bad-op", "trivial"}}
	if len(f) != 7 {
		return badOp
	}
	c, ok := parseProxy([]string{"prx", f[1], f[2], f[3], f[4], "q", f[6]})
	if !ok || c.cb || len(c.ups) == 0 || len(c.ups) > 8 {
		return badOp
	}
	for _, u := range c.ups {
		if u.bad == 3 {
			return badOp
		}
	}
	var reqs []pdReq
	for _, rs := range strings.Split(f[5], ",") {
		if len(rs) != 1+len(c.ups) || (rs[0] != 'q' && rs[0] != 'Q') {
			return badOp
		}
		for _, ch := range []byte(rs[1:]) {
			if !strings.ContainsRune("grmwz", rune(ch)) {
				return badOp
			}
		}
		reqs = append(reqs, pdReq{get: rs[0] == 'q', fill: []byte(rs[1:])})
	}
	if len(reqs) > 16 {
		return badOp
	}
	if err := proxyInit(); err != nil {
		panic("C08 proxy base context: " + err.Error())
	}
	proxyCaseSeq++
	caseID := proxyCaseSeq
	n := len(c.ups)
	tmpl := make([]string, n)
	maxes := make([]int, n)
	tmplIdx := map[string]int{}
	goodIdx := map[string]int{}
	pc := &proxyCase{bad: map[string]int{}}
	for i, u := range c.ups {
		tmpl[i] = pdTemplate(caseID, u.id)
		maxes[i] = u.max
		tmplIdx[tmpl[i]] = i
		goodIdx[proxyDial(caseID, u.id)] = i
		pc.bad[proxyDial(caseID, u.id)] = u.bad
	}
	lb := map[string]any{}
	if !c.deflt {
		pol := policyJSON([]node{c.leaf}, 0, 0)
		pol["policy"] = moduleName[c.leaf.kind]
		lb["selection_policy"] = pol
	}
	if c.retries > 0 {
		lb["retries"] = c.retries
	}
	switch c.rm {
	case 1:
		lb["retry_match"] = []map[string]any{{"method": []string{"POST"}}}
	case 2:
		lb["retry_match"] = []map[string]any{{"method": []string{"GET"}}}
	case 3:
		lb["retry_match"] = []map[string]any{{"method": []string{"GET", "POST"}}}
	}
	hj := map[string]any{"transport": map[string]any{"protocol": "c08probe", "case": caseID}}
	if len(lb) > 0 {
		hj["load_balancing"] = lb
	}
	if c.dynamic {
		hj["dynamic_upstreams"] = map[string]any{"source": "c08probe", "dials": tmpl, "max": maxes}
	} else {
		var ups []map[string]any
		for i, d := range tmpl {
			u := map[string]any{"dial": d}
			if maxes[i] > 0 {
				u["max_requests"] = maxes[i]
			}
			ups = append(ups, u)
		}
		hj["upstreams"] = ups
	}
	if c.passive() {
		p := map[string]any{}
		if c.m > 0 {
			p["unhealthy_request_count"] = c.m
		}
		if c.fd {
			p["fail_duration"] = "1h"
		}
		if c.mf > 0 {
			p["max_fails"] = c.mf
		}
		hj["health_checks"] = map[string]any{"passive": p}
	}
	raw, _ := json.Marshal(hj)
	ctx, cancel := caddy.NewContext(proxyBase)
	defer cancel()
	mod, err := ctx.LoadModuleByID("http.handlers.reverse_proxy", raw)
	if err != nil {
		return core.Outcome{Impl: "err:provision", Tags: []string{"err:provision"}}
	}
	h := mod.(*reverseproxy.Handler)
	if rr, ok := h.LoadBalancing.SelectionPolicy.(*reverseproxy.RoundRobinSelection); ok {
		rr.VerifSetCounter(c.leaf.counter)
	}
	realPolicy := h.LoadBalancing.SelectionPolicy

	budget := len(reqs)*(c.retries+1)*(n+2) + 8
	if len(c.rnd.draws) > budget {
		budget = len(c.rnd.draws) + 8
	}
	stream := seedStream(c.rnd.seed, budget)
	for i, d := range c.rnd.draws {
		if stream[i] != d {
			return core.Outcome{Impl: "bad-table", Tags: []string{"bad-table"}}
		}
	}
	var fs []core.Failure
	add := func(class, what string) {
		for _, f := range fs {
			if f.Class == class {
				return
			}
		}
		fs = append(fs, core.Failure{Class: class, What: what})
	}
	var mu sync.Mutex
	pos := 0
	var selected []int  // per Select of the current request: index returned, -1 = nil
	var roundTrips []string
	cur := -1 // the request being served
	h.LoadBalancing.SelectionPolicy = &pdPolicy{
		inner: realPolicy,
		before: func() {
			mu.Lock()
			defer mu.Unlock()
			weakrand.Seed(c.rnd.seed) //nolint:staticcheck
			for i := 0; i < pos; i++ {
				weakrand.Int63()
			}
		},
		after: func(pool reverseproxy.UpstreamPool, got *reverseproxy.Upstream) {
			mu.Lock()
			defer mu.Unlock()
			next := uint64(weakrand.Int63())
			found := false
			for i := pos; i < len(stream); i++ {
				if stream[i] == next {
					pos, found = i, true
					break
				}
			}
			if !found {
				pos = len(stream) + 1
			}
			if got == nil {
				selected = append(selected, -1)
				// liveness on what Select was handed
				for _, u := range pool {
					if u.Available() {
						add("dialinfo-nil-though-available", fmt.Sprintf("request %d: Select returned nil although upstream %s is available", cur, u.Dial))
						break
					}
				}
				return
			}
			i, ok := tmplIdx[got.Dial]
			if !ok {
				i = -2
			}
			selected = append(selected, i)
			if !got.Available() {
				add("dialinfo-selected-unavailable", fmt.Sprintf("request %d: Select returned upstream %d (%s) which is not available", cur, i, got.Dial))
			}
		},
	}
	pc.attempt = func(addr string) {
		mu.Lock()
		defer mu.Unlock()
		roundTrips = append(roundTrips, addr)
	}
	proxyCases.Store(caseID, pc)
	defer proxyCases.Delete(caseID)

	strikes := make([]int, n)
	var outs []string
	nDialInfo, nSticky := 0, 0
	for t, rq := range reqs {
		method := http.MethodGet
		if !rq.get {
			method = http.MethodPost
		}
		req := httptest.NewRequest(method, "http://proxy.test/", nil)
		req.RemoteAddr = "192.0.2.10:40000"
		for i, u := range c.ups {
			req.Header.Set(pdField(caseID, u.id), pdValue(caseID, u.id, rq.fill[i]))
		}
		mu.Lock()
		selected, roundTrips, cur = nil, nil, t
		mu.Unlock()
		rec := httptest.NewRecorder()
		repl := caddy.NewReplacer()
		req = caddyhttp.PrepareRequest(req, repl, rec, &caddyhttp.Server{})
		code, msg := 0, ""
		func() {
			defer func() {
				if r := recover(); r != nil {
					code, msg = 599, fmt.Sprint(r)
				}
			}()
			err := h.ServeHTTP(rec, req, caddyhttp.HandlerFunc(func(http.ResponseWriter, *http.Request) error { return nil }))
			if err != nil {
				code = 500
				if he, ok := err.(caddyhttp.HandlerError); ok {
					code = he.StatusCode
					if he.Err != nil {
						msg = he.Err.Error()
					}
				} else {
					msg = err.Error()
				}
				return
			}
			code = rec.Code
		}()
		mu.Lock()
		sel := append([]int{}, selected...)
		rts := append([]string{}, roundTrips...)
		mu.Unlock()
		dialInfoErr := strings.HasPrefix(msg, "making dial info")
		// rendering: one element per Select, then the end
		var p []string
		rt := 0
		for k, s := range sel {
			last := k == len(sel)-1
			switch {
			case s < 0:
				p = append(p, "-")
			case rq.fill[s] != 'g':
				// no round trip belongs to this Select
				if !last {
					add("dialinfo-failure-retried", fmt.Sprintf("request %d: the dial address of the selected upstream %d could not be filled in (%s), yet the proxy loop went on (Selects %v)", t, s, pdValue(caseID, c.ups[s].id, rq.fill[s]), sel))
				}
				if !dialInfoErr && last {
					add("dialinfo-unfillable-not-refused", fmt.Sprintf("request %d: upstream %d selected, dial address %s is not one socket, but the request ended with %d %q", t, s, pdValue(caseID, c.ups[s].id, rq.fill[s]), code, msg))
				}
			default:
				if rt >= len(rts) {
					add("dialinfo-no-round-trip", fmt.Sprintf("request %d: upstream %d selected and its dial address filled in, but no round trip followed", t, s))
					break
				}
				if gi, ok := goodIdx[rts[rt]]; !ok || gi != s {
					add("dialinfo-dialled-other-than-selected", fmt.Sprintf("request %d: upstream %d selected, the round trip went to %s", t, s, rts[rt]))
				}
				rt++
				if c.ups[s].bad != 0 {
					p = append(p, strconv.Itoa(s)+"!")
					if c.fd {
						strikes[s]++
					}
				} else if last {
					p = append(p, strconv.Itoa(s))
				}
			}
		}
		if rt != len(rts) {
			add("dialinfo-unselected-round-trip", fmt.Sprintf("request %d: %d round trips (%v) for %d selections of upstreams with a usable dial address", t, len(rts), rts, rt))
		}
		if len(sel) > c.retries+1 {
			add("proxy-too-many-attempts", fmt.Sprintf("pd request %d: %d loop iterations with lb_retries %d", t, len(sel), c.retries))
		}
		switch {
		case dialInfoErr && len(sel) > 0 && sel[len(sel)-1] >= 0:
			s := sel[len(sel)-1]
			p = append(p, "di"+strconv.Itoa(s))
			nDialInfo++
			if code != 502 {
				add("dialinfo-status", fmt.Sprintf("request %d: making dial info failed, status %d", t, code))
			}
			if rq.fill[s] == 'g' {
				add("dialinfo-good-address-refused", fmt.Sprintf("request %d: upstream %d, dial address %s refused: %s", t, s, pdValue(caseID, c.ups[s].id, 'g'), msg))
			}
			// was there an available upstream whose address could have been filled in?
			for i := range c.ups {
				if rq.fill[i] == 'g' && i != s {
					nSticky++
					break
				}
			}
		case code == 200:
			// the end is already rendered
		case code == 502 || code == 503:
			p = append(p, strconv.Itoa(code))
		default:
			p = append(p, "panic")
		}
		outs = append(outs, strings.Join(p, "/"))
	}
	consumed := pos
	snap := reverseproxy.VerifHostsSnapshot()
	var ns, fls []string
	for i, d := range tmpl {
		var nr, fl int64
		if e, ok := snap[d]; ok {
			nr, fl = e.State.NumRequests, e.State.Fails
		}
		ns = append(ns, strconv.FormatInt(nr, 10))
		fls = append(fls, strconv.FormatInt(fl, 10))
		if !c.dynamic && int(fl) != strikes[i] {
			add("dialinfo-failure-count", fmt.Sprintf("static upstreams, fail_duration 1h: upstream %d has had %d failed round trips but the shared host state says %d fails (a request that ends in fillDialInfo is no strike)", i, strikes[i], fl))
		}
		if nr != 0 {
			add("dialinfo-request-left-counted", fmt.Sprintf("no request is in flight but upstream %d counts %d", i, nr))
		}
	}
	o := core.Outcome{}
	if consumed > len(c.rnd.draws) {
		o.Impl = "starved"
		o.Tags = []string{"starved"}
		return o
	}
	counter := "-"
	if rr, ok := realPolicy.(*reverseproxy.RoundRobinSelection); ok {
		counter = strconv.FormatUint(uint64(rr.VerifCounter()), 10)
	}
	o.Impl = strings.Join(outs, ",") + " c=" + counter + " n=" + strings.Join(ns, ",") + " f=" + strings.Join(fls, ",")
	mode := "static"
	if c.dynamic {
		mode = "dynamic"
	}
	o.Tags = []string{"pd:" + mode, "pd:policy:" + c.leaf.kind}
	if nDialInfo > 0 {
		o.Tags = append(o.Tags, "pd:dial-info-failed")
		if c.retries > 0 {
			o.Tags = append(o.Tags, "pd:dial-info-failed-with-retries-left")
		}
	} else {
		o.Tags = append(o.Tags, "pd:all-filled")
	}
	if nSticky > 0 {
		o.Tags = append(o.Tags, "pd:dial-info-failed-while-another-upstream-usable")
	}
	for _, x := range outs {
		if strings.Contains(x, "!/") && strings.Contains(x, "di") {
			o.Tags = append(o.Tags, "pd:dial-info-failed-after-retry")
			break
		}
	}
	if n < 2 {
		o.Tags = append(o.Tags, "trivial")
	}
	o.Failures = fs
	return o
}

func genPd(rng *core.Rand) string {
	mode := "sta"
	if rng.Chance(1, 3) {
		mode = "dyn"
	}
	kinds := []string{"first", "first", "rr", "rr", "lc", "rnd", "rc", "-"}
	kind := kinds[rng.Intn(len(kinds))]
	leaf := node{kind: kind}
	if kind == "-" {
		leaf.kind = "rnd"
	}
	if leaf.kind == "rr" {
		leaf.counter = uint32(rng.Intn(20))
	}
	if leaf.kind == "rc" {
		leaf.choose = []int{0, 2, 3}[rng.Intn(3)]
	}
	m := []int{0, 0, 1, 2}[rng.Intn(4)]
	fd, mf, retries := 0, 0, 0
	if rng.Chance(2, 3) {
		retries = 1 + rng.Intn(4)
	}
	if rng.Chance(1, 2) {
		fd = 1
		mf = []int{0, 0, 1, 2}[rng.Intn(4)]
	}
	nids := 1 + rng.Intn(4)
	var ups []string
	off := rng.Intn(40)
	badBias := []int{0, 30, 50}[rng.Intn(3)]
	for i := 0; i < nids; i++ {
		bad := "o"
		if rng.Intn(100) < badBias {
			bad = []string{"d", "d", "e"}[rng.Intn(3)]
		}
		mx := 0
		if rng.Chance(1, 6) {
			mx = 1 + rng.Intn(2)
		}
		ups = append(ups, fmt.Sprintf("%d:%d:%s", 1+off+i*3, mx, bad))
	}
	nreq := 1 + rng.Intn(6)
	unfBias := []int{0, 25, 50, 80}[rng.Intn(4)]
	var reqs []string
	for i := 0; i < nreq; i++ {
		r := "q"
		if rng.Chance(1, 4) {
			r = "Q"
		}
		for j := 0; j < nids; j++ {
			if rng.Intn(100) < unfBias {
				r += string("rmwz"[rng.Intn(4)])
			} else {
				r += "g"
			}
		}
		reqs = append(reqs, r)
	}
	rs := "-"
	switch leaf.kind {
	case "lc", "rnd", "rc":
		seed := int64(rng.U64() >> 1)
		var p []string
		for _, d := range seedStream(seed, nreq*(retries+1)*(nids+2)) {
			p = append(p, strconv.FormatUint(d, 10))
		}
		if len(p) > 0 {
			rs = fmt.Sprintf("%d:%s", seed, strings.Join(p, ","))
		}
	}
	pol := kind
	if kind != "-" {
		pol = leaf.String()
	}
	cfg := fmt.Sprintf("%d:%d:%d:%d", m, fd, mf, retries)
	if rng.Chance(1, 4) {
		cfg += ":0:" + strconv.Itoa(rng.Intn(4))
	}
	return fmt.Sprintf("pd %s %s %s %s %s %s", mode, pol, cfg, strings.Join(ups, ","), strings.Join(reqs, ","), rs)
}
