package c08

import (
	"fmt"
	"strconv"
	"strings"

	"github.com/caddyserver/caddy/v2/modules/caddyhttp/reverseproxy"

	"verif/harness/internal/core"
)

func (u upSpec) String(hash uint64) string {
	mf, cb := "-", "-"
	if u.maxFails >= 0 {
		mf = strconv.Itoa(u.maxFails)
	}
	if u.cb >= 0 {
		cb = strconv.Itoa(u.cb)
	}
	h := 0
	if u.healthy {
		h = 1
	}
	return fmt.Sprintf("%d:%d:%d:%s:%s:%d:%d:%d", u.id, h, u.fails, mf, cb, u.load, u.maxReq, hash)
}

func (n node) String() string {
	switch n.kind {
	case "rr":
		return fmt.Sprintf("rr:%d", n.counter)
	case "wrr":
		ws := "-"
		if len(n.weights) > 0 {
			var p []string
			for _, w := range n.weights {
				p = append(p, strconv.Itoa(w))
			}
			ws = strings.Join(p, ",")
		}
		return fmt.Sprintf("wrr:%d:%s", n.counter, ws)
	case "rc":
		return fmt.Sprintf("rc:%d", n.choose)
	case "hdr", "hhost", "qry":
		if n.present {
			return n.kind + "+"
		}
		return n.kind + "-"
	case "ck":
		if n.cookie < 0 {
			return "ck:-"
		}
		return fmt.Sprintf("ck:%d", n.cookie)
	}
	return n.kind
}

func chainString(chain []node) string {
	var p []string
	for _, n := range chain {
		p = append(p, n.String())
	}
	return strings.Join(p, ">")
}

// lineFor renders a case; the hash column and the draws are the values the real external
// functions (xxhash via VerifHash, math/rand after Seed) return for it.
func lineFor(chain []node, pool []upSpec, n, v int, seeded bool, seed int64, ndraws int) string {
	ri := buildReq(chain, v, false)
	ps := "-"
	if len(pool) > 0 {
		var p []string
		for _, u := range pool {
			h := uint64(0)
			if ri.hasKey {
				h = reverseproxy.VerifHash(dial(u.id) + ri.key)
			}
			p = append(p, u.String(h))
		}
		ps = strings.Join(p, ",")
	}
	rs := "-"
	if seeded {
		var p []string
		for _, d := range seedStream(seed, ndraws) {
			p = append(p, strconv.FormatUint(d, 10))
		}
		rs = fmt.Sprintf("%d:%s", seed, strings.Join(p, ","))
		if ndraws == 0 {
			rs = "-"
		}
	}
	return fmt.Sprintf("sel %s %s %d %d %s", chainString(chain), ps, n, v, rs)
}

func genUp(rng *core.Rand, id int, downBias int) upSpec {
	u := upSpec{id: id, healthy: true, maxFails: -1, cb: -1}
	u.load = rng.Intn(4)
	if rng.Chance(1, 4) {
		u.load = rng.Intn(7)
	}
	if rng.Chance(1, 5) {
		u.load = 0
	}
	if rng.Chance(1, 4) {
		u.maxFails = 1 + rng.Intn(3)
		u.fails = rng.Intn(u.maxFails)
	}
	if rng.Chance(1, 5) {
		u.cb = 1
	}
	if rng.Chance(1, 4) {
		u.maxReq = u.load + 1 + rng.Intn(2) // has a limit, below it
	}
	if rng.Intn(100) < downBias {
		switch rng.Intn(5) {
		case 0:
			u.healthy = false
		case 1:
			u.maxFails = rng.Intn(3)
			u.fails = u.maxFails + rng.Intn(2)
		case 2:
			u.cb = 0
		case 3:
			u.maxReq = 1 + rng.Intn(3)
			u.load = u.maxReq // exactly at the limit
		case 4:
			u.maxReq = 1 + rng.Intn(3)
			u.load = u.maxReq + 1 + rng.Intn(2)
		}
	}
	return u
}

func genPool(rng *core.Rand, tier string) []upSpec {
	size := 1 + rng.Intn(7)
	switch {
	case rng.Chance(1, 10):
		size = 8 + rng.Intn(5)
	case rng.Chance(1, 40):
		size = 0
	}
	if tier == "thorough" && rng.Chance(1, 40) {
		size = 13 + rng.Intn(20)
	}
	downBias := []int{0, 10, 25, 40, 60, 85}[rng.Intn(6)]
	if rng.Chance(1, 30) {
		downBias = 100
	}
	perm := rng.Intn(50)
	var pool []upSpec
	for i := 0; i < size; i++ {
		id := 1 + (i*7+perm)%53
		if rng.Chance(1, 60) && i > 0 {
			id = pool[rng.Intn(i)].id // the same dial address twice
		}
		pool = append(pool, genUp(rng, id, downBias))
	}
	if size > 0 && rng.Chance(1, 6) {
		// only one upstream up, at a random position
		k := rng.Intn(size)
		for i := range pool {
			if i != k {
				pool[i].healthy = false
			} else {
				pool[i] = upSpec{id: pool[i].id, healthy: true, maxFails: -1, cb: -1, load: rng.Intn(3)}
			}
		}
	}
	return pool
}

func genLeaf(rng *core.Rand, pool []upSpec) node {
	kinds := []string{"first", "rr", "rr", "wrr", "wrr", "wrr", "lc", "lc", "rnd", "rnd", "rc", "rc", "rc", "iph", "ciph", "urih"}
	n := node{kind: kinds[rng.Intn(len(kinds))]}
	switch n.kind {
	case "rr", "wrr":
		n.counter = uint32(rng.Intn(40))
		if rng.Chance(1, 12) {
			n.counter = uint32(u32 - 1 - uint64(rng.Intn(12)))
		} else if rng.Chance(1, 12) {
			n.counter = uint32(rng.U64())
		}
	}
	if n.kind == "wrr" {
		l := len(pool)
		switch {
		case rng.Chance(1, 8):
			l = rng.Intn(2)
		case rng.Chance(1, 6) && l > 0:
			l = 2 + rng.Intn(l)
			if l > len(pool) {
				l = len(pool)
			}
			if l > 2 && rng.Chance(1, 2) {
				l--
			}
		case rng.Chance(1, 8):
			l += 1 + rng.Intn(2)
		}
		zeros := rng.Chance(1, 12)
		for i := 0; i < l; i++ {
			w := 1 + rng.Intn(4)
			if rng.Chance(1, 6) {
				w = 0
			}
			if zeros {
				w = 0
			}
			n.weights = append(n.weights, w)
		}
	}
	if n.kind == "rc" {
		n.choose = []int{0, 2, 2, 2, 3, 3, 4, 5, 1, 50}[rng.Intn(10)]
	}
	return n
}

func genChain(rng *core.Rand, pool []upSpec) []node {
	leaf := genLeaf(rng, pool)
	depth := 0
	switch r := rng.Intn(20); {
	case r < 11:
		depth = 0
	case r < 17:
		depth = 1
	case r < 19:
		depth = 2
	default:
		depth = 3 + rng.Intn(2)
	}
	var chain []node
	hostUsed := false
	for d := 0; d < depth; d++ {
		var n node
		switch rng.Intn(7) {
		case 0, 1:
			n = node{kind: "hdr"}
		case 2:
			if hostUsed {
				n = node{kind: "hdr"}
			} else {
				n = node{kind: "hhost"}
				hostUsed = true
			}
		case 3, 4:
			n = node{kind: "qry"}
		default:
			n = node{kind: "ck", cookie: -1}
			if len(pool) > 0 && rng.Chance(2, 3) {
				n.cookie = pool[rng.Intn(len(pool))].id
			} else if rng.Chance(1, 3) {
				n.cookie = 777 // a cookie that matches no upstream
			}
		}
		if n.kind != "ck" {
			n.present = rng.Chance(1, 3)
		}
		chain = append(chain, n)
	}
	return append(chain, leaf)
}

func (prop) Generate(rng *core.Rand, tier string, emit func(string)) {
	total := 20000
	switch tier {
	case "thorough":
		total = 500000
	case "search":
		total = 80000
	}
	bad := rng.Fork()
	prx := rng.Fork()
	// two cases on the real clock (oracle only)
	emit(fmt.Sprintf("tim %d %d", 120+prx.Intn(80), 40+prx.Intn(30)))
	emit(fmt.Sprintf("tim %d 0", 260+prx.Intn(60)))
	for k := 0; k < total; k++ {
		if k%12 == 5 {
			emit(genProxy(prx))
			continue
		}
		if k%12 == 9 {
			emit(genKey(prx))
			continue
		}
		if k%120 == 7 {
			emit(genAh(prx))
			continue
		}
		if k%24 == 19 {
			emit(genDy(prx))
			continue
		}
		if k%24 == 11 {
			emit(genPd(prx))
			continue
		}
		if k%24 == 23 {
			emit(genWr(prx))
			continue
		}
		if k%12 == 2 {
			if (k/12)%2 == 0 {
				emit(genCf(prx))
			} else {
				emit(genRp(prx))
			}
			continue
		}
		pool := genPool(rng, tier)
		chain := genChain(rng, pool)
		leaf := chain[len(chain)-1]
		n := 1 + rng.Intn(3)
		switch leaf.kind {
		case "rr":
			n = 1 + rng.Intn(2*len(pool)+3)
		case "wrr":
			sum := 0
			for _, w := range leaf.weights {
				sum += w
			}
			n = 1 + rng.Intn(sum+3)
		case "rnd", "lc", "rc":
			n = 1 + rng.Intn(4)
		}
		if n > 64 {
			n = 64
		}
		v := rng.Intn(small)
		seeded := false
		switch leaf.kind {
		case "rnd", "lc", "rc":
			seeded = true
		}
		seed := int64(rng.U64() >> 1)
		line := lineFor(chain, pool, n, v, seeded, seed, n*(len(pool)+2))
		if bad.Chance(1, 60) {
			line = malform(bad, line)
		}
		emit(line)
	}
}

// malform turns a valid line into one that both sides must reject.
func malform(rng *core.Rand, line string) string {
	f := strings.Split(line, " ")
	switch rng.Intn(12) {
	case 0:
		return line + " extra"
	case 1:
		return strings.Join(f[:len(f)-1], " ")
	case 2:
		f[1] = "bogus"
	case 3:
		f[3] = []string{"0", "65", "01", "x", "-1"}[rng.Intn(5)]
	case 4:
		if f[2] != "-" {
			f[2] = f[2][:strings.LastIndex(f[2], ":")]
		} else {
			f[2] = ""
		}
	case 5:
		if f[2] != "-" {
			p := strings.Split(f[2], ":")
			p[1] = "2"
			f[2] = strings.Join(p, ":")
		} else {
			f[2] = "--"
		}
	case 6:
		f[1] = "rr:4294967296"
	case 7:
		f[5] = "5"
	case 8:
		f[1] = "hdr->hdr->hdr->hdr->hdr->first"
	case 9:
		f[1] = "hhost->hhost+>first"
	case 10:
		f[0] = "select"
	case 11:
		f[4] = "1000001"
	}
	return strings.Join(f, " ")
}
