// Package c08: load-balancing selection policies (selectionpolicies.go, hosts.go) —
// correspondence cases against the real policies and the implementation-only oracle.
//
// Protocol (see lean/CaddyModel/C08/Driver.lean):
//
//	sel <policy> <pool> <n> <v> <rand>
//
// The real policies are provisioned from JSON through caddy.Context.LoadModuleByID,
// the pool is built through the `verif` hooks in reverseproxy/hosts_verif.go, the global
// math/rand source is seeded per case so that the draws the code sees are the draws on
// the line.
package c08

import (
	"context"
	"encoding/json"
	"fmt"
	weakrand "math/rand"
	"net/http"
	"net/http/httptest"
	"net/url"
	"strconv"
	"strings"

	"github.com/caddyserver/caddy/v2"
	"github.com/caddyserver/caddy/v2/modules/caddyhttp"
	"github.com/caddyserver/caddy/v2/modules/caddyhttp/reverseproxy"

	"verif/harness/internal/core"
)

type prop struct{}

func New() core.Prop { return prop{} }

func (prop) ID() string { return "C08" }

const (
	small = 1000000
	max63 = uint64(1<<63 - 1)
	max64 = ^uint64(0)
	u32   = uint64(1) << 32
)

// ---------------------------------------------------------------- parsing (mirrors Driver.lean)

// num: strict decimal `0|[1-9][0-9]*`, at most 20 digits, value ≤ max.
func num(max uint64, s string) (uint64, bool) {
	if s == "" || len(s) > 20 {
		return 0, false
	}
	if s[0] == '0' && len(s) > 1 {
		return 0, false
	}
	for i := 0; i < len(s); i++ {
		if s[i] < '0' || s[i] > '9' {
			return 0, false
		}
	}
	v, err := strconv.ParseUint(s, 10, 64)
	if err != nil || v > max {
		return 0, false
	}
	return v, true
}

type upSpec struct {
	id       int
	healthy  bool
	fails    int
	maxFails int // -1 = no passive policy
	cb       int // -1 none, 0 tripped, 1 ok
	load     int
	maxReq   int
	hash     uint64
}

// avail is the harness's own statement of "available": healthy (active flag, passive
// failure count below the limit, circuit breaker closed) and below its request limit.
func (u upSpec) avail() bool {
	h := u.healthy
	if u.maxFails >= 0 && u.fails >= u.maxFails {
		h = false
	}
	if u.cb == 0 {
		h = false
	}
	full := u.maxReq > 0 && u.load >= u.maxReq
	return h && !full
}

func optNum(s string) (int, bool) {
	if s == "-" {
		return -1, true
	}
	v, ok := num(small, s)
	return int(v), ok
}

func parseUp(s string) (upSpec, bool) {
	f := strings.Split(s, ":")
	if len(f) != 8 {
		return upSpec{}, false
	}
	var u upSpec
	var ok bool
	var v uint64
	if v, ok = num(small, f[0]); !ok {
		return u, false
	}
	u.id = int(v)
	switch f[1] {
	case "0":
	case "1":
		u.healthy = true
	default:
		return u, false
	}
	if v, ok = num(small, f[2]); !ok {
		return u, false
	}
	u.fails = int(v)
	if u.maxFails, ok = optNum(f[3]); !ok {
		return u, false
	}
	switch f[4] {
	case "-":
		u.cb = -1
	case "0":
		u.cb = 0
	case "1":
		u.cb = 1
	default:
		return u, false
	}
	if v, ok = num(small, f[5]); !ok {
		return u, false
	}
	u.load = int(v)
	if v, ok = num(small, f[6]); !ok {
		return u, false
	}
	u.maxReq = int(v)
	if u.hash, ok = num(max64, f[7]); !ok {
		return u, false
	}
	return u, true
}

func parsePool(s string) ([]upSpec, bool) {
	if s == "-" {
		return nil, true
	}
	var out []upSpec
	for _, p := range strings.Split(s, ",") {
		u, ok := parseUp(p)
		if !ok {
			return nil, false
		}
		out = append(out, u)
	}
	if len(out) > 64 {
		return nil, false
	}
	return out, true
}

func parseNums(max uint64, s string) ([]uint64, bool) {
	if s == "-" {
		return nil, true
	}
	var out []uint64
	for _, p := range strings.Split(s, ",") {
		v, ok := num(max, p)
		if !ok {
			return nil, false
		}
		out = append(out, v)
	}
	return out, true
}

// node is one element of a policy chain.
type node struct {
	kind    string // first rr wrr lc rnd rc iph ciph urih | hdr hhost qry ck
	present bool   // hdr/hhost/qry: key present
	cookie  int    // ck: -1 = no cookie, else dial id
	counter uint32 // rr, wrr
	weights []int  // wrr
	choose  int    // rc
}

func (n node) isLeaf() bool {
	switch n.kind {
	case "hdr", "hhost", "qry", "ck":
		return false
	}
	return true
}

func parseLeaf(s string) (node, bool) {
	f := strings.Split(s, ":")
	switch {
	case len(f) == 1 && (f[0] == "first" || f[0] == "lc" || f[0] == "rnd" || f[0] == "iph" || f[0] == "ciph" || f[0] == "urih"):
		return node{kind: f[0]}, true
	case len(f) == 2 && f[0] == "rr":
		c, ok := num(u32-1, f[1])
		return node{kind: "rr", counter: uint32(c)}, ok
	case len(f) == 3 && f[0] == "wrr":
		c, ok := num(u32-1, f[1])
		if !ok {
			return node{}, false
		}
		ws, ok := parseNums(small, f[2])
		if !ok || len(ws) > 64 {
			return node{}, false
		}
		n := node{kind: "wrr", counter: uint32(c)}
		for _, w := range ws {
			n.weights = append(n.weights, int(w))
		}
		return n, true
	case len(f) == 2 && f[0] == "rc":
		k, ok := num(small, f[1])
		return node{kind: "rc", choose: int(k)}, ok
	}
	return node{}, false
}

func parseNode(s string) (node, bool) {
	switch s {
	case "hdr+":
		return node{kind: "hdr", present: true}, true
	case "hdr-":
		return node{kind: "hdr"}, true
	case "hhost+":
		return node{kind: "hhost", present: true}, true
	case "hhost-":
		return node{kind: "hhost"}, true
	case "qry+":
		return node{kind: "qry", present: true}, true
	case "qry-":
		return node{kind: "qry"}, true
	}
	f := strings.Split(s, ":")
	if len(f) == 2 && f[0] == "ck" {
		c, ok := optNum(f[1])
		return node{kind: "ck", cookie: c}, ok
	}
	return node{}, false
}

func parsePolicy(s string) ([]node, bool) {
	parts := strings.Split(s, ">")
	if len(parts) > 5 {
		return nil, false
	}
	var chain []node
	hosts := 0
	for i, p := range parts {
		var n node
		var ok bool
		if i == len(parts)-1 {
			n, ok = parseLeaf(p)
		} else {
			n, ok = parseNode(p)
		}
		if !ok {
			return nil, false
		}
		if n.kind == "hhost" {
			hosts++
		}
		chain = append(chain, n)
	}
	if hosts > 1 {
		return nil, false
	}
	return chain, true
}

type randSpec struct {
	seeded bool
	seed   int64
	draws  []uint64
}

func parseRand(s string) (randSpec, bool) {
	if s == "-" {
		return randSpec{}, true
	}
	f := strings.Split(s, ":")
	if len(f) != 2 {
		return randSpec{}, false
	}
	seed, ok := num(max63, f[0])
	if !ok {
		return randSpec{}, false
	}
	ds, ok := parseNums(max63, f[1])
	if !ok || len(ds) > 4096 {
		return randSpec{}, false
	}
	return randSpec{seeded: true, seed: int64(seed), draws: ds}, true
}

type caseT struct {
	chain []node
	pool  []upSpec
	n     int
	v     int
	rnd   randSpec
}

func parseCase(line string) (caseT, bool) {
	var f []string
	for _, p := range strings.Split(line, " ") {
		if p != "" {
			f = append(f, p)
		}
	}
	var c caseT
	if len(f) != 6 || f[0] != "sel" {
		return c, false
	}
	var ok bool
	if c.chain, ok = parsePolicy(f[1]); !ok {
		return c, false
	}
	if c.pool, ok = parsePool(f[2]); !ok {
		return c, false
	}
	n, ok := num(64, f[3])
	if !ok || n == 0 {
		return c, false
	}
	c.n = int(n)
	v, ok := num(small, f[4])
	if !ok {
		return c, false
	}
	c.v = int(v)
	if c.rnd, ok = parseRand(f[5]); !ok {
		return c, false
	}
	return c, true
}

// ---------------------------------------------------------------- building the real objects

func dial(id int) string { return fmt.Sprintf("u%d.test:80", id) }

const cookieSecret = "s3cr3t"

func cookieName(depth int) string  { return fmt.Sprintf("lb%d", depth) }
func headerField(depth int) string { return fmt.Sprintf("X-Lb-%d", depth) }
func queryKey(depth int) string    { return fmt.Sprintf("k%d", depth) }

var moduleName = map[string]string{
	"first": "first", "rr": "round_robin", "wrr": "weighted_round_robin", "lc": "least_conn", "rnd": "random",
	"rc": "random_choose", "iph": "ip_hash", "ciph": "client_ip_hash", "urih": "uri_hash",
	"hdr": "header", "hhost": "header", "qry": "query", "ck": "cookie",
}

// policyJSON renders chain[d:] as the JSON of the policy module (without the inline key).
// The default fallback (`random`) is left implicit when v asks for it.
func policyJSON(chain []node, d int, v int) map[string]any {
	n := chain[d]
	m := map[string]any{}
	switch n.kind {
	case "wrr":
		if len(n.weights) > 0 {
			m["weights"] = n.weights
		}
	case "rc":
		if n.choose != 0 {
			m["choose"] = n.choose
		}
	case "hdr":
		m["field"] = headerField(d)
	case "hhost":
		m["field"] = "Host"
	case "qry":
		m["key"] = queryKey(d)
	case "ck":
		m["name"] = cookieName(d)
		m["secret"] = cookieSecret
	}
	if !n.isLeaf() {
		next := chain[d+1]
		if !(next.kind == "rnd" && v%2 == 1) {
			fb := policyJSON(chain, d+1, v)
			fb["policy"] = moduleName[next.kind]
			m["fallback"] = fb
		}
	}
	return m
}

type built struct {
	sel   reverseproxy.Selector
	leaf  reverseproxy.Selector
	ctx   caddy.Context
	close func()
}

func buildPolicy(chain []node, v int) (*built, error) {
	raw, err := json.Marshal(policyJSON(chain, 0, v))
	if err != nil {
		return nil, err
	}
	ctx, cancel := caddy.NewContext(caddy.Context{Context: context.Background()})
	mod, err := ctx.LoadModuleByID("http.reverse_proxy.selection_policies."+moduleName[chain[0].kind], raw)
	if err != nil {
		cancel()
		return nil, err
	}
	b := &built{sel: mod.(reverseproxy.Selector), ctx: ctx, close: cancel}
	// walk to the leaf to set its counter
	cur := b.sel
	for {
		switch p := cur.(type) {
		case *reverseproxy.HeaderHashSelection:
			cur = p.VerifFallback()
			continue
		case *reverseproxy.QueryHashSelection:
			cur = p.VerifFallback()
			continue
		case *reverseproxy.CookieHashSelection:
			cur = p.VerifFallback()
			continue
		}
		break
	}
	b.leaf = cur
	leaf := chain[len(chain)-1]
	switch p := cur.(type) {
	case *reverseproxy.RoundRobinSelection:
		p.VerifSetCounter(leaf.counter)
	case *reverseproxy.WeightedRoundRobinSelection:
		p.VerifSetCounter(leaf.counter)
	}
	return b, nil
}

func (b *built) counter() string {
	switch p := b.leaf.(type) {
	case *reverseproxy.RoundRobinSelection:
		return strconv.FormatUint(uint64(p.VerifCounter()), 10)
	case *reverseproxy.WeightedRoundRobinSelection:
		return strconv.FormatUint(uint64(p.VerifCounter()), 10)
	}
	return "-"
}

func buildUpstream(u upSpec) *reverseproxy.Upstream {
	up := reverseproxy.VerifNewUpstream(dial(u.id))
	up.VerifSetHealthy(u.healthy)
	up.VerifSetFails(int64(u.fails))
	up.VerifSetNumRequests(int64(u.load))
	up.MaxRequests = u.maxReq
	if u.maxFails >= 0 {
		up.VerifSetPassive(&reverseproxy.PassiveHealthChecks{MaxFails: u.maxFails})
	}
	if u.cb >= 0 {
		cb := &reverseproxy.VerifBreaker{}
		cb.Set(u.cb == 1)
		up.VerifSetCircuitBreaker(cb)
	}
	return up
}

func buildPool(specs []upSpec) reverseproxy.UpstreamPool {
	pool := make(reverseproxy.UpstreamPool, 0, len(specs))
	for _, u := range specs {
		pool = append(pool, buildUpstream(u))
	}
	return pool
}

// reqInfo is the HTTP request of a case together with the key the harness expects the
// effective hash policy to use ("" with hasKey=false when no hash policy decides).
type reqInfo struct {
	req    *http.Request
	key    string
	hasKey bool
}

// buildReq builds the request for (chain, v). alt produces a request that differs in
// everything a policy must NOT look at (port, unrelated headers / parameters / cookies)
// but has the same keys.
func buildReq(chain []node, v int, alt bool) reqInfo {
	ipIdx := v % 7
	ip := fmt.Sprintf("10.0.%d.%d", ipIdx, 1+v%3)
	remote := ip + ":" + strconv.Itoa(1000+(v/7)%50)
	switch (v / 3) % 5 {
	case 3:
		ip = fmt.Sprintf("fd00::%x", 1+ipIdx)
		remote = "[" + ip + "]:" + strconv.Itoa(2000+(v/7)%50)
	case 4:
		remote = ip // no port: SplitHostPort fails, whole string is the key
	}
	cip := fmt.Sprintf("192.168.%d.%d", v%5, 1+(v/5)%4)
	clientVar := cip
	if (v/2)%3 == 1 {
		clientVar = cip + ":" + strconv.Itoa(3000+v%40)
	}
	if alt {
		if strings.Contains(remote, ":") && remote != ip {
			remote = remote[:strings.LastIndex(remote, ":")] + ":" + strconv.Itoa(60000+v%100)
		}
		if clientVar != cip {
			clientVar = cip + ":" + strconv.Itoa(61000+v%100)
		}
	}
	q := url.Values{}
	hdr := http.Header{}
	host := ""
	hostIsKey := false
	usesURI := chain[len(chain)-1].kind == "urih"
	for d, n := range chain {
		switch n.kind {
		case "hdr":
			if n.present {
				hdr.Add(headerField(d), fmt.Sprintf("hv%d", (v+d)%5))
				if (v/4)%3 == 0 {
					hdr.Add(headerField(d), "second-value-ignored")
				}
			} else if (v/2)%2 == 0 {
				hdr[headerField(d)] = []string{""} // present but empty: fallback
			}
		case "hhost":
			hostIsKey = true
			if n.present {
				host = fmt.Sprintf("h%d.example", v%4)
			}
		case "qry":
			if n.present {
				q.Add(queryKey(d), fmt.Sprintf("a%d", (v+d)%3))
				if (v/3)%2 == 0 {
					q.Add(queryKey(d), "b")
				}
			} else if (v/2)%2 == 1 {
				q.Add(queryKey(d), "") // present but empty: fallback
			}
		}
	}
	if !hostIsKey {
		host = fmt.Sprintf("site%d.example", v%2)
		if alt {
			host = "other.example"
		}
	}
	if v%2 == 0 {
		q.Add("z", strconv.Itoa(v%13))
	}
	if alt && !usesURI {
		q.Add("zz", "alt")
	}
	hdr.Set("X-Other", strconv.Itoa(v%17))
	if alt {
		hdr.Set("X-Other", "alt")
		hdr.Set("X-Alt", "1")
	}
	path := fmt.Sprintf("/r%d", v%9)
	uri := path
	if enc := q.Encode(); enc != "" {
		uri += "?" + enc
	}
	u, _ := url.ParseRequestURI(uri)
	req := &http.Request{
		Method: "GET", URL: u, RequestURI: uri, Host: host, Header: hdr, RemoteAddr: remote,
		Proto: "HTTP/1.1", ProtoMajor: 1, ProtoMinor: 1,
	}
	// cookies
	for d, n := range chain {
		if n.kind == "ck" && n.cookie >= 0 {
			tok, _ := reverseproxy.VerifHashCookie(cookieSecret, dial(n.cookie))
			req.AddCookie(&http.Cookie{Name: cookieName(d), Value: tok})
		}
	}
	if alt || v%3 == 0 {
		req.AddCookie(&http.Cookie{Name: "unrelated", Value: "x"})
	}
	ctx := context.WithValue(context.Background(), caddyhttp.VarsCtxKey, map[string]any{
		caddyhttp.ClientIPVarKey:     clientVar,
		caddyhttp.TrustedProxyVarKey: false,
	})
	req = req.WithContext(ctx)

	ri := reqInfo{req: req}
	// the effective key
	for d, n := range chain {
		switch n.kind {
		case "hdr":
			if n.present {
				ri.key, ri.hasKey = fmt.Sprintf("hv%d", (v+d)%5), true
			}
		case "hhost":
			if n.present {
				ri.key, ri.hasKey = host, true
			}
		case "qry":
			if n.present {
				k := fmt.Sprintf("a%d", (v+d)%3)
				if (v/3)%2 == 0 {
					k += ",b"
				}
				ri.key, ri.hasKey = k, true
			}
		case "ck":
			// a cookie node decides by itself only when the cookie is valid; otherwise falls through
		case "iph":
			ri.key, ri.hasKey = ip, true
		case "ciph":
			ri.key, ri.hasKey = cip, true
		case "urih":
			ri.key, ri.hasKey = uri, true
		}
		if ri.hasKey {
			break
		}
	}
	return ri
}

// ---------------------------------------------------------------- running

type selResult struct {
	idx     int // -1 nil, -2 panic:idx, -3 panic:div, -4 panic:other, -5 panic:nil
	cookies []string
}

func (r selResult) String() string {
	switch r.idx {
	case -1:
		return "nil"
	case -2:
		return "panic:idx"
	case -3:
		return "panic:div"
	case -4:
		return "panic:other"
	case -5:
		return "panic:nil"
	}
	s := strconv.Itoa(r.idx)
	for _, c := range r.cookies {
		s += "+ck" + c
	}
	return s
}

// selectOnce calls the real Select, recovering panics, and maps the result to a pool index.
func selectOnce(sel reverseproxy.Selector, pool reverseproxy.UpstreamPool, specs []upSpec, req *http.Request) (res selResult) {
	w := httptest.NewRecorder()
	defer func() {
		if r := recover(); r != nil {
			msg := fmt.Sprint(r)
			switch {
			case strings.Contains(msg, "index out of range"):
				res = selResult{idx: -2}
			case strings.Contains(msg, "divide by zero"):
				res = selResult{idx: -3}
			case strings.Contains(msg, "nil pointer dereference"):
				res = selResult{idx: -5}
			default:
				res = selResult{idx: -4}
			}
		}
	}()
	up := sel.Select(pool, req, w)
	if up == nil {
		return selResult{idx: -1}
	}
	res.idx = -4
	for i, p := range pool {
		if p == up {
			res.idx = i
			break
		}
	}
	for _, line := range w.Header()["Set-Cookie"] {
		val := line
		if i := strings.Index(val, "="); i >= 0 {
			val = val[i+1:]
		}
		if i := strings.Index(val, ";"); i >= 0 {
			val = val[:i]
		}
		id := "?"
		for _, u := range specs {
			if tok, _ := reverseproxy.VerifHashCookie(cookieSecret, dial(u.id)); tok == val {
				id = strconv.Itoa(u.id)
				break
			}
		}
		res.cookies = append(res.cookies, id)
	}
	return res
}

// seedStream seeds the global math/rand source and returns its first k raw Int63 values
// (leaving the source seeded at position 0 again).
func seedStream(seed int64, k int) []uint64 {
	weakrand.Seed(seed) //nolint:staticcheck
	out := make([]uint64, k)
	for i := range out {
		out[i] = uint64(weakrand.Int63())
	}
	weakrand.Seed(seed) //nolint:staticcheck
	return out
}

func (prop) Run(line string) core.Outcome {
	if strings.HasPrefix(line, "prx ") || strings.HasPrefix(line, "key ") || strings.HasPrefix(line, "ck ") || strings.HasPrefix(line, "cf ") || strings.HasPrefix(line, "rp ") || strings.HasPrefix(line, "tim ") || strings.HasPrefix(line, "sc ") || strings.HasPrefix(line, "ah ") || strings.HasPrefix(line, "dy ") || strings.HasPrefix(line, "pd ") || strings.HasPrefix(line, "wr ") {
		var f []string
		for _, p := range strings.Split(line, " ") {
			if p != "" {
				f = append(f, p)
			}
		}
		switch f[0] {
		case "prx":
			return runProxy(f)
		case "key":
			return runKey(f)
		case "cf":
			return runCf(f)
		case "rp":
			return runRp(f)
		case "tim":
			return runTim(f)
		case "sc":
			return runSc(f)
		case "ah":
			return runAh(f)
		case "dy":
			return runDy(f)
		case "pd":
			return runPd(f)
		case "wr":
			return runWr(f)
		}
		return runCk(f)
	}
	c, ok := parseCase(line)
	if !ok {
		return core.Outcome{Impl: "bad-op", Tags: []string{"bad-op", "trivial"}}
	}
	b, err := buildPolicy(c.chain, c.v)
	if err != nil {
		return core.Outcome{Impl: "err:provision", Tags: []string{"err:provision"}}
	}
	defer b.close()
	ri := buildReq(c.chain, c.v, false)
	// the line's oracle tables must be what the real external functions return
	for _, u := range c.pool {
		want := uint64(0)
		if ri.hasKey {
			want = reverseproxy.VerifHash(dial(u.id) + ri.key)
		}
		if u.hash != want {
			return core.Outcome{Impl: "bad-table", Tags: []string{"bad-table"}}
		}
	}
	budget := c.n*(len(c.pool)+2) + 8
	if len(c.rnd.draws) > budget {
		budget = len(c.rnd.draws) + 8
	}
	stream := seedStream(c.rnd.seed, budget)
	for i, d := range c.rnd.draws {
		if stream[i] != d {
			return core.Outcome{Impl: "bad-table", Tags: []string{"bad-table"}}
		}
	}
	pool := buildPool(c.pool)
	var results []selResult
	for t := 0; t < c.n; t++ {
		results = append(results, selectOnce(b.sel, pool, c.pool, ri.req))
	}
	// how many draws did the code consume?
	next := uint64(weakrand.Int63())
	consumed := -1
	for i, d := range stream {
		if d == next {
			consumed = i
			break
		}
	}
	o := core.Outcome{}
	if consumed < 0 || consumed > len(c.rnd.draws) {
		o.Impl = "starved"
		o.Tags = append(o.Tags, "starved")
		return o
	}
	var rs []string
	for _, r := range results {
		rs = append(rs, r.String())
	}
	bits := "-"
	if len(pool) > 0 {
		var sb strings.Builder
		for _, up := range pool {
			if up.Available() {
				sb.WriteByte('1')
			} else {
				sb.WriteByte('0')
			}
		}
		bits = sb.String()
	}
	o.Impl = strings.Join(rs, ",") + " c=" + b.counter() + " a=" + bits
	o.Tags = tagsFor(c, results, consumed)
	o.Failures = oracle(c, b, pool, ri, results, bits)
	return o
}

func tagsFor(c caseT, results []selResult, consumed int) []string {
	leaf := c.chain[len(c.chain)-1]
	eff := effective(c)
	tags := []string{"leaf:" + leaf.kind, "eff:" + eff.kind, fmt.Sprintf("depth:%d", len(c.chain))}
	nav := 0
	for _, u := range c.pool {
		if u.avail() {
			nav++
		}
	}
	switch {
	case len(c.pool) == 0:
		tags = append(tags, "pool:empty", "trivial")
	case nav == 0:
		tags = append(tags, "avail:none")
	case nav == len(c.pool):
		tags = append(tags, "avail:all")
	default:
		tags = append(tags, "avail:some")
	}
	if len(c.pool) == 1 {
		tags = append(tags, "trivial")
	}
	seen := map[string]bool{}
	for _, r := range results {
		k := "res:sel"
		switch {
		case r.idx == -1:
			k = "res:nil"
		case r.idx < -1:
			k = "res:" + r.String()
		case len(r.cookies) > 0:
			k = "res:sel+setcookie"
		}
		if !seen[k] {
			seen[k] = true
			tags = append(tags, k)
		}
	}
	if consumed > 0 {
		tags = append(tags, "draws-used")
	}
	ids := map[int]bool{}
	minLoad, ties := -1, 0
	for _, u := range c.pool {
		if ids[u.id] {
			tags = append(tags, "dup-dial")
			break
		}
		ids[u.id] = true
	}
	for _, u := range c.pool {
		if !u.avail() {
			continue
		}
		switch {
		case minLoad < 0 || u.load < minLoad:
			minLoad, ties = u.load, 1
		case u.load == minLoad:
			ties++
		}
	}
	switch eff.kind {
	case "lc":
		if ties > 1 {
			tags = append(tags, "lc:tie-for-least")
		}
	case "rc":
		k := leaf.choose
		if k == 0 {
			k = 2
		}
		switch {
		case nav > k:
			tags = append(tags, "rc:choose<available")
		case nav > 0:
			tags = append(tags, "rc:choose>=available")
		}
		if minLoad == 0 {
			tags = append(tags, "rc:idle-upstream")
		}
	case "rnd":
		if nav > 1 {
			tags = append(tags, "rnd:several-available")
		}
	case "ck":
		tags = append(tags, "cookie:followed")
	}
	for _, n := range c.chain {
		if n.kind == "ck" && n.cookie >= 0 && eff.kind != "ck" {
			tags = append(tags, "cookie:invalid-or-stale")
			break
		}
	}
	if leaf.kind == "rr" || leaf.kind == "wrr" {
		if uint64(leaf.counter)+uint64(c.n*(len(c.pool)+1)) >= u32 {
			tags = append(tags, "counter-near-wrap")
		}
	}
	if leaf.kind == "wrr" {
		switch {
		case len(leaf.weights) < 2:
			tags = append(tags, "wrr:<2weights")
		case len(leaf.weights) < len(c.pool):
			tags = append(tags, "wrr:pool>weights")
		case len(leaf.weights) > len(c.pool):
			tags = append(tags, "wrr:pool<weights")
		default:
			tags = append(tags, "wrr:pool=weights")
		}
	}
	return tags
}

// effective returns the node of the chain that decides for this request.
func effective(c caseT) node {
	for _, n := range c.chain {
		switch n.kind {
		case "hdr", "hhost", "qry":
			if n.present {
				return node{kind: "hash"}
			}
		case "ck":
			if n.cookie >= 0 {
				for _, u := range c.pool {
					if u.avail() && u.id == n.cookie {
						return n
					}
				}
			}
		case "iph", "ciph", "urih":
			return node{kind: "hash"}
		default:
			return n
		}
	}
	return c.chain[len(c.chain)-1]
}
