package c16

import (
	"encoding/json"
	"fmt"
	"strings"

	"github.com/caddyserver/caddy/v2/modules/caddyhttp"

	"verif/harness/internal/core"
)

// op `ws`: caddyhttp.WeakString(text) through json.Marshal — the encoder of every status code the adapter emits
// (respond, error, redir, file_server status, replace_status, copy_response …).  json.Marshal checks what a
// Marshaler returns, so an encoder that writes something that is not JSON shows as `err` here (the model never
// answers `err`: weakMarshal_is_json); inside the adapter the same failure becomes a warning and a null handler.
func runWs(line, text string) core.Outcome {
	o := core.Outcome{}
	ws := caddyhttp.WeakString(text)
	b, err := json.Marshal(ws)
	if err != nil {
		o.Impl = "err"
		o.Tags = append(o.Tags, "ws:err")
		o.Failures = append(o.Failures, core.Failure{Case: line, Class: "weakstring-marshals-invalid-json",
			What: fmt.Sprintf("json.Marshal(caddyhttp.WeakString(%q)) fails: %v — a handler with this status code is dropped from the adapted config (\"handle\":[null])", text, err)})
		return o
	}
	o.Impl = "ok " + core.Hex(string(b))
	switch {
	case b[0] == '"':
		o.Tags = append(o.Tags, "ws:string")
	case text == "true" || text == "false":
		o.Tags = append(o.Tags, "ws:bool")
	default:
		o.Tags = append(o.Tags, "ws:number")
		if string(b) != text {
			o.Tags = append(o.Tags, "ws:number-respelled")
		}
	}
	// what was written reads back as the same value
	var back caddyhttp.WeakString
	if err := json.Unmarshal(b, &back); err != nil {
		o.Failures = append(o.Failures, core.Failure{Case: line, Class: "weakstring-marshals-invalid-json",
			What: fmt.Sprintf("WeakString(%q) marshals to %s, which WeakString cannot read back: %v", text, b, err)})
	} else if back.Int() != ws.Int() || back.Bool() != ws.Bool() {
		o.Failures = append(o.Failures, core.Failure{Case: line, Class: "weakstring-value-changed-by-marshal",
			What: fmt.Sprintf("WeakString(%q) (Int %d) marshals to %s, which reads back as %q (Int %d)", text, ws.Int(), b, string(back), back.Int())})
	}
	return o
}

func genWsCase(r *core.Rand) string {
	var s string
	switch r.Intn(12) {
	case 0, 1, 2, 3:
		s = numSpellings(r, "status", numBase["status"][r.Intn(len(numBase["status"]))])
		if strings.HasPrefix(s, "{$") || strings.HasPrefix(s, "\"") || strings.HasPrefix(s, "`") {
			s = strings.Trim(s, "\"`") // the token text after the lexer
		}
	case 4:
		s = r.Pick([]string{"true", "false", "True", "null", "", "0", "-0", "+0", "00", "-", "+", "9223372036854775807", "9223372036854775808",
			"-9223372036854775808", "-9223372036854775809", "+9223372036854775807", "+9223372036854775808", "09223372036854775807",
			"{http.error.status_code}", "{err.status_code}", "4xx", "2xx"})
	case 5, 6:
		// sign + digits of any length
		s = r.Pick([]string{"", "+", "-", "", ""})
		for k := 1 + r.Intn(24); k > 0; k-- {
			s += string(rune('0' + r.Intn(10)))
		}
		if r.Chance(1, 6) {
			s += r.Pick([]string{" ", "x", "_0", ".0", "e3", "\n"})
		}
	case 7, 8:
		// ASCII incl. everything appendString escapes
		al := "ab01 \"\\/<>&'\b\f\n\r\t\x00\x01\x1f\x7f{}$%"
		for k := r.Intn(10); k > 0; k-- {
			s += string(al[r.Intn(len(al))])
		}
	default:
		// bytes: well-formed and ill-formed UTF-8, U+2028 / U+2029, surrogates, overlong forms
		parts := []string{"a", "1", "\u00e9", "\u20ac", "\u2028", "\u2029", "\U0001f600", "\xe2\x80", "\xe2", "\xc0\xaf", "\xed\xa0\x80", "\xf4\x90\x80\x80",
			"\xf0\x9f", "\x80", "\xff", "\xc2", "\xe0\x9f\xbf", "\xe0\xa0\x80", "\xf0\x8f\xbf\xbf", "\xf0\x90\x80\x80", "\xef\xbf\xbd", "\xe2\x80\xa7", "\xe2\x80\xaa", "\xe2\x81\xa8", "\""}
		for k := 1 + r.Intn(5); k > 0; k-- {
			s += parts[r.Intn(len(parts))]
		}
	}
	return "ws " + core.Hex(s)
}
