package c16

import (
	"os"
	"path/filepath"
	"sort"
	"strings"

	"verif/harness/internal/core"
)

// The shipped adapt corpus: caddytest/integration/caddyfile_adapt/*.caddyfiletest of the
// tree under test (input, a line of dashes, expected JSON). Only the input half is used.

func repoDir() string {
	if d := os.Getenv("VERIF_REPO"); d != "" {
		return d
	}
	return "/repo"
}

type corpusFile struct {
	name string
	text string
}

// sanitise keeps provisioning for the validity clause inside the private directory: log
// files and the file_system storage root of the shipped inputs become relative paths.
var sanitiser = strings.NewReplacer(
	"output file /", "output file ",
	"root /data", "root data",
)

func loadCorpus() []corpusFile {
	dir := filepath.Join(repoDir(), "caddytest", "integration", "caddyfile_adapt")
	names, _ := filepath.Glob(filepath.Join(dir, "*.caddyfiletest"))
	sort.Strings(names)
	var out []corpusFile
	for _, n := range names {
		b, err := os.ReadFile(n)
		if err != nil {
			continue
		}
		s := strings.ReplaceAll(string(b), "\r\n", "\n")
		if i := strings.Index(s, "----------"); i >= 0 {
			s = s[:i]
		}
		out = append(out, corpusFile{filepath.Base(n), sanitiser.Replace(s)})
	}
	return out
}

// ---------------------------------------------------------------------------------
// token-level mutation

var dict = []string{
	"{", "}", "{", "}", "*", "/", "/a", "/a*", "/api/*", "@m", "@m", "\"", "`", "\\", "#", "<<EOF", "EOF",
	"import", "import x", "import *", "import Caddyfile", "import s a b", "import ../inc/ok", "import ../inc/a", "import ../inc/self", "import ../inc/snip", "import incsnip", "import ../inc/*", "(s)", "{args[0]}", "{args[:]}", "{args[1:]}", "{block}", "{blocks.a}",
	"{args[5]}", "{args[-1]}", "{args[1:0]}", "{args[x]}", "{args[99999999999999999999]}", "{args.0}", "{args.9}", "{args[0:]}", "{args[:1]}", "{blocks.x}", "import s {args[:]}",
	"http://:80", "https://", ":", "::", "[::]:80", "a.test:99999", "a.test:-1", "*.", "*.*.a.test", "http://a.test:443", "a.test:http", "unix//x", "a.test:80-81", "{$C16_ENV}:80", "http://a.test, https://a.test",
	"{$C16_ENV}", "{$C16_UNSET}", "{$C16_UNSET:dflt}", "{env.X}", "{http.request.uri}", "{path}", "{",
	"respond", "handle", "handle_path", "handle_errors", "route", "redir", "rewrite", "uri", "root", "file_server", "reverse_proxy",
	"php_fastcgi", "header", "request_header", "encode", "templates", "log", "tls", "bind", "vars", "map", "method", "try_files",
	"basic_auth", "forward_auth", "error", "abort", "invoke", "&(r)", "tracing", "metrics", "push", "intercept", "request_body",
	"log_append", "log_skip", "log_name", "fs", "acme_server", "copy_response", "copy_response_headers", "skip_log", "basicauth",
	"path", "host", "method GET", "not", "expression", "header_regexp", "path_regexp", "remote_ip", "client_ip", "query", "protocol", "file",
	"order", "first", "last", "before", "after", "servers", "admin", "off", "on", "debug", "auto_https", "local_certs", "email", "storage",
	"internal", "gzip", "zstd", "localhost", ":80", ":443", "http://", "https://a.test", "*.a.test", "a.test, b.test", "example.com", "127.0.0.1:9000", "unix//x.sock",
	"200", "404", "4xx", "5s", "1h", "10MB", "-1", "0", "99999999999999999999", "true", "x", "a b", "\"a b\"", "\"\"", "``",
	"\n", "\n", "{\n", "\n}", " {\n}\n", "\t", "\r\n", "\xff", "\xef\xbb\xbf", " ", "é",
}

const byteAlpha = "{}\"`\\#<@*/ \t$[]:"

func splitWords(line string) []string { return strings.Fields(line) }

// mutate applies k token/line-level edits to text; `other` supplies material for splices.
func mutate(rng *core.Rand, text string, other string, k int) string {
	lines := strings.Split(text, "\n")
	for ; k > 0; k-- {
		if len(lines) == 0 {
			lines = []string{""}
		}
		li := rng.Intn(len(lines))
		words := splitWords(lines[li])
		indent := lines[li][:len(lines[li])-len(strings.TrimLeft(lines[li], " \t"))]
		setWords := func(w []string) { lines[li] = indent + strings.Join(w, " ") }
		switch rng.Intn(14) {
		case 0: // delete a word
			if len(words) > 0 {
				j := rng.Intn(len(words))
				setWords(append(append([]string{}, words[:j]...), words[j+1:]...))
			}
		case 1: // duplicate a word
			if len(words) > 0 {
				j := rng.Intn(len(words))
				w := append([]string{}, words[:j+1]...)
				w = append(w, words[j:]...)
				setWords(w)
			}
		case 2: // swap two words
			if len(words) > 1 {
				a, b := rng.Intn(len(words)), rng.Intn(len(words))
				words[a], words[b] = words[b], words[a]
				setWords(words)
			}
		case 3, 4: // replace a word by a dictionary token
			if len(words) > 0 {
				words[rng.Intn(len(words))] = rng.Pick(dict)
				setWords(words)
			}
		case 5: // insert a dictionary token
			j := rng.Intn(len(words) + 1)
			w := append([]string{}, words[:j]...)
			w = append(w, rng.Pick(dict))
			w = append(w, words[j:]...)
			setWords(w)
		case 6: // delete a line
			lines = append(lines[:li], lines[li+1:]...)
		case 7: // duplicate a line
			l2 := append([]string{}, lines[:li+1]...)
			lines = append(l2, lines[li:]...)
		case 8: // swap two lines
			b := rng.Intn(len(lines))
			lines[li], lines[b] = lines[b], lines[li]
		case 9: // splice a line of another corpus file
			ol := strings.Split(other, "\n")
			l2 := append([]string{}, lines[:li]...)
			l2 = append(l2, ol[rng.Intn(len(ol))])
			lines = append(l2, lines[li:]...)
		case 10: // take a word from another corpus file
			ow := strings.Fields(other)
			if len(words) > 0 && len(ow) > 0 {
				words[rng.Intn(len(words))] = ow[rng.Intn(len(ow))]
				setWords(words)
			}
		case 11: // splice a run of lines (often a whole block) of another file
			ol := strings.Split(other, "\n")
			a := rng.Intn(len(ol))
			b := a + 1 + rng.Intn(6)
			if b > len(ol) {
				b = len(ol)
			}
			l2 := append([]string{}, lines[:li]...)
			l2 = append(l2, ol[a:b]...)
			lines = append(l2, lines[li:]...)
		case 12: // join with the next line
			if li+1 < len(lines) {
				lines[li] = lines[li] + " " + strings.TrimSpace(lines[li+1])
				lines = append(lines[:li+1], lines[li+2:]...)
			}
		case 13: // byte-level: cut or insert
			s := lines[li]
			if len(s) > 0 && rng.Chance(1, 2) {
				p := rng.Intn(len(s))
				lines[li] = s[:p] + s[p+1:]
			} else {
				p := rng.Intn(len(s) + 1)
				lines[li] = s[:p] + string(byteAlpha[rng.Intn(len(byteAlpha))]) + s[p:]
			}
		}
	}
	out := strings.Join(lines, "\n")
	if rng.Chance(1, 40) && len(out) > 0 { // truncate
		out = out[:rng.Intn(len(out))]
	}
	return out
}

func randomBytes(rng *core.Rand) string {
	n := rng.Intn(60)
	b := make([]byte, n)
	alpha := "{}\"`\\#<\n \t@*/$[]:()ae\r\x00\xff\xef\xbb\xbf"
	for i := range b {
		if rng.Chance(3, 4) {
			b[i] = alpha[rng.Intn(len(alpha))]
		} else {
			b[i] = byte(rng.Intn(256))
		}
	}
	return string(b)
}
