package c16

import (
	"encoding/json"
	"fmt"
	"regexp"
	"sort"
	"strings"

	"verif/harness/internal/core"
)

// `nmeq <textA> <textB>`: sites with site-level named matchers `@nm<k>` (path /nm<k>/* [+ method /
// header]) that are used at the top level, inside nested handle / route / handle_path blocks AND
// inside `handle_errors <codes> { … }`; B is A with directives of different kinds reordered (the
// handle_errors line keeps its slot, the others move across it). Oracles on the implementation:
// the reordering leaves the JSON unchanged (as in `eqv`), and a named matcher means the same thing
// at every use — every matcher set in the site's normal routes that carries the path of @nm<k>
// has exactly the matchers of the definition.

var nmDefRe = regexp.MustCompile(`(?m)^\t@nm(\d+) (path /nm\d+/\*|\{)$`)

// definedKeys reads the matcher names of every @nm<k> definition off the text.
func definedKeys(text string) map[string][]string {
	out := map[string][]string{}
	lines := strings.Split(text, "\n")
	for i, l := range lines {
		m := nmDefRe.FindStringSubmatch(l)
		if m == nil {
			continue
		}
		keys := []string{}
		if m[2] != "{" {
			keys = append(keys, "path")
		} else {
			for j := i + 1; j < len(lines) && strings.TrimSpace(lines[j]) != "}"; j++ {
				f := strings.Fields(lines[j])
				if len(f) > 0 {
					keys = append(keys, f[0])
				}
			}
		}
		sort.Strings(keys)
		out["/nm"+m[1]+"/*"] = keys
	}
	return out
}

// checkNamedMatcherUses walks the normal routes of every server.
func checkNamedMatcherUses(line, text string, js []byte, o *core.Outcome) {
	defs := definedKeys(text)
	if len(defs) == 0 {
		return
	}
	var cfg struct {
		Apps struct {
			HTTP struct {
				Servers map[string]struct {
					Routes json.RawMessage `json:"routes"`
				} `json:"servers"`
			} `json:"http"`
		} `json:"apps"`
	}
	if json.Unmarshal(js, &cfg) != nil {
		return
	}
	reported := false
	var walk func(v any)
	walk = func(v any) {
		switch x := v.(type) {
		case []any:
			for _, e := range x {
				walk(e)
			}
		case map[string]any:
			if ms, ok := x["match"].([]any); ok {
				for _, m := range ms {
					set, ok := m.(map[string]any)
					if !ok {
						continue
					}
					ps, ok := set["path"].([]any)
					if !ok || len(ps) != 1 {
						continue
					}
					p, _ := ps[0].(string)
					want, ok := defs[p]
					if !ok {
						continue
					}
					var got []string
					for k := range set {
						got = append(got, k)
					}
					sort.Strings(got)
					if strings.Join(got, ",") != strings.Join(want, ",") && !reported {
						reported = true
						o.Failures = append(o.Failures, core.Failure{Case: line, Class: "named-matcher-differs-between-uses",
							What: fmt.Sprintf("the named matcher with path %s is defined with matchers [%s] but a use in the site's normal routes has [%s]; input %q",
								p, strings.Join(want, ","), strings.Join(got, ","), clip(text, 600))})
					}
				}
			}
			for _, e := range x {
				walk(e)
			}
		}
	}
	for _, s := range cfg.Apps.HTTP.Servers {
		var v any
		if json.Unmarshal(s.Routes, &v) == nil {
			walk(v)
		}
	}
}

func runNmeq(line, ta, tb string) core.Outcome {
	o := core.Outcome{Impl: "oracle-only"}
	a := checkTotalDet(line, ta, &o)
	if a.panicked || a.timedOut {
		return o
	}
	if a.accepted() {
		checkNamedMatcherUses(line, ta, a.json, &o)
	}
	if !isReordering(ta, tb) {
		o.Tags = append(o.Tags, "nmeq:not-a-reordering", "trivial")
		return o
	}
	b := adaptText(tb)
	if a.accepted() {
		o.Tags = append(o.Tags, "nmeq:accepted")
	} else {
		o.Tags = append(o.Tags, "nmeq:rejected", errTag(a.err))
	}
	compareReordered(line, a, b, over20Routes(ta), fmt.Sprintf("A=%q B=%q", clip(ta, 600), clip(tb, 600)), &o)
	if a.accepted() {
		if b.accepted() && len(o.Failures) == 0 {
			checkNamedMatcherUses(line, tb, b.json, &o)
		}
		checkValid(line, ta, a.json, false, &o)
	}
	return o
}

// genNmeqCase builds the two texts.
func genNmeqCase(r *core.Rand) string {
	nm := 1 + r.Intn(2)
	var defs []string
	for k := 0; k < nm; k++ {
		switch r.Intn(3) {
		case 0:
			defs = append(defs, fmt.Sprintf("\t@nm%d path /nm%d/*", k, k))
		case 1:
			defs = append(defs, fmt.Sprintf("\t@nm%d {\n\t\tpath /nm%d/*\n\t\tmethod GET\n\t}", k, k))
		default:
			defs = append(defs, fmt.Sprintf("\t@nm%d {\n\t\tpath /nm%d/*\n\t\theader X-K v\n\t}", k, k))
		}
	}
	use := func() string { return fmt.Sprintf("@nm%d", r.Intn(nm)) }
	leaf := func(ind string) string {
		switch r.Intn(4) {
		case 0:
			return ind + "respond " + use() + " \"m\" 200"
		case 1:
			return ind + "header " + use() + " X-A b"
		case 2:
			return ind + "respond /plain \"p\""
		default:
			return ind + "vars " + use() + " k v"
		}
	}
	type chunk struct{ kind, text string }
	var movable []chunk
	for k := 2 + r.Intn(4); k > 0; k-- {
		switch r.Intn(6) {
		case 0, 1:
			m := ""
			if r.Chance(1, 2) {
				m = use() + " "
			} else if r.Chance(1, 2) {
				m = "/v1/* "
			}
			movable = append(movable, chunk{"handle", "\thandle " + m + "{\n" + leaf("\t\t") + "\n\t}"})
		case 2:
			movable = append(movable, chunk{"route", "\troute {\n" + leaf("\t\t") + "\n" + leaf("\t\t") + "\n\t}"})
		case 3:
			movable = append(movable, chunk{"handle", "\thandle_path /hp" + fmt.Sprint(k) + "* {\n" + leaf("\t\t") + "\n\t}"})
		case 4:
			movable = append(movable, chunk{"respond", "\trespond " + use() + " \"t\" 200"})
		default:
			movable = append(movable, chunk{"header", "\theader " + use() + " X-T y"})
		}
	}
	codes := r.Pick([]string{"404 ", "5xx ", "404 410 ", "4xx 500 ", "", "404 "})
	he := "\thandle_errors " + codes + "{\n" + leaf("\t\t")
	if r.Chance(1, 2) {
		he += "\n" + leaf("\t\t")
	}
	he += "\n\t}"
	render := func(order []int, hePos int) string {
		var ls []string
		ls = append(ls, defs...)
		for i, idx := range order {
			if i == hePos {
				ls = append(ls, he)
			}
			ls = append(ls, movable[idx].text)
		}
		if hePos >= len(order) {
			ls = append(ls, he)
		}
		return ":8080 {\n" + strings.Join(ls, "\n") + "\n}\n"
	}
	n := len(movable)
	id := make([]int, n)
	for i := range id {
		id[i] = i
	}
	hePos := r.Intn(n + 1)
	perm := crossKindShuffle(r, n, func(i int) string { return movable[i].kind })
	return "nmeq " + core.Hex(render(id, hePos)) + " " + core.Hex(render(perm, hePos))
}
