package c16

import (
	"encoding/json"
	"fmt"
	"regexp"
	"sort"
	"strconv"
	"strings"

	"verif/harness/internal/core"
)

// `bind <sites>`: site blocks `http://h<i>.test:8080 { bind … }` through the WHOLE adapter; the
// answer lists, per server srv0, srv1, …, its listen addresses, its listen_protocols and the
// sites it serves. Model: lean/CaddyModel/C16/BindGlue.lean (listenersForServerBlockAddress,
// mapAddressToProtocolToServerBlocks, consolidateAddrMappings, the listen_protocols tidy-up).

var bindAddrRe = regexp.MustCompile(`^[0-9.]+$`)
var hostIdxRe = regexp.MustCompile(`"host":\["h(\d+)\.test"\]`)

type bindSite struct{ binds [][2][]string }

func parseBindSites(s string) ([]bindSite, bool) {
	var out []bindSite
	for _, t := range strings.Split(s, ";") {
		var bs bindSite
		if t != "." {
			for _, b := range strings.Split(t, ",") {
				f := strings.Split(b, "/")
				if len(f) != 2 {
					return nil, false
				}
				addrs := strings.Split(f[0], "+")
				for _, a := range addrs {
					if !bindAddrRe.MatchString(a) {
						return nil, false
					}
				}
				var prots []string
				if f[1] != "-" {
					prots = strings.Split(f[1], "+")
					for _, p := range prots {
						if p != "h1" && p != "h2" && p != "h3" {
							return nil, false
						}
					}
				}
				bs.binds = append(bs.binds, [2][]string{addrs, prots})
			}
		}
		out = append(out, bs)
	}
	return out, len(out) <= 10
}

func runBind(line, sitesF string) core.Outcome { return runDbind(line, "", sitesF) }

// `dbind <dflt> <sites>`: the same with `default_bind` global options (a bind address `0` =
// no address argument).
func runDbind(line, dfltF, sitesF string) core.Outcome {
	sites, ok := parseBindSites(sitesF)
	if !ok {
		return core.Outcome{Impl: "bad-op", Tags: []string{"bad-op", "trivial"}}
	}
	var sb strings.Builder
	if dfltF != "" {
		ds, ok := parseBindSites(dfltF)
		if !ok || len(ds) != 1 || len(ds[0].binds) == 0 || len(ds[0].binds) > 4 {
			return core.Outcome{Impl: "bad-op", Tags: []string{"bad-op", "trivial"}}
		}
		sb.WriteString("{\n")
		for _, b := range ds[0].binds {
			sb.WriteString("\tdefault_bind")
			for _, a := range b[0] {
				if a != "0" {
					sb.WriteString(" " + a)
				}
			}
			if len(b[1]) > 0 {
				sb.WriteString(" {\n\t\tprotocols " + strings.Join(b[1], " ") + "\n\t}")
			}
			sb.WriteString("\n")
		}
		sb.WriteString("}\n")
	}
	mixed := false
	for i, s := range sites {
		fmt.Fprintf(&sb, "http://h%d.test:8080 {\n", i)
		with, without := false, false
		for _, b := range s.binds {
			sb.WriteString("\tbind " + strings.Join(b[0], " "))
			if len(b[1]) > 0 {
				sb.WriteString(" {\n\t\tprotocols " + strings.Join(b[1], " ") + "\n\t}")
				with = true
			} else {
				without = true
			}
			sb.WriteString("\n")
		}
		mixed = mixed || (with && without)
		fmt.Fprintf(&sb, "\trespond h%d\n}\n", i)
	}
	text := sb.String()
	o := core.Outcome{}
	r := checkTotalDet(line, text, &o)
	switch {
	case r.timedOut || r.panicked:
		o.Impl = r.verdict()
		return o
	case r.err != nil:
		o.Impl = "err"
		o.Tags = append(o.Tags, "bind:rejected")
		return o
	}
	var cfg struct {
		Apps struct {
			HTTP struct {
				Servers map[string]json.RawMessage `json:"servers"`
			} `json:"http"`
		} `json:"apps"`
	}
	if err := json.Unmarshal(r.json, &cfg); err != nil {
		o.Impl = "badjson"
		return o
	}
	type srvT struct {
		Listen          []string   `json:"listen"`
		ListenProtocols [][]string `json:"listen_protocols"`
	}
	n := len(cfg.Apps.HTTP.Servers)
	var parts []string
	ghost := false
	for i := 0; i < n; i++ {
		raw, ok := cfg.Apps.HTTP.Servers["srv"+strconv.Itoa(i)]
		if !ok {
			o.Impl = "servers-not-numbered"
			return o
		}
		var s srvT
		json.Unmarshal(raw, &s)
		lp := "none"
		if s.ListenProtocols != nil {
			var es []string
			for _, e := range s.ListenProtocols {
				if e == nil {
					es = append(es, "-")
				} else {
					es = append(es, strings.Join(e, "+"))
				}
			}
			lp = strings.Join(es, ",")
		}
		var blocks []string
		for _, m := range hostIdxRe.FindAllSubmatch(raw, -1) {
			blocks = append(blocks, string(m[1]))
		}
		if len(s.Listen) == 0 {
			ghost = true
		}
		parts = append(parts, "L="+strings.Join(s.Listen, ",")+" P="+lp+" B="+strings.Join(blocks, ","))
		// oracle (implementation alone): the two arrays are parallel
		if s.ListenProtocols != nil && len(s.ListenProtocols) != len(s.Listen) {
			o.Failures = append(o.Failures, core.Failure{Case: line, Class: "listen-protocols-not-parallel",
				What: fmt.Sprintf("srv%d: %d listen addresses but %d listen_protocols entries; input %q", i, len(s.Listen), len(s.ListenProtocols), clip(text, 500))})
		}
	}
	o.Impl = strings.Join(parts, "|")
	// oracle (implementation alone): every protocol named by a bind of an address is served on
	// that address by a server that serves the site
	served := map[string]bool{} // "site addr prot"
	for i := 0; i < n; i++ {
		raw := cfg.Apps.HTTP.Servers["srv"+strconv.Itoa(i)]
		var s srvT
		json.Unmarshal(raw, &s)
		for _, m := range hostIdxRe.FindAllSubmatch(raw, -1) {
			for j, a := range s.Listen {
				if s.ListenProtocols != nil && j < len(s.ListenProtocols) {
					for _, p := range s.ListenProtocols[j] {
						served[string(m[1])+" "+a+" "+p] = true
					}
				}
			}
		}
	}
	for i, st := range sites {
		for _, b := range st.binds {
			for _, a := range b[0] {
				for _, p := range b[1] {
					if !served[strconv.Itoa(i)+" "+a+":8080 "+p] {
						o.Failures = append(o.Failures, core.Failure{Case: line, Class: "bind-protocol-not-served",
							What: fmt.Sprintf("site h%d.test binds %s with protocol %s, but no server serving the site lists %s for %s:8080; input %q", i, a, p, p, a, clip(text, 500))})
					}
				}
			}
		}
	}
	checkValid(line, text, r.json, false, &o)
	// tags
	addrSeen := map[string]int{}
	for i := 0; i < n; i++ {
		var s srvT
		json.Unmarshal(cfg.Apps.HTTP.Servers["srv"+strconv.Itoa(i)], &s)
		sort.Strings(s.Listen)
		for _, a := range s.Listen {
			addrSeen[a]++
		}
	}
	shared := false
	for _, c := range addrSeen {
		if c > 1 {
			shared = true
		}
	}
	if dfltF != "" {
		o.Tags = append(o.Tags, "bind:default_bind")
	}
	switch {
	case len(sites) == 1 && len(sites[0].binds) == 0 && dfltF == "":
		o.Tags = append(o.Tags, "trivial")
	case shared:
		o.Tags = append(o.Tags, "bind:address-on-two-servers")
	case ghost:
		o.Tags = append(o.Tags, "bind:ghost-server")
	case mixed:
		o.Tags = append(o.Tags, "bind:mixed-protocols")
	default:
		o.Tags = append(o.Tags, "bind:plain")
	}
	return o
}

func genDbindCase(r *core.Rand) string {
	addrs := []string{"127.0.0.1", "127.0.0.2", "0"}
	prots := []string{"h1", "h1+h2", "h1+h3", "h2"}
	var ds []string
	for k := 1 + r.Intn(2); k > 0; k-- {
		p := "-"
		if r.Chance(1, 2) {
			p = r.Pick(prots)
		}
		ds = append(ds, r.Pick(addrs)+"/"+p)
	}
	return "dbind " + strings.Join(ds, ",") + " " + strings.TrimPrefix(genBindCase(r), "bind ")
}

func genBindCase(r *core.Rand) string {
	addrs := []string{"127.0.0.1", "127.0.0.2", "127.0.0.3"}
	prots := []string{"h1", "h1+h2", "h1+h2+h3", "h2", "h3", "h1+h3", "h2+h1"}
	n := 1 + r.Intn(3)
	if r.Chance(1, 6) {
		n += r.Intn(3)
	}
	var sites []string
	for i := 0; i < n; i++ {
		k := r.Intn(4)
		if k == 0 {
			sites = append(sites, ".")
			continue
		}
		var bs []string
		for ; k > 0; k-- {
			a := r.Pick(addrs)
			if r.Chance(1, 4) {
				a += "+" + r.Pick(addrs)
			}
			p := "-"
			if r.Chance(1, 2) {
				p = r.Pick(prots)
			}
			bs = append(bs, a+"/"+p)
		}
		sites = append(sites, strings.Join(bs, ","))
	}
	return "bind " + strings.Join(sites, ";")
}
