package c16

import (
	"encoding/json"
	"fmt"
	"sort"
	"strconv"
	"strings"

	"verif/harness/internal/core"
)

// `sopts <sites> <opts>`: sites listening on one address or (bind) two and `servers [<addr>] { name …
// timeouts { idle … } }` global options through the WHOLE adapter; the answer lists the servers
// by final name with their listen addresses and idle timeout (which option block was applied),
// or `rej`. Model: lean/CaddyModel/C16/ServerOpts.lean. Oracle on the implementation alone: an
// accepted file keeps every site's server.

func runSopts(line, sitesF, optsF string) core.Outcome {
	bad := core.Outcome{Impl: "bad-op", Tags: []string{"bad-op", "trivial"}}
	var ports [][]string
	for i, t := range strings.Split(sitesF, ",") {
		switch t {
		case "1":
			ports = append(ports, []string{fmt.Sprintf(":%d", 8080+2*i)})
		case "2":
			ports = append(ports, []string{fmt.Sprintf("127.0.0.1:%d", 8080+2*i), fmt.Sprintf("127.0.0.2:%d", 8080+2*i)})
		default:
			return bad
		}
	}
	if len(ports) > 6 {
		return bad
	}
	var sb strings.Builder
	nopts := 0
	if optsF != "." {
		sb.WriteString("{\n")
		for _, o := range strings.Split(optsF, ";") {
			f := strings.Split(o, "/")
			if len(f) != 3 {
				return bad
			}
			addr := ""
			if f[0] != "*" {
				ik := strings.Split(f[0], ".")
				if len(ik) != 2 {
					return bad
				}
				i, e1 := strconv.Atoi(ik[0])
				k, e2 := strconv.Atoi(ik[1])
				if e1 != nil || e2 != nil || strconv.Itoa(i) != ik[0] || strconv.Itoa(k) != ik[1] || i < 0 || i >= len(ports) || k < 0 || k >= len(ports[i]) {
					return bad
				}
				addr = ports[i][k]
			}
			if f[1] != "-" && (!renameNameRe.MatchString(f[1]) || f[0] == "*") {
				return bad
			}
			if f[2] != "-" {
				v, err := strconv.Atoi(f[2])
				if err != nil || strconv.Itoa(v) != f[2] || v < 1 || v > 99 {
					return bad
				}
			}
			sb.WriteString("\tservers " + addr + " {\n")
			if f[1] != "-" {
				sb.WriteString("\t\tname " + f[1] + "\n")
			}
			if f[2] != "-" {
				sb.WriteString("\t\ttimeouts {\n\t\t\tidle " + f[2] + "s\n\t\t}\n")
			}
			sb.WriteString("\t}\n")
			nopts++
		}
		sb.WriteString("}\n")
	}
	if nopts > 8 {
		return bad
	}
	for i, ps := range ports {
		fmt.Fprintf(&sb, ":%d {\n", 8080+2*i)
		if len(ps) == 2 {
			sb.WriteString("\tbind 127.0.0.1 127.0.0.2\n")
		}
		sb.WriteString("\trespond site" + strconv.Itoa(i) + "\n}\n")
	}
	text := sb.String()
	o := core.Outcome{}
	r := checkTotalDet(line, text, &o)
	switch {
	case r.timedOut || r.panicked:
		o.Impl = r.verdict()
		return o
	case r.err != nil:
		o.Impl = "rej"
		o.Tags = append(o.Tags, "sopts:rejected")
		return o
	}
	var cfg struct {
		Apps struct {
			HTTP struct {
				Servers map[string]struct {
					Listen      []string `json:"listen"`
					IdleTimeout int64    `json:"idle_timeout"`
				} `json:"servers"`
			} `json:"http"`
		} `json:"apps"`
	}
	json.Unmarshal(r.json, &cfg)
	var names []string
	for n := range cfg.Apps.HTTP.Servers {
		names = append(names, n)
	}
	sort.Strings(names)
	var parts []string
	renamed := false
	for _, n := range names {
		s := cfg.Apps.HTTP.Servers[n]
		idle := "-"
		if s.IdleTimeout != 0 {
			idle = strconv.FormatInt(s.IdleTimeout/1e9, 10)
		}
		if !strings.HasPrefix(n, "srv") {
			renamed = true
		}
		parts = append(parts, n+"="+strings.Join(s.Listen, "+")+":"+idle)
	}
	o.Impl = strings.Join(parts, "|")
	if len(cfg.Apps.HTTP.Servers) != len(ports) {
		o.Failures = append(o.Failures, core.Failure{Case: line, Class: "server-lost-by-rename",
			What: fmt.Sprintf("%d sites are accepted but the JSON has %d servers; input %q", len(ports), len(cfg.Apps.HTTP.Servers), clip(text, 500))})
	}
	switch {
	case nopts == 0:
		o.Tags = append(o.Tags, "trivial")
	case renamed:
		o.Tags = append(o.Tags, "sopts:renamed")
	default:
		o.Tags = append(o.Tags, "sopts:options-only")
	}
	return o
}

func genSoptsCase(r *core.Rand) string {
	n := 1 + r.Intn(4)
	var sites []string
	for i := 0; i < n; i++ {
		if r.Chance(1, 4) {
			sites = append(sites, "2")
		} else {
			sites = append(sites, "1")
		}
	}
	pool := []string{"srv0", "srv1", "srv2", "web", "api", "x"}
	var os []string
	for k := r.Intn(5); k > 0; k-- {
		a := "*"
		if r.Chance(4, 5) {
			i := r.Intn(n)
			k2 := 0
			if sites[i] == "2" && r.Chance(1, 2) {
				k2 = 1
			}
			a = fmt.Sprintf("%d.%d", i, k2)
		}
		nm := "-"
		if a != "*" && r.Chance(3, 5) {
			nm = r.Pick(pool)
		}
		d := "-"
		if r.Chance(1, 2) {
			d = strconv.Itoa(1 + r.Intn(20))
		}
		os = append(os, a+"/"+nm+"/"+d)
	}
	of := "."
	if len(os) > 0 {
		of = strings.Join(os, ";")
	}
	return "sopts " + strings.Join(sites, ",") + " " + of
}
