package c16

import (
	"bytes"
	"encoding/json"
	"fmt"
	"os"
	"regexp"
	"runtime/debug"
	"sort"
	"strings"
	"time"

	"github.com/caddyserver/caddy/v2"
	"github.com/caddyserver/caddy/v2/caddyconfig/caddyfile"
	"github.com/caddyserver/caddy/v2/caddyconfig/httpcaddyfile"

	"verif/harness/internal/core"
)

// adaptTimeout bounds one adaptation (the totality clause: "never a crash or hang").
var adaptTimeout = 10 * time.Second

type adaptRes struct {
	json     []byte
	dropped  string // the first warning that reports a json.Marshal failure inside caddyconfig.JSON / JSONModuleObject
	warn     string // the adapter's warnings, in the order returned (observed only: the property speaks of the JSON)
	err      error
	panicked bool
	panicMsg string
	timedOut bool
	dur      time.Duration
}

func (r adaptRes) accepted() bool { return !r.panicked && !r.timedOut && r.err == nil }

// verdict is the coarse outcome compared between repeated runs.
func (r adaptRes) verdict() string {
	switch {
	case r.timedOut:
		return "hang"
	case r.panicked:
		return "panic"
	case r.err != nil:
		return "err"
	}
	return "json"
}

// guarded runs f under recover and a timeout, starting from the directive order of a
// fresh process (the `order` global option mutates a package-level variable; see the
// `leak` cases for that).
func guarded(f func() ([]byte, error)) adaptRes {
	httpcaddyfile.VerifResetDirectiveOrder()
	ch := make(chan adaptRes, 1)
	t0 := time.Now()
	go func() {
		var r adaptRes
		defer func() {
			if p := recover(); p != nil {
				r.panicked = true
				r.panicMsg = fmt.Sprint(p) + " @ " + panicSite(string(debug.Stack()))
			}
			r.dur = time.Since(t0)
			ch <- r
		}()
		r.json, r.err = f()
	}()
	select {
	case r := <-ch:
		httpcaddyfile.VerifResetDirectiveOrder()
		return r
	case <-time.After(adaptTimeout):
		hangDetected() // does not return when the run is supervised
		return adaptRes{timedOut: true, dur: time.Since(t0)}
	}
}

var siteRe = regexp.MustCompile(`(caddy/v2/[^\s(]+)\([^\n]*\n\s+\S+/([^/\s]+\.go):(\d+)`)

// panicSite extracts the innermost caddy frame (function, file:line) from a stack trace.
func panicSite(stack string) string {
	if i := strings.Index(stack, "panic("); i >= 0 {
		stack = stack[i:]
	}
	if m := siteRe.FindStringSubmatch(stack); m != nil {
		return m[1] + " " + m[2] + ":" + m[3]
	}
	return "?"
}

// adaptText is the real adapter as `caddy adapt` / POST /load (text/caddyfile) use it.
func adaptText(text string) adaptRes {
	return adaptTextOpts(text, map[string]any{"filename": "Caddyfile"})
}

// adaptTextLoad is the adapter as POST /load calls it (caddyconfig/load.go adaptByContentType): no options at all.
func adaptTextLoad(text string) adaptRes { return adaptTextOpts(text, nil) }

func adaptTextOpts(text string, opts map[string]any) adaptRes {
	var warn, dropped string
	r := guarded(func() ([]byte, error) {
		ad := caddyfile.Adapter{ServerType: httpcaddyfile.ServerType{}}
		b, ws, err := ad.Adapt([]byte(text), opts)
		var sb strings.Builder
		for _, w := range ws {
			fmt.Fprintf(&sb, "%s:%d:%s:%s\n", w.File, w.Line, w.Directive, w.Message)
			// caddyconfig.JSON and JSONModuleObject turn a json.Marshal error into a bare warning and return nil:
			// the value is then missing from (or null in) the output
			if dropped == "" && w.File == "" && w.Directive == "" && strings.HasPrefix(w.Message, "json: ") {
				dropped = w.Message
			}
		}
		warn = sb.String()
		return b, err
	})
	if !r.timedOut {
		r.warn, r.dropped = warn, dropped
	}
	return r
}

// sideOutputTags compares what the adapter returns BESIDE the JSON between two adaptations of one text: the list of
// warnings and the text of the error.  The property speaks of the JSON only, so a difference is a tag, not a failure.
func sideOutputTags(a, b adaptRes, o *core.Outcome) {
	add := func(t string) {
		for _, x := range o.Tags {
			if x == t {
				return
			}
		}
		o.Tags = append(o.Tags, t)
	}
	if a.accepted() && b.accepted() && a.warn != b.warn {
		add("observed:warnings-vary-between-adaptations")
	}
	if a.err != nil && b.err != nil && a.err.Error() != b.err.Error() {
		add("observed:error-text-varies-between-adaptations")
		if p := os.Getenv("C16_OBS_LOG"); p != "" { // debugging aid: where to write the two messages
			if fh, err := os.OpenFile(p, os.O_APPEND|os.O_CREATE|os.O_WRONLY, 0o644); err == nil {
				fmt.Fprintf(fh, "A: %v\nB: %v\n\n", a.err, b.err)
				fh.Close()
			}
		}
	}
}

// adaptBlocks is Adapter.Adapt after its Parse step: Setup + json.Marshal.
func adaptBlocks(blocks []caddyfile.ServerBlock) adaptRes {
	return guarded(func() ([]byte, error) {
		cfg, _, err := httpcaddyfile.ServerType{}.Setup(blocks, map[string]any{"filename": "Caddyfile"})
		if err != nil {
			return nil, err
		}
		return json.Marshal(cfg)
	})
}

// ---------------------------------------------------------------------------------
// validity clause: Caddy's own strict decoding, provisioning and validation

type validRes struct {
	ok      bool
	skipped string // non-empty: not attempted, with the reason
	stage   string // "decode" | "provision"
	msg     string
}

var (
	absLogRe   = regexp.MustCompile(`"filename":"/`)
	storRootRe = regexp.MustCompile(`"storage":\{[^{}]*"root":"/`)
)

// quietLogger: provisioning installs the validated config's default logger process-wide and
// it stays installed afterwards; a later adaptation's warning would then be written through
// it — e.g. into a log file that a lumberjack writer re-creates inside the working directory,
// where the next `import *` finds it. Validating a config whose default log is discarded puts
// a harmless logger back.
var quietCfg = []byte(`{"admin":{"disabled":true,"config":{"persist":false}},"logging":{"logs":{"default":{"writer":{"output":"discard"}}}}}`)

func quietLogger() {
	defer func() { recover() }()
	var cfg *caddy.Config
	if err := caddy.StrictUnmarshalJSON(quietCfg, &cfg); err == nil {
		caddy.Validate(cfg)
	}
}

// validate runs what `caddy validate` runs on the adapter's output. It never starts
// listeners or the admin endpoint (caddy.Validate provisions with start=false).
func validate(js []byte) validRes {
	// side-effect guard: provisioning opens log files and may create storage below an
	// absolute path taken from the input; such outputs are not provisioned here.
	if absLogRe.Match(js) {
		return validRes{skipped: "abs-log-file"}
	}
	if storRootRe.Match(js) {
		return validRes{skipped: "abs-storage-root"}
	}
	if bytes.Contains(js, []byte(`"module":"acme_server"`)) || bytes.Contains(js, []byte(`"handler":"acme_server"`)) {
		// opens an on-disk database per CA that is only released at process exit
		return validRes{skipped: "acme-server"}
	}
	type out struct {
		v validRes
	}
	ch := make(chan validRes, 1)
	go func() {
		var v validRes
		defer func() {
			if p := recover(); p != nil {
				v = validRes{stage: "panic", msg: fmt.Sprint(p) + " @ " + panicSite(string(debug.Stack()))}
			}
			ch <- v
		}()
		var cfg *caddy.Config
		if err := caddy.StrictUnmarshalJSON(caddy.RemoveMetaFields(js), &cfg); err != nil {
			v = validRes{stage: "decode", msg: err.Error()}
			return
		}
		if err := caddy.Validate(cfg); err != nil {
			v = validRes{stage: "provision", msg: err.Error()}
			return
		}
		v = validRes{ok: true}
	}()
	select {
	case v := <-ch:
		quietLogger()
		cleanCwd()
		return v
	case <-time.After(60 * time.Second):
		return validRes{stage: "hang", msg: "caddy.Validate did not return within 60s"}
	}
}

// moduleArrays: JSON keys whose value is an array of module objects (or routes); an element can never be null.
var moduleArrays = map[string]bool{"handle": true, "routes": true, "issuers": true, "listener_wrappers": true,
	"handle_response": true, "get_certificate": true, "encoders": true, "policies": true}

// nullModule walks the adapted JSON and returns the path of the first null that stands where a module object is
// expected: an element of a module array or an inline module key.  (A null matcher VALUE is legitimate: `@m method`
// with no argument adapts to `"method":null`, the nil slice, and loads.)
func nullModule(js []byte) string {
	var v any
	if json.Unmarshal(js, &v) != nil {
		return ""
	}
	var walk func(path string, key string, x any) string
	walk = func(path, key string, x any) string {
		switch t := x.(type) {
		case map[string]any:
			ks := make([]string, 0, len(t))
			for k := range t {
				ks = append(ks, k)
			}
			sort.Strings(ks)
			for _, k := range ks {
				if t[k] == nil && (k == "handler" || k == "transport" || k == "selection_policy" || k == "encoder" || k == "writer") {
					return path + "." + k
				}
				if r := walk(path+"."+k, k, t[k]); r != "" {
					return r
				}
			}
		case []any:
			for i, e := range t {
				if e == nil && moduleArrays[key] {
					return fmt.Sprintf("%s[%d]", path, i)
				}
				if r := walk(fmt.Sprintf("%s[%d]", path, i), key, e); r != "" {
					return r
				}
			}
		}
		return ""
	}
	return walk("", "", v)
}

// checkDropped: an accepted adaptation must not have lost a module on the way to JSON.  caddyconfig.JSON /
// JSONModuleObject report a value that json.Marshal refuses (a marshaler that writes invalid JSON, an unsupported
// value) as a WARNING and return nil, so the adapter "succeeds" with `"handle":[null]` — which no server loads.
func checkDropped(line, text string, r adaptRes, o *core.Outcome) {
	if !r.accepted() {
		return
	}
	if r.dropped != "" {
		o.Tags = append(o.Tags, "adapt:dropped-module")
		// the class names WHAT json.Marshal refused, so that one known refusal does not excuse another
		o.Failures = append(o.Failures, core.Failure{Case: line, Class: droppedClass(r.dropped),
			What: fmt.Sprintf("the adapter accepted the text but could not marshal part of the config (it is missing from / null in the output): warning %q; input %q", clip(r.dropped, 300), clip(text, 400))})
		return
	}
	if p := nullModule(r.json); p != "" {
		o.Tags = append(o.Tags, "adapt:null-module")
		o.Failures = append(o.Failures, core.Failure{Case: line, Class: "adapter-dropped-unmarshalable-module",
			What: fmt.Sprintf("the adapted JSON has null where a module object is expected, at %s; input %q", p, clip(text, 400))})
	}
}

// droppedClass: `adapter-dropped-unmarshalable-module`, narrowed for the one refusal that is a known finding of the
// tree: a non-finite float (Dispenser.ScalarVal turns the unquoted tokens Inf, +Inf, -Inf, Infinity, NaN into float64).
func droppedClass(msg string) string {
	if strings.HasPrefix(msg, "json: unsupported value: ") {
		v := strings.TrimPrefix(msg, "json: unsupported value: ")
		if v == "+Inf" || v == "-Inf" || v == "NaN" {
			return "adapter-dropped-unmarshalable-module:non-finite-float"
		}
	}
	return "adapter-dropped-unmarshalable-module"
}
