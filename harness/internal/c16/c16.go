// Package c16: Caddyfile adapter — total, deterministic, order-insensitive across
// directive kinds, loadable output (DESIGN §4 C16).
//
// Two families of cases:
//
//   - model-carried (correspondence with lean/CaddyModel/C16): `order` (the directive order
//     table of the tree under test), `sort` (the real sortRoutes through the verif hook on
//     (directive, matcher) descriptions, optionally under a case-supplied order), `site` (a
//     generated site block through the WHOLE adapter; the order in which the directives'
//     markers appear in the JSON is compared with the model's sort);
//   - oracle-only (no theorem carries these clauses, level `partial`): `adapt` (totality
//     under recover+timeout, byte-determinism over repeated adaptations, caddy.Validate of
//     the output), `perm` / `eqv` (cross-kind reordering leaves the JSON unchanged), `leak`
//     (the result does not depend on what the process adapted before).
package c16

import (
	"bytes"
	"fmt"
	"os"
	"regexp"
	"strings"
	"time"

	"github.com/caddyserver/caddy/v2/caddyconfig/caddyfile"

	"verif/harness/internal/core"
)

type prop struct {
	corpus []corpusFile
	lib    *shapeLib
}

func New() core.Prop {
	reexecInPrivateDir()
	silenceStderr()
	return &prop{}
}

func (*prop) ID() string { return "C16" }

func (p *prop) Finish(s *core.Session) {
	cleanupEnv()
}

func (p *prop) Run(line string) core.Outcome {
	setupEnv()
	if os.Getenv("C16_SLOW") != "" {
		t0 := time.Now()
		defer func() {
			if d := time.Since(t0); d > 200*time.Millisecond {
				fmt.Fprintf(origErr, "SLOW %v %s\n", d, clip(line, 3000))
			}
		}()
	}
	f := strings.Split(line, " ")
	switch f[0] {
	case "adapt", "madapt", "perm", "eqv", "leak", "site", "hist", "argidx", "bind", "rename", "sopts", "lnp", "hp", "dbind", "nr", "kbind", "nmeq", "dadapt", "fauth", "imp":
		// cases that run the adapter can die of a fatal (unrecoverable) Go error
		switch noteCase(line) {
		case "crash":
			return core.Outcome{Impl: "crash", Tags: []string{"adapt:crash"}, Failures: []core.Failure{{Case: line, Class: "adapter-crash",
				What: "the process died of a fatal, unrecoverable error while this case was running: " + clip(lastCrash, 1200)}}}
		case "hang":
			return core.Outcome{Impl: "hang", Tags: []string{"adapt:hang"}, Failures: []core.Failure{{Case: line, Class: "adapter-hang",
				What: fmt.Sprintf("adapting did not terminate within %v (the run was restarted without this case); case %s", adaptTimeout, clip(line, 300))}}}
		case "skip":
			return core.Outcome{Impl: "skipped", Tags: []string{"skipped:too-many-crashes-or-hangs", "trivial"}}
		}
		defer caseDone()
		cleanCwd() // the adapter must see an empty working directory
	}
	switch f[0] {
	case "order":
		if len(f) == 1 {
			return runOrder()
		}
	case "sort":
		if len(f) == 3 {
			return runSort(line, f[1], f[2])
		}
	case "site":
		if len(f) == 3 {
			return runSite(line, f[1], f[2])
		}
	case "adapt", "madapt":
		// madapt: the text is a token-level MUTATION; values the mutation made meaningless and
		// that a module's own Provision rejects are tagged, not reported (structural
		// invalidity of the output still is)
		if len(f) == 2 {
			if t, err := core.UnHex(f[1]); err == nil && core.Hex(t) == f[1] {
				return runAdapt(line, t, f[0] == "madapt")
			}
		}
	case "addr":
		if len(f) == 2 {
			return runAddr(line, f[1])
		}
	case "norm":
		if len(f) == 2 {
			return runNorm(line, f[1])
		}
	case "hp":
		if len(f) == 2 {
			return runHp(line, f[1])
		}
	case "lnp":
		if len(f) == 3 {
			return runLnp(line, f[1], f[2])
		}
	case "sopts":
		if len(f) == 3 {
			return runSopts(line, f[1], f[2])
		}
	case "rename":
		if len(f) == 3 {
			return runRename(line, f[1], f[2])
		}
	case "kbind":
		if len(f) == 2 {
			return runKbind(line, f[1])
		}
	case "nr":
		if len(f) == 3 {
			return runNr(line, f[1], f[2])
		}
	case "dbind":
		if len(f) == 3 {
			return runDbind(line, f[1], f[2])
		}
	case "bind":
		if len(f) == 2 {
			return runBind(line, f[1])
		}
	case "ws":
		if len(f) == 2 {
			if t, err := core.UnHex(f[1]); err == nil && core.Hex(t) == f[1] {
				return runWs(line, t)
			}
		}
	case "env":
		if len(f) == 3 {
			return runEnv(line, f[1], f[2])
		}
	case "var":
		if len(f) == 3 {
			return runVar(line, f[1], f[2])
		}
	case "hist":
		if len(f) == 2 {
			return runHist(line, f[1])
		}
	case "argidx":
		if len(f) == 4 {
			return runArgIdx(line, f[1], f[2], f[3])
		}
	case "perm":
		if len(f) == 3 {
			if t, err := core.UnHex(f[1]); err == nil {
				return runPerm(line, t, f[2])
			}
		}
	case "fauth":
		if len(f) == 2 {
			return runFauth(line, f[1])
		}
	case "imp":
		if len(f) == 2 {
			return runImp(line, f[1])
		}
	case "dadapt":
		if len(f) == 2 {
			if t, err := core.UnHex(f[1]); err == nil && core.Hex(t) == f[1] {
				return runDadapt(line, t)
			}
		}
	case "nmeq":
		if len(f) == 3 {
			a, e1 := core.UnHex(f[1])
			b, e2 := core.UnHex(f[2])
			if e1 == nil && e2 == nil && core.Hex(a) == f[1] && core.Hex(b) == f[2] {
				return runNmeq(line, a, b)
			}
		}
	case "eqv":
		if len(f) == 3 {
			a, e1 := core.UnHex(f[1])
			b, e2 := core.UnHex(f[2])
			if e1 == nil && e2 == nil {
				return runEqv(line, a, b)
			}
		}
	case "leak":
		if len(f) == 3 {
			a, e1 := core.UnHex(f[1])
			b, e2 := core.UnHex(f[2])
			if e1 == nil && e2 == nil {
				return runLeak(line, a, b)
			}
		}
	}
	return core.Outcome{Impl: "bad-op", Tags: []string{"bad-op", "trivial"}}
}

// repeats: every ACCEPTED text is adapted 1+repeats times (fresh Adapter value, fresh parse each
// time) and the bytes compared: output that depends on Go map iteration order shows up as a
// difference between two of the eight results with high probability.
const repeats = 7

func clip(s string, n int) string {
	if len(s) > n {
		return s[:n] + "…"
	}
	return s
}

// checkTotalDet evaluates totality and determinism for one text; returns the first result.
func checkTotalDet(line, text string, o *core.Outcome) adaptRes {
	r := adaptText(text)
	switch {
	case r.timedOut:
		o.Tags = append(o.Tags, "adapt:hang")
		o.Failures = append(o.Failures, core.Failure{Case: line, Class: "adapter-hang",
			What: fmt.Sprintf("adapting did not terminate within %v; input %q", adaptTimeout, clip(text, 400))})
		return r
	case r.panicked:
		o.Tags = append(o.Tags, "adapt:panic")
		o.Failures = append(o.Failures, core.Failure{Case: line, Class: panicClass(r.panicMsg),
			What: fmt.Sprintf("adapter panicked: %s; input %q", clip(r.panicMsg, 300), clip(text, 400))})
		return r
	}
	n := repeats
	if r.err != nil {
		n = 1 // a rejected text: the verdict is compared once more; accepted texts get the full count
	}
	for i := 0; i < n; i++ {
		r2 := adaptText(text)
		if i == n-1 {
			// the last repeat goes through the other front door: POST /load passes no options where `caddy adapt`
			// passes the file name; both must give the same bytes
			r2 = adaptTextLoad(text)
		}
		if r2.verdict() != r.verdict() {
			o.Failures = append(o.Failures, core.Failure{Case: line, Class: "nondeterministic-verdict",
				What: fmt.Sprintf("same text adapted twice: %s then %s (%v / %v); input %q", r.verdict(), r2.verdict(), r.err, r2.err, clip(text, 400))})
			break
		}
		if r.accepted() && !bytes.Equal(r.json, r2.json) {
			o.Failures = append(o.Failures, core.Failure{Case: line, Class: "nondeterministic-output",
				What: fmt.Sprintf("same text adapted twice gives different JSON: %s", firstDiff(r.json, r2.json))})
			break
		}
		sideOutputTags(r, r2, o)
	}
	return r
}

var panicFileRe = regexp.MustCompile(` ([a-z_]+\.go):\d+$`)

// panicClass: `adapter-panic` plus, when the innermost caddy frame is known, its file and the
// normalised message (so that one known crash does not excuse a different one).
func panicClass(msg string) string {
	m := panicFileRe.FindStringSubmatch(msg)
	if m == nil {
		return "adapter-panic"
	}
	what := msg
	if i := strings.Index(what, " @ "); i >= 0 {
		what = what[:i]
	}
	return "adapter-panic:" + m[1] + ":" + signature(strings.ReplaceAll(what, "-", "neg"), 8)
}

func firstDiff(a, b []byte) string {
	i := 0
	for i < len(a) && i < len(b) && a[i] == b[i] {
		i++
	}
	lo := i - 60
	if lo < 0 {
		lo = 0
	}
	ha, hb := i+60, i+60
	if ha > len(a) {
		ha = len(a)
	}
	if hb > len(b) {
		hb = len(b)
	}
	return fmt.Sprintf("at byte %d: …%s… vs …%s…", i, a[lo:ha], b[lo:hb])
}

func runAdapt(line, text string, mutated bool) core.Outcome {
	o := core.Outcome{}
	// first stage: the lexer (modelled; lean/CaddyModel/C17/Lexer.lean)
	lexErr := false
	func() {
		defer func() {
			if p := recover(); p != nil {
				o.Impl = "lex:panic"
				o.Failures = append(o.Failures, core.Failure{Case: line, Class: "lexer-panic", What: fmt.Sprint(p)})
			}
		}()
		toks, err := caddyfile.Tokenize([]byte(text), "Caddyfile")
		if err != nil {
			o.Impl, lexErr = "lex:err", true
		} else {
			o.Impl = fmt.Sprintf("lex:ok:%d", len(toks))
		}
	}()
	r := checkTotalDet(line, text, &o)
	if r.timedOut || r.panicked {
		return o
	}
	if lexErr && r.err == nil {
		o.Failures = append(o.Failures, core.Failure{Case: line, Class: "lexer-error-but-adapter-accepts",
			What: fmt.Sprintf("Tokenize rejects the text but Adapt accepts it; input %q", clip(text, 400))})
	}
	checkDropped(line, text, r, &o)
	if r.err != nil {
		o.Tags = append(o.Tags, "adapt:rejected", errTag(r.err))
		if len(strings.TrimSpace(text)) == 0 {
			o.Tags = append(o.Tags, "trivial")
		}
		return o
	}
	o.Tags = append(o.Tags, "adapt:accepted")
	if r.dropped != "" {
		// already reported by checkDropped: the hole in the output ("handle":[null]) is what strict validity would
		// refuse next ('module name not specified'); one defect, one report
		o.Tags = append(o.Tags, "valid:skipped-dropped-module")
		return o
	}
	checkValid(line, text, r.json, mutated, &o)
	return o
}

func errTag(err error) string {
	s := err.Error()
	switch {
	case strings.Contains(s, "unrecognized directive"):
		return "rej:unrecognized-directive"
	case strings.Contains(s, "wrong argument count") || strings.Contains(s, "Wrong argument"):
		return "rej:argcount"
	case strings.Contains(s, "Unexpected") || strings.Contains(s, "unexpected"):
		return "rej:unexpected-token"
	case strings.Contains(s, "import"):
		return "rej:import"
	case strings.Contains(s, "heredoc") || strings.Contains(s, "quote"):
		return "rej:lexer"
	case strings.Contains(s, "not an ordered HTTP handler"):
		return "rej:unordered-directive"
	}
	return "rej:other"
}

func checkValid(line, text string, js []byte, lenient bool, o *core.Outcome) {
	v := validate(js)
	switch {
	case v.skipped != "":
		o.Tags = append(o.Tags, "valid:skipped-"+v.skipped)
	case v.ok:
		o.Tags = append(o.Tags, "valid:ok")
	default:
		cls, kind := classifyInvalid(v, text)
		if kind == "env" {
			o.Tags = append(o.Tags, "valid:env-"+cls)
			return
		}
		if kind == "semantic" && lenient {
			o.Tags = append(o.Tags, "valid:value-rejected-by-provision")
			return
		}
		o.Tags = append(o.Tags, "valid:FAIL-"+kind)
		o.Failures = append(o.Failures, core.Failure{Case: line, Class: "invalid-output:" + cls,
			What: fmt.Sprintf("accepted Caddyfile whose JSON fails %s: %s; input %q", v.stage, clip(v.msg, 700), clip(text, 400))})
	}
}
