package c16

import (
	"fmt"
	"strings"

	"github.com/caddyserver/caddy/v2/caddyconfig/httpcaddyfile"

	"verif/harness/internal/core"
)

var sortPaths = []string{"/", "/a", "/a*", "/a/*", "/ab", "/ab*", "/abc", "/a/b/c", "/*", "*", "", "/a**", "/b", "/b*", "/long/path/here/*", "*.php"}

func (p *prop) Generate(rng *core.Rand, tier string, emit func(string)) {
	setupEnv()
	if p.corpus == nil {
		p.corpus = loadCorpus()
	}
	nSort, nSite, nMut, nGram, nRaw, nLeak := 14000, 1600, 1800, 800, 800, 200
	nRec, nImp := 1400, 900
	switch tier {
	case "thorough":
		nSort, nSite, nMut, nGram, nRaw, nLeak = 300000, 14000, 45000, 18000, 15000, 2000
		nRec, nImp = 22000, 13000
	case "search":
		nSort, nSite, nMut, nGram, nRaw, nLeak = 30000, 2000, 5000, 2500, 800, 150
		nRec, nImp = 6000, 3000
	}
	emit("order")

	// fixed regression inputs
	for _, t := range regressionTexts {
		emit("adapt " + core.Hex(t))
	}

	// ---- the shipped corpus as is: adapt (totality, determinism, validity) + reorderings
	for _, cf := range p.corpus {
		emit("adapt " + core.Hex(cf.text))
		emit(fmt.Sprintf("perm %s %d", core.Hex(cf.text), rng.U64()%1000000))
	}

	// ---- sorter behind the hook vs model
	rs := rng.Fork()
	order := httpcaddyfile.VerifDefaultDirectiveOrder()
	for i := 0; i < nSort; i++ {
		emit(genSortCase(rs, order))
	}
	// ---- generated site blocks through the whole adapter vs model
	rsite := rng.Fork()
	for i := 0; i < nSite*3/5; i++ { // (the other glue streams are sized from nSite as well)
		emit(genSiteCase(rsite))
	}
	// ---- processes adapting several files in turn (order options) and import-argument indices vs model
	rh := rng.Fork()
	for i := 0; i < nSite/3; i++ {
		emit(genHistCase(rh))
	}
	for i := 0; i < nSite/4; i++ {
		emit(genArgIdxCase(rh))
	}
	// ---- parser glue vs model: {$ENV} substitution before lexing, variadic import-argument ranges
	rgl := rng.Fork()
	for i := 0; i < nSort/8; i++ {
		emit(genEnvCase(rgl))
	}
	for i := 0; i < nSort/16; i++ {
		emit(genVarCase(rgl))
	}
	// ---- bind values → servers (listen / listen_protocols) through the whole adapter vs model
	for i := 0; i < nSite/2; i++ {
		emit(genBindCase(rgl))
	}
	for i := 0; i < nSite/5; i++ {
		emit(genDbindCase(rgl))
	}
	for i := 0; i < nSite/4; i++ {
		emit(genKbindCase(rgl))
	}
	// ---- case-variant duplicates of names in every per-directive unmarshaler, 64 adaptations each
	for i := 0; i < nSite/5; i++ {
		emit(genCaseDupCase(rgl))
	}
	for i := 0; i < nSite/6; i++ {
		emit(genFauthCase(rgl))
	}
	// ---- import expansion under the cycle check (importGraph + the splice of doImport) through caddyfile.Parse vs model
	for _, c := range impFixed {
		emit(c)
	}
	for i := 0; i < nSite/2; i++ {
		emit(genImpCase(rgl))
	}
	// ---- the JSON encoder of the status codes (model-carried)
	for i := 0; i < nSite*3/2; i++ {
		emit(genWsCase(rgl))
	}
	// ---- numeric token spellings in every numeric slot (status codes, ports, sizes, durations, counts): strict validity
	for i := 0; i < nSite/2; i++ {
		emit(genNumTokCase(rgl))
	}
	// ---- site blocks whose policies / host lists / routes are merged by the adapter, 64 adaptations each
	for i := 0; i < nSite/8; i++ {
		emit(genMergeCase(rgl))
	}
	// ---- site-level named matchers used at top level, in nested blocks and inside handle_errors
	for i := 0; i < nSite/3; i++ {
		emit(genNmeqCase(rgl))
	}
	// ---- named routes and invoke: no directive lost, every invoked route emitted
	for i := 0; i < nSite/4; i++ {
		emit(genNrCase(rgl))
	}
	// ---- `servers { name }` renames: determinism over many adaptations, no server lost
	for i := 0; i < nSite/6; i++ {
		emit(genRenameCase(rgl))
	}
	// ---- site addresses: ParseAddress byte-level, listener port of a site key through the adapter
	for i := 0; i < nSort/8; i++ {
		emit(genAddrCase(rgl))
	}
	for i := 0; i < nSite/6; i++ {
		emit(genLnpCase(rgl))
	}
	for i := 0; i < nSort/16; i++ {
		emit(genNormCase(rgl))
	}
	for i := 0; i < nSite/4; i++ {
		emit(genHpCase(rgl))
	}
	// ---- `servers` option blocks → servers (which block applies, final names) vs model
	for i := 0; i < nSite/3; i++ {
		emit(genSoptsCase(rgl))
	}
	// ---- token-level mutations of the corpus
	rm := rng.Fork()
	for i := 0; i < nMut && len(p.corpus) > 0; i++ {
		a := p.corpus[rm.Intn(len(p.corpus))]
		b := p.corpus[rm.Intn(len(p.corpus))]
		k := 1 + rm.Intn(3)
		if rm.Chance(1, 10) {
			k += rm.Intn(8)
		}
		t := mutate(rm, a.text, b.text, k)
		emit("madapt " + core.Hex(t))
		if rm.Chance(1, 4) {
			emit(fmt.Sprintf("perm %s %d", core.Hex(t), rm.U64()%1000000))
		}
	}
	// ---- grammar-generated files: as written vs cross-kind reordered at every sorted level
	rg := rng.Fork()
	for i := 0; i < nGram; i++ {
		f := genFile(rg)
		a := f.render(nil)
		b := f.render(rg.Fork())
		if a == b {
			emit("adapt " + core.Hex(a))
		} else {
			emit("eqv " + core.Hex(a) + " " + core.Hex(b))
		}
	}
	// ---- corpus-derived grammar: shapes collected from the shipped files, recombined and repeated
	rc := rng.Fork()
	if p.lib == nil {
		p.lib = buildLib(p.corpus)
	}
	for i := 0; i < nRec && len(p.lib.keys) > 0; i++ {
		t := p.lib.genFile(rc)
		emit("adapt " + core.Hex(t))
		if rc.Chance(1, 5) {
			emit(fmt.Sprintf("perm %s %d", core.Hex(t), rc.U64()%1000000))
		}
	}
	// ---- snippets / imports with argument placeholders
	ri := rng.Fork()
	for i := 0; i < nImp; i++ {
		emit("adapt " + core.Hex(genImportFile(ri)))
	}
	// ---- arbitrary byte strings (totality)
	rr := rng.Fork()
	for i := 0; i < nRaw; i++ {
		emit("madapt " + core.Hex(randomBytes(rr)))
	}
	// ---- history independence
	rl := rng.Fork()
	for i := 0; i < nLeak && len(p.corpus) > 0; i++ {
		var pt string
		if rl.Chance(1, 2) {
			pt = p.corpus[rl.Intn(len(p.corpus))].text
		} else {
			pt = genFile(rl).render(nil)
		}
		var tt string
		if rl.Chance(1, 2) {
			tt = p.corpus[rl.Intn(len(p.corpus))].text
		} else {
			tt = genFile(rl).render(nil)
		}
		emit("leak " + core.Hex(pt) + " " + core.Hex(tt))
	}
}

// regressionTexts: inputs that once crashed the adapter (now fixed in the tree) — kept in the
// stream besides corpus/C16 so that they are exercised under every seed.
var regressionTexts = []string{
	":80 {\n\thandle_errors {\n\t\trespond \"x\"\n\t}\n\thandle_errors 4xx {\n\t}\n}\n",
	// import expansion and cycle detection (snippets and the files next to the working directory)
	"(a) {\n\timport a\n}\n:80 {\n\timport a\n}\n",
	"(a) {\n\timport b\n}\n(b) {\n\timport a\n}\n:80 {\n\timport a\n}\n",
	":80 {\n\timport ../inc/self\n}\n",
	":80 {\n\timport ../inc/a\n}\n",
	":80 {\n\timport ../inc/ok\n\timport ../inc/ok\n}\n",
	"import ../inc/snip\n:80 {\n\timport incsnip \"hi\"\n}\n",
	"import ../inc/site\n:80 {\n\timport ../inc/empty\n\timport ../inc/*\n}\n",
	"import ../inc/s*\n",
	"(a) {\n\t{block}\n}\n:80 {\n\timport a {\n\t\timport a {\n\t\t\trespond x\n\t\t}\n\t}\n}\n",
	":80 {\n\timport *\n\timport nosuchfile\n}\n",
}

// impFixed: the shapes the termination argument talks about — a self-import is expanded ONCE before the check sees the
// loop it made, a two-cycle through a snippet and a file, a diamond (no cycle: both paths expand), a chain that returns to
// its first node, an empty snippet (adds no node), a missing file.
var impFixed = []string{
	"imp b=m1,i1,m2;s=m3,i1",
	"imp b=i1;f=m1,i1,m2",
	"imp b=i1;s=m1,i2;f=m2,i1",
	"imp b=i1,i2;f=m1,i3;f=m2,i3;s=m3",
	"imp b=i1;f=i2;f=i3;s=i1",
	"imp b=i1,i1,m1;s=-",
	"imp b=m1,i4;s=m2",
	"imp b=i1,i1;f=i2,i2;s=i3,i3;f=m1",
	"imp b=i1;s=i2;s=i2,m1",
}

func genSortCase(r *core.Rand, order []string) string {
	n := r.Intn(9)
	if r.Chance(1, 5) {
		n = r.Intn(21)
	}
	if r.Chance(1, 200) {
		n = 21 + r.Intn(30)
	}
	// a pool of a few directives so that kinds repeat
	var pool []string
	for k := 1 + r.Intn(5); k > 0; k-- {
		switch r.Intn(12) {
		case 0:
			pool = append(pool, "handle", "handle_path")
		case 1:
			pool = append(pool, "vars")
		case 2:
			pool = append(pool, r.Pick([]string{"zzz", "unknown_dir", "tracing"}))
		default:
			pool = append(pool, order[r.Intn(len(order))])
		}
	}
	ordF := "="
	if r.Chance(1, 5) {
		// a case-supplied order: shuffled subset of the default table, sometimes with a duplicate
		var o []string
		for _, d := range order {
			if r.Chance(3, 4) {
				o = append(o, d)
			}
		}
		for i := len(o) - 1; i > 0; i-- {
			j := r.Intn(i + 1)
			o[i], o[j] = o[j], o[i]
		}
		if len(o) > 0 && r.Chance(1, 4) {
			o = append(o, o[r.Intn(len(o))])
		}
		o = append(o, pool[:r.Intn(len(pool)+1)]...)
		ordF = "."
		if len(o) > 0 {
			ordF = strings.Join(o, ",")
		}
	}
	items := make([]sortItem, n)
	for i := range items {
		it := sortItem{dir: r.Pick(pool), route: !r.Chance(1, 12)}
		switch r.Intn(6) {
		case 0:
			it.nsets = 0
		case 1:
			it.nsets = 2
			if r.Chance(1, 2) {
				it.paths = []string{r.Pick(sortPaths)}
			}
		default:
			it.nsets = 1
			switch r.Intn(5) {
			case 0:
			case 1:
				it.paths = []string{r.Pick(sortPaths), r.Pick(sortPaths)}
			default:
				it.paths = []string{r.Pick(sortPaths)}
			}
		}
		if it.nsets == 0 {
			it.paths = nil
		}
		items[i] = it
	}
	return "sort " + ordF + " " + itemsField(items)
}

var sitePaths = []string{"/", "/a", "/a*", "/a/*", "/ab", "/ab*", "/abc", "/a/b/c", "/*", "/b", "/b*", "/long/path/here/*", "/a**"}

func genSiteCase(r *core.Rand) string {
	n := 1 + r.Intn(7)
	if r.Chance(1, 6) {
		n = 1 + r.Intn(20)
	}
	if r.Chance(1, 100) {
		n = 21 + r.Intn(12)
	}
	var pool []string
	for k := 1 + r.Intn(4); k > 0; k-- {
		if r.Chance(1, 4) {
			pool = append(pool, "handle", "handle_path")
		} else {
			pool = append(pool, r.Pick(siteDirs))
		}
	}
	items := make([]sortItem, n)
	for i := range items {
		for {
			it := sortItem{dir: r.Pick(pool), route: true}
			switch r.Intn(8) {
			case 0, 1:
			case 2:
				it.nsets = 1
			case 3:
				it.nsets = 1
				it.paths = []string{r.Pick(sitePaths), r.Pick(sitePaths)}
			default:
				it.nsets = 1
				it.paths = []string{r.Pick(sitePaths)}
			}
			if it.dir == "php_fastcgi" && it.nsets == 0 {
				it.route = false
			}
			if shapeOK(it) {
				items[i] = it
				break
			}
		}
	}
	return fmt.Sprintf("site %d %s", r.U64()%100000, itemsField(items))
}
