package c16

import (
	"fmt"
	"strconv"
	"strings"

	"verif/harness/internal/core"
)

// Numeric token spellings.  Wherever a directive takes a number (status code, port, size, duration, count, weight)
// the Caddyfile parsers read it with strconv.Atoi / ParseInt / ParseFloat / humanize / ParseDuration — or not at all,
// keeping the token text for the JSON encoder (caddyhttp.WeakString) or for provisioning.  Each of these accepts
// spellings the next stage may not: `0200`, `+404`, `-007`, `1e3`, `0x1f`, `1_000`, a quoted number, twenty digits.
// The stream puts such spellings into every numeric slot; the cases are ordinary `adapt` cases (lexer correspondence,
// totality, 8-fold determinism, the two front doors, STRICT validity, no dropped module).

type numSlot struct {
	kind string // status | port | size | dur | count | float
	tmpl string // `#` is the slot
}

var numSlots = []numSlot{
	{"status", "respond \"hi\" #"},
	{"status", "respond #"},
	{"status", "respond /p* \"x\" #"},
	{"status", "respond {\n\t\tbody x\n\t}"}, // (no slot: keeps the shape in the pool)
	{"status", "error \"nope\" #"},
	{"status", "error #"},
	{"status", "error /e* \"gone\" #"},
	{"status", "file_server {\n\t\tstatus #\n\t}"},
	{"status", "redir /a /b #"},
	{"status", "redir https://example.com{uri} #"},
	{"status", "reverse_proxy localhost:9000 {\n\t\t@down status 5xx\n\t\treplace_status @down #\n\t}"},
	{"status", "reverse_proxy localhost:9000 {\n\t\t@down status #\n\t\treplace_status @down 502\n\t}"},
	{"status", "reverse_proxy localhost:9000 {\n\t\treplace_status #\n\t}"},
	{"status", "reverse_proxy localhost:9000 {\n\t\t@e status 4xx\n\t\thandle_response @e {\n\t\t\trespond \"x\" #\n\t\t}\n\t}"},
	{"status", "reverse_proxy localhost:9000 {\n\t\t@e status 4xx\n\t\thandle_response @e {\n\t\t\tcopy_response #\n\t\t}\n\t}"},
	{"status", "reverse_proxy localhost:9000 {\n\t\thealth_uri /h\n\t\thealth_status #\n\t}"},
	{"status", "reverse_proxy localhost:9000 {\n\t\tunhealthy_status #\n\t}"},
	{"status", "intercept {\n\t\t@e status 4xx\n\t\treplace_status @e #\n\t}"},
	{"status", "intercept {\n\t\t@e status #\n\t\thandle_response @e {\n\t\t\trespond \"y\" #\n\t\t}\n\t}"},
	{"status", "handle_errors # {\n\t\trespond \"e\"\n\t}"},
	{"status", "handle_errors {\n\t\trespond \"{err.status_code}\" #\n\t}"},
	{"status", "try_files {path} /index.html =#"},
	{"status", "abort\n\trespond /z #"},
	{"status", "forward_auth localhost:9001 {\n\t\turi /auth\n\t\tcopy_headers X-U\n\t}\n\trespond #"},
	{"status", "php_fastcgi localhost:9002\n\trespond /q #"},

	{"port", "reverse_proxy localhost:#"},
	{"port", "reverse_proxy 127.0.0.1:# 127.0.0.1:9001"},
	{"port", "php_fastcgi 127.0.0.1:#"},
	{"port", "reverse_proxy localhost:9000 {\n\t\thealth_uri /h\n\t\thealth_port #\n\t}"},
	{"port", "bind 127.0.0.1:#"},

	{"size", "request_body {\n\t\tmax_size #\n\t}"},
	{"size", "encode gzip {\n\t\tminimum_length #\n\t}"},
	{"size", "reverse_proxy localhost:9000 {\n\t\trequest_buffers #\n\t\tresponse_buffers #\n\t}"},
	{"size", "reverse_proxy localhost:9000 {\n\t\ttransport http {\n\t\t\tread_buffer #\n\t\t\tmax_response_header #\n\t\t}\n\t}"},
	{"size", "log {\n\t\toutput file ./l.log {\n\t\t\troll_size #\n\t\t}\n\t}"},

	{"dur", "reverse_proxy localhost:9000 {\n\t\tlb_try_duration #\n\t\tlb_try_interval #\n\t}"},
	{"dur", "reverse_proxy localhost:9000 {\n\t\thealth_uri /h\n\t\thealth_interval #\n\t\thealth_timeout #\n\t}"},
	{"dur", "reverse_proxy localhost:9000 {\n\t\tfail_duration #\n\t\tunhealthy_latency #\n\t}"},
	{"dur", "reverse_proxy localhost:9000 {\n\t\tflush_interval #\n\t\tstream_timeout #\n\t\tstream_close_delay #\n\t}"},
	{"dur", "reverse_proxy localhost:9000 {\n\t\ttransport http {\n\t\t\tdial_timeout #\n\t\t\tkeepalive #\n\t\t\tresponse_header_timeout #\n\t\t}\n\t}"},
	{"dur", "tls {\n\t\tissuer internal {\n\t\t\tlifetime #\n\t\t}\n\t}"},
	{"dur", "log {\n\t\toutput file ./l.log {\n\t\t\troll_keep_for #\n\t\t}\n\t}"},
	{"dur", "header Cache-Control max-age=#\n\trespond /d 200"},

	{"count", "encode {\n\t\tgzip #\n\t}"},
	{"count", "encode {\n\t\tzstd\n\t\tgzip #\n\t}"},
	{"count", "reverse_proxy localhost:9000 localhost:9001 {\n\t\tlb_policy random_choose #\n\t}"},
	{"count", "reverse_proxy localhost:9000 localhost:9001 {\n\t\tlb_policy weighted_round_robin # #\n\t}"},
	{"count", "reverse_proxy localhost:9000 {\n\t\tlb_retries #\n\t\tmax_fails #\n\t\tunhealthy_request_count #\n\t}"},
	{"count", "reverse_proxy localhost:9000 {\n\t\thealth_uri /h\n\t\thealth_passes #\n\t\thealth_fails #\n\t}"},
	{"count", "reverse_proxy localhost:9000 {\n\t\ttransport http {\n\t\t\tmax_conns_per_host #\n\t\t\tkeepalive_idle_conns #\n\t\t}\n\t}"},
	{"count", "log {\n\t\toutput file ./l.log {\n\t\t\troll_keep #\n\t\t}\n\t}"},
	{"count", "log {\n\t\tsampling {\n\t\t\tinterval 1s\n\t\t\tfirst #\n\t\t\tthereafter #\n\t\t}\n\t}"},
	{"count", "vars n #\n\trespond {vars.n}"},
	{"count", "map {path} {n} {\n\t\t/a #\n\t\tdefault #\n\t}"},
	{"count", "@m vars {http.request.port} #\n\trespond @m hi"},
	{"count", "@m header Content-Length #\n\trespond @m hi"},
	{"count", "basic_auth {\n\t\tbob $2a$14$Zkx19XLiW6VYouLHR5NmfOFU0z2GTNmpkT/5qqR7hx4IjWJPDhjvG\n\t}\n\trespond #"},

	{"float", "reverse_proxy localhost:9000 {\n\t\ttransport http {\n\t\t\tversions # 2\n\t\t}\n\t}"},
	{"float", "tracing {\n\t\tspan s#\n\t}"},
	{"float", "log {\n\t\tsampling {\n\t\t\tinterval #\n\t\t}\n\t}"},
}

// global-option slots (inside the options block)
var numGlobalSlots = []numSlot{
	{"port", "http_port #"},
	{"port", "https_port #"},
	{"port", "admin localhost:#"},
	{"dur", "grace_period #"},
	{"dur", "shutdown_delay #"},
	{"dur", "servers {\n\t\ttimeouts {\n\t\t\tread_body #\n\t\t\tread_header #\n\t\t\twrite #\n\t\t\tidle #\n\t\t}\n\t}"},
	{"size", "servers {\n\t\tmax_header_size #\n\t}"},
	{"dur", "renew_interval #"},
	{"dur", "ocsp_interval #"},
	{"count", "servers {\n\t\tkeepalive_interval #\n\t}"},
	{"dur", "on_demand_tls {\n\t\task http://localhost:9123/ask\n\t\tinterval #\n\t\tburst #\n\t}"},
	{"count", "log {\n\t\tsampling {\n\t\t\tfirst #\n\t\t}\n\t}"},
	{"dur", "cert_lifetime #"},
}

// the values are IN RANGE for every slot they are used in: what the stream varies is the SPELLING, so that an
// accepted text whose JSON does not load was accepted because of how a number parser read the token
var numBase = map[string][]int{
	"status": {200, 204, 301, 302, 308, 404, 410, 500, 502, 503},
	"port":   {80, 443, 8080, 9000, 65535, 1},
	"size":   {1, 16, 1024, 4096},
	"dur":    {1, 5, 30, 90},
	"count":  {2, 3, 5, 9},
	"float":  {1, 2},
}

// numSpellings: spellings of the value v that SOME Go number parser accepts (and a few that none does).
func numSpellings(r *core.Rand, kind string, v int) string {
	d := strconv.Itoa(v)
	unit := ""
	switch kind {
	case "dur":
		unit = r.Pick([]string{"s", "s", "m", "h", "ms", "d", "", "us", "ns"})
	case "size":
		unit = r.Pick([]string{"", "", "kb", "KB", "MB", "mib", "KiB", "b", "B", "gb"})
	}
	zeros := strings.Repeat("0", 1+r.Intn(3))
	c := r.Intn(30)
	if kind != "status" && (c == 10 || c == 11 || c == 20) {
		// a minus sign or twenty more digits change the VALUE (out of range for a port, a level, a count): the adapter
		// range-checks almost none of them (`http_port -01` adapts to the listener ":18446744073709551615",
		// `gzip 5000000000000000000`, `random_choose -02`) — the known value pass-through family, not the subject here.
		// Status codes keep these spellings: nothing range-checks them at load time, the JSON encoder must cope.
		c = 5
	}
	switch c {
	case 0, 1, 2, 3, 4:
		return d + unit // the plain spelling
	case 5, 6, 7:
		return zeros + d + unit // leading zeros: 0200, 007
	case 8, 9:
		return "+" + d + unit // explicit sign
	case 10:
		return "-" + d + unit
	case 11:
		return "-" + zeros + d + unit // -007
	case 12:
		return "+" + zeros + d + unit
	case 13:
		if v >= 10 && v%10 == 0 { // 1e3-style
			e := 0
			m := v
			for m%10 == 0 && m > 0 {
				m /= 10
				e++
			}
			return fmt.Sprintf("%de%d", m, e) + unit
		}
		return d + "e0" + unit
	case 14:
		return "0x" + strconv.FormatInt(int64(v), 16) + unit // hex
	case 15:
		return "0o" + strconv.FormatInt(int64(v), 8) + unit
	case 16:
		return "0b" + strconv.FormatInt(int64(v), 2) + unit
	case 17:
		if len(d) > 1 { // underscores
			return d[:1] + "_" + d[1:] + unit
		}
		return d + "_0" + unit
	case 18:
		return "\"" + d + unit + "\"" // surrounding quotes (the lexer strips them)
	case 19:
		return "\" " + d + unit + "\"" // a space inside the quotes
	case 20:
		return d + strings.Repeat("0", 18+r.Intn(6)) + unit // very long digit string (overflows int64)
	case 21:
		return strings.Repeat("0", 20+r.Intn(10)) + d + unit // very long, but small
	case 22:
		return d + ".0" + unit
	case 23:
		return d + "." + unit
	case 24:
		return "." + d + unit
	case 25:
		return d + "e-1" + unit
	case 26:
		return r.Pick([]string{"NaN", "Inf", "-Inf", "+Inf", "1e999", "0x", "+", "-", "--1", "+-1", "1e", "０２００", "٢٠٠", "2OO", "1 000", "true", "false", "null"})
	case 27:
		return "+0" + d + unit
	case 28:
		return "`" + d + unit + "`" // backtick quoting
	default:
		return "{$C16_UNSET_NUM:" + zeros + d + "}" + unit // through an environment default
	}
}

func fillNum(r *core.Rand, s numSlot) string {
	var sb strings.Builder
	base := numBase[s.kind]
	for _, part := range strings.SplitAfter(s.tmpl, "#") {
		if strings.HasSuffix(part, "#") {
			sb.WriteString(strings.TrimSuffix(part, "#"))
			sb.WriteString(numSpellings(r, s.kind, base[r.Intn(len(base))]))
		} else {
			sb.WriteString(part)
		}
	}
	return sb.String()
}

func genNumTokCase(r *core.Rand) string {
	var sb strings.Builder
	if r.Chance(1, 4) {
		sb.WriteString("{\n")
		for k := 1 + r.Intn(2); k > 0; k-- {
			sb.WriteString("\t" + fillNum(r, numGlobalSlots[r.Intn(len(numGlobalSlots))]) + "\n")
		}
		sb.WriteString("}\n")
	}
	key := r.Pick([]string{":8080", "example.com", "localhost", "http://a.test", ":#", "a.test:#", "http://:#"})
	if strings.Contains(key, "#") {
		key = strings.Replace(key, "#", numSpellings(r, "port", numBase["port"][r.Intn(len(numBase["port"]))]), 1)
	}
	sb.WriteString(key + " {\n")
	for k := 1 + r.Intn(2); k > 0; k-- {
		sb.WriteString("\t" + fillNum(r, numSlots[r.Intn(len(numSlots))]) + "\n")
	}
	sb.WriteString("}\n")
	return "adapt " + core.Hex(sb.String())
}
