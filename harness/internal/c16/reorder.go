package c16

import "strings"

// An `eqv` case claims that text B is text A with directives of different kinds reordered.
// The claim is checked before the oracle is applied (a replay or a shrunk candidate that
// merely pairs two different files must not count as an order-insensitivity failure).
//
// Both texts are read as line trees (a line ending in "{" opens a block, a line "}" closes
// it). B is a reordering of A iff the headers agree and, for every kind (first word of the
// line; handle_path counts as handle), the children of that kind are pairwise reorderings of
// each other IN THE SAME RELATIVE ORDER.

type lnode struct {
	head string
	kids []*lnode
}

func parseLines(text string) (*lnode, bool) {
	root := &lnode{}
	stack := []*lnode{root}
	for _, raw := range strings.Split(text, "\n") {
		l := strings.TrimSpace(raw)
		if l == "" {
			continue
		}
		if l == "}" {
			if len(stack) == 1 {
				return nil, false
			}
			stack = stack[:len(stack)-1]
			continue
		}
		n := &lnode{head: l}
		top := stack[len(stack)-1]
		top.kids = append(top.kids, n)
		if strings.HasSuffix(l, "{") {
			stack = append(stack, n)
		}
	}
	return root, len(stack) == 1
}

func lineKind(head string) string {
	f := strings.Fields(head)
	if len(f) == 0 {
		return ""
	}
	return kindName(f[0])
}

func reorderingOf(a, b *lnode) bool {
	if a.head != b.head || len(a.kids) != len(b.kids) {
		return false
	}
	ga, gb := map[string][]*lnode{}, map[string][]*lnode{}
	for _, k := range a.kids {
		ga[lineKind(k.head)] = append(ga[lineKind(k.head)], k)
	}
	for _, k := range b.kids {
		gb[lineKind(k.head)] = append(gb[lineKind(k.head)], k)
	}
	if len(ga) != len(gb) {
		return false
	}
	for kind, as := range ga {
		bs := gb[kind]
		if len(as) != len(bs) {
			return false
		}
		for i := range as {
			if !reorderingOf(as[i], bs[i]) {
				return false
			}
		}
	}
	return true
}

func isReordering(ta, tb string) bool {
	a, ok1 := parseLines(ta)
	b, ok2 := parseLines(tb)
	return ok1 && ok2 && reorderingOf(a, b)
}
