package c16

import (
	"bytes"
	"encoding/json"
	"fmt"
	"regexp"
	"sort"
	"strings"

	"verif/harness/internal/core"
)

// `dadapt <text>`: "case-variant duplicates" — the same NAME (header field, env variable, map key,
// logger name, host …) written twice in different casings / canonically equal spellings with
// different values, in the argument positions of the per-directive unmarshalers. Many of those
// collect their arguments in a Go map and emit a slice: if what they sort by does not tell the
// two spellings apart, the order of the output is the map's iteration order. The text is adapted
// 64 times and every result compared with the first (a flip that shows in 1 of 8 adaptations is
// missed with probability (7/8)^63 < 0.001). Validity: structural only (the doubled names are
// perturbations; a module may reject them at provisioning).

const dadaptRuns = 64

func runDadapt(line, text string) core.Outcome {
	o := core.Outcome{Impl: "oracle-only"}
	first := adaptText(text)
	switch {
	case first.timedOut:
		o.Failures = append(o.Failures, core.Failure{Case: line, Class: "adapter-hang", What: "adapting did not terminate; input " + fmt.Sprintf("%q", clip(text, 400))})
		return o
	case first.panicked:
		o.Failures = append(o.Failures, core.Failure{Case: line, Class: panicClass(first.panicMsg), What: "adapter panicked: " + clip(first.panicMsg, 300) + "; input " + fmt.Sprintf("%q", clip(text, 400))})
		return o
	}
	if first.err != nil {
		o.Tags = append(o.Tags, "dadapt:rejected", errTag(first.err))
	} else {
		o.Tags = append(o.Tags, "dadapt:accepted")
	}
	for k := 1; k < dadaptRuns; k++ {
		r := adaptText(text)
		if r.verdict() != first.verdict() {
			o.Failures = append(o.Failures, core.Failure{Case: line, Class: "nondeterministic-verdict",
				What: fmt.Sprintf("same text: %s then %s after %d adaptations (%v / %v); input %q", first.verdict(), r.verdict(), k+1, first.err, r.err, clip(text, 500))})
			return o
		}
		if first.accepted() && !bytes.Equal(first.json, r.json) {
			cls := "nondeterministic-output"
			if a, b := sortPolicySubjects(first.json), sortPolicySubjects(r.json); a != nil && bytes.Equal(a, b) {
				// the two results differ only in the order of tls.automation.policies[].subjects
				cls = "nondeterministic-output:internal-policy-subjects"
			}
			o.Failures = append(o.Failures, core.Failure{Case: line, Class: cls,
				What: fmt.Sprintf("same text adapted %d times gives different JSON: %s; input %q", k+1, firstDiff(first.json, r.json), clip(text, 500))})
			return o
		}
		sideOutputTags(first, r, &o)
	}
	checkDropped(line, text, first, &o)
	if first.accepted() {
		// strict: the merged shapes must load (decode + provision + validate), not only decode
		checkValid(line, text, first.json, false, &o)
	}
	return o
}

// sortPolicySubjects re-encodes the config with every tls.automation.policies[].subjects sorted.
func sortPolicySubjects(js []byte) []byte {
	var cfg map[string]any
	if json.Unmarshal(js, &cfg) != nil {
		return nil
	}
	apps, _ := cfg["apps"].(map[string]any)
	tls, _ := apps["tls"].(map[string]any)
	au, _ := tls["automation"].(map[string]any)
	ps, _ := au["policies"].([]any)
	for _, p := range ps {
		pm, _ := p.(map[string]any)
		subj, _ := pm["subjects"].([]any)
		sort.Slice(subj, func(i, j int) bool { return fmt.Sprint(subj[i]) < fmt.Sprint(subj[j]) })
	}
	out, err := json.Marshal(cfg)
	if err != nil {
		return nil
	}
	return out
}

// spellings of one name that are equal after canonicalisation / case folding
var nameSpellings = [][]string{
	{"Remote-User", "remote-user", "REMOTE-USER", "remote-User"},
	{"X-Foo", "x-foo", "X-FOO", "x-Foo"},
	{"Content-Type", "content-type", "CONTENT-TYPE"},
	{"Authorization", "authorization", "AUTHORIZATION"},
	{"Key", "key", "KEY"},
	{"A.Test", "a.test", "A.TEST"},
	{"App_Env", "app_env", "APP_ENV"},
}

// genCaseDupCase: one site with 1-3 directive blocks, each doubling a name.
func genCaseDupCase(r *core.Rand) string {
	pick := func() (string, string, string) {
		s := nameSpellings[r.Intn(len(nameSpellings))]
		a := r.Intn(len(s))
		b := r.Intn(len(s))
		if a == b {
			b = (b + 1) % len(s)
		}
		c := r.Intn(len(s))
		return s[a], s[b], s[c]
	}
	block := func() string {
		n1, n2, n3 := pick()
		switch r.Intn(22) {
		case 0:
			return fmt.Sprintf("\tforward_auth localhost:9001 {\n\t\turi /auth\n\t\tcopy_headers %s %s>X-Webauth-User %s>X-Third\n\t}", n1, n2, n3)
		case 1:
			return fmt.Sprintf("\tforward_auth localhost:9001 {\n\t\turi /auth\n\t\tcopy_headers {\n\t\t\t%s>X-One\n\t\t\t%s>X-Two\n\t\t\t%s\n\t\t}\n\t}", n1, n2, n3)
		case 2:
			return fmt.Sprintf("\theader {\n\t\t%s v1\n\t\t%s v2\n\t\t+%s v3\n\t\t-%s\n\t\t?%s d\n\t}", n1, n2, n3, n2, n1)
		case 3:
			return fmt.Sprintf("\theader %s v1\n\theader %s v2\n\theader +%s v3", n1, n2, n3)
		case 4:
			return fmt.Sprintf("\trequest_header %s v1\n\trequest_header %s v2\n\trequest_header -%s", n1, n2, n3)
		case 5:
			return fmt.Sprintf("\treverse_proxy localhost:9000 {\n\t\theader_up %s v1\n\t\theader_up %s v2\n\t\theader_up -%s\n\t\theader_down %s d1\n\t\theader_down +%s d2\n\t}", n1, n2, n3, n2, n1)
		case 6:
			return fmt.Sprintf("\tphp_fastcgi localhost:9000 {\n\t\tenv %s v1\n\t\tenv %s v2\n\t\tenv %s v3\n\t}", n1, n2, n3)
		case 7:
			return fmt.Sprintf("\tmap {host} {out} {\n\t\t%s 1\n\t\t%s 2\n\t\tdefault 0\n\t}", n1, n2)
		case 8:
			return fmt.Sprintf("\tvars %s v1\n\tvars %s v2", n1, n2)
		case 9:
			return fmt.Sprintf("\tvars {\n\t\t%s v1\n\t\t%s v2\n\t\t%s v3\n\t}", n1, n2, n3)
		case 10:
			return fmt.Sprintf("\tlog {\n\t\tformat filter {\n\t\t\tfields {\n\t\t\t\trequest>headers>%s delete\n\t\t\t\trequest>headers>%s replace x\n\t\t\t\trequest>headers>%s delete\n\t\t\t}\n\t\t}\n\t}", n1, n2, n3)
		case 11:
			return fmt.Sprintf("\tlog_append %s v1\n\tlog_append %s v2", n1, n2)
		case 12:
			return fmt.Sprintf("\t@m1 header %s a\n\t@m2 header %s b\n\trespond @m1 one\n\trespond @m2 two", n1, n2)
		case 13:
			return fmt.Sprintf("\t@m {\n\t\theader %s a\n\t\theader %s b\n\t\theader %s c\n\t}\n\trespond @m one", n1, n2, n3)
		case 14:
			return fmt.Sprintf("\t@q query %s=a %s=b %s=c\n\trespond @q one", n1, n2, n3)
		case 15:
			return fmt.Sprintf("\tencode gzip {\n\t\tmatch {\n\t\t\theader %s a*\n\t\t\theader %s b*\n\t\t}\n\t}", n1, n2)
		case 16:
			return fmt.Sprintf("\tpush /res.css {\n\t\theaders {\n\t\t\t%s v1\n\t\t\t%s v2\n\t\t}\n\t}", n1, n2)
		case 17:
			return fmt.Sprintf("\tbasic_auth {\n\t\t%s $2a$14$Zkx19XLiW6VYouLHR5NmfOFU0z2GTNmpkT/5qqR7hx4IjWJPDhjvG\n\t\t%s $2a$14$Zkx19XLiW6VYouLHR5NmfOFU0z2GTNmpkT/5qqR7hx4IjWJPDhjvG\n\t}", n1, n2)
		case 18:
			return fmt.Sprintf("\treverse_proxy localhost:9000 {\n\t\t@e header %s x\n\t\t@f header %s y\n\t\thandle_response @e {\n\t\t\trespond e\n\t\t}\n\t\thandle_response @f {\n\t\t\trespond f\n\t\t}\n\t}", n1, n2)
		case 19:
			return fmt.Sprintf("\tintercept {\n\t\t@e header %s x\n\t\t@f header %s y\n\t\thandle_response @e {\n\t\t\trespond e\n\t\t}\n\t\thandle_response @f {\n\t\t\trespond f\n\t\t}\n\t}", n1, n2)
		case 20:
			return fmt.Sprintf("\turi query {\n\t\t%s a\n\t\t%s b\n\t\t-%s\n\t}", n1, n2, n3)
		default:
			return fmt.Sprintf("\ttracing {\n\t\tspan %s\n\t}\n\trequest_header +%s a\n\trequest_header +%s b", n1, n1, n2)
		}
	}
	var sb strings.Builder
	if r.Chance(1, 5) {
		n1, n2, _ := pick()
		fmt.Fprintf(&sb, "{\n\tlog %s {\n\t\toutput discard\n\t\tinclude http.log.access.%s\n\t}\n\tlog %s {\n\t\toutput discard\n\t\tinclude http.log.access.%s\n\t}\n}\n", n1, strings.ToLower(n1)+"1", n2, strings.ToLower(n2)+"2")
	}
	key := ":8080"
	if r.Chance(1, 8) {
		// a hostless key next to several names (collected in maps by the TLS app builder)
		key = r.Pick([]string{":443, a.localhost, b.localhost, c.localhost", ":443, b.example.com, a.example.com, c.example.com", "https://, x.internal, y.internal, a.example.com", ":8443, a.localhost, A.Localhost, b.localhost"})
	} else if r.Chance(1, 5) {
		n1, n2, _ := pick()
		key = "http://" + n1 + ".example:8080, http://" + n2 + ".example:8080"
	}
	sb.WriteString(key + " {\n")
	for k := 1 + r.Intn(3); k > 0; k-- {
		sb.WriteString(block() + "\n")
	}
	sb.WriteString("}\n")
	return "dadapt " + core.Hex(sb.String())
}

// `fauth <args>`: forward_auth's copy_headers through the whole adapter; the answer lists the
// copy routes in order (`To<From`). Model: lean/CaddyModel/C16/MapSort.lean.

var fauthNameRe = regexp.MustCompile(`^[A-Za-z0-9._-]+$`)
var fauthRouteRe = regexp.MustCompile(`"request":\{"set":\{"([^"]+)":\["\{http\.reverse_proxy\.header\.([^}]+)\}"\]\}\}`)

func runFauth(line, argsF string) core.Outcome {
	bad := core.Outcome{Impl: "bad-op", Tags: []string{"bad-op", "trivial"}}
	args := strings.Split(argsF, ";")
	if len(args) > 8 {
		return bad
	}
	dup := false
	seen := map[string]bool{}
	for _, a := range args {
		p := strings.Split(a, ">")
		if len(p) > 2 {
			return bad
		}
		for _, n := range p {
			if !fauthNameRe.MatchString(n) {
				return bad
			}
		}
		c := strings.ToLower(p[0])
		if seen[c] {
			dup = true
		}
		seen[c] = true
	}
	text := ":8080 {\n\tforward_auth localhost:9001 {\n\t\turi /auth\n\t\tcopy_headers " + strings.Join(args, " ") + "\n\t}\n}\n"
	o := core.Outcome{}
	r := checkTotalDet(line, text, &o)
	switch {
	case r.timedOut || r.panicked:
		o.Impl = r.verdict()
	case r.err != nil:
		o.Impl = "rej"
	default:
		var parts []string
		for _, m := range fauthRouteRe.FindAllSubmatch(r.json, -1) {
			parts = append(parts, string(m[1])+"<"+string(m[2]))
		}
		o.Impl = strings.Join(parts, ",")
		if dup {
			o.Tags = append(o.Tags, "fauth:case-variant-duplicate")
		} else {
			o.Tags = append(o.Tags, "fauth:distinct")
		}
	}
	return o
}

func genFauthCase(r *core.Rand) string {
	var args []string
	for k := 1 + r.Intn(4); k > 0; k-- {
		s := nameSpellings[r.Intn(4)]
		a := r.Pick(s)
		if r.Chance(1, 2) {
			a += ">" + r.Pick([]string{"X-Webauth-User", "x-one", "X-TWO", "Remote-User", "a.b_c"})
		}
		args = append(args, a)
	}
	return "fauth " + strings.Join(args, ";")
}

// genMergeCase: several site blocks whose TLS automation policies, connection policies, log host lists and routes
// are MERGED by the adapter (consolidateAutomationPolicies, consolidateConnPolicies, consolidateRoutes, the
// hosts collected per server) — "duplicates that merge"; emitted as `dadapt` (64 adaptations).
func genMergeCase(r *core.Rand) string {
	hosts := []string{"a.test", "b.test", "c.test", "A.Test", "*.w.test", "x.w.test", "d.localhost", "e.localhost", "f.internal", "example.com", "sub.example.com"}
	tlsBodies := []string{
		"\ttls internal",
		"\ttls internal",
		"\ttls x@y.test",
		"\ttls {\n\t\tprotocols tls1.2 tls1.3\n\t}",
		"\ttls {\n\t\tprotocols tls1.3\n\t}",
		"\ttls {\n\t\tciphers TLS_ECDHE_RSA_WITH_AES_128_GCM_SHA256\n\t\tcurves x25519\n\t}",
		"\ttls {\n\t\tissuer internal {\n\t\t\tlifetime 1d\n\t\t}\n\t}",
		"\ttls {\n\t\ton_demand\n\t}",
		"\ttls {\n\t\tkey_type p384\n\t}",
		"\ttls {\n\t\tclient_auth {\n\t\t\tmode request\n\t\t}\n\t}",
		"",
		"",
	}
	extras := []string{"\tlog", "\tlog {\n\t\toutput discard\n\t}", "\tlog_skip /health*", "\trespond /a one\n\trespond /a two", "\theader /s X-A b\n\theader /s X-C d", "\tbind 127.0.0.1", "\trespond ok", ""}
	var sb strings.Builder
	if r.Chance(1, 2) {
		sb.WriteString("{\n")
		for _, g := range []string{"\ton_demand_tls {\n\t\task http://localhost:9123/ask\n\t}", "\temail a@b.test", "\tlocal_certs", "\tauto_https disable_redirects", "\tskip_install_trust", "\tcert_issuer internal", "\tkey_type rsa2048"} {
			if r.Chance(1, 4) {
				sb.WriteString(g + "\n")
			}
		}
		sb.WriteString("}\n")
	}
	used := map[string]bool{}
	for k := 2 + r.Intn(4); k > 0; k-- {
		var ks []string
		for j := 1 + r.Intn(3); j > 0; j-- {
			h := hosts[r.Intn(len(hosts))]
			if used[strings.ToLower(h)] {
				continue
			}
			used[strings.ToLower(h)] = true
			if r.Chance(1, 6) {
				h += ":8443"
			}
			ks = append(ks, h)
		}
		if len(ks) == 0 {
			continue
		}
		if r.Chance(1, 8) {
			ks = append([]string{":443"}, ks...)
		}
		sb.WriteString(strings.Join(ks, ", ") + " {\n")
		if t := tlsBodies[r.Intn(len(tlsBodies))]; t != "" {
			sb.WriteString(t + "\n")
		}
		if e := extras[r.Intn(len(extras))]; e != "" {
			sb.WriteString(e + "\n")
		}
		sb.WriteString("}\n")
	}
	return "dadapt " + core.Hex(sb.String())
}
