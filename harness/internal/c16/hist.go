package c16

import (
	"bytes"
	"fmt"
	"regexp"
	"strconv"
	"strings"

	"github.com/caddyserver/caddy/v2/caddyconfig/httpcaddyfile"

	"verif/harness/internal/core"
)

// `hist <file>/<file>/…`: ONE process adapts several generated files in turn and nothing is
// reset in between (the model: lean/CaddyModel/C16/History.lean). A file is
// <ops>~<variant>~<items>: `order` global options, then a site block rendered from the items
// as in `site`. The answer lists, per file, the marker order found in the JSON (`ok i,j,…`) or
// `rej`. Oracle on the implementation alone: every file's JSON equals the JSON of the same
// text adapted in a fresh-process state.

type orderOp struct {
	kind       string // f l b a
	dir, other string
}

type histFile struct {
	ops     []orderOp
	variant uint64
	items   []sortItem
}

func inDefaultOrder(d string) bool {
	for _, x := range httpcaddyfile.VerifDefaultDirectiveOrder() {
		if x == d {
			return true
		}
	}
	return false
}

func parseHist(s string) ([]histFile, bool) {
	var out []histFile
	for _, fs := range strings.Split(s, "/") {
		p := strings.Split(fs, "~")
		if len(p) != 3 {
			return nil, false
		}
		var hf histFile
		if p[0] != "." {
			for _, os := range strings.Split(p[0], ",") {
				f := strings.Split(os, ":")
				switch {
				case len(f) == 2 && (f[0] == "f" || f[0] == "l") && inDefaultOrder(f[1]):
					hf.ops = append(hf.ops, orderOp{f[0], f[1], ""})
				case len(f) == 3 && (f[0] == "b" || f[0] == "a") && inDefaultOrder(f[1]) && nameRe.MatchString(f[2]):
					hf.ops = append(hf.ops, orderOp{f[0], f[1], f[2]})
				default:
					return nil, false
				}
			}
		}
		v, err := strconv.ParseUint(p[1], 10, 64)
		if err != nil || strconv.FormatUint(v, 10) != p[1] {
			return nil, false
		}
		hf.variant = v
		items, ok := parseItems(p[2])
		if !ok {
			return nil, false
		}
		for _, it := range items {
			if !shapeOK(it) {
				return nil, false
			}
		}
		hf.items = items
		out = append(out, hf)
	}
	return out, len(out) > 0
}

func (hf histFile) render() string {
	var sb strings.Builder
	if len(hf.ops) > 0 {
		sb.WriteString("{\n")
		for _, o := range hf.ops {
			switch o.kind {
			case "f":
				sb.WriteString("\torder " + o.dir + " first\n")
			case "l":
				sb.WriteString("\torder " + o.dir + " last\n")
			case "b":
				sb.WriteString("\torder " + o.dir + " before " + o.other + "\n")
			case "a":
				sb.WriteString("\torder " + o.dir + " after " + o.other + "\n")
			}
		}
		sb.WriteString("}\n")
	}
	sb.WriteString(renderSite(hf.variant, hf.items))
	return sb.String()
}

func runHist(line, filesF string) core.Outcome {
	files, ok := parseHist(filesF)
	if !ok {
		return core.Outcome{Impl: "bad-op", Tags: []string{"bad-op", "trivial"}}
	}
	o := core.Outcome{}
	var texts []string
	var fresh []adaptRes
	anyOps := false
	for _, hf := range files {
		t := hf.render()
		texts = append(texts, t)
		fresh = append(fresh, adaptText(t)) // fresh-process state (reset before and after)
		if len(hf.ops) > 0 {
			anyOps = true
		}
	}
	httpcaddyfile.VerifResetDirectiveOrder()
	var answers []string
	for i, t := range texts {
		r := rawAdapt(t)
		switch {
		case r.panicked:
			answers = append(answers, "panic")
			o.Failures = append(o.Failures, core.Failure{Case: line, Class: panicClass(r.panicMsg), What: "adapter panicked: " + clip(r.panicMsg, 300) + "; input " + strconv.Quote(clip(t, 400))})
		case r.err != nil:
			answers = append(answers, "rej")
		default:
			ord, all := markerOrder(r.json, len(files[i].items))
			if !all {
				answers = append(answers, "lost "+idxField(ord))
			} else {
				answers = append(answers, "ok "+idxField(ord))
			}
		}
		if r.verdict() != fresh[i].verdict() || !bytes.Equal(r.json, fresh[i].json) {
			o.Tags = append(o.Tags, "hist:DEPENDENT")
			o.Failures = append(o.Failures, core.Failure{Case: line, Class: "history-dependent-output",
				What: fmt.Sprintf("file %d of the history adapts differently than in a fresh process (%s vs %s: %s); it is %q and the process adapted before it: %q",
					i+1, fresh[i].verdict(), r.verdict(), firstDiff(fresh[i].json, r.json), clip(t, 300), clip(strings.Join(texts[:i], "\n----\n"), 500))})
		}
	}
	httpcaddyfile.VerifResetDirectiveOrder()
	o.Impl = strings.Join(answers, "|")
	switch {
	case len(files) < 2:
		o.Tags = append(o.Tags, "trivial")
	case anyOps:
		o.Tags = append(o.Tags, "hist:with-order-options")
	default:
		o.Tags = append(o.Tags, "hist:no-options")
	}
	for _, a := range answers {
		if a == "rej" {
			o.Tags = append(o.Tags, "hist:rejected-file")
			break
		}
	}
	return o
}

// ---------------------------------------------------------------------------------
// `argidx <b|d> <idx> <n>`: `{args[idx]}` / `{args.idx}` inside a snippet that is imported with
// the n arguments a0 … a(n-1), through the whole adapter; model: lean/CaddyModel/C16/Args.lean.

var idxRe = regexp.MustCompile(`^[0-9+\-a-z_.:]*$`)
var bodyRe = regexp.MustCompile(`"body":"x([^"]*)y"`)

func runArgIdx(line, form, idxF, nF string) core.Outcome {
	idx, err := core.UnHex(idxF)
	n, err2 := strconv.Atoi(nF)
	if err != nil || core.Hex(idx) != idxF || err2 != nil || strconv.Itoa(n) != nF || n < 0 || n > 6 || !idxRe.MatchString(idx) || (form != "b" && form != "d") {
		return core.Outcome{Impl: "bad-op", Tags: []string{"bad-op", "trivial"}}
	}
	ph := "{args[" + idx + "]}"
	if form == "d" {
		ph = "{args." + idx + "}"
	}
	var args []string
	for i := 0; i < n; i++ {
		args = append(args, fmt.Sprintf("a%d", i))
	}
	text := "(s) {\n\trespond \"x" + ph + "y\"\n}\n:8080 {\n\timport s " + strings.Join(args, " ") + "\n}\n"
	o := core.Outcome{}
	r := checkTotalDet(line, text, &o)
	switch {
	case r.timedOut:
		o.Impl = "hang"
	case r.panicked:
		o.Impl = "panic"
	case r.err != nil:
		o.Impl = "err"
	default:
		m := bodyRe.FindSubmatch(r.json)
		switch {
		case m == nil:
			o.Impl = "nobody"
		case string(m[1]) == ph:
			o.Impl = "kept"
			o.Tags = append(o.Tags, "argidx:kept")
		default:
			o.Impl = "val " + core.Hex(string(m[1]))
			o.Tags = append(o.Tags, "argidx:substituted")
		}
	}
	if strings.HasPrefix(idx, "-") {
		o.Tags = append(o.Tags, "argidx:negative")
	}
	return o
}

// ---------------------------------------------------------------------------------

var histDirs = []string{"respond", "header", "vars", "redir", "root", "handle", "handle_path", "reverse_proxy", "rewrite", "file_server", "request_header", "route", "templates", "method"}

func genHistCase(r *core.Rand) string {
	pool := []string{}
	for k := 2 + r.Intn(3); k > 0; k-- {
		pool = append(pool, r.Pick(histDirs))
	}
	var files []string
	for k := 1 + r.Intn(4); k > 0; k-- {
		ops := "."
		if r.Chance(1, 2) {
			var os []string
			for j := 1 + r.Intn(2); j > 0; j-- {
				d := r.Pick(pool)
				switch r.Intn(6) {
				case 0, 1:
					os = append(os, "f:"+d)
				case 2:
					os = append(os, "l:"+d)
				case 3:
					os = append(os, "b:"+d+":"+r.Pick(pool))
				case 4:
					os = append(os, "a:"+d+":"+r.Pick(pool))
				default:
					os = append(os, r.Pick([]string{"b:", "a:"})+d+":"+r.Pick([]string{"nosuch", "tls", "respond", "tracing", "acme_server"}))
				}
			}
			ops = strings.Join(os, ",")
		}
		n := 2 + r.Intn(4)
		items := make([]sortItem, n)
		for i := range items {
			for {
				it := sortItem{dir: r.Pick(pool), route: true}
				if r.Chance(1, 2) {
					it.nsets = 1
					it.paths = []string{r.Pick(sitePaths)}
				}
				if shapeOK(it) {
					items[i] = it
					break
				}
			}
		}
		files = append(files, fmt.Sprintf("%s~%d~%s", ops, r.U64()%1000, itemsField(items)))
	}
	return "hist " + strings.Join(files, "/")
}

var argIdxPool = []string{"0", "1", "2", "3", "-1", "-0", "+1", "+0", "-2", "00", "01", "9", "10", "-9223372036854775808", "9223372036854775807",
	"9223372036854775808", "-9223372036854775809", "99999999999999999999", "-99999999999999999999", "x", "1x", "-", "+", "--1", "+-1", "1:2", ":", "0:", ":1", "-1:", "1.5", ".", "_1", "1_0", "", "0x1", "1e1", "-1x", "+2", "5", "-5", "4"}

func genArgIdxCase(r *core.Rand) string {
	form := "b"
	if r.Chance(1, 3) {
		form = "d"
	}
	return fmt.Sprintf("argidx %s %s %d", form, core.Hex(r.Pick(argIdxPool)), r.Intn(5))
}
