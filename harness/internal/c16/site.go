package c16

import (
	"fmt"
	"regexp"
	"strconv"
	"strings"

	"verif/harness/internal/core"
)

// `site <variant> <items>`: the items (same syntax as in `sort`) are rendered as the
// directives of ONE site block, each carrying a unique marker zq<i>qz; the text goes through
// the whole real adapter and the order in which the markers appear in the JSON is the
// answer (`ok i,j,…`). The model answers with its sort of the same items, so this ties
// parse → normalizeDirectiveName → buildSubroute → sortRoutes → JSON emission to the model,
// not only the sorter behind the hook. <variant> picks among equivalent spellings of the
// matcher (`*` / none, path token / named matcher) and is ignored by the model.

// siteDirs: the directives the renderer knows how to write with a marker.
var siteDirs = []string{
	"map", "vars", "fs", "root", "log_append", "log_name", "header", "redir", "method", "rewrite", "uri",
	"request_header", "templates", "handle", "handle_path", "route", "error", "respond",
	"reverse_proxy", "php_fastcgi", "file_server", "tracing", "push",
}

var sitePathRe = regexp.MustCompile(`^/[a-z0-9/*._-]*$`)

func siteDirOK(d string) bool {
	for _, x := range siteDirs {
		if x == d {
			return true
		}
	}
	return false
}

// shapeOK: which (route?, nsets, paths) shapes a Caddyfile line of that directive can realise.
func shapeOK(it sortItem) bool {
	if !siteDirOK(it.dir) {
		return false
	}
	for _, p := range it.paths {
		if !sitePathRe.MatchString(p) {
			return false
		}
	}
	if !it.route {
		return it.dir == "php_fastcgi" && it.nsets == 0 && it.paths == nil
	}
	if it.dir == "php_fastcgi" && it.nsets == 0 {
		return false
	}
	if it.dir == "handle_path" {
		return it.nsets == 1 && len(it.paths) == 1
	}
	switch {
	case it.nsets == 0:
		return it.paths == nil
	case it.nsets == 1:
		return it.paths == nil || len(it.paths) == 1 || len(it.paths) == 2
	}
	return false
}

func renderSite(variant uint64, items []sortItem) string {
	defs, lines := renderParts(variant, items)
	return ":8080 {\n" + strings.Join(append(defs, lines...), "\n") + "\n}\n"
}

// renderParts: matcher definitions and one chunk of text per item (index-aligned).
func renderParts(variant uint64, items []sortItem) (defs, lines []string) {
	rng := core.NewRand(variant)
	for i, it := range items {
		mk := fmt.Sprintf("zq%dqz", i)
		m := ""
		switch {
		case it.nsets == 0:
			if (rng.Chance(1, 3) && it.dir != "php_fastcgi") || it.dir == "push" {
				// (`push /res` alone would read the resource as a path matcher)
				m = "*"
			}
		case len(it.paths) == 1:
			if it.dir == "handle_path" || rng.Chance(2, 3) {
				m = it.paths[0]
			} else {
				m = fmt.Sprintf("@q%d", i)
				defs = append(defs, fmt.Sprintf("\t%s {\n\t\tpath %s\n\t\tmethod GET\n\t}", m, it.paths[0]))
			}
		case len(it.paths) == 2:
			m = fmt.Sprintf("@q%d", i)
			defs = append(defs, fmt.Sprintf("\t%s path %s %s", m, it.paths[0], it.paths[1]))
		default:
			m = fmt.Sprintf("@q%d", i)
			defs = append(defs, fmt.Sprintf("\t%s method GET", m))
		}
		if m != "" {
			m += " "
		}
		var l string
		switch it.dir {
		case "map":
			l = fmt.Sprintf("map %s{path} {%s} {\n\t\tdefault 1\n\t}", m, mk)
		case "vars":
			l = fmt.Sprintf("vars %sk %s", m, mk)
		case "fs":
			l = fmt.Sprintf("fs %s%s", m, mk)
		case "root":
			l = fmt.Sprintf("root %s%s", m, mk)
		case "log_append":
			l = fmt.Sprintf("log_append %sk %s", m, mk)
		case "log_name":
			l = fmt.Sprintf("log_name %s%s", m, mk)
		case "header":
			l = fmt.Sprintf("header %sX-K %s", m, mk)
		case "redir":
			l = fmt.Sprintf("redir %shttps://%s.test", m, mk)
		case "method":
			l = fmt.Sprintf("method %s%s", m, mk)
		case "rewrite":
			l = fmt.Sprintf("rewrite %s/%s", m, mk)
		case "uri":
			l = fmt.Sprintf("uri %sstrip_prefix /%s", m, mk)
		case "request_header":
			l = fmt.Sprintf("request_header %sX-K %s", m, mk)
		case "templates":
			l = fmt.Sprintf("templates %s{\n\t\tmime %s\n\t}", m, mk)
		case "handle", "handle_path", "route":
			l = fmt.Sprintf("%s %s{\n\t\trespond %s\n\t}", it.dir, m, mk)
		case "error":
			l = fmt.Sprintf("error %s%s 500", m, mk)
		case "respond":
			l = fmt.Sprintf("respond %s%s", m, mk)
		case "reverse_proxy":
			l = fmt.Sprintf("reverse_proxy %s%s:80", m, mk)
		case "php_fastcgi":
			l = fmt.Sprintf("php_fastcgi %s%s:9000", m, mk)
		case "file_server":
			l = fmt.Sprintf("file_server %s{\n\t\tindex %s\n\t}", m, mk)
		case "tracing":
			l = fmt.Sprintf("tracing %s{\n\t\tspan %s\n\t}", m, mk)
		case "push":
			l = fmt.Sprintf("push %s/%s", m, mk)
		}
		lines = append(lines, "\t"+l)
	}
	return defs, lines
}

var markerRe = regexp.MustCompile(`zq(\d+)qz`)

func markerOrder(js []byte, n int) ([]int, bool) {
	seen := make([]bool, n)
	var out []int
	for _, m := range markerRe.FindAllSubmatch(js, -1) {
		i, err := strconv.Atoi(string(m[1]))
		if err != nil || i >= n {
			return nil, false
		}
		if !seen[i] {
			seen[i] = true
			out = append(out, i)
		}
	}
	return out, len(out) == n
}

func runSite(line, variantF, itemsF string) core.Outcome {
	variant, err := strconv.ParseUint(variantF, 10, 64)
	items, ok := parseItems(itemsF)
	if err != nil || strconv.FormatUint(variant, 10) != variantF || !ok {
		return core.Outcome{Impl: "bad-op", Tags: []string{"bad-op", "trivial"}}
	}
	for _, it := range items {
		if !shapeOK(it) {
			return core.Outcome{Impl: "bad-op", Tags: []string{"bad-op", "trivial"}}
		}
	}
	o := core.Outcome{}
	if len(items) > 20 {
		o.Tags = append(o.Tags, "site:over20")
	}
	text := renderSite(variant, items)
	r := checkTotalDet(line, text, &o)
	switch {
	case r.timedOut || r.panicked:
		o.Impl = r.verdict()
		return o
	case r.err != nil:
		o.Impl = "err"
		o.Tags = append(o.Tags, "site:rejected")
		o.Failures = append(o.Failures, core.Failure{Case: line, Class: "site-block-rejected",
			What: fmt.Sprintf("generated site block no longer adapts: %v; input %q", r.err, clip(text, 600))})
		return o
	}
	ord, all := markerOrder(r.json, len(items))
	if !all {
		o.Impl = "lost " + idxField(ord)
		o.Failures = append(o.Failures, core.Failure{Case: line, Class: "site-directive-lost",
			What: fmt.Sprintf("a directive of the site block does not appear in the JSON (found %s of %d); input %q", idxField(ord), len(items), clip(text, 600))})
		return o
	}
	o.Impl = "ok " + idxField(ord)
	kinds := map[string]bool{}
	for _, it := range items {
		kinds[kindName(it.dir)] = true
	}
	switch {
	case len(items) < 2:
		o.Tags = append(o.Tags, "trivial")
	case len(kinds) == len(items):
		o.Tags = append(o.Tags, "site:all-distinct")
	case len(kinds) == 1:
		o.Tags = append(o.Tags, "site:one-kind")
	default:
		o.Tags = append(o.Tags, "site:mixed-kinds")
	}
	// oracle: cross-kind reordering of the lines leaves the JSON byte-identical
	if len(kinds) > 1 {
		rng := core.NewRand(variant ^ hashStr(itemsF))
		p := crossKindShuffle(rng, len(items), func(i int) string { return kindName(items[i].dir) })
		defs, chunks := renderParts(variant, items)
		out := make([]string, len(items))
		for k, i := range p {
			out[k] = chunks[i]
		}
		text2 := ":8080 {\n" + strings.Join(append(defs, out...), "\n") + "\n}\n"
		r2 := adaptText(text2)
		if r2.verdict() != "json" || normalizeMarkers(r2.json) != normalizeMarkers(r.json) {
			cls := "order-dependent-output"
			if len(items) > 20 {
				cls += ":over-20-routes"
			}
			o.Failures = append(o.Failures, core.Failure{Case: line, Class: cls,
				What: fmt.Sprintf("reordering directives of different kinds changed the result: %q vs %q: %s", clip(text, 500), clip(text2, 500), firstDiff(r.json, r2.json))})
		}
	}
	// oracle: handle_path counts as handle — writing `handle` instead of `handle_path` (same
	// matcher) must put the directive at the same place
	hasHP := false
	items3 := make([]sortItem, len(items))
	for i, it := range items {
		items3[i] = it
		if it.dir == "handle_path" {
			items3[i].dir = "handle"
			hasHP = true
		}
	}
	if hasHP {
		o.Tags = append(o.Tags, "site:handle_path")
		r3 := adaptText(renderSite(variant, items3))
		ord3, all3 := markerOrder(r3.json, len(items))
		if r3.verdict() != "json" || !all3 || idxField(ord3) != idxField(ord) {
			o.Failures = append(o.Failures, core.Failure{Case: line, Class: "handle-path-not-sorted-as-handle",
				What: fmt.Sprintf("directives come out as %s, but as %s when every handle_path is written handle (same matchers); input %q", idxField(ord), idxField(ord3), clip(text, 600))})
		}
	}
	checkValid(line, text, r.json, false, &o)
	return o
}

func normalizeMarkers(js []byte) string { return string(js) }
