package c16

import (
	"encoding/json"
	"fmt"
	"regexp"
	"strconv"
	"strings"

	"verif/harness/internal/core"
)

// `kbind <sites>`: site blocks with SEVERAL keys `http://h<i>k<j>.test:<port>` (ports 8080 / 8081)
// and bind lines, through the whole adapter; per server: listen, listen_protocols and the keys it
// serves. Model: lean/CaddyModel/C16/BindKeys.lean.

var keyHostRe = regexp.MustCompile(`"h(\d+)k(\d+)\.test"`)

func runKbind(line, sitesF string) core.Outcome {
	bad := core.Outcome{Impl: "bad-op", Tags: []string{"bad-op", "trivial"}}
	var sb strings.Builder
	parts := strings.Split(sitesF, ";")
	if len(parts) > 6 {
		return bad
	}
	multi := false
	for i, t := range parts {
		f := strings.Split(t, "~")
		if len(f) != 2 {
			return bad
		}
		ps := strings.Split(f[0], "+")
		if len(ps) > 4 {
			return bad
		}
		var keys []string
		for j, p := range ps {
			if p != "0" && p != "1" {
				return bad
			}
			keys = append(keys, fmt.Sprintf("http://h%dk%d.test:%d", i, j, 8080+int(p[0]-'0')))
		}
		if len(keys) > 1 {
			multi = true
		}
		sb.WriteString(strings.Join(keys, ", ") + " {\n")
		if f[1] != "." {
			bs, ok := parseBindSites(f[1])
			if !ok || len(bs) != 1 {
				return bad
			}
			for _, b := range bs[0].binds {
				sb.WriteString("\tbind " + strings.Join(b[0], " "))
				if len(b[1]) > 0 {
					sb.WriteString(" {\n\t\tprotocols " + strings.Join(b[1], " ") + "\n\t}")
				}
				sb.WriteString("\n")
			}
		}
		fmt.Fprintf(&sb, "\trespond s%d\n}\n", i)
	}
	text := sb.String()
	o := core.Outcome{}
	r := checkTotalDet(line, text, &o)
	switch {
	case r.timedOut || r.panicked:
		o.Impl = r.verdict()
		return o
	case r.err != nil:
		o.Impl = "err"
		o.Tags = append(o.Tags, "kbind:rejected")
		return o
	}
	var cfg struct {
		Apps struct {
			HTTP struct {
				Servers map[string]json.RawMessage `json:"servers"`
			} `json:"http"`
		} `json:"apps"`
	}
	json.Unmarshal(r.json, &cfg)
	n := len(cfg.Apps.HTTP.Servers)
	var out []string
	for i := 0; i < n; i++ {
		raw, ok := cfg.Apps.HTTP.Servers["srv"+strconv.Itoa(i)]
		if !ok {
			o.Impl = "servers-not-numbered"
			return o
		}
		var s struct {
			Listen          []string   `json:"listen"`
			ListenProtocols [][]string `json:"listen_protocols"`
		}
		json.Unmarshal(raw, &s)
		lp := "none"
		if s.ListenProtocols != nil {
			var es []string
			for _, e := range s.ListenProtocols {
				if e == nil {
					es = append(es, "-")
				} else {
					es = append(es, strings.Join(e, "+"))
				}
			}
			lp = strings.Join(es, ",")
		}
		var ks []string
		seenK := map[string]bool{}
		for _, m := range keyHostRe.FindAllSubmatch(raw, -1) {
			k := string(m[1]) + "." + string(m[2])
			if !seenK[k] {
				seenK[k] = true
				ks = append(ks, k)
			}
		}
		out = append(out, "L="+strings.Join(s.Listen, ",")+" P="+lp+" K="+strings.Join(ks, ","))
		if s.ListenProtocols != nil && len(s.ListenProtocols) != len(s.Listen) {
			o.Failures = append(o.Failures, core.Failure{Case: line, Class: "listen-protocols-not-parallel",
				What: fmt.Sprintf("srv%d: %d listen addresses but %d listen_protocols entries; input %q", i, len(s.Listen), len(s.ListenProtocols), clip(text, 500))})
		}
	}
	o.Impl = strings.Join(out, "|")
	// oracle (implementation alone): every key is served by some server
	for i, t := range parts {
		for j := range strings.Split(strings.Split(t, "~")[0], "+") {
			if !strings.Contains(o.Impl, fmt.Sprintf("%d.%d", i, j)) {
				o.Failures = append(o.Failures, core.Failure{Case: line, Class: "site-key-not-served",
					What: fmt.Sprintf("key h%dk%d.test of an accepted file is served by no server; input %q", i, j, clip(text, 500))})
			}
		}
	}
	if multi {
		o.Tags = append(o.Tags, "kbind:several-keys")
	} else {
		o.Tags = append(o.Tags, "kbind:single-keys")
	}
	checkValid(line, text, r.json, false, &o)
	return o
}

func genKbindCase(r *core.Rand) string {
	n := 1 + r.Intn(3)
	var sites []string
	for i := 0; i < n; i++ {
		var ps []string
		for k := 1 + r.Intn(3); k > 0; k-- {
			ps = append(ps, strconv.Itoa(r.Intn(2)))
		}
		b := strings.TrimPrefix(genBindCase(r), "bind ")
		b = strings.Split(b, ";")[0]
		sites = append(sites, strings.Join(ps, "+")+"~"+b)
	}
	return "kbind " + strings.Join(sites, ";")
}
