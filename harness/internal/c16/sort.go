package c16

import (
	"fmt"
	"regexp"
	"strconv"
	"strings"

	"github.com/caddyserver/caddy/v2/caddyconfig/httpcaddyfile"

	"verif/harness/internal/core"
)

// ---------------------------------------------------------------------------------
// `order`: the directive order table of the tree under test, compared with the model's
// table (over which directiveOrder_nodup is proved).

func runOrder() core.Outcome {
	return core.Outcome{Impl: "order " + strings.Join(httpcaddyfile.VerifDefaultDirectiveOrder(), ","), Tags: []string{"order-table"}}
}

// ---------------------------------------------------------------------------------
// `sort <order> <items>`
//   order = `=` (the default table) | `.` (empty) | name,name,…
//   items = `.` | item;item;…      item = dir:<r|n>:<nsets>:<paths>
//   paths = `.` (no path matcher) | hex,hex,…  (`-` = empty string)
// answer: `ok <i,j,…>` original indices in sorted order (`ok .` when empty)

type sortItem struct {
	dir   string
	route bool
	nsets int
	paths []string // nil = none
}

var nameRe = regexp.MustCompile(`^[a-z_0-9]+$`)

func parseOrderField(s string) (custom bool, order []string, ok bool) {
	switch s {
	case "=":
		return false, nil, true
	case ".":
		return true, []string{}, true
	}
	order = strings.Split(s, ",")
	for _, n := range order {
		if !nameRe.MatchString(n) {
			return false, nil, false
		}
	}
	return true, order, true
}

func parseItems(s string) ([]sortItem, bool) {
	if s == "." {
		return nil, true
	}
	var out []sortItem
	for _, it := range strings.Split(s, ";") {
		f := strings.Split(it, ":")
		if len(f) != 4 || !nameRe.MatchString(f[0]) || (f[1] != "r" && f[1] != "n") {
			return nil, false
		}
		n, err := strconv.Atoi(f[2])
		if err != nil || n < 0 || n > 9 || strconv.Itoa(n) != f[2] {
			return nil, false
		}
		x := sortItem{dir: f[0], route: f[1] == "r", nsets: n}
		if f[3] != "." {
			x.paths = []string{}
			for _, h := range strings.Split(f[3], ",") {
				p, err := core.UnHex(h)
				if err != nil || h != core.Hex(p) {
					return nil, false
				}
				x.paths = append(x.paths, p)
			}
		}
		out = append(out, x)
	}
	return out, true
}

func itemsField(items []sortItem) string {
	if len(items) == 0 {
		return "."
	}
	var parts []string
	for _, it := range items {
		ps := "."
		if len(it.paths) > 0 {
			var hs []string
			for _, p := range it.paths {
				hs = append(hs, core.Hex(p))
			}
			ps = strings.Join(hs, ",")
		}
		rn := "n"
		if it.route {
			rn = "r"
		}
		parts = append(parts, fmt.Sprintf("%s:%s:%d:%s", it.dir, rn, it.nsets, ps))
	}
	return strings.Join(parts, ";")
}

func implSort(custom bool, order []string, items []sortItem) []int {
	hs := make([]httpcaddyfile.VerifSortItem, len(items))
	for i, it := range items {
		hs[i] = httpcaddyfile.VerifSortItem{Directive: it.dir, NotRoute: !it.route, MatcherSets: it.nsets, Paths: it.paths}
	}
	httpcaddyfile.VerifResetDirectiveOrder()
	if custom {
		if order == nil {
			order = []string{}
		}
		return httpcaddyfile.VerifSortRoutes(order, hs)
	}
	return httpcaddyfile.VerifSortRoutes(nil, hs)
}

func idxField(ix []int) string {
	if len(ix) == 0 {
		return "."
	}
	var s []string
	for _, i := range ix {
		s = append(s, strconv.Itoa(i))
	}
	return strings.Join(s, ",")
}

func kindName(d string) string {
	if d == "handle_path" {
		return "handle"
	}
	return d
}

func runSort(line, ordF, itemsF string) core.Outcome {
	custom, order, ok1 := parseOrderField(ordF)
	items, ok2 := parseItems(itemsF)
	if !ok1 || !ok2 {
		return core.Outcome{Impl: "bad-op", Tags: []string{"bad-op", "trivial"}}
	}
	o := core.Outcome{}
	res := implSort(custom, order, items)
	o.Impl = "ok " + idxField(res)
	if len(items) > 20 {
		// above sort.SliceStable's insertion-sort block size (SymMerge passes)
		o.Tags = append(o.Tags, "sort:over20")
	}
	// ---- tags
	kinds := map[string]int{}
	for _, it := range items {
		kinds[kindName(it.dir)]++
	}
	same := false
	for _, c := range kinds {
		if c > 1 {
			same = true
		}
	}
	switch {
	case len(items) < 2:
		o.Tags = append(o.Tags, "trivial")
	case same && len(kinds) > 1:
		o.Tags = append(o.Tags, "sort:mixed-kinds")
	case same:
		o.Tags = append(o.Tags, "sort:one-kind")
	default:
		o.Tags = append(o.Tags, "sort:all-distinct")
	}
	if custom {
		o.Tags = append(o.Tags, "sort:custom-order")
	}
	for _, it := range items {
		if it.dir == "handle_path" {
			o.Tags = append(o.Tags, "sort:handle_path")
			break
		}
	}
	// ---- oracle on the implementation alone
	// (1) the result is a permutation of the input
	seen := make([]bool, len(items))
	perm := len(res) == len(items)
	for _, i := range res {
		if i < 0 || i >= len(items) || seen[i] {
			perm = false
			break
		}
		seen[i] = true
	}
	if !perm {
		o.Failures = append(o.Failures, core.Failure{Case: line, Class: "sort-not-a-permutation", What: "sortRoutes lost or duplicated a route: " + idxField(res)})
		return o
	}
	// (2) directives appear in directive order (positions of the order in effect)
	eff := order
	if !custom {
		eff = httpcaddyfile.VerifDefaultDirectiveOrder()
	}
	pos := map[string]int{}
	for i, d := range eff {
		pos[d] = i
	}
	for k := 1; k < len(res); k++ {
		a, b := kindName(items[res[k-1]].dir), kindName(items[res[k]].dir)
		if pos[a] > pos[b] {
			o.Failures = append(o.Failures, core.Failure{Case: line, Class: "sort-violates-directive-order",
				What: fmt.Sprintf("after sortRoutes, %s (position %d) precedes %s (position %d)", a, pos[a], b, pos[b])})
			return o
		}
	}
	// (3) cross-kind reordering of the input does not change the result: re-interleave the
	// per-kind subsequences (a function of the line only) and sort again
	rng := core.NewRand(uint64(len(line))*1315423911 + hashStr(line))
	for t := 0; t < 2 && len(kinds) > 1; t++ {
		p := crossKindShuffle(rng, len(items), func(i int) string { return posKey(pos, kindName(items[i].dir)) })
		items2 := make([]sortItem, len(items))
		for k, i := range p {
			items2[k] = items[i]
		}
		res2 := implSort(custom, order, items2)
		for k := range res2 {
			res2[k] = p[res2[k]] // back to original indices
		}
		if idxField(res2) != idxField(res) {
			cls := "sort-cross-kind-order-dependent"
			if len(items) > 20 {
				cls = "order-dependent-output"
			}
			if len(items) > 20 {
				cls += ":over-20-routes"
			}
			o.Failures = append(o.Failures, core.Failure{Case: line, Class: cls,
				What: fmt.Sprintf("input order %s sorts to %s but the cross-kind reordering %s sorts to %s", idxField(iota(len(items))), idxField(res), idxField(p), idxField(res2))})
			return o
		}
	}
	return o
}

// posKey: two directives are "the same kind" for the sorter iff they are the same name, or
// both unknown to / at position 0 of the order (Go map zero value).
func posKey(pos map[string]int, d string) string { return strconv.Itoa(pos[d]) }

func iota(n int) []int {
	r := make([]int, n)
	for i := range r {
		r[i] = i
	}
	return r
}

func hashStr(s string) uint64 {
	var h uint64 = 1469598103934665603
	for i := 0; i < len(s); i++ {
		h ^= uint64(s[i])
		h *= 1099511628211
	}
	return h
}

// crossKindShuffle returns a permutation p (new position k holds old index p[k]) that keeps
// the relative order of indices with equal key.
func crossKindShuffle(rng *core.Rand, n int, key func(int) string) []int {
	queues := map[string][]int{}
	var keys []string
	for i := 0; i < n; i++ {
		k := key(i)
		if _, ok := queues[k]; !ok {
			keys = append(keys, k)
		}
		queues[k] = append(queues[k], i)
	}
	// a random sequence of keys with the right multiplicities
	var seq []string
	for _, k := range keys {
		for range queues[k] {
			seq = append(seq, k)
		}
	}
	for i := len(seq) - 1; i > 0; i-- {
		j := rng.Intn(i + 1)
		seq[i], seq[j] = seq[j], seq[i]
	}
	out := make([]int, 0, n)
	for _, k := range seq {
		out = append(out, queues[k][0])
		queues[k] = queues[k][1:]
	}
	return out
}
