package c16

import (
	"bytes"
	"encoding/json"
	"fmt"
	"regexp"
	"strconv"
	"strings"

	"verif/harness/internal/core"
)

// `rename <n> <opts>`: n sites `:8080+i { respond site<i> }` and global `servers :<port> { name
// <name> }` options (opts = `.` | i:name,i:name,…). Oracle on the implementation alone: the text
// adapts to the same bytes every time (24 adaptations: server renames are applied by ranging
// over a Go map) and no site is lost (every site's server is still in the JSON).

var renameNameRe = regexp.MustCompile(`^[a-z0-9]+$`)

func runRename(line, nF, optsF string) core.Outcome {
	n, err := strconv.Atoi(nF)
	if err != nil || strconv.Itoa(n) != nF || n < 1 || n > 6 {
		return core.Outcome{Impl: "bad-op", Tags: []string{"bad-op", "trivial"}}
	}
	type opt struct {
		i    int
		name string
	}
	var opts []opt
	if optsF != "." {
		for _, p := range strings.Split(optsF, ",") {
			f := strings.Split(p, ":")
			if len(f) != 2 {
				return core.Outcome{Impl: "bad-op", Tags: []string{"bad-op", "trivial"}}
			}
			i, err := strconv.Atoi(f[0])
			if err != nil || strconv.Itoa(i) != f[0] || i < 0 || i >= n || !renameNameRe.MatchString(f[1]) {
				return core.Outcome{Impl: "bad-op", Tags: []string{"bad-op", "trivial"}}
			}
			opts = append(opts, opt{i, f[1]})
		}
	}
	var sb strings.Builder
	if len(opts) > 0 {
		sb.WriteString("{\n")
		for _, o := range opts {
			fmt.Fprintf(&sb, "\tservers :%d {\n\t\tname %s\n\t}\n", 8080+o.i, o.name)
		}
		sb.WriteString("}\n")
	}
	for i := 0; i < n; i++ {
		fmt.Fprintf(&sb, ":%d {\n\trespond site%d\n}\n", 8080+i, i)
	}
	text := sb.String()
	o := core.Outcome{Impl: "oracle-only"}
	first := adaptText(text)
	switch {
	case first.timedOut:
		o.Failures = append(o.Failures, core.Failure{Case: line, Class: "adapter-hang", What: "adapting did not terminate; input " + strconv.Quote(text)})
		return o
	case first.panicked:
		o.Failures = append(o.Failures, core.Failure{Case: line, Class: panicClass(first.panicMsg), What: "adapter panicked: " + clip(first.panicMsg, 300) + "; input " + strconv.Quote(text)})
		return o
	case first.err != nil:
		o.Tags = append(o.Tags, "rename:rejected")
		return o
	}
	collide := false
	names := map[string]bool{}
	for _, op := range opts {
		if strings.HasPrefix(op.name, "srv") {
			collide = true
		}
		names[op.name] = true
	}
	if len(opts) == 0 {
		o.Tags = append(o.Tags, "trivial")
	} else if collide {
		o.Tags = append(o.Tags, "rename:onto-default-names")
	} else {
		o.Tags = append(o.Tags, "rename:fresh-names")
	}
	// determinism over many adaptations
	for k := 0; k < 23; k++ {
		r := adaptText(text)
		if r.verdict() != "json" || !bytes.Equal(r.json, first.json) {
			o.Failures = append(o.Failures, core.Failure{Case: line, Class: "server-rename-order-dependent",
				What: fmt.Sprintf("same text adapted again gives a different result: %s; input %q", firstDiff(first.json, r.json), clip(text, 500))})
			break
		}
	}
	// no site lost
	var cfg struct {
		Apps struct {
			HTTP struct {
				Servers map[string]json.RawMessage `json:"servers"`
			} `json:"http"`
		} `json:"apps"`
	}
	json.Unmarshal(first.json, &cfg)
	for i := 0; i < n; i++ {
		if !bytes.Contains(first.json, []byte(fmt.Sprintf(`"body":"site%d"`, i))) {
			o.Failures = append(o.Failures, core.Failure{Case: line, Class: "server-lost-by-rename",
				What: fmt.Sprintf("site :%d is accepted but its server is not in the JSON (servers: %d of %d); input %q", 8080+i, len(cfg.Apps.HTTP.Servers), n, clip(text, 500))})
			break
		}
	}
	checkValid(line, text, first.json, false, &o)
	return o
}

func genRenameCase(r *core.Rand) string {
	n := 1 + r.Intn(4)
	pool := []string{"srv0", "srv1", "srv2", "srv3", "web", "api", "x"}
	var os []string
	used := map[int]bool{}
	for k := r.Intn(n + 1); k > 0; k-- {
		i := r.Intn(n)
		if used[i] {
			continue
		}
		used[i] = true
		os = append(os, fmt.Sprintf("%d:%s", i, r.Pick(pool)))
	}
	of := "."
	if len(os) > 0 {
		of = strings.Join(os, ",")
	}
	return fmt.Sprintf("rename %d %s", n, of)
}
