package c16

import (
	"bytes"
	"fmt"
	"regexp"
	"strconv"
	"strings"

	"github.com/caddyserver/caddy/v2/caddyconfig/caddyfile"
	"github.com/caddyserver/caddy/v2/caddyconfig/httpcaddyfile"

	"verif/harness/internal/core"
)

// ---------------------------------------------------------------------------------
// `perm <text> <seed>`: order-insensitivity on arbitrary (corpus-derived) files. The text is
// parsed by the real parser; inside every site block the top-level segments whose directive
// is in the directive order table are re-interleaved keeping the relative order inside each
// kind (handle/handle_path = one kind); every other segment stays in its slot. Both block
// lists go through Setup + json.Marshal (what Adapter.Adapt does after Parse).

func safeParse(text string) (blocks []caddyfile.ServerBlock, err error) {
	defer func() {
		if p := recover(); p != nil {
			err = fmt.Errorf("panic: %v", p)
		}
	}()
	return caddyfile.Parse("Caddyfile", []byte(text))
}

func orderedSet() map[string]bool {
	m := map[string]bool{}
	for _, d := range httpcaddyfile.VerifDefaultDirectiveOrder() {
		m[d] = true
	}
	return m
}

// permuteBlocks returns how many segments moved.
func permuteBlocks(rng *core.Rand, blocks []caddyfile.ServerBlock) int {
	ordered := orderedSet()
	moved := 0
	for bi := range blocks {
		b := &blocks[bi]
		if len(b.Keys) == 0 || strings.HasPrefix(b.Keys[0].Text, "&(") {
			continue // global options; named routes are never sorted
		}
		var slots []int
		for si, seg := range b.Segments {
			if len(seg) > 0 && ordered[seg.Directive()] {
				slots = append(slots, si)
			}
		}
		if len(slots) < 2 {
			continue
		}
		p := crossKindShuffle(rng, len(slots), func(i int) string { return kindName(b.Segments[slots[i]].Directive()) })
		orig := make([]caddyfile.Segment, len(slots))
		for k, si := range slots {
			orig[k] = b.Segments[si]
		}
		for k, si := range slots {
			b.Segments[si] = orig[p[k]]
			if p[k] != k {
				moved++
			}
		}
	}
	return moved
}

// over20Routes: does some block of the text hold more than 20 directives? (Above 20 values
// sort.SliceStable merges blocks instead of insertion-sorting; known finding.) Decided on the
// parsed text: a site block with more than 20 segments of ordered directives, or a single
// segment spanning more than 20 lines (an upper bound for its nested blocks).
func over20Routes(text string) bool {
	blocks, err := safeParse(text)
	if err != nil {
		return false
	}
	ordered := orderedSet()
	for _, b := range blocks {
		n := 0
		for _, seg := range b.Segments {
			if len(seg) == 0 {
				continue
			}
			if ordered[seg.Directive()] {
				n++
			}
			lines := map[int]bool{}
			for _, t := range seg {
				lines[t.Line] = true
			}
			if len(lines) > 22 {
				return true
			}
		}
		if n > 20 {
			return true
		}
	}
	return false
}

var groupRe = regexp.MustCompile(`"group":"group(\d+)"`)

// canonGroups renames route groups by order of first appearance.
func canonGroups(js []byte) []byte {
	names := map[string]int{}
	return groupRe.ReplaceAllFunc(js, func(m []byte) []byte {
		k := string(m)
		if _, ok := names[k]; !ok {
			names[k] = len(names)
		}
		return []byte(`"group":"G` + strconv.Itoa(names[k]) + `"`)
	})
}

// compareReordered evaluates the order-insensitivity clause on two results.
func compareReordered(line string, a, b adaptRes, over20 bool, desc string, o *core.Outcome) {
	switch {
	case b.panicked:
		o.Failures = append(o.Failures, core.Failure{Case: line, Class: panicClass(b.panicMsg), What: "adapter panicked on the reordered input: " + clip(b.panicMsg, 300) + "; " + desc})
	case b.timedOut:
		o.Failures = append(o.Failures, core.Failure{Case: line, Class: "adapter-hang", What: "adapter hangs on the reordered input; " + desc})
	case a.verdict() != b.verdict():
		o.Failures = append(o.Failures, core.Failure{Case: line, Class: "order-dependent-verdict",
			What: fmt.Sprintf("reordering directives of different kinds turns %s into %s (%v / %v); %s", a.verdict(), b.verdict(), a.err, b.err, desc)})
	case a.accepted() && !bytes.Equal(a.json, b.json):
		if bytes.Equal(canonGroups(a.json), canonGroups(b.json)) {
			o.Tags = append(o.Tags, "reorder:group-names-differ")
			o.Failures = append(o.Failures, core.Failure{Case: line, Class: "order-dependent-output:group-names-only",
				What: "reordering directives of different kinds renames route groups (JSON equal up to a bijective renaming of group names): " + firstDiff(a.json, b.json) + "; " + desc})
			return
		}
		cls := "order-dependent-output"
		if over20 {
			cls += ":over-20-routes"
		}
		o.Failures = append(o.Failures, core.Failure{Case: line, Class: cls,
			What: "reordering directives of different kinds changed the JSON: " + firstDiff(a.json, b.json) + "; " + desc})
	default:
		o.Tags = append(o.Tags, "reorder:same")
	}
}

func runPerm(line, text, seedF string) core.Outcome {
	seed, err := strconv.ParseUint(seedF, 10, 64)
	if err != nil || strconv.FormatUint(seed, 10) != seedF {
		return core.Outcome{Impl: "bad-op", Tags: []string{"bad-op", "trivial"}}
	}
	o := core.Outcome{Impl: "oracle-only"}
	b1, err := safeParse(text)
	if err != nil {
		o.Tags = append(o.Tags, "perm:unparsable", "trivial")
		return o
	}
	b2, _ := safeParse(text)
	moved := permuteBlocks(core.NewRand(seed), b2)
	if moved == 0 {
		o.Tags = append(o.Tags, "perm:nothing-to-move", "trivial")
		return o
	}
	a := adaptBlocks(b1)
	if a.panicked || a.timedOut {
		// totality is reported by the `adapt` case of the same text
		o.Tags = append(o.Tags, "perm:base-"+a.verdict())
		return o
	}
	b := adaptBlocks(b2)
	if a.accepted() {
		o.Tags = append(o.Tags, "perm:accepted")
	} else {
		o.Tags = append(o.Tags, "perm:rejected")
	}
	compareReordered(line, a, b, over20Routes(text), fmt.Sprintf("seed %d moved %d segments of %q", seed, moved, clip(text, 500)), &o)
	return o
}

// `eqv <textA> <textB>`: B is A with directives of different kinds reordered (at any nesting
// level; produced by the tree generator); both go through the whole adapter.
func runEqv(line, ta, tb string) core.Outcome {
	o := core.Outcome{Impl: "oracle-only"}
	a := checkTotalDet(line, ta, &o)
	if a.panicked || a.timedOut {
		return o
	}
	if !isReordering(ta, tb) {
		// the claim of the case does not hold: nothing to compare
		o.Tags = append(o.Tags, "eqv:not-a-reordering", "trivial")
		return o
	}
	b := adaptText(tb)
	if a.accepted() {
		o.Tags = append(o.Tags, "eqv:accepted")
	} else {
		o.Tags = append(o.Tags, "eqv:rejected", errTag(a.err))
	}
	compareReordered(line, a, b, over20Routes(ta), fmt.Sprintf("A=%q B=%q", clip(ta, 500), clip(tb, 500)), &o)
	if a.accepted() {
		checkValid(line, ta, a.json, false, &o)
	}
	return o
}

// ---------------------------------------------------------------------------------
// `leak <textP> <textT>`: the result of adapting T must not depend on what the process
// adapted before. T is adapted in a fresh-process state, then P, then T again WITHOUT
// resetting anything in between.

var orderOptRe = regexp.MustCompile(`(?m)^\s*order\s+\S+\s+(first|last|before|after)\b`)

func rawAdapt(text string) adaptRes {
	ch := make(chan adaptRes, 1)
	go func() {
		var r adaptRes
		defer func() {
			if p := recover(); p != nil {
				r.panicked = true
				r.panicMsg = fmt.Sprint(p)
			}
			ch <- r
		}()
		ad := caddyfile.Adapter{ServerType: httpcaddyfile.ServerType{}}
		r.json, _, r.err = ad.Adapt([]byte(text), map[string]any{"filename": "Caddyfile"})
	}()
	return <-ch
}

func runLeak(line, tp, tt string) core.Outcome {
	o := core.Outcome{Impl: "oracle-only"}
	base := adaptText(tt) // fresh state
	if base.panicked || base.timedOut {
		o.Tags = append(o.Tags, "leak:base-"+base.verdict(), "trivial")
		return o
	}
	pr := adaptText(tp)
	if pr.panicked || pr.timedOut {
		o.Tags = append(o.Tags, "leak:prior-"+pr.verdict(), "trivial")
		return o
	}
	httpcaddyfile.VerifResetDirectiveOrder()
	p2 := rawAdapt(tp)
	after := rawAdapt(tt)
	orderChanged := strings.Join(httpcaddyfile.VerifDirectiveOrder(), ",") != strings.Join(httpcaddyfile.VerifDefaultDirectiveOrder(), ",")
	httpcaddyfile.VerifResetDirectiveOrder()
	_ = p2
	if pr.accepted() {
		o.Tags = append(o.Tags, "leak:prior-accepted")
	} else {
		o.Tags = append(o.Tags, "leak:prior-rejected")
	}
	if base.verdict() == after.verdict() && bytes.Equal(base.json, after.json) {
		o.Tags = append(o.Tags, "leak:independent")
		return o
	}
	cls := "history-dependent-output"
	if orderChanged && orderOptRe.MatchString(tp) {
		// the defect repaired by 1ea4f8f (kept as a name for its regression): the prior text
		// carries an `order` global option and the process-wide directive order is observably
		// different afterwards
		cls = "history-dependent-output:order-option-persists"
	}
	o.Tags = append(o.Tags, "leak:DEPENDENT")
	o.Failures = append(o.Failures, core.Failure{Case: line, Class: cls,
		What: fmt.Sprintf("adapting %q gives a different result (%s vs %s: %s) after the same process adapted %q", clip(tt, 300), base.verdict(), after.verdict(), firstDiff(base.json, after.json), clip(tp, 300))})
	return o
}
