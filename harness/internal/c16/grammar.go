package c16

import (
	"fmt"
	"strings"

	"verif/harness/internal/core"
)

// Directive grammar: a small tree language over the standard HTTP directives. A tree can be
// rendered as written, or with the children of every SORTED context (site block, handle,
// handle_path, handle_errors bodies — not `route`, whose body keeps its literal order)
// re-interleaved across kinds.

type node struct {
	dir      string   // directive name ("" for a raw line that never moves)
	head     string   // first line without the block
	kids     []*node  // directive children (nil + !block: no block)
	raw      []string // raw sub-directive lines of a non-routing block
	sorted   bool     // the adapter sorts this block's children
	block    bool
	unsorted bool // ordered HTTP directive? (false for tls/log/bind/matcher defs/handle_errors: they keep their slot)
}

type gctx struct {
	rng      *core.Rand
	matchers []string // named matchers defined in the current site block
	budget   int
}

var gpaths = []string{"/", "/a", "/a*", "/a/*", "/api/*", "/api/v1/*", "/static/*", "/p/*.php", "/x/y/z", "/ab", "/ab*", "/*"}
var ghosts = []string{":8080", "a.test", "a.test, b.test", "http://c.test", "*.d.test", "localhost:8443", ":443", "e.test:80", "https://f.test", "http://", "g.test:8080, :8081", "a.test/path*", "127.0.0.1", "[::1]:9090", "{$C16_ENV}.test", "h.test:{$C16_UNSET:8085}"}
var gupstreams = []string{"127.0.0.1:9000", "localhost:9001", "h2c://127.0.0.1:9002", "https://up.test", "unix//run/x.sock", "srv+http://svc.test", "up.test:80 up2.test:80", "http://10.0.0.1:8080", "{env.UP}", "127.0.0.1:9000-9002"}

func (g *gctx) matcher() string {
	switch g.rng.Intn(8) {
	case 0:
		return "* "
	case 1, 2, 3:
		return g.rng.Pick(gpaths) + " "
	case 4:
		if len(g.matchers) > 0 {
			return g.rng.Pick(g.matchers) + " "
		}
	}
	return ""
}

func (g *gctx) leaf(dir, head string, raw ...string) *node {
	return &node{dir: dir, head: head, raw: raw, block: len(raw) > 0}
}

func (g *gctx) directive(depth int) *node {
	r := g.rng
	m := g.matcher()
	g.budget--
	switch r.Intn(40) {
	case 0, 1, 2:
		return g.leaf("respond", "respond "+m+r.Pick([]string{`"hi"`, `"x" 200`, "404", `"body {path}" 201`, "`raw`", `"" 204`}))
	case 3, 4:
		if r.Chance(1, 3) {
			return g.leaf("header", "header "+m, "X-A b", "-Server", "+X-C d", "?X-D e", "defer")
		}
		return g.leaf("header", "header "+m+r.Pick([]string{"X-A b", "-Server", "+X-C d", "Cache-Control max-age=3600", "X-A \"a b\" c"}))
	case 5:
		return g.leaf("request_header", "request_header "+m+r.Pick([]string{"X-A b", "-Cookie", "+X-C d", "X-A ^a b"}))
	case 6, 7:
		return g.leaf("redir", "redir "+m+r.Pick([]string{"https://t.test{uri}", "https://t.test 301", "/new permanent", "https://t.test html", "/new temporary"}))
	case 8, 9:
		return g.leaf("rewrite", "rewrite "+m+r.Pick([]string{"/to", "/to?{query}", "/index.php?p={path}"}))
	case 10:
		return g.leaf("uri", "uri "+m+r.Pick([]string{"strip_prefix /a", "strip_suffix .php", "replace a b", "replace a b 1", "path_regexp ^/a /b", "query -x", "query a b"}))
	case 11, 12:
		return g.leaf("root", "root "+r.Pick([]string{"* /srv", "/srv", m + "www", "* {env.ROOT}"}))
	case 13, 14:
		if r.Chance(1, 2) {
			return g.leaf("file_server", "file_server "+m+r.Pick([]string{"", "browse"}))
		}
		return g.leaf("file_server", "file_server "+m, r.Pick([]string{"root www", "hide .git *.bak", "index i.html", "precompressed gzip zstd", "browse", "pass_thru", "status 404", "disable_canonical_uris"}), r.Pick([]string{"index a.html b.html", "hide .env", "browse"}))
	case 15, 16, 17:
		up := r.Pick(gupstreams)
		if r.Chance(1, 2) {
			return g.leaf("reverse_proxy", "reverse_proxy "+m+up)
		}
		subs := []string{"lb_policy first", "lb_policy random_choose 2", "lb_policy header X-Up", "lb_policy cookie c secret", "lb_policy weighted_round_robin 1 2", "lb_try_duration 5s", "health_uri /h", "health_interval 10s", "health_status 2xx", "fail_duration 30s", "max_fails 3",
			"header_up X-A {host}", "header_down -Server", "flush_interval -1", "transport http {\n\t\t\t\ttls_insecure_skip_verify\n\t\t\t\tread_buffer 4096\n\t\t\t}", "trusted_proxies private_ranges", "request_buffers 4KiB", "stream_timeout 1h",
			"@e status 5xx\n\t\t\thandle_response @e {\n\t\t\t\trespond \"bad\" 502\n\t\t\t}", "handle_response {\n\t\t\t\tcopy_response_headers {\n\t\t\t\t\tinclude X-A\n\t\t\t\t}\n\t\t\t\tcopy_response\n\t\t\t}", "rewrite /r", "method GET", "unhealthy_status 5xx", "lb_retries 2", "dynamic a up.test 80", "dynamic srv _http._tcp.up.test"}
		return g.leaf("reverse_proxy", "reverse_proxy "+m+up, r.Pick(subs), r.Pick(subs))
	case 18:
		return g.leaf("php_fastcgi", "php_fastcgi "+m+r.Pick([]string{"127.0.0.1:9000", "unix//run/php.sock", "localhost:9000 localhost:9001"}))
	case 19:
		return g.leaf("encode", "encode "+m+r.Pick([]string{"gzip", "zstd gzip", "gzip 5"}))
	case 20:
		return g.leaf("templates", "templates "+m)
	case 21:
		return g.leaf("vars", "vars "+m+r.Pick([]string{"k v", "a 1", "k {path}"}))
	case 22:
		return g.leaf("map", "map "+m+"{path} {out}", "/a 1", "~^/b(.*)$ \"b${1}\"", "default 0")
	case 23:
		return g.leaf("method", "method "+m+r.Pick([]string{"POST", "GET"}))
	case 24:
		return g.leaf("try_files", "try_files "+m+r.Pick([]string{"{path} /index.html", "{path} {path}/ =404", "/a /b"}))
	case 25:
		return g.leaf("basic_auth", "basic_auth "+m+r.Pick([]string{"", "bcrypt", "bcrypt realm"}), "bob $2a$14$Zkx19XLiW6VYouLHR5NmfOFU0z2GTNmpkT/5qqR7hx4IjWJPDhjvG")
	case 26:
		return g.leaf("request_body", "request_body "+m, r.Pick([]string{"max_size 10MB", "max_size 1KiB"}))
	case 27:
		return g.leaf("error", "error "+m+r.Pick([]string{`"nope" 404`, "403", `"x" 500`}))
	case 28:
		return g.leaf("abort", "abort "+strings.TrimSpace(m))
	case 29:
		return g.leaf("log_append", "log_append "+m+"k v")
	case 30:
		return g.leaf("log_skip", "log_skip "+strings.TrimSpace(m))
	case 31:
		return g.leaf("metrics", "metrics "+strings.TrimSpace(m))
	case 32:
		return g.leaf("forward_auth", "forward_auth "+m+"127.0.0.1:9091", "uri /auth", "copy_headers X-User X-Role>X-R")
	case 33:
		return g.leaf("intercept", "intercept "+m, "@s status 500", "handle_response @s {\n\t\t\t\trespond \"oops\" 502\n\t\t\t}")
	case 34:
		return g.leaf("push", "push "+m+"/res.css")
	case 35:
		return g.leaf("fs", "fs "+m+"default")
	default:
		if depth >= 3 || g.budget <= 0 {
			return g.leaf("respond", "respond "+m+`"deep"`)
		}
		kind := r.Pick([]string{"handle", "handle", "handle_path", "route", "route"})
		n := &node{dir: kind, block: true, sorted: kind != "route"}
		if kind == "handle_path" {
			n.head = "handle_path " + r.Pick([]string{"/a*", "/api/*", "/x/y/*", "/ab*", "/a/*"}) + " "
		} else {
			n.head = kind + " " + m
		}
		for k := 1 + r.Intn(4); k > 0; k-- {
			n.kids = append(n.kids, g.directive(depth+1))
		}
		return n
	}
}

func (g *gctx) siteBlock(addr string) *node {
	r := g.rng
	sb := &node{head: addr + " ", block: true, sorted: true}
	g.matchers = nil
	// fixed-slot lines first: matcher definitions and non-routing directives
	for k := r.Intn(3); k > 0; k-- {
		name := fmt.Sprintf("@m%d", len(g.matchers))
		def := r.Pick([]string{"path /a /b", "path /m/*", "method GET POST", "host x.test", "header X-A b", "not path /n*", "path_regexp r ^/r(.*)$", "remote_ip 10.0.0.0/8", "query a=b", "expression {method} == 'GET'", "file {path}.html", "{\n\t\tpath /q*\n\t\tmethod GET\n\t}", "protocol https", "header_regexp h X-A ^b", "client_ip private_ranges", "vars {k} v", "`path('/e*')`"})
		sb.kids = append(sb.kids, &node{head: name + " " + def, unsorted: true})
		g.matchers = append(g.matchers, name)
	}
	for k := r.Intn(3); k > 0; k-- {
		var n *node
		switch r.Intn(9) {
		case 0:
			n = &node{head: "tls internal"}
		case 1:
			n = &node{head: "tls " + r.Pick([]string{"a@b.test", "cert.pem key.pem", "internal"}), block: r.Chance(1, 2), raw: []string{r.Pick([]string{"protocols tls1.2 tls1.3", "ciphers TLS_AES_128_GCM_SHA256", "alpn h2", "client_auth {\n\t\t\tmode request\n\t\t}", "on_demand", "dns_ttl 5m", "key_type p256"})}}
		case 2:
			n = &node{head: "log"}
		case 3:
			n = &node{head: "log " + r.Pick([]string{"", "acc"}), block: true, raw: []string{r.Pick([]string{"output file x.log", "output stdout", "output discard", "output stderr"}), r.Pick([]string{"format json", "format console", "level DEBUG", "format filter {\n\t\t\tfields {\n\t\t\t\trequest>headers>Cookie delete\n\t\t\t}\n\t\t}"})}}
		case 4:
			n = &node{head: "bind " + r.Pick([]string{"127.0.0.1", "::1", "127.0.0.1 ::1", "unix//run/c.sock"})}
		case 5, 6:
			he := &node{dir: "", head: "handle_errors " + r.Pick([]string{"", "", "404 ", "4xx ", "5xx 404 "}), block: true, sorted: true, unsorted: true}
			for j := r.Intn(3); j > 0; j-- {
				he.kids = append(he.kids, g.directive(2))
			}
			n = he
		case 7:
			n = &node{head: "encode gzip", dir: "encode"}
		case 8:
			n = &node{head: "import nosuch*"}
		}
		if n.dir == "" {
			n.unsorted = true
		}
		sb.kids = append(sb.kids, n)
	}
	for k := 1 + r.Intn(7); k > 0; k-- {
		sb.kids = append(sb.kids, g.directive(1))
	}
	return sb
}

var gglobal = []string{"debug", "http_port 8080", "https_port 8443", "auto_https off", "auto_https disable_redirects", "admin off", "admin localhost:2999",
	"email a@b.test", "local_certs", "skip_install_trust", "grace_period 5s", "default_sni a.test", "servers {\n\t\tprotocols h1 h2\n\t}", "servers :8080 {\n\t\ttimeouts {\n\t\t\tread_body 10s\n\t\t}\n\t}",
	"log {\n\t\tlevel DEBUG\n\t}", "order respond first", "order rewrite after respond", "order file_server before respond", "order encode last", "persist_config off", "key_type p256", "acme_ca https://acme.test/dir", "on_demand_tls {\n\t\task http://localhost:9123/ask\n\t}",
	"default_bind 127.0.0.1", "metrics", "cert_issuer internal", "ocsp_stapling off", "renew_interval 1h", "log access {\n\t\toutput discard\n\t\tinclude http.log.access\n\t}", "filesystem f file_system", "pki {\n\t\tca local {\n\t\t\tname X\n\t\t}\n\t}"}

type gfile struct {
	global []string
	snips  []string
	sites  []*node
}

func genFile(rng *core.Rand) *gfile {
	g := &gctx{rng: rng, budget: 30}
	f := &gfile{}
	if rng.Chance(1, 3) {
		for k := 1 + rng.Intn(3); k > 0; k-- {
			f.global = append(f.global, rng.Pick(gglobal))
		}
	}
	if rng.Chance(1, 6) {
		f.snips = append(f.snips, "(snip) {\n\theader X-S {args[0]}\n\t{block}\n}")
	}
	ns := 1
	if rng.Chance(1, 3) {
		ns += rng.Intn(3)
	}
	used := map[string]bool{}
	for i := 0; i < ns; i++ {
		a := rng.Pick(ghosts)
		if used[a] && rng.Chance(9, 10) {
			continue
		}
		used[a] = true
		sb := g.siteBlock(a)
		if len(f.snips) > 0 && rng.Chance(1, 2) {
			sb.kids = append([]*node{{head: "import snip v", unsorted: true, block: true, raw: []string{"respond /s \"s\""}}}, sb.kids...)
		}
		f.sites = append(f.sites, sb)
	}
	if len(f.sites) == 0 {
		f.sites = append(f.sites, g.siteBlock(":8080"))
	}
	return f
}

func isMovable(n *node) bool { return n.dir != "" && !n.unsorted }

func renderNode(sb *strings.Builder, n *node, ind string, shuffle *core.Rand) {
	sb.WriteString(ind + strings.TrimRight(n.head, " "))
	if !n.block {
		sb.WriteString("\n")
		return
	}
	sb.WriteString(" {\n")
	for _, l := range n.raw {
		sb.WriteString(ind + "\t" + l + "\n")
	}
	kids := n.kids
	if shuffle != nil && n.sorted {
		// re-interleave the movable children across kinds; everything else keeps its slot
		var slots []int
		for i, k := range kids {
			if isMovable(k) {
				slots = append(slots, i)
			}
		}
		if len(slots) > 1 {
			p := crossKindShuffle(shuffle, len(slots), func(i int) string { return kindName(kids[slots[i]].dir) })
			nk := append([]*node{}, kids...)
			for k, si := range slots {
				nk[si] = kids[slots[p[k]]]
			}
			kids = nk
		}
	}
	for _, k := range kids {
		renderNode(sb, k, ind+"\t", shuffle)
	}
	sb.WriteString(ind + "}\n")
}

func (f *gfile) render(shuffle *core.Rand) string {
	var sb strings.Builder
	if len(f.global) > 0 {
		sb.WriteString("{\n")
		for _, l := range f.global {
			sb.WriteString("\t" + l + "\n")
		}
		sb.WriteString("}\n")
	}
	for _, s := range f.snips {
		sb.WriteString(s + "\n")
	}
	for _, s := range f.sites {
		renderNode(&sb, s, "", shuffle)
	}
	return sb.String()
}
