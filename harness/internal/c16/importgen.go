package c16

import (
	"fmt"
	"strings"

	"verif/harness/internal/core"
)

// Import / snippet argument grammar: snippets and imported files whose lines carry argument
// placeholders ({args[n]}, {args[a:b]}, {block}, {blocks.x}) first / in the middle / last on a
// line, imported with too few, exactly enough and too many arguments, at top level, inside a
// site, inside a nested block, through a second snippet (nested import) and from files next
// to the working directory (see writeImportFixtures).

var argPH = []string{
	"{args[0]}", "{args[1]}", "{args[2]}", "{args[:]}", "{args[0:]}", "{args[1:]}", "{args[:1]}", "{args[:2]}", "{args[1:2]}",
	"{args[2:]}", "{args[0:0]}", "{args[5]}", "{args[-1]}", "{args[x]}", "{args[1:0]}", "{args[:9]}", "{args.0}", "{args.1}",
	"a{args[0]}b", "{args[0]}{args[1]}", "\"{args[:]}\"", "\"x {args[0]}\"", "{args[:]} {args[:]}", "{args[0]} {args[1:]}",
}

var argVals = []string{"a", "\"b c\"", "200", "/p", "x.test", ":8081", "{args[0]}", "\"\"", "hi"}

func importArgs(r *core.Rand) string {
	n := r.Intn(4)
	if r.Chance(1, 4) {
		n = 0
	}
	var a []string
	for ; n > 0; n-- {
		a = append(a, r.Pick(argVals))
	}
	if len(a) == 0 {
		return ""
	}
	return " " + strings.Join(a, " ")
}

func snippetLine(r *core.Rand, inner []string) string {
	ph := r.Pick(argPH)
	switch r.Intn(14) {
	case 0, 1:
		return ph // alone on the line (first and last)
	case 2:
		return ph + " respond hi" // first
	case 3:
		return "respond " + ph + " 200" // middle
	case 4, 5:
		return "respond " + ph // last
	case 6:
		return "header X-A " + ph
	case 7:
		return "{block}"
	case 8:
		return "{blocks." + r.Pick([]string{"a", "b", "zz"}) + "}"
	case 9:
		return "handle " + ph + " {\n\t\t{block}\n\t}"
	case 10, 11:
		if len(inner) > 0 {
			return "import " + r.Pick(inner) + " " + r.Pick(append([]string{"", "x", "{block}"}, argPH...))
		}
		return "respond hi"
	case 12:
		return ph + ".test {\n\t\trespond " + r.Pick(argPH) + "\n\t}" // a whole site inside the snippet
	default:
		return "respond hi"
	}
}

func importLine(r *core.Rand, targets []string) string {
	l := "import " + r.Pick(targets) + importArgs(r)
	if r.Chance(1, 4) {
		l += " {\n\t\trespond /blk \"from block\"\n\t\ta {\n\t\t\theader X-B a\n\t\t}\n\t\tb " + r.Pick([]string{"x", "{args[0]}", ""}) + "\n\t}"
	}
	return l
}

var importFiles = []string{"../inc/args1", "../inc/args2", "../inc/argsite", "../inc/argnest", "../inc/argsnip", "../inc/ok", "../inc/arg*"}

func genImportFile(r *core.Rand) string {
	var sb strings.Builder
	var snips []string
	for k := 1 + r.Intn(3); k > 0; k-- {
		name := fmt.Sprintf("s%d", len(snips))
		sb.WriteString("(" + name + ") {\n")
		for j := 1 + r.Intn(4); j > 0; j-- {
			sb.WriteString("\t" + snippetLine(r, snips) + "\n")
		}
		sb.WriteString("}\n")
		snips = append(snips, name)
	}
	targets := append([]string{}, snips...)
	targets = append(targets, snips...)
	targets = append(targets, importFiles[r.Intn(len(importFiles))])
	if r.Chance(1, 8) {
		targets = append(targets, "incsnipargs") // defined by ../inc/argsnip when that was imported
	}
	// top-level imports (before any site)
	for k := r.Intn(3); k > 0; k-- {
		sb.WriteString(importLine(r, targets) + "\n")
	}
	if r.Chance(3, 4) {
		sb.WriteString(r.Pick([]string{":8080", "a.test", "http://b.test, c.test"}) + " {\n")
		for k := 1 + r.Intn(3); k > 0; k-- {
			switch r.Intn(4) {
			case 0:
				sb.WriteString("\thandle /h* {\n\t\t" + strings.ReplaceAll(importLine(r, targets), "\n", "\n\t") + "\n\t}\n")
			case 1:
				sb.WriteString("\trespond /r ok\n")
			default:
				sb.WriteString("\t" + importLine(r, targets) + "\n")
			}
		}
		sb.WriteString("}\n")
	}
	if r.Chance(1, 4) {
		sb.WriteString(importLine(r, targets) + "\n") // a trailing top-level import
	}
	return sb.String()
}
