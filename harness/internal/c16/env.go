package c16

import (
	"fmt"
	"os"
	"path/filepath"
	"syscall"

	// every standard module: the adapter's directive parsers and what caddy.Validate provisions
	_ "github.com/caddyserver/caddy/v2/modules/standard"
)

// Process environment of the adapter cases (DESIGN §4 C16): adaptation must run in an EMPTY
// working directory (otherwise `import *` lexes whatever happens to be there) with private
// XDG dirs / HOME, so that provisioning for the validity clause cannot touch anything
// outside /verif/.run. Caddy captures both the working directory (caddy.FastAbs) and the
// data directory (caddy.DefaultStorage) during package initialisation, so changing them
// later is not enough: the harness re-executes itself once, from the private directory and
// with the private environment, before anything else happens.

const childEnv = "C16_PRIVATE_ROOT"

var privRoot string

// reexecInPrivateDir is called first thing in main (through New).
func reexecInPrivateDir() {
	if d := os.Getenv(childEnv); d != "" {
		privRoot = d
		return
	}
	fail := func(err error) {
		fmt.Fprintln(os.Stderr, "c16: cannot set up the private environment:", err)
		os.Exit(2)
	}
	base := "/verif/.run"
	if err := os.MkdirAll(base, 0o755); err != nil {
		fail(err)
	}
	d, err := os.MkdirTemp(base, "c16-priv-")
	if err != nil {
		fail(err)
	}
	for _, sub := range []string{"cwd", "data", "config", "home"} {
		if err := os.MkdirAll(filepath.Join(d, sub), 0o755); err != nil {
			fail(err)
		}
	}
	// file arguments stay valid after the directory change
	args := append([]string{}, os.Args...)
	for i := 1; i < len(args); i++ {
		if (args[i] == "--out" || args[i] == "-out" || args[i] == "--in" || args[i] == "-in") && i+1 < len(args) {
			if abs, err := filepath.Abs(args[i+1]); err == nil {
				args[i+1] = abs
			}
		}
	}
	exe, err := os.Executable()
	if err != nil {
		fail(err)
	}
	env := []string{}
	for _, kv := range os.Environ() {
		keep := true
		for _, p := range []string{"XDG_DATA_HOME=", "XDG_CONFIG_HOME=", "HOME=", "C16_ENV=", "C16_UNSET=", "CADDY_", "UP=", "ROOT="} {
			if len(kv) >= len(p) && kv[:len(p)] == p {
				keep = false
			}
		}
		if keep {
			env = append(env, kv)
		}
	}
	env = append(env,
		childEnv+"="+d,
		"XDG_DATA_HOME="+filepath.Join(d, "data"),
		"XDG_CONFIG_HOME="+filepath.Join(d, "config"),
		"HOME="+filepath.Join(d, "home"),
		// a variable the generator refers to through {$C16_ENV}; C16_UNSET stays unset
		"C16_ENV=envval",
	)
	if err := os.Chdir(filepath.Join(d, "cwd")); err != nil {
		fail(err)
	}
	fail(syscall.Exec(exe, args, env))
}

var origErr = os.Stderr

// silenceStderr points file descriptor 2 at a file in the private directory: caddy's default
// logger (created at package initialisation) and every validated config log there. The file
// goes away with the private directory; after a crash it stays for the post-mortem.
func silenceStderr() {
	if privRoot == "" {
		return
	}
	if fd, err := syscall.Dup(2); err == nil {
		origErr = os.NewFile(uintptr(fd), "stderr")
	}
	f, err := os.OpenFile(filepath.Join(privRoot, "stderr.log"), os.O_CREATE|os.O_WRONLY|os.O_TRUNC|os.O_APPEND, 0o644)
	if err != nil {
		return
	}
	logFile = f
	syscall.Dup3(int(f.Fd()), 2, 0)
}

var (
	logFile  *os.File
	logTicks int
)

// trimLog keeps the captured log small.
func trimLog() {
	logTicks++
	if logFile != nil && logTicks%300 == 0 {
		logFile.Truncate(0)
	}
}

func setupEnv() {}

func cleanupEnv() {
	if privRoot != "" {
		syscall.Dup3(int(origErr.Fd()), 2, 0)
		os.Chdir("/")
		os.RemoveAll(privRoot)
	}
}

func cwdEntries() []string {
	es, err := os.ReadDir(".")
	if err != nil {
		return nil
	}
	var out []string
	for _, e := range es {
		out = append(out, e.Name())
	}
	return out
}

// cleanCwd: a case must not leave files behind that a later `import *` could pick up.
func cleanCwd() {
	trimLog()
	for _, n := range cwdEntries() {
		os.RemoveAll(n)
	}
}
