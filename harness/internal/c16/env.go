package c16

import (
	"fmt"
	"os"
	"path/filepath"
	"sync"

	"github.com/caddyserver/caddy/v2"
	"github.com/caddyserver/certmagic"

	// every standard module: the adapter's directive parsers and what caddy.Validate provisions
	_ "github.com/caddyserver/caddy/v2/modules/standard"
)

// Process environment of the adapter cases (DESIGN §4 C16): adaptation runs in an EMPTY
// private working directory (otherwise `import *` lexes whatever happens to be in cwd),
// with private XDG dirs / HOME / default storage so that provisioning for the validity
// clause cannot touch anything outside /verif/.run. Caddy's own logging goes to /dev/null.

var (
	envOnce   sync.Once
	privRoot  string
	origErr   *os.File
	envFailed error
)

func setupEnv() {
	envOnce.Do(func() {
		origErr = os.Stderr
		base := "/verif/.run"
		if err := os.MkdirAll(base, 0o755); err != nil {
			envFailed = err
			return
		}
		d, err := os.MkdirTemp(base, "c16-priv-")
		if err != nil {
			envFailed = err
			return
		}
		privRoot = d
		for _, sub := range []string{"cwd", "data", "config", "home"} {
			if err := os.MkdirAll(filepath.Join(d, sub), 0o755); err != nil {
				envFailed = err
				return
			}
		}
		os.Setenv("XDG_DATA_HOME", filepath.Join(d, "data"))
		os.Setenv("XDG_CONFIG_HOME", filepath.Join(d, "config"))
		os.Setenv("HOME", filepath.Join(d, "home"))
		// variables the shipped corpus and the generator refer to through {$NAME}
		os.Setenv("C16_ENV", "envval")
		os.Unsetenv("C16_UNSET")
		// DefaultStorage was computed at package initialisation from the old environment
		caddy.DefaultStorage = &certmagic.FileStorage{Path: filepath.Join(d, "data", "caddy")}
		caddy.ConfigAutosavePath = filepath.Join(d, "config", "autosave.json")
		if err := os.Chdir(filepath.Join(d, "cwd")); err != nil {
			envFailed = err
			return
		}
		if null, err := os.OpenFile(os.DevNull, os.O_WRONLY, 0); err == nil {
			os.Stderr = null
		}
	})
	if envFailed != nil {
		fmt.Fprintln(origErr, "c16: cannot set up the private environment:", envFailed)
		os.Exit(2)
	}
}

func cleanupEnv() {
	if privRoot != "" {
		os.Chdir("/")
		os.RemoveAll(privRoot)
	}
}

// cwdIsEmpty re-checks the working directory (a case must not have left files there that a
// later `import *` could pick up).
func cwdEntries() []string {
	es, err := os.ReadDir(".")
	if err != nil {
		return nil
	}
	var out []string
	for _, e := range es {
		out = append(out, e.Name())
	}
	return out
}

func cleanCwd() {
	for _, n := range cwdEntries() {
		os.RemoveAll(n)
	}
}
