package c16

import (
	"fmt"
	"os"
	"os/exec"
	"path/filepath"
	"runtime"
	"strings"
	"syscall"

	// every standard module: the adapter's directive parsers and what caddy.Validate provisions
	_ "github.com/caddyserver/caddy/v2/modules/standard"
)

// Process environment of the adapter cases (DESIGN §4 C16): adaptation must run in an EMPTY
// working directory (otherwise `import *` lexes whatever happens to be there) with private
// XDG dirs / HOME, so that provisioning for the validity clause cannot touch anything
// outside /verif/.run. Caddy captures both the working directory (caddy.FastAbs) and the
// data directory (caddy.DefaultStorage) during package initialisation, so changing them
// later is not enough: the harness runs itself as a child process, from the private directory
// and with the private environment (see supervise).

const childEnv = "C16_PRIVATE_ROOT"

var privRoot string

// reexecInPrivateDir is called first thing in main (through New).
func reexecInPrivateDir() {
	if d := os.Getenv(childEnv); d != "" {
		privRoot = d
		return
	}
	fail := func(err error) {
		fmt.Fprintln(os.Stderr, "c16: cannot set up the private environment:", err)
		os.Exit(2)
	}
	base := "/verif/.run"
	if err := os.MkdirAll(base, 0o755); err != nil {
		fail(err)
	}
	d, err := os.MkdirTemp(base, "c16-priv-")
	if err != nil {
		fail(err)
	}
	for _, sub := range []string{"cwd", "data", "config", "home"} {
		if err := os.MkdirAll(filepath.Join(d, sub), 0o755); err != nil {
			fail(err)
		}
	}
	// file arguments stay valid after the directory change
	args := append([]string{}, os.Args...)
	for i := 1; i < len(args); i++ {
		if (args[i] == "--out" || args[i] == "-out" || args[i] == "--in" || args[i] == "-in") && i+1 < len(args) {
			if abs, err := filepath.Abs(args[i+1]); err == nil {
				args[i+1] = abs
			}
		}
	}
	exe, err := os.Executable()
	if err != nil {
		fail(err)
	}
	env := []string{}
	for _, kv := range os.Environ() {
		keep := true
		for _, p := range []string{"XDG_DATA_HOME=", "XDG_CONFIG_HOME=", "HOME=", "C16_ENV=", "C16_UNSET=", "CADDY_", "UP=", "ROOT="} {
			if len(kv) >= len(p) && kv[:len(p)] == p {
				keep = false
			}
		}
		if keep {
			env = append(env, kv)
		}
	}
	env = append(env,
		childEnv+"="+d,
		"XDG_DATA_HOME="+filepath.Join(d, "data"),
		"XDG_CONFIG_HOME="+filepath.Join(d, "config"),
		"HOME="+filepath.Join(d, "home"),
		// a variable the generator refers to through {$C16_ENV}; C16_UNSET stays unset
		"C16_ENV=envval",
	)
	if err := writeImportFixtures(d); err != nil {
		fail(err)
	}
	supervise(exe, args, env, d)
}

// writeImportFixtures: files for the import-expansion cases, NEXT TO the (empty) working
// directory, reached as `import ../inc/<name>`: a self-import, a two-file cycle, a plain
// file, a file that defines and uses a snippet.
func writeImportFixtures(d string) error {
	inc := filepath.Join(d, "inc")
	if err := os.MkdirAll(inc, 0o755); err != nil {
		return err
	}
	files := map[string]string{
		"self":  "import self\n",
		"a":     "import b\n",
		"b":     "import a\n",
		"ok":    "header X-Inc ok\n",
		"snip":  "(incsnip) {\n\trespond /inc {args[0]}\n}\n",
		"site":  "inc.test {\n\timport ok\n}\n",
		"empty": "",
		// argument placeholders in imported FILES
		"args1":   "{args[:]}\nrespond hi\n",
		"args2":   "respond {args[0]} {args[1:]}\n",
		"argsite": "{args[0]}.test {\n\t{args[1:]}\n\trespond {args[:1]}\n}\n",
		"argnest": "import args2 {args[:]}\nimport args1 {args[1:]}\n",
		"argsnip": "(incsnipargs) {\n\t{args[0:]}\n\theader X-I {args[:1]}\n\t{block}\n}\n",
	}
	for n, c := range files {
		if err := os.WriteFile(filepath.Join(inc, n), []byte(c), 0o644); err != nil {
			return err
		}
	}
	return nil
}

// supervise runs the real harness as a child process in the private directory. A fatal Go
// error (stack overflow, out of memory, concurrent map write) cannot be recovered inside the
// process; the child therefore notes the case it is about to run in <private>/current, and
// when it dies the run is repeated with that case listed in C16_CRASHED: the child then
// reports it as an `adapter-crash` failure instead of running it. Generation is a function of
// the seed, so the repeated run sees the same cases.
func supervise(exe string, args, env []string, d string) {
	runtime.LockOSThread() // Pdeathsig is tied to the forking thread
	var crashed, hung []string
	for attempt := 0; ; attempt++ {
		os.Remove(filepath.Join(d, "current"))
		cmd := exec.Command(exe, args[1:]...)
		cmd.Dir = filepath.Join(d, "cwd")
		cmd.Env = append(append([]string{}, env...), "C16_CRASHED="+strings.Join(crashed, ","), "C16_HUNG="+strings.Join(hung, ","))
		cmd.Stdin, cmd.Stdout, cmd.Stderr = os.Stdin, os.Stdout, os.Stderr
		cmd.SysProcAttr = &syscall.SysProcAttr{Pdeathsig: syscall.SIGKILL} // never outlive the supervisor
		err := cmd.Run()
		if err == nil {
			os.RemoveAll(d)
			os.Exit(0)
		}
		cur, rerr := os.ReadFile(filepath.Join(d, "current"))
		code := 1
		if ee, ok := err.(*exec.ExitError); ok && ee.ExitCode() >= 0 {
			code = ee.ExitCode()
		}
		if code == hangExit && rerr == nil && len(cur) > 0 && attempt < 12 {
			// an adaptation did not terminate: its goroutine cannot be stopped, so the child
			// gave up; run again, reporting that case as a hang without running it
			hung = append(hung, string(cur))
			cleanDir(filepath.Join(d, "cwd"))
			continue
		}
		if rerr != nil || len(cur) == 0 || attempt >= 12 || code == 2 {
			// not attributable to a case (usage error, I/O problem) or too many crashes
			if tail, e := os.ReadFile(filepath.Join(d, "stderr.log")); e == nil {
				if len(tail) > 4000 {
					tail = tail[len(tail)-4000:]
				}
				os.Stderr.Write(tail)
			}
			fmt.Fprintln(os.Stderr, "c16: harness child failed:", err)
			os.RemoveAll(d)
			os.Exit(code)
		}
		crashed = append(crashed, string(cur))
		// keep the head of the fatal error for the failure report
		if log, e := os.ReadFile(filepath.Join(d, "stderr.log")); e == nil {
			i := strings.LastIndex(string(log), "fatal error:")
			if j := strings.LastIndex(string(log), "\npanic: "); j > i {
				i = j + 1
			}
			if i < 0 {
				i = 0
				if len(log) > 1500 {
					i = len(log) - 1500
				}
			}
			log = log[i:]
			if len(log) > 1500 {
				log = log[:1500]
			}
			os.WriteFile(filepath.Join(d, "crash-"+string(cur)), log, 0o644)
		}
		cleanDir(filepath.Join(d, "cwd"))
	}
}

func cleanDir(dir string) {
	es, _ := os.ReadDir(dir)
	for _, e := range es {
		os.RemoveAll(filepath.Join(dir, e.Name()))
	}
}

var (
	crashedSet map[string]bool
	hungSet    map[string]bool
	lastCrash  string
	curHash    string
)

// hangExit: exit status of a child that met a non-terminating adaptation.
const hangExit = 75

// maxRestarts: after that many crashed/hung cases the run continues in degraded mode (cases
// that run the adapter are skipped) — the failures found so far are what the run reports.
const maxRestarts = 5

func degraded() bool { return len(crashedSet)+len(hungSet) >= maxRestarts }

// hangDetected is called when an adaptation exceeded its timeout.
func hangDetected() {
	if privRoot == "" || curHash == "" || degraded() {
		return // unsupervised or out of restarts: go on with the goroutine leaked
	}
	os.Exit(hangExit)
}

func parseSet(v string) map[string]bool {
	m := map[string]bool{}
	for _, c := range strings.Split(v, ",") {
		if c != "" {
			m[c] = true
		}
	}
	return m
}

// noteCase records the case about to run; it returns "crash" / "hang" if an earlier attempt
// died / hung on it, "skip" in degraded mode, "" otherwise.
func noteCase(line string) string {
	if privRoot == "" {
		return ""
	}
	h := fmt.Sprintf("%016x", hashStr(line)^uint64(len(line))<<48)
	if crashedSet == nil {
		crashedSet = parseSet(os.Getenv("C16_CRASHED"))
		hungSet = parseSet(os.Getenv("C16_HUNG"))
	}
	if crashedSet[h] {
		if b, err := os.ReadFile(filepath.Join(privRoot, "crash-"+h)); err == nil {
			lastCrash = string(b)
		}
		return "crash"
	}
	if hungSet[h] {
		return "hang"
	}
	if degraded() {
		return "skip"
	}
	curHash = h
	os.WriteFile(filepath.Join(privRoot, "current"), []byte(h), 0o644)
	return ""
}

func caseDone() {
	if privRoot != "" {
		curHash = ""
		os.Remove(filepath.Join(privRoot, "current"))
	}
}

var origErr = os.Stderr

// silenceStderr points file descriptor 2 at a file in the private directory: caddy's default
// logger (created at package initialisation) and every validated config log there. The file
// goes away with the private directory; after a crash it stays for the post-mortem.
func silenceStderr() {
	if privRoot == "" {
		return
	}
	if fd, err := syscall.Dup(2); err == nil {
		origErr = os.NewFile(uintptr(fd), "stderr")
	}
	f, err := os.OpenFile(filepath.Join(privRoot, "stderr.log"), os.O_CREATE|os.O_WRONLY|os.O_TRUNC|os.O_APPEND, 0o644)
	if err != nil {
		return
	}
	logFile = f
	syscall.Dup3(int(f.Fd()), 2, 0)
	// a validated config may log to stdout (`output stdout`); the harness itself never prints there
	syscall.Dup3(int(f.Fd()), 1, 0)
}

var (
	logFile  *os.File
	logTicks int
)

// trimLog keeps the captured log small.
func trimLog() {
	logTicks++
	if logFile != nil && logTicks%300 == 0 {
		logFile.Truncate(0)
	}
}

func setupEnv() {}

func cleanupEnv() {
	if privRoot != "" {
		caseDone()
		syscall.Dup3(int(origErr.Fd()), 2, 0)
	}
}

func cwdEntries() []string {
	es, err := os.ReadDir(".")
	if err != nil {
		return nil
	}
	var out []string
	for _, e := range es {
		out = append(out, e.Name())
	}
	return out
}

// cleanCwd: a case must not leave files behind that a later `import *` could pick up.
func cleanCwd() {
	trimLog()
	for _, n := range cwdEntries() {
		os.RemoveAll(n)
	}
}
