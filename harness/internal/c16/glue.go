package c16

import (
	"fmt"
	"os"
	"strconv"
	"strings"

	"github.com/caddyserver/caddy/v2/caddyconfig/caddyfile"

	"verif/harness/internal/core"
)

// `env <input> <table>`: the real replaceEnvVars (the `{$NAME:default}` pass that runs on the raw
// bytes before lexing) in a process whose environment is EXACTLY the table; model:
// lean/CaddyModel/C16/ParseGlue.lean. `var <text> <n>`: the real parseVariadic.

type envKV struct{ k, v string }

func parseEnvTable(s string) ([]envKV, bool) {
	if s == "." {
		return nil, true
	}
	var out []envKV
	for _, p := range strings.Split(s, ";") {
		a := strings.Split(p, ":")
		if len(a) != 2 {
			return nil, false
		}
		k, e1 := core.UnHex(a[0])
		v, e2 := core.UnHex(a[1])
		if e1 != nil || e2 != nil || core.Hex(k) != a[0] || core.Hex(v) != a[1] || k == "" || strings.ContainsAny(k, "=\x00") || strings.Contains(v, "\x00") {
			return nil, false
		}
		out = append(out, envKV{k, v})
	}
	return out, true
}

func runEnv(line, inpF, tableF string) core.Outcome {
	inp, err := core.UnHex(inpF)
	table, ok := parseEnvTable(tableF)
	if err != nil || core.Hex(inp) != inpF || !ok {
		return core.Outcome{Impl: "bad-op", Tags: []string{"bad-op", "trivial"}}
	}
	o := core.Outcome{}
	saved := os.Environ()
	os.Clearenv()
	for _, kv := range table {
		os.Setenv(kv.k, kv.v)
	}
	func() {
		defer func() {
			if p := recover(); p != nil {
				o.Impl = "panic"
				o.Failures = append(o.Failures, core.Failure{Case: line, Class: "env-substitution-panic",
					What: fmt.Sprintf("replaceEnvVars panicked: %v; input %q", p, clip(inp, 300))})
			}
		}()
		out := caddyfile.VerifReplaceEnvVars([]byte(inp))
		o.Impl = "ok " + core.Hex(string(out))
		// oracle (implementation alone): same input, same environment → same bytes
		if out2 := caddyfile.VerifReplaceEnvVars([]byte(inp)); string(out2) != string(out) {
			o.Failures = append(o.Failures, core.Failure{Case: line, Class: "env-substitution-nondeterministic", What: "two runs differ"})
		}
		if !strings.Contains(inp, "{$") && string(out) != inp {
			o.Failures = append(o.Failures, core.Failure{Case: line, Class: "env-substitution-changes-plain-text",
				What: fmt.Sprintf("input without {$ changed: %q -> %q", clip(inp, 200), clip(string(out), 200))})
		}
	}()
	os.Clearenv()
	for _, kv := range saved {
		if i := strings.IndexByte(kv, '='); i > 0 {
			os.Setenv(kv[:i], kv[i+1:])
		}
	}
	switch {
	case !strings.Contains(inp, "{$"):
		o.Tags = append(o.Tags, "env:no-span", "trivial")
	case o.Impl == "ok "+core.Hex(inp):
		o.Tags = append(o.Tags, "env:unchanged")
	default:
		o.Tags = append(o.Tags, "env:substituted")
	}
	return o
}

func runVar(line, textF, nF string) core.Outcome {
	text, err := core.UnHex(textF)
	n, err2 := strconv.Atoi(nF)
	if err != nil || core.Hex(text) != textF || err2 != nil || strconv.Itoa(n) != nF || n < 0 || n > 9 {
		return core.Outcome{Impl: "bad-op", Tags: []string{"bad-op", "trivial"}}
	}
	o := core.Outcome{}
	func() {
		defer func() {
			if p := recover(); p != nil {
				o.Impl = "panic"
				o.Failures = append(o.Failures, core.Failure{Case: line, Class: "parse-variadic-panic", What: fmt.Sprint(p)})
			}
		}()
		found, s, e := caddyfile.VerifParseVariadic(text, n)
		if !found {
			o.Impl = "no"
			o.Tags = append(o.Tags, "var:no")
			return
		}
		o.Impl = fmt.Sprintf("yes %d %d", s, e)
		o.Tags = append(o.Tags, "var:yes")
		// oracle: the range doImport slices with must lie inside the arguments
		if s < 0 || s > e || e > n {
			o.Failures = append(o.Failures, core.Failure{Case: line, Class: "variadic-range-out-of-bounds",
				What: fmt.Sprintf("parseVariadic(%q, %d) = %d:%d — args[start:end] would panic", text, n, s, e)})
		}
	}()
	return o
}

var envPieces = []string{"{$", "}", ":", "C16V_A", "C16V_B", "C16V_U", "x", " ", "\n", "{", "$", "{$C16V_A}", "{$C16V_U:dflt}", "{$}", "{$:d}", "{$C16V_A:}",
	"{$C16V_NEST}", "{$C16V_B}", "{$C16V_U}", "é", "{$C16V_C}", "{$C16V_D}", "{$C16V_U:a:b}", "{$C16V_U:{$C16V_A}}", "{${$C16V_A}}", "{$C16V_A", "\"", "{$ }", "}}"}

var envTables = [][]envKV{
	nil,
	{{"C16V_A", "va"}},
	{{"C16V_A", "va"}, {"C16V_B", ""}},
	{{"C16V_A", "va"}, {"C16V_NEST", "{$C16V_A}"}, {"C16V_C", "}"}, {"C16V_D", "x{$"}},
	{{"C16V_D", "{$"}, {"C16V_C", "C16V_A}"}, {"C16V_A", "a much longer value than the placeholder that named it"}},
	{{"C16V_A", "1"}, {"C16V_A", "2"}},
}

func genEnvCase(r *core.Rand) string {
	var sb strings.Builder
	for k := r.Intn(9); k > 0; k-- {
		sb.WriteString(r.Pick(envPieces))
	}
	t := envTables[r.Intn(len(envTables))]
	tf := "."
	if len(t) > 0 {
		var ps []string
		for _, kv := range t {
			ps = append(ps, core.Hex(kv.k)+":"+core.Hex(kv.v))
		}
		tf = strings.Join(ps, ";")
	}
	return "env " + core.Hex(sb.String()) + " " + tf
}

var varIdx = []string{"", "0", "1", "2", "3", "-1", "+1", "9", "10", "x", "00", "-0", "99999999999999999999", "1}", "{1", " 1"}

func genVarCase(r *core.Rand) string {
	var t string
	switch r.Intn(10) {
	case 0:
		t = r.Pick([]string{"{args[]}", "{args[1]}", "{args[:]", "args[:]}", "{args[:]}x", "x{args[:]}", "{args[::]}", "{args[1:2:3]}", "{args[0]}:{args[1]}", "{args[", "]}", "{args[]:]}", ""})
	default:
		t = "{args[" + r.Pick(varIdx) + ":" + r.Pick(varIdx) + "]}"
	}
	return fmt.Sprintf("var %s %d", core.Hex(t), r.Intn(5))
}
