package c16

import (
	"encoding/json"
	"fmt"
	"regexp"
	"strings"

	"github.com/caddyserver/caddy/v2/caddyconfig/httpcaddyfile"

	"verif/harness/internal/core"
)

// `addr <text>`: the exported httpcaddyfile.ParseAddress on ASCII bytes; `lnp <scheme> <port>`:
// the site key [<scheme>://]a.test[:<port>] through the whole adapter, answer = the port of the
// server's listener address. Model: lean/CaddyModel/C16/Addr.lean.

func runAddr(line, tF string) core.Outcome {
	t, err := core.UnHex(tF)
	if err != nil || core.Hex(t) != tF {
		return core.Outcome{Impl: "bad-op", Tags: []string{"bad-op", "trivial"}}
	}
	for i := 0; i < len(t); i++ {
		if t[i] >= 128 {
			return core.Outcome{Impl: "bad-op", Tags: []string{"bad-op", "trivial"}}
		}
	}
	o := core.Outcome{}
	func() {
		defer func() {
			if p := recover(); p != nil {
				o.Impl = "panic"
				o.Failures = append(o.Failures, core.Failure{Case: line, Class: "parse-address-panic", What: fmt.Sprintf("ParseAddress(%q) panicked: %v", t, p)})
			}
		}()
		a, err := httpcaddyfile.ParseAddress(t)
		if err != nil {
			o.Impl = "err"
			o.Tags = append(o.Tags, "addr:err")
			return
		}
		o.Impl = "ok " + core.Hex(a.Scheme) + " " + core.Hex(a.Host) + " " + core.Hex(a.Port) + " " + core.Hex(a.Path)
		switch {
		case a.Scheme != "" && a.Port != "":
			o.Tags = append(o.Tags, "addr:scheme+port")
		case a.Port != "":
			o.Tags = append(o.Tags, "addr:port")
		case a.Path != "":
			o.Tags = append(o.Tags, "addr:path")
		default:
			o.Tags = append(o.Tags, "addr:plain")
		}
	}()
	return o
}

func runNorm(line, tF string) core.Outcome {
	t, err := core.UnHex(tF)
	if err != nil || core.Hex(t) != tF {
		return core.Outcome{Impl: "bad-op", Tags: []string{"bad-op", "trivial"}}
	}
	for i := 0; i < len(t); i++ {
		if t[i] >= 128 {
			return core.Outcome{Impl: "bad-op", Tags: []string{"bad-op", "trivial"}}
		}
	}
	o := core.Outcome{}
	func() {
		defer func() {
			if p := recover(); p != nil {
				o.Impl = "panic"
				o.Failures = append(o.Failures, core.Failure{Case: line, Class: "parse-address-panic", What: fmt.Sprintf("ParseAddress(%q).Normalize() panicked: %v", t, p)})
			}
		}()
		a, err := httpcaddyfile.ParseAddress(t)
		if err != nil {
			o.Impl = "err"
			o.Tags = append(o.Tags, "norm:err")
			return
		}
		if strings.Contains(strings.TrimSpace(a.Host), ":") {
			o.Impl = "v6"
			o.Tags = append(o.Tags, "norm:v6", "trivial")
			return
		}
		n := a.Normalize()
		o.Impl = "ok " + core.Hex(n.Scheme) + " " + core.Hex(n.Host) + " " + core.Hex(n.Port) + " " + core.Hex(n.Path)
		// oracle (implementation alone): normalising again changes nothing
		if n2 := n.Normalize(); n2.Scheme != n.Scheme || n2.Host != n.Host || n2.Port != n.Port || n2.Path != n.Path {
			o.Failures = append(o.Failures, core.Failure{Case: line, Class: "normalize-not-idempotent", What: fmt.Sprintf("%q: %+v then %+v", t, n, n2)})
		}
		if n.Host != a.Host || n.Scheme != a.Scheme {
			o.Tags = append(o.Tags, "norm:changed")
		} else {
			o.Tags = append(o.Tags, "norm:same")
		}
	}()
	return o
}

var hpPathRe = regexp.MustCompile(`^[a-z0-9/*._-]+$`)
var hpMatchRe = regexp.MustCompile(`"match":\[\{"path":\["([^"]*)"\]\}\]`)
var hpStripRe = regexp.MustCompile(`"strip_path_prefix":"([^"]*)"`)

func runHp(line, tF string) core.Outcome {
	t, err := core.UnHex(tF)
	if err != nil || core.Hex(t) != tF || !hpPathRe.MatchString(t) {
		return core.Outcome{Impl: "bad-op", Tags: []string{"bad-op", "trivial"}}
	}
	text := ":8080 {\n\thandle_path " + t + " {\n\t\trespond x\n\t}\n}\n"
	o := core.Outcome{}
	r := checkTotalDet(line, text, &o)
	switch {
	case r.timedOut || r.panicked:
		o.Impl = r.verdict()
	case r.err != nil:
		o.Impl = "rej"
		o.Tags = append(o.Tags, "hp:rejected")
	default:
		m := hpMatchRe.FindSubmatch(r.json)
		st := hpStripRe.FindSubmatch(r.json)
		if m == nil {
			o.Impl = "nomatcher"
			return o
		}
		strip := ""
		if st != nil {
			strip = string(st[1])
		}
		o.Impl = "ok " + core.Hex(string(m[1])) + " " + core.Hex(strip)
		switch {
		case strings.HasSuffix(t, "/*"):
			o.Tags = append(o.Tags, "hp:slash-star")
		case strings.HasSuffix(t, "*"):
			o.Tags = append(o.Tags, "hp:star")
		default:
			o.Tags = append(o.Tags, "hp:exact")
		}
		// oracle (implementation alone): what is stripped is a prefix of what is matched
		if !strings.HasPrefix(string(m[1]), strip) {
			o.Failures = append(o.Failures, core.Failure{Case: line, Class: "handle-path-strips-non-prefix",
				What: fmt.Sprintf("handle_path %s matches %q but strips %q", t, m[1], strip)})
		}
	}
	return o
}

func genNormCase(r *core.Rand) string {
	var sb strings.Builder
	sb.WriteString(r.Pick([]string{"", "", "http://", "HTTPS://", "Http://", "{$S}://", "h{X}P://"}))
	for k := 1 + r.Intn(4); k > 0; k-- {
		sb.WriteString(r.Pick([]string{"A", "b", ".Test", "{$Env_X}", "{env.HOST}", "\\", "{", "}", "\\{", "\\}", "LOCALHOST", "*.", "1.2.3.4", " ", "Z", "{A}B{C", "a}B"}))
	}
	sb.WriteString(r.Pick([]string{"", "", ":80", ":8443", "/Path", "/P/{Q}"}))
	return "norm " + core.Hex(sb.String())
}

func genHpCase(r *core.Rand) string {
	var sb strings.Builder
	sb.WriteString(r.Pick([]string{"/", "/", "/", "", "*"}))
	for k := r.Intn(4); k > 0; k-- {
		sb.WriteString(r.Pick([]string{"api", "a", "/", "*", "/*", "v1", ".", "-", "**", "/x/"}))
	}
	s := sb.String()
	if s == "" {
		s = "/"
	}
	return "hp " + core.Hex(s)
}

var alphaRe = regexp.MustCompile(`^[A-Za-z]*$`)
var digitsRe = regexp.MustCompile(`^[0-9]{0,5}$`)
var portOfRe = regexp.MustCompile(`:(\d+)$`)

func runLnp(line, sF, pF string) core.Outcome {
	sc, e1 := core.UnHex(sF)
	po, e2 := core.UnHex(pF)
	if e1 != nil || e2 != nil || core.Hex(sc) != sF || core.Hex(po) != pF || !alphaRe.MatchString(sc) || !digitsRe.MatchString(po) {
		return core.Outcome{Impl: "bad-op", Tags: []string{"bad-op", "trivial"}}
	}
	key := "a.test"
	if sc != "" {
		key = sc + "://" + key
	}
	if po != "" {
		key += ":" + po
	}
	text := key + " {\n\trespond x\n}\n"
	o := core.Outcome{}
	r := checkTotalDet(line, text, &o)
	switch {
	case r.timedOut || r.panicked:
		o.Impl = r.verdict()
	case r.err != nil:
		o.Impl = "rej"
		o.Tags = append(o.Tags, "lnp:rejected")
	default:
		var cfg struct {
			Apps struct {
				HTTP struct {
					Servers map[string]struct {
						Listen []string `json:"listen"`
					} `json:"servers"`
				} `json:"http"`
			} `json:"apps"`
		}
		json.Unmarshal(r.json, &cfg)
		o.Impl = "noserver"
		for _, s := range cfg.Apps.HTTP.Servers {
			if len(s.Listen) == 1 {
				if m := portOfRe.FindStringSubmatch(s.Listen[0]); m != nil {
					o.Impl = "ok " + m[1]
				}
			}
		}
		o.Tags = append(o.Tags, "lnp:"+strings.ToLower(sc)+"-"+map[bool]string{true: "port", false: "noport"}[po != ""])
	}
	return o
}

var addrPieces = []string{"http", "https", "://", ":", "/", "a.test", "A.Test", "localhost", "[::1]", "[", "]", "::1", "80", "443", "65535", "65536", "-1", "+80", "08", "x", " ", "\t", "*.a.test", "{$X}", "{env.P}", "path", "//", ":/", "1.2.3.4", "99999999999999999999", "@", "?"}

func genAddrCase(r *core.Rand) string {
	var sb strings.Builder
	if r.Chance(2, 3) {
		// [scheme://]host[:port][/path] with odd members
		sb.WriteString(r.Pick([]string{"", "", "http://", "https://", "HTTP://", "ws://", "://", "a://b://"}))
		sb.WriteString(r.Pick([]string{"a.test", "A.Test", "", "localhost", "[::1]", "::1", "[::1", "1.2.3.4", "*.a.test", "{$X}", "a b", "[a]:[b]"}))
		sb.WriteString(r.Pick([]string{"", "", ":80", ":443", ":0", ":65535", ":65536", ":-1", ":+80", ":08", ":x", ":", ":80:90", ":99999999999999999999", ":8080 "}))
		sb.WriteString(r.Pick([]string{"", "", "/", "/path", "/a/b", "//x", "/a://b"}))
		if r.Chance(1, 8) {
			return "addr " + core.Hex(" \t"+sb.String()+"\n ")
		}
		return "addr " + core.Hex(sb.String())
	}
	for k := r.Intn(7); k > 0; k-- {
		sb.WriteString(r.Pick(addrPieces))
	}
	if r.Chance(1, 60) {
		sb.WriteString(strings.Repeat("a", 4090) + ":80")
	}
	return "addr " + core.Hex(sb.String())
}

func genLnpCase(r *core.Rand) string {
	return "lnp " + core.Hex(r.Pick([]string{"", "", "http", "https", "HTTP", "Https", "ws", "wss", "ftp"})) + " " + core.Hex(r.Pick([]string{"", "", "80", "443", "8080", "8443", "1", "65535"}))
}
