package c16

import (
	"encoding/json"
	"fmt"
	"regexp"
	"strings"

	"github.com/caddyserver/caddy/v2/caddyconfig/httpcaddyfile"

	"verif/harness/internal/core"
)

// `addr <text>`: the exported httpcaddyfile.ParseAddress on ASCII bytes; `lnp <scheme> <port>`:
// the site key [<scheme>://]a.test[:<port>] through the whole adapter, answer = the port of the
// server's listener address. Model: lean/CaddyModel/C16/Addr.lean.

func runAddr(line, tF string) core.Outcome {
	t, err := core.UnHex(tF)
	if err != nil || core.Hex(t) != tF {
		return core.Outcome{Impl: "bad-op", Tags: []string{"bad-op", "trivial"}}
	}
	for i := 0; i < len(t); i++ {
		if t[i] >= 128 {
			return core.Outcome{Impl: "bad-op", Tags: []string{"bad-op", "trivial"}}
		}
	}
	o := core.Outcome{}
	func() {
		defer func() {
			if p := recover(); p != nil {
				o.Impl = "panic"
				o.Failures = append(o.Failures, core.Failure{Case: line, Class: "parse-address-panic", What: fmt.Sprintf("ParseAddress(%q) panicked: %v", t, p)})
			}
		}()
		a, err := httpcaddyfile.ParseAddress(t)
		if err != nil {
			o.Impl = "err"
			o.Tags = append(o.Tags, "addr:err")
			return
		}
		o.Impl = "ok " + core.Hex(a.Scheme) + " " + core.Hex(a.Host) + " " + core.Hex(a.Port) + " " + core.Hex(a.Path)
		switch {
		case a.Scheme != "" && a.Port != "":
			o.Tags = append(o.Tags, "addr:scheme+port")
		case a.Port != "":
			o.Tags = append(o.Tags, "addr:port")
		case a.Path != "":
			o.Tags = append(o.Tags, "addr:path")
		default:
			o.Tags = append(o.Tags, "addr:plain")
		}
	}()
	return o
}

var alphaRe = regexp.MustCompile(`^[A-Za-z]*$`)
var digitsRe = regexp.MustCompile(`^[0-9]{0,5}$`)
var portOfRe = regexp.MustCompile(`:(\d+)$`)

func runLnp(line, sF, pF string) core.Outcome {
	sc, e1 := core.UnHex(sF)
	po, e2 := core.UnHex(pF)
	if e1 != nil || e2 != nil || core.Hex(sc) != sF || core.Hex(po) != pF || !alphaRe.MatchString(sc) || !digitsRe.MatchString(po) {
		return core.Outcome{Impl: "bad-op", Tags: []string{"bad-op", "trivial"}}
	}
	key := "a.test"
	if sc != "" {
		key = sc + "://" + key
	}
	if po != "" {
		key += ":" + po
	}
	text := key + " {\n\trespond x\n}\n"
	o := core.Outcome{}
	r := checkTotalDet(line, text, &o)
	switch {
	case r.timedOut || r.panicked:
		o.Impl = r.verdict()
	case r.err != nil:
		o.Impl = "rej"
		o.Tags = append(o.Tags, "lnp:rejected")
	default:
		var cfg struct {
			Apps struct {
				HTTP struct {
					Servers map[string]struct {
						Listen []string `json:"listen"`
					} `json:"servers"`
				} `json:"http"`
			} `json:"apps"`
		}
		json.Unmarshal(r.json, &cfg)
		o.Impl = "noserver"
		for _, s := range cfg.Apps.HTTP.Servers {
			if len(s.Listen) == 1 {
				if m := portOfRe.FindStringSubmatch(s.Listen[0]); m != nil {
					o.Impl = "ok " + m[1]
				}
			}
		}
		o.Tags = append(o.Tags, "lnp:"+strings.ToLower(sc)+"-"+map[bool]string{true: "port", false: "noport"}[po != ""])
	}
	return o
}

var addrPieces = []string{"http", "https", "://", ":", "/", "a.test", "A.Test", "localhost", "[::1]", "[", "]", "::1", "80", "443", "65535", "65536", "-1", "+80", "08", "x", " ", "\t", "*.a.test", "{$X}", "{env.P}", "path", "//", ":/", "1.2.3.4", "99999999999999999999", "@", "?"}

func genAddrCase(r *core.Rand) string {
	var sb strings.Builder
	if r.Chance(2, 3) {
		// [scheme://]host[:port][/path] with odd members
		sb.WriteString(r.Pick([]string{"", "", "http://", "https://", "HTTP://", "ws://", "://", "a://b://"}))
		sb.WriteString(r.Pick([]string{"a.test", "A.Test", "", "localhost", "[::1]", "::1", "[::1", "1.2.3.4", "*.a.test", "{$X}", "a b", "[a]:[b]"}))
		sb.WriteString(r.Pick([]string{"", "", ":80", ":443", ":0", ":65535", ":65536", ":-1", ":+80", ":08", ":x", ":", ":80:90", ":99999999999999999999", ":8080 "}))
		sb.WriteString(r.Pick([]string{"", "", "/", "/path", "/a/b", "//x", "/a://b"}))
		if r.Chance(1, 8) {
			return "addr " + core.Hex(" \t" + sb.String() + "\n ")
		}
		return "addr " + core.Hex(sb.String())
	}
	for k := r.Intn(7); k > 0; k-- {
		sb.WriteString(r.Pick(addrPieces))
	}
	if r.Chance(1, 60) {
		sb.WriteString(strings.Repeat("a", 4090) + ":80")
	}
	return "addr " + core.Hex(sb.String())
}

func genLnpCase(r *core.Rand) string {
	return "lnp " + core.Hex(r.Pick([]string{"", "", "http", "https", "HTTP", "Https", "ws", "wss", "ftp"})) + " " + core.Hex(r.Pick([]string{"", "", "80", "443", "8080", "8443", "1", "65535"}))
}
