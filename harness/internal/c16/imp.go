package c16

import (
	"fmt"
	"os"
	"strconv"
	"strings"

	"github.com/caddyserver/caddy/v2/caddyconfig/caddyfile"

	"verif/harness/internal/core"
)

// op `imp <defs>`: import expansion under the cycle check (parser.doImport + importgraph.go) through the real
// caddyfile.Parse — the function Adapter.Adapt calls first.  <defs> = def;def;…  def 0 = `b=<items>` (the body of
// the site block of the main file), def k>=1 = `s=<items>` (a snippet `(s<k>)` of the main file) | `f=<items>` (the
// file `f<k>.conf` in the working directory).  <items> = `-` | item,item,…  item = `m<N>` (a directive line `m<N>`) |
// `i<K>` (`import s<K>` / `import f<K>.conf`; K past the last def = a file that does not exist).
// Impl = `ok <markers in the order of the expanded site block>` | `cycle` | `missing` — compared with the model
// (lean/CaddyModel/C16/Import.lean: importGraph + the splice).  Oracle: totality (recover + timeout) and, since the
// expansion is a function of the text and the files, the same answer on a second parse.
type impDef struct {
	kind  byte
	items []string
}

func parseImpDefs(s string) ([]impDef, bool) {
	parts := strings.Split(s, ";")
	if len(parts) == 0 || len(parts) > 8 {
		return nil, false
	}
	var defs []impDef
	for k, p := range parts {
		if len(p) < 3 || p[1] != '=' {
			return nil, false
		}
		if (k == 0) != (p[0] == 'b') || (k > 0 && p[0] != 's' && p[0] != 'f') {
			return nil, false
		}
		d := impDef{kind: p[0]}
		if p[2:] != "-" {
			d.items = strings.Split(p[2:], ",")
			if len(d.items) > 6 {
				return nil, false
			}
			for _, it := range d.items {
				if len(it) < 2 || (it[0] != 'm' && it[0] != 'i') {
					return nil, false
				}
				n, err := strconv.Atoi(it[1:])
				if err != nil || strconv.Itoa(n) != it[1:] || n > 99 || (it[0] == 'i' && n == 0) {
					return nil, false
				}
			}
		}
		defs = append(defs, d)
	}
	return defs, true
}

func impBody(defs []impDef, d impDef, indent string) string {
	var sb strings.Builder
	for _, it := range d.items {
		if it[0] == 'm' {
			sb.WriteString(indent + it + "\n")
			continue
		}
		k, _ := strconv.Atoi(it[1:])
		if k < len(defs) && defs[k].kind == 's' {
			fmt.Fprintf(&sb, "%simport s%d\n", indent, k)
		} else {
			fmt.Fprintf(&sb, "%simport f%d.conf\n", indent, k)
		}
	}
	return sb.String()
}

func runImp(line, field string) core.Outcome {
	defs, ok := parseImpDefs(field)
	if !ok {
		return core.Outcome{Impl: "bad-op", Tags: []string{"bad-op", "trivial"}}
	}
	o := core.Outcome{}
	var main strings.Builder
	nImports := 0
	for k, d := range defs {
		for _, it := range d.items {
			if it[0] == 'i' {
				nImports++
			}
		}
		switch d.kind {
		case 's':
			fmt.Fprintf(&main, "(s%d) {\n%s}\n", k, impBody(defs, d, "\t"))
		case 'f':
			if err := os.WriteFile(fmt.Sprintf("f%d.conf", k), []byte(impBody(defs, d, "")), 0o600); err != nil {
				return core.Outcome{Impl: "skipped", Tags: []string{"skipped:cannot-write-fixture", "trivial"}}
			}
		}
	}
	fmt.Fprintf(&main, ":80 {\n%s}\n", impBody(defs, defs[0], "\t"))
	text := main.String()

	parse := func() (string, adaptRes) {
		var ans string
		r := guarded(func() ([]byte, error) {
			blocks, err := caddyfile.Parse("Caddyfile", []byte(text))
			if err != nil {
				switch {
				case strings.Contains(err.Error(), "a cycle of imports exists"):
					ans = "cycle"
				case strings.Contains(err.Error(), "File to import not found"):
					ans = "missing"
				default:
					ans = "err"
				}
				return nil, err
			}
			var ms []string
			if len(blocks) != 1 {
				ans = fmt.Sprintf("blocks:%d", len(blocks))
				return nil, nil
			}
			for _, seg := range blocks[0].Segments {
				if len(seg) != 1 || !strings.HasPrefix(seg[0].Text, "m") {
					ans = "odd-segment"
					return nil, nil
				}
				ms = append(ms, seg[0].Text[1:])
			}
			ans = "ok -"
			if len(ms) > 0 {
				ans = "ok " + strings.Join(ms, ",")
			}
			return nil, nil
		})
		return ans, r
	}
	ans, r := parse()
	switch {
	case r.timedOut:
		o.Impl = "hang"
		o.Tags = append(o.Tags, "imp:hang")
		o.Failures = append(o.Failures, core.Failure{Case: line, Class: "adapter-hang",
			What: fmt.Sprintf("parsing (import expansion) did not terminate within %v; main file %q", adaptTimeout, clip(text, 400))})
		return o
	case r.panicked:
		o.Impl = "panic"
		o.Tags = append(o.Tags, "imp:panic")
		o.Failures = append(o.Failures, core.Failure{Case: line, Class: panicClass(r.panicMsg),
			What: fmt.Sprintf("parser panicked: %s; main file %q", clip(r.panicMsg, 300), clip(text, 400))})
		return o
	}
	o.Impl = ans
	if ans2, r2 := parse(); !r2.timedOut && !r2.panicked && ans2 != ans {
		o.Failures = append(o.Failures, core.Failure{Case: line, Class: "nondeterministic-verdict",
			What: fmt.Sprintf("same text and files parsed twice: %s then %s; main file %q", clip(ans, 200), clip(ans2, 200), clip(text, 400))})
	}
	switch {
	case strings.HasPrefix(ans, "ok"):
		o.Tags = append(o.Tags, "imp:expanded")
		// every token of the expanded block carries the chain of import lines it came through: the longest chain is
		// the nesting depth the cycle check allowed
		if strings.Count(ans, ",") > 40 {
			o.Tags = append(o.Tags, "imp:expanded-over-40-lines")
		}
	default:
		o.Tags = append(o.Tags, "imp:"+ans)
	}
	if nImports == 0 {
		o.Tags = append(o.Tags, "trivial")
	}
	return o
}

// genImpCase: 1-6 definitions with 0-4 items each; imports point anywhere (forward, backward, to themselves, past the
// end), so that chains, diamonds, repeated imports of one file, self-imports and longer cycles through snippets and
// files all occur.
func genImpCase(r *core.Rand) string {
	n := 1 + r.Intn(5)
	if r.Chance(1, 8) {
		n = 6 + r.Intn(3)
	}
	acyclic := r.Chance(1, 3) // imports only point forward: no cycle, real expansion (diamonds, repeats)
	var defs []string
	marker := 1
	for k := 0; k < n; k++ {
		kind := "b"
		if k > 0 {
			kind = r.Pick([]string{"s", "f"})
		}
		var items []string
		cnt := r.Intn(5)
		if k == 0 && cnt == 0 {
			cnt = 1
		}
		for j := 0; j < cnt; j++ {
			if r.Chance(2, 5) || n == 1 && !r.Chance(1, 6) {
				items = append(items, fmt.Sprintf("m%d", marker))
				marker++
				continue
			}
			var t int
			switch {
			case acyclic && k+1 < n:
				t = k + 1 + r.Intn(n-k-1)
			case acyclic:
				items = append(items, fmt.Sprintf("m%d", marker))
				marker++
				continue
			case r.Chance(1, 25):
				t = n + r.Intn(2) // a file that does not exist
			default:
				t = 1 + r.Intn(n)
				if t >= n {
					t = k // itself
				}
				if t == 0 {
					t = 1 + r.Intn(n)
				}
			}
			items = append(items, fmt.Sprintf("i%d", t))
		}
		f := "-"
		if len(items) > 0 {
			f = strings.Join(items, ",")
		}
		defs = append(defs, kind+"="+f)
	}
	return "imp " + strings.Join(defs, ";")
}
