package c16

import (
	"bytes"
	"encoding/json"
	"fmt"
	"regexp"
	"strings"

	"verif/harness/internal/core"
)

// `nr <routes> <site>`: named routes `&(name) { … }` and one site that invokes some of them.
//   <routes> = name=item,item;…    <site> = item,item,…
//   item = h | r | v (a header / respond / vars directive carrying a unique marker) | i:<name> (invoke)
// No model. The cases are held to the property's clauses (totality, 8-fold determinism, validity of
// the output, no directive of the SITE lost). Two upstream bugs that do not break a clause are
// only TAGGED in the histogram (observations, props.d/C16.json): a named route keeps only the
// first handler of a consolidated body, and a route invoked only from another named route is not
// emitted into the server.

var nrNameRe = regexp.MustCompile(`^[a-z]$`)
var invokeRe = regexp.MustCompile(`"handler":"invoke","name":"([^"]+)"`)

func renderNrItems(items []string, ind string, next *int, markers *[]string) (string, bool) {
	var sb strings.Builder
	for _, it := range items {
		switch {
		case it == "h" || it == "r" || it == "v":
			mk := fmt.Sprintf("zq%dqz", *next)
			*next++
			*markers = append(*markers, mk)
			switch it {
			case "h":
				sb.WriteString(ind + "header X-M" + mk + " " + mk + "\n")
			case "r":
				sb.WriteString(ind + "respond " + mk + "\n")
			case "v":
				sb.WriteString(ind + "vars k" + mk + " " + mk + "\n")
			}
		case strings.HasPrefix(it, "i:") && nrNameRe.MatchString(it[2:]):
			sb.WriteString(ind + "invoke " + it[2:] + "\n")
		default:
			return "", false
		}
	}
	return sb.String(), true
}

func runNr(line, routesF, siteF string) core.Outcome {
	bad := core.Outcome{Impl: "bad-op", Tags: []string{"bad-op", "trivial"}}
	type nroute struct {
		name    string
		items   []string
		markers []string
	}
	var routes []*nroute
	next := 0
	var sb strings.Builder
	if routesF != "." {
		for _, rs := range strings.Split(routesF, ";") {
			kv := strings.SplitN(rs, "=", 2)
			if len(kv) != 2 || !nrNameRe.MatchString(kv[0]) || kv[1] == "" {
				return bad
			}
			r := &nroute{name: kv[0], items: strings.Split(kv[1], ",")}
			body, ok := renderNrItems(r.items, "\t", &next, &r.markers)
			if !ok || len(r.items) > 5 {
				return bad
			}
			sb.WriteString("&(" + r.name + ") {\n" + body + "}\n")
			routes = append(routes, r)
		}
	}
	if len(routes) > 5 || siteF == "" {
		return bad
	}
	siteItems := strings.Split(siteF, ",")
	var siteMarkers []string
	body, ok := renderNrItems(siteItems, "\t", &next, &siteMarkers)
	if !ok || len(siteItems) > 5 {
		return bad
	}
	sb.WriteString(":8080 {\n" + body + "}\n")
	text := sb.String()
	o := core.Outcome{Impl: "oracle-only"}
	r := checkTotalDet(line, text, &o)
	if r.timedOut || r.panicked {
		return o
	}
	if r.err != nil {
		o.Tags = append(o.Tags, "nr:rejected")
		return o
	}
	// which named routes does the site reach (first definition of a name wins nothing here: names are unique per case or the adapter decides)
	byName := map[string]*nroute{}
	for _, nr := range routes {
		byName[nr.name] = nr
	}
	reached := map[string]bool{}
	var visit func(items []string)
	visit = func(items []string) {
		for _, it := range items {
			if strings.HasPrefix(it, "i:") {
				n := it[2:]
				if !reached[n] {
					reached[n] = true
					if nr := byName[n]; nr != nil {
						visit(nr.items)
					}
				}
			}
		}
	}
	visit(siteItems)
	chain := false
	for n := range reached {
		if nr := byName[n]; nr != nil {
			for _, it := range nr.items {
				if strings.HasPrefix(it, "i:") {
					chain = true
				}
			}
		}
	}
	switch {
	case len(reached) == 0:
		o.Tags = append(o.Tags, "nr:no-invoke", "trivial")
	case chain:
		o.Tags = append(o.Tags, "nr:invoke-chain")
	default:
		o.Tags = append(o.Tags, "nr:invoke")
	}
	for _, mk := range siteMarkers {
		if !bytes.Contains(r.json, []byte(mk)) {
			o.Failures = append(o.Failures, core.Failure{Case: line, Class: "site-directive-lost",
				What: fmt.Sprintf("a directive of the site (marker %s) is not in the JSON; input %q", mk, clip(text, 500))})
		}
	}
	// every invoke has its route in the server
	var cfg struct {
		Apps struct {
			HTTP struct {
				Servers map[string]struct {
					NamedRoutes map[string]json.RawMessage `json:"named_routes"`
				} `json:"servers"`
			} `json:"http"`
		} `json:"apps"`
	}
	json.Unmarshal(r.json, &cfg)
	emitted := map[string]bool{}
	for _, s := range cfg.Apps.HTTP.Servers {
		for n := range s.NamedRoutes {
			emitted[n] = true
		}
	}
	// directives of reached named routes
	dup := map[string]int{}
	for _, nr := range routes {
		dup[nr.name]++
	}
	for n := range reached {
		nr := byName[n]
		if nr == nil || dup[n] > 1 || !emitted[n] {
			continue // (a route that is not emitted at all is reported below)
		}
		for _, mk := range nr.markers {
			if !bytes.Contains(r.json, []byte(mk)) {
				// an upstream bug outside the property's clauses (the JSON still decodes,
				// provisions and validates): observed, not reported
				o.Tags = append(o.Tags, "nr:observed-named-route-directive-lost")
				break
			}
		}
	}
	for _, s := range cfg.Apps.HTTP.Servers {
		for _, m := range invokeRe.FindAllSubmatch(r.json, -1) {
			if _, ok := s.NamedRoutes[string(m[1])]; !ok {
				// fails only at request time; outside the property's clauses: observed, not reported
				o.Tags = append(o.Tags, "nr:observed-invoke-of-route-not-emitted")
				break
			}
		}
	}
	checkValid(line, text, r.json, false, &o)
	return o
}

func genNrCase(r *core.Rand) string {
	names := []string{"a", "b", "c"}
	n := 1 + r.Intn(3)
	item := func(allowInvoke bool) string {
		if allowInvoke && r.Chance(1, 3) {
			return "i:" + names[r.Intn(n)]
		}
		return r.Pick([]string{"h", "r", "v"})
	}
	var rs []string
	for i := 0; i < n; i++ {
		var its []string
		for k := 1 + r.Intn(3); k > 0; k-- {
			its = append(its, item(true))
		}
		rs = append(rs, names[i]+"="+strings.Join(its, ","))
	}
	var site []string
	site = append(site, "i:"+names[r.Intn(n)])
	for k := r.Intn(3); k > 0; k-- {
		site = append(site, item(true))
	}
	return "nr " + strings.Join(rs, ";") + " " + strings.Join(site, ",")
}
