package c16

import (
	"sort"
	"strings"

	"github.com/caddyserver/caddy/v2/caddyconfig/caddyfile"

	"verif/harness/internal/core"
)

// Corpus-derived grammar. Every shipped adapt input is parsed by the REAL parser (imports and
// snippets expanded) and cut into a shape library:
//
//	global[name]      every instance of a global option, with its block as a tree
//	dirs[name]        every instance of a site-level directive (ordered or not: tls, log, bind,
//	                  handle_errors, … included), with its block as a tree
//	subs[dir][sub]    every instance of a sub-directive seen under directive `dir` in any file
//	keys              every site address line
//
// Files are then RECOMBINED: options / directives drawn across files, each emitted as written,
// without its block, with a subset of its own sub-directives, or with sub-directives pooled
// from other files' instances of the same directive — and deliberately REPEATED inside one
// site with different shapes (bind ± protocols, several tls / log / handle_errors /
// reverse_proxy blocks, default_bind ± block, …). Nothing is hand-written: a directive or
// option that appears in the corpus is reachable in all of its observed shapes.
//
// The values are the corpus's own, so an accepted recombination is held to the FULL validity
// clause (cases go out as `adapt`).

type cnode struct {
	head  []string // rendered tokens of the head line
	kids  []*cnode
	block bool
	src   *csrc
}

type csrc struct {
	matchers map[string]*cnode // named matcher definitions of the source site block
}

type shapeLib struct {
	keys        []string
	global      map[string][]*cnode
	globalNames []string
	dirs        map[string][]*cnode
	dirNames    []string
	subs        map[string]map[string][]*cnode
	named       []*cnode // named-route blocks `&(name) { … }`
}

func renderTok(t caddyfile.Token) string {
	s := t.Text
	if !t.Quoted() && s != "" && !strings.ContainsAny(s, " \t\r\n\"`") {
		return s
	}
	if !strings.Contains(s, "`") {
		return "`" + s + "`"
	}
	return `"` + strings.ReplaceAll(s, `"`, `\"`) + `"`
}

func tokNewline(a, b caddyfile.Token) bool {
	return a.File != b.File || a.Line+a.NumLineBreaks() < b.Line
}

func isOpen(toks []caddyfile.Token, i int) bool {
	return toks[i].Text == "{" && !toks[i].Quoted() && (i+1 == len(toks) || tokNewline(toks[i], toks[i+1]))
}

// buildNodes cuts a token run (the body of a block) into a tree of lines.
func buildNodes(toks []caddyfile.Token, src *csrc, depth int) []*cnode {
	var out []*cnode
	i := 0
	for i < len(toks) {
		n := &cnode{src: src}
		for i < len(toks) {
			t := toks[i]
			if len(n.head) > 0 && isOpen(toks, i) && depth < 8 {
				// find the matching close
				d, j := 1, i+1
				for ; j < len(toks); j++ {
					if isOpen(toks, j) {
						d++
					} else if toks[j].Text == "}" && !toks[j].Quoted() {
						d--
						if d == 0 {
							break
						}
					}
				}
				n.block = true
				if j > i+1 {
					n.kids = buildNodes(toks[i+1:min(j, len(toks))], src, depth+1)
				}
				i = j + 1
				break
			}
			if len(n.head) > 0 && tokNewline(toks[i-1], t) {
				break
			}
			n.head = append(n.head, renderTok(t))
			i++
		}
		if len(n.head) > 0 {
			out = append(out, n)
		}
	}
	return out
}

func buildLib(corpus []corpusFile) *shapeLib {
	lib := &shapeLib{global: map[string][]*cnode{}, dirs: map[string][]*cnode{}, subs: map[string]map[string][]*cnode{}}
	seenKey := map[string]bool{}
	var collectSubs func(n *cnode)
	collectSubs = func(n *cnode) {
		p := n.head[0]
		for _, k := range n.kids {
			if lib.subs[p] == nil {
				lib.subs[p] = map[string][]*cnode{}
			}
			lib.subs[p][k.head[0]] = append(lib.subs[p][k.head[0]], k)
			collectSubs(k)
		}
	}
	for _, cf := range corpus {
		blocks, err := safeParse(cf.text)
		if err != nil {
			continue
		}
		for _, b := range blocks {
			src := &csrc{matchers: map[string]*cnode{}}
			var nodes []*cnode
			for _, seg := range b.Segments {
				nodes = append(nodes, buildNodes(seg, src, 0)...)
			}
			switch {
			case len(b.Keys) == 0:
				for _, n := range nodes {
					lib.global[n.head[0]] = append(lib.global[n.head[0]], n)
					collectSubs(n)
				}
			case strings.HasPrefix(b.Keys[0].Text, "&("):
				lib.named = append(lib.named, &cnode{head: []string{b.Keys[0].Text}, block: true, kids: nodes})
			default:
				var ks []string
				for _, k := range b.Keys {
					ks = append(ks, renderTok(k))
				}
				key := strings.Join(ks, ", ")
				if !seenKey[key] {
					seenKey[key] = true
					lib.keys = append(lib.keys, key)
				}
				for _, n := range nodes {
					if strings.HasPrefix(n.head[0], "@") {
						src.matchers[n.head[0]] = n
						continue
					}
					lib.dirs[n.head[0]] = append(lib.dirs[n.head[0]], n)
					collectSubs(n)
				}
			}
		}
	}
	for k := range lib.global {
		lib.globalNames = append(lib.globalNames, k)
	}
	for k := range lib.dirs {
		lib.dirNames = append(lib.dirNames, k)
	}
	sort.Strings(lib.globalNames)
	sort.Strings(lib.dirNames)
	return lib
}

// variant returns a reshaped copy of n.
func (lib *shapeLib) variant(r *core.Rand, n *cnode, depth int) *cnode {
	c := &cnode{head: n.head, block: n.block, src: n.src}
	pool := lib.subs[n.head[0]]
	pooled := func() []*cnode {
		var names []string
		for k := range pool {
			names = append(names, k)
		}
		sort.Strings(names)
		var out []*cnode
		for _, k := range names {
			if r.Chance(1, 3) && len(out) < 5 {
				out = append(out, pool[k][r.Intn(len(pool[k]))])
			}
		}
		return out
	}
	choice := r.Intn(20)
	switch {
	case depth > 2 || choice < 7: // as written
		c.kids = n.kids
	case choice < 10: // without its block
		c.block, c.kids = false, nil
	case choice < 14: // a subset of its own sub-directives
		for _, k := range n.kids {
			if r.Chance(1, 2) {
				c.kids = append(c.kids, k)
			}
		}
		if len(c.kids) == 0 && r.Chance(1, 2) {
			c.block = false
		}
	default: // sub-directives pooled from every instance of this directive in any file
		c.kids = pooled()
		c.block = len(c.kids) > 0 || (n.block && r.Chance(1, 2))
	}
	if len(c.kids) > 0 && r.Chance(1, 4) {
		ks := make([]*cnode, len(c.kids))
		for i, k := range c.kids {
			ks[i] = k
			if r.Chance(1, 2) {
				ks[i] = lib.variant(r, k, depth+1)
			}
		}
		c.kids = ks
	}
	return c
}

func renderC(sb *strings.Builder, n *cnode, ind string) {
	sb.WriteString(ind + strings.Join(n.head, " "))
	if !n.block {
		sb.WriteString("\n")
		return
	}
	sb.WriteString(" {\n")
	for _, k := range n.kids {
		renderC(sb, k, ind+"\t")
	}
	sb.WriteString(ind + "}\n")
}

// usedMatchers collects the named matchers a node refers to.
func usedMatchers(n *cnode, into map[string]*cnode) {
	if n.src != nil {
		for _, t := range n.head[1:] {
			if d, ok := n.src.matchers[t]; ok {
				if _, dup := into[t]; !dup {
					into[t] = d
				}
			}
		}
	}
	for _, k := range n.kids {
		usedMatchers(k, into)
	}
}

// pickRepeated draws 1-3 differently shaped instances of ONE name from a pool.
func (lib *shapeLib) pickRepeated(r *core.Rand, pool []*cnode) []*cnode {
	k := 1
	if r.Chance(1, 3) {
		k = 2 + r.Intn(2)
	}
	var out []*cnode
	for ; k > 0; k-- {
		out = append(out, lib.variant(r, pool[r.Intn(len(pool))], 0))
	}
	return out
}

func (lib *shapeLib) genFile(r *core.Rand) string {
	var sb strings.Builder
	if len(lib.globalNames) > 0 && r.Chance(1, 2) {
		sb.WriteString("{\n")
		for k := 1 + r.Intn(4); k > 0; k-- {
			name := lib.globalNames[r.Intn(len(lib.globalNames))]
			for _, n := range lib.pickRepeated(r, lib.global[name]) {
				renderC(&sb, n, "\t")
			}
		}
		sb.WriteString("}\n")
	}
	if len(lib.named) > 0 && r.Chance(1, 12) {
		renderC(&sb, lib.named[r.Intn(len(lib.named))], "")
	}
	ns := 1
	if r.Chance(1, 4) {
		ns += 1 + r.Intn(2)
	}
	used := map[string]bool{}
	for s := 0; s < ns && len(lib.keys) > 0 && len(lib.dirNames) > 0; s++ {
		key := lib.keys[r.Intn(len(lib.keys))]
		if used[key] {
			continue
		}
		used[key] = true
		var body []*cnode
		for k := r.Intn(6); k >= 0; k-- {
			name := lib.dirNames[r.Intn(len(lib.dirNames))]
			body = append(body, lib.pickRepeated(r, lib.dirs[name])...)
		}
		defs := map[string]*cnode{}
		for _, n := range body {
			usedMatchers(n, defs)
		}
		var names []string
		for k := range defs {
			names = append(names, k)
		}
		sort.Strings(names)
		sb.WriteString(key + " {\n")
		for _, k := range names {
			renderC(&sb, defs[k], "\t")
		}
		for _, n := range body {
			renderC(&sb, n, "\t")
		}
		sb.WriteString("}\n")
	}
	return sb.String()
}
