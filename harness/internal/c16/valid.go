package c16

import (
	"regexp"
	"strings"
)

// classifyInvalid turns a decode/provision failure of the adapter's output into a narrow
// class. env=true: the failure is about the sandbox (a file or host the input names does
// not exist here), not about the adapter's output language; those are tagged, not reported.

var envPatterns = []string{
	"no such file or directory",
	"no such host",
	"connection refused",
	"permission denied",
	"network is unreachable",
	"i/o timeout",
	"is a directory",
	"not a directory",
	"server misbehaving",
	"lookup ",
	"dial tcp",
	"dial unix",
	"dial udp",
	"cannot assign requested address",
	"file name too long",
}

var (
	quotedRe = regexp.MustCompile("'[^']*'|\"[^\"]*\"|`[^`]*`")
	numRe    = regexp.MustCompile(`[0-9]+`)
	spaceRe  = regexp.MustCompile(`\s+`)
)

func classifyInvalid(v validRes) (cls string, env bool) {
	m := v.msg
	for _, p := range envPatterns {
		if strings.Contains(m, p) {
			return strings.ReplaceAll(strings.TrimSpace(p), " ", "-"), true
		}
	}
	return v.stage + ":" + signature(m), false
}

// signature: the message with every quoted string, number and input-derived fragment removed.
func signature(m string) string {
	m = quotedRe.ReplaceAllString(m, "_")
	m = numRe.ReplaceAllString(m, "N")
	m = spaceRe.ReplaceAllString(m, " ")
	if len(m) > 160 {
		m = m[:160]
	}
	return m
}
