package c16

import (
	"regexp"
	"strings"
)

// classifyInvalid turns a decode/provision failure of the adapter's output into a narrow
// class. env=true: the failure is about the sandbox (a file or host the input names does
// not exist here), not about the adapter's output language; those are tagged, not reported.

var envPatterns = []string{
	"no such file or directory",
	"no such host",
	"connection refused",
	"permission denied",
	"network is unreachable",
	"i/o timeout",
	"is a directory",
	"not a directory",
	"server misbehaving",
	"lookup ",
	"dial tcp",
	"dial unix",
	"dial udp",
	"cannot assign requested address",
	"file name too long",
}

var (
	quotedRe = regexp.MustCompile("'[^']*'|\"[^\"]*\"|`[^`]*`")
	numRe    = regexp.MustCompile(`[0-9]+`)
)

// structuralPatterns: the output is not in Caddy's config language at all (strict decoding,
// module lookup, JSON typing) — never excusable by the input's values.
var structuralPatterns = []string{
	"unknown module", "module not registered", "decoding module config", "json: unknown field", "json: cannot unmarshal",
	"json: invalid", "unexpected end of JSON input", "unrecognized module", "is not a caddy",
}

// JSON syntax errors ("invalid character 'x' looking for beginning of value")
var jsonSyntaxRe = regexp.MustCompile(`invalid character '.{1,8}' (looking for|after|in (string|numeric|literal))`)

// a namespaced module id after provision/validate (app-level steps such as "provision http"
// are not counted: apps are provisioned in map order, so they come and go in the chain)
var provRe = regexp.MustCompile(`(?:provision|validate) ([a-z0-9_]+\.[a-z0-9_.]+): `)

// classifyInvalid returns the failure class and its kind:
//
//	"env"        the sandbox lacks a file / host / environment variable the input names
//	"structural" the JSON is outside the config language (strict decode, unknown module/field, panic)
//	"semantic"   a module's own Provision/Validate rejected a value the adapter passed through
func classifyInvalid(v validRes, input string) (cls string, kind string) {
	m := v.msg
	if v.stage == "decode" || v.stage == "panic" || v.stage == "hang" {
		return "structural:" + v.stage + ":" + signature(m, 8), "structural"
	}
	for _, p := range structuralPatterns {
		if strings.Contains(m, p) {
			return "structural:" + signature(m[strings.Index(m, p):], 8), "structural"
		}
	}
	if loc := jsonSyntaxRe.FindStringIndex(m); loc != nil {
		return "structural:json-syntax", "structural"
	}
	for _, p := range envPatterns {
		if strings.Contains(m, p) {
			return strings.ReplaceAll(strings.TrimSpace(p), " ", "-"), "env"
		}
	}
	if strings.Contains(m, "evaluated placeholder {env.") && strings.Contains(m, "is empty") {
		return "unset-env-placeholder", "env"
	}
	// the innermost namespaced module id of the chain ("provision http.matchers.x: " or the
	// module's own "http.handlers.encode: " prefix) and what follows it
	mod, tail := "-", m
	if loc := modRe.FindAllStringSubmatchIndex(m, -1); len(loc) > 0 {
		l := loc[len(loc)-1]
		mod, tail = m[l[2]:l[3]], m[l[1]:]
	}
	return "semantic:" + mod + ":" + headTail(blankInputWords(tail, input)), "semantic"
}

var modRe = regexp.MustCompile(`(?:^|[ :])(?:provision |validate )?((?:http|tls|caddy|pki|events|admin|logging)\.[a-z0-9_]+(?:\.[a-z0-9_]+)*): `)

// blankInputWords replaces every word of the message that is a token of the input text by "_",
// so that the class does not depend on the values the input happens to use.
func blankInputWords(m, input string) string {
	toks := map[string]bool{}
	for _, t := range strings.Fields(input) {
		toks[t] = true
		toks[strings.Trim(t, "\"`'")] = true
	}
	w := strings.Fields(m)
	for i, x := range w {
		core := strings.Trim(x, "\"`'.,;:()[]")
		if len(core) >= 3 && toks[core] && !proseWords[core] {
			w[i] = strings.Replace(x, core, "_", 1)
		}
	}
	return strings.Join(w, " ")
}

// words of the messages' own prose that also occur as Caddyfile tokens
var proseWords = func() map[string]bool {
	m := map[string]bool{}
	for _, w := range strings.Fields(`the and not are been was for with without its this that must cannot can each one other both when but found has have only all any more than
		include exclude list lists element invalid configuration policy module default check enabled disabled error status header path match matcher handler route server listener
		protocols address count does duplicate duplicated input mapping encoding prefer destinations defaults tls http https automation permission certificate authority challenge
		provider configured second never used will acts log logs output format level name names`) {
		m[w] = true
	}
	return m
}()

var wrapperRe = regexp.MustCompile(`^(getting|loading|provisioning|setting up|building|configuring|position|provision|validate|server|route|module name|listener|connection policy) [^:]*: `)

// headTail: the normalised message without its leading "doing X: " wrappers, first 6 words,
// first line only.
func headTail(m string) string {
	if k := strings.IndexByte(m, '\n'); k >= 0 {
		m = m[:k]
	}
	for {
		loc := wrapperRe.FindStringIndex(m)
		if loc == nil {
			break
		}
		m = m[loc[1]:]
	}
	return signature(m, 6)
}

// signature: the first n words of the message with every quoted string, number and
// input-derived fragment removed.
func signature(m string, n int) string {
	m = quotedRe.ReplaceAllString(m, "_")
	m = numRe.ReplaceAllString(m, "N")
	w := strings.Fields(m)
	if len(w) > n {
		w = w[:n]
	}
	return strings.Join(w, "-")
}
