/-
drv — the executable model. Reads protocol lines `<property-id> <op> <fields…>` from
stdin and prints one canonical answer line per input line. Core-only (no Mathlib).
`drv --witnesses <id>` prints the counter-example lines proved in `<id>/Witness.lean`.
-/
import CaddyModel.C18.Driver

open CaddyModel

def dispatch (line : String) : String :=
  match fields line with
  | "C18" :: rest => C18.handle rest
  | _ => "bad-op"

def witnesses : String → List String
  | _ => []

partial def loop (h : IO.FS.Stream) (out : IO.FS.Stream) : IO Unit := do
  let line ← h.getLine
  if line.isEmpty then return ()
  out.putStrLn (dispatch (line.trimAsciiEnd.toString))
  loop h out

def main (args : List String) : IO Unit := do
  match args with
  | ["--witnesses", id] => for w in witnesses id do IO.println w
  | _ =>
    let out ← IO.getStdout
    loop (← IO.getStdin) out
    out.flush
