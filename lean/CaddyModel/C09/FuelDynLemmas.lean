/-
C09 — the proxy loop of a handler with dynamic upstreams (`Sched.advanceDyn`) never runs out of
fuel either: every step of an iteration (new holder, provisioning, selection, dispatch, a refused
dial, the release at the end) is enabled, and an iteration that goes round again has incremented
`retries`.
-/
import CaddyModel.C09.IterLemmas

namespace CaddyModel.C09

/-- holder `h` is alive and belongs to the loop iteration of request `r` -/
def HolderOK (s : State) (h : CfgId) (r : Nat) : Prop :=
  ∃ cs : CfgSt, s.cfgs[h]? = some cs ∧ cs.canceled = false ∧ cs.owner = some r

theorem store_ok {s : State} {h : CfgId} {r : Nat} (k : Key) (H : HolderOK s h r) :
    ∃ s1, step s (.store h k) = some s1 ∧ s1.reqs = s.reqs ∧ HolderOK s1 h r := by
  obtain ⟨cs, hcs, hnc, how⟩ := H
  simp only [step, stepStore, hcs, hnc]
  cases hp : s.pool k with
  | none => exact ⟨_, rfl, rfl, ⟨_, get_set_self hcs, rfl, how⟩⟩
  | some v => exact ⟨_, rfl, rfl, ⟨_, get_set_self hcs, rfl, how⟩⟩

theorem stores_ok {s : State} {h : CfgId} {r : Nat} (ks : List Key) (H : HolderOK s h r) :
    ∃ s1, stores s h ks = some s1 ∧ s1.reqs = s.reqs ∧ HolderOK s1 h r := by
  induction ks generalizing s with
  | nil => exact ⟨s, rfl, rfl, H⟩
  | cons k ks ih =>
    obtain ⟨s', h1, h2, h3⟩ := store_ok k H
    obtain ⟨s1, g1, g2, g3⟩ := ih h3
    exact ⟨s1, by simp only [stores, h1, g1], by rw [g2, h2], g3⟩

theorem delete_ok {s : State} {h : CfgId} (k : Key) (H : ∃ cs : CfgSt, s.cfgs[h]? = some cs ∧ cs.canceled = true) :
    ∃ s', step s (.delete h k) = some s' ∧ s'.reqs = s.reqs ∧ ∃ cs : CfgSt, s'.cfgs[h]? = some cs ∧ cs.canceled = true := by
  obtain ⟨cs, hcs, hc⟩ := H
  simp only [step, stepDelete_spec, hcs, hc, if_true]
  cases hh : cs.held.contains k with
  | false => exact ⟨_, rfl, rfl, cs, hcs, hc⟩
  | true => exact ⟨_, rfl, rfl, _, get_set_self hcs, rfl⟩

theorem deletes_ok {s : State} {h : CfgId} (ks : List Key) (H : ∃ cs : CfgSt, s.cfgs[h]? = some cs ∧ cs.canceled = true) :
    ∃ s', deletes s h ks = some s' ∧ s'.reqs = s.reqs := by
  induction ks generalizing s with
  | nil => exact ⟨s, rfl, rfl⟩
  | cons k ks ih =>
    obtain ⟨s1, h1, h2, h3⟩ := delete_ok k H
    obtain ⟨s', g1, g2⟩ := ih h3
    exact ⟨s', by simp only [deletes, h1, g1], by rw [g2, h2]⟩

/-- the iteration returns: its holder can be ended because the request is between iterations -/
theorem unload_ok {s : State} {h : CfgId} {r : Nat} (ks : List Key) (H : HolderOK s h r)
    (hidle : ∀ q, s.reqs[r]? = some q → q.pc.hostOf = none) :
    ∃ s', unload s h ks = some s' ∧ s'.reqs = s.reqs := by
  obtain ⟨cs, hcs, hnc, how⟩ := H
  have hi : ownerIdle s cs = true := by
    simp only [ownerIdle, how]
    cases hq : s.reqs[r]? with
    | none => rfl
    | some q => simp [hidle q hq]
  have hc : step s (.cancel h) = some { s with cfgs := s.cfgs.set h { cs with canceled := true } } := by
    simp only [step, stepCancel, hcs, hi, if_true]
  obtain ⟨s', h1, h2⟩ := deletes_ok (s := { s with cfgs := s.cfgs.set h { cs with canceled := true } }) ks
    ⟨_, get_set_self hcs, rfl⟩
  exact ⟨s', by simp only [unload, hc, h1], h2⟩

theorem newIter_ok {s : State} {r : Nat} {q : Req} (hq : s.reqs[r]? = some q) (hpc : q.pc = .start)
    (hdyn : q.par.dynamic = true) :
    ∃ s0 q', step s (.newIter r) = some s0 ∧ s0.reqs[r]? = some q' ∧ q'.pc = .start ∧ q'.par = q.par ∧
      q'.retries = q.retries ∧ q'.cfg = q.cfg ∧ q'.holder = some s.cfgs.length ∧ HolderOK s0 s.cfgs.length r := by
  refine ⟨{ s with cfgs := s.cfgs ++ [{ par := q.par, ups := [], held := [], canceled := false, owner := some r }],
                   reqs := s.reqs.set r { q with holder := some s.cfgs.length } },
          { q with holder := some s.cfgs.length }, ?_, get_set_self hq, hpc, rfl, rfl, rfl, rfl,
          ⟨{ par := q.par, ups := [], held := [], canceled := false, owner := some r }, by simp, rfl, rfl⟩⟩
  show stepNewIter s r = some _
  unfold stepNewIter
  rw [hq]
  simp only []
  split
  · simp [hdyn]
  · simp_all

theorem dispatchDyn_ok {s : State} {r : Nat} {q : Req} (h : HostId) (hq : s.reqs[r]? = some q) (hpc : q.pc = .start)
    (hok : dynOk s r q h = true) :
    ∃ s1 q1, step s (.dispatch r h) = some s1 ∧ s1.cfgs = s.cfgs ∧ s1.reqs[r]? = some q1 ∧ q1.pc = .sending h ∧
      q1.par = q.par ∧ q1.retries = q.retries ∧ q1.cfg = q.cfg := by
  refine ⟨{ s with reqs := s.reqs.set r { q with pc := .sending h, incs := q.incs + 1 },
                   inflight := upd s.inflight h (s.inflight h + 1) },
          { q with pc := .sending h, incs := q.incs + 1 }, ?_, rfl, get_set_self hq, rfl, rfl, rfl, rfl⟩
  show stepDispatch s r h = some _
  unfold stepDispatch
  rw [hq]
  simp only []
  split
  · simp [hok]
  · simp_all

theorem decidedFrom_idle {s : State} {r : Nat} {q : Req} (hd : DecidedFrom s r q) :
    ∀ q', s.reqs[r]? = some q' → q'.pc.hostOf = none := by
  obtain ⟨q0, e, c, hq, _⟩ := hd
  intro q' hq'
  rw [hq] at hq'; simp at hq'; subst hq'; simp

theorem decidedFrom_reqs {s s' : State} {r : Nat} {q : Req} (hd : DecidedFrom s r q) (h : s'.reqs = s.reqs) :
    DecidedFrom s' r q := by
  obtain ⟨q0, e, c, hq, h1, h2, h3, h4⟩ := hd
  exact ⟨q0, e, c, by rw [h]; exact hq, h1, h2, h3, h4⟩

/-- **advanceDyn_never_runs_out_of_fuel** -/
theorem advanceDyn_never_runs_out_of_fuel (fuel : Nat) (d : DState) (r : Nat) (q : Req)
    (hq : d.s.reqs[r]? = some q) (hpc : q.pc = .start) (hdyn : q.par.dynamic = true)
    (hf : q.par.retries - q.retries + 1 ≤ fuel) : (advanceDyn fuel d r).isSome = true := by
  induction fuel generalizing d q with
  | zero => omega
  | succ fuel ih =>
    obtain ⟨s0, q', h0, hq0, hpc', hpar', hrt', _, hhold, H0⟩ := newIter_ok hq hpc hdyn
    obtain ⟨s1, hst, hr1, ⟨cs1, hcs1, hnc1, how1⟩⟩ := stores_ok (keysOf d q.cfg) H0
    have hq1 : s1.reqs[r]? = some q' := by rw [hr1]; exact hq0
    have hdyn' : q'.par.dynamic = true := by rw [hpar']; exact hdyn
    simp only [advanceDyn, hq, h0, hst, hcs1]
    split
    next hsel =>
      -- nothing available: noUpstream, release, maybe again
      obtain ⟨s2, h2, hc2, hd2⟩ := noUpstream_ok hq1 hpc'
      simp only [h2]
      obtain ⟨s3, h3, hr3⟩ := unload_ok (s := s2) (keysOf d q.cfg) ⟨cs1, by rw [hc2]; exact hcs1, hnc1, how1⟩
        (decidedFrom_idle hd2)
      simp only [h3]
      split
      · rfl
      next hnd =>
        have hnd' : isDone s3 r = false := by simpa using hnd
        obtain ⟨q1, hq1', hp1, hpar, _, hrt, hlt, _⟩ := isDone_false_start (decidedFrom_reqs hd2 hr3) hnd'
        exact ih (withIter d s3 r d.s.cfgs.length (keysOf d q.cfg)) q1 hq1' hp1 (by rw [hpar]; exact hdyn')
          (by rw [hpar, hrt, hpar', hrt']; rw [hpar', hrt'] at hlt; omega)
    next u hsel =>
      have hu : u ∈ cs1.ups := firstAvailableFrom_mem hsel
      have hok : dynOk s1 r q' u.2 = true := by
        simp only [dynOk, hdyn', if_true, hhold, hcs1, hnc1, how1]
        simp only [Bool.not_false, Bool.true_and, beq_self_eq_true, List.any_eq_true]
        exact ⟨u, hu, by simp⟩
      obtain ⟨s2, q2, h2, hc2, hq2, hp2, hpar2, hrt2, _⟩ := dispatchDyn_ok u.2 hq1 hpc' hok
      split
      · -- the dial info cannot be filled in: the iteration returns at once and releases
        have hb : step s1 (.dialInfoFails r) = some { s1 with reqs := s1.reqs.set r { q' with pc := .done } } := by
          show stepDialInfoFails s1 r = some _
          unfold stepDialInfoFails
          rw [hq1]
          simp only []
          split
          · rfl
          · simp_all
        simp only [hb]
        obtain ⟨s4, h4, _⟩ := unload_ok (s := { s1 with reqs := s1.reqs.set r { q' with pc := .done } }) (r := r)
          (keysOf d q.cfg) ⟨cs1, hcs1, hnc1, how1⟩
          (by intro x hx
              have : ({ s1 with reqs := s1.reqs.set r { q' with pc := Pc.done } } : State).reqs[r]? = some { q' with pc := Pc.done } :=
                get_set_self hq1
              rw [this] at hx; simp at hx; subst hx; rfl)
        simp only [h4]; rfl
      · simp only [h2]
        split
        · -- the dial is refused  : the attempt ends, release, maybe again
          obtain ⟨s3, h3, hc3, hd3⟩ := endAttempt_fail_ok (out := .dialRefused) hq2 hp2 rfl
          simp only [h3]
          obtain ⟨s4, h4, hr4⟩ := unload_ok (s := s3) (keysOf d q.cfg)
            ⟨cs1, by rw [hc3, hc2]; exact hcs1, hnc1, how1⟩ (decidedFrom_idle hd3)
          simp only [h4]
          split
          · rfl
          next hnd =>
            have hnd' : isDone s4 r = false := by simpa using hnd
            obtain ⟨q1, hq1', hp1, hpar, _, hrt, hlt, _⟩ := isDone_false_start (decidedFrom_reqs hd3 hr4) hnd'
            exact ih (withIter d s4 r d.s.cfgs.length (keysOf d q.cfg)) q1 hq1' hp1
              (by rw [hpar, hpar2]; exact hdyn')
              (by rw [hpar, hrt, hpar2, hrt2, hpar', hrt']; rw [hpar2, hrt2, hpar', hrt'] at hlt; omega)
        · rfl

end CaddyModel.C09
