/-
C09 — model of the code that exists: upstream in-flight / failure accounting of reverse_proxy.

A labelled transition system whose atomic steps are the atomic instructions / lock regions of
  modules/caddyhttp/reverseproxy/reverseproxy.go  (proxy loop 450-475, proxyLoopIteration 491-597,
                                                   reverseProxy 829-833 & 915-929, tryAgain 1124-1187,
                                                   Cleanup 392-401, provisionUpstream 1205-1231)
  modules/caddyhttp/reverseproxy/healthchecks.go  (countFailure 587-640)
  modules/caddyhttp/reverseproxy/hosts.go         (fillHost 126-133, countRequest/countFail 166-184,
                                                   Healthy/Full/Available 76-98, `hosts` pool 269)
  usagepool.go                                    (LoadOrStore, Delete)

Requests, forgetter goroutines and configurations are anonymous tokens kept in lists (Petri-net
style, DESIGN §4 C04 "Proof engineering"): a step rewrites one list element or appends one, and
every counter of the Go code is compared with a sum over those lists.  Core Lean only.
-/
namespace CaddyModel.C09

abbrev Key := Nat      -- an upstream dial address (the key of the `hosts` pool)
abbrev HostId := Nat   -- one allocated *Host object
abbrev CfgId := Nat    -- one provisioned reverse_proxy handler (= one configuration generation)

/-- how one attempt (one call of `reverseProxy`) ends -/
inductive Outcome
  | ok            -- round trip and response copy succeeded (returns nil)
  | dialRefused   -- RoundTrip returned a DialError
  | upstreamErr   -- RoundTrip returned any other error (reset, EOF, hang-up before the header, timeout)
  | clientAbort   -- RoundTrip returned context.Canceled
  | handlerErr    -- a handle_response route returned an error (roundtripSucceededError)
  | panic         -- a response handler panicked / the body copy failed (panic(http.ErrAbortHandler))
  deriving DecidableEq, Repr

/-- reverseproxy.go:574-589 — the results of `reverseProxy` that reach `h.countFailure(upstream)` -/
def Outcome.countable : Outcome → Bool
  | .dialRefused => true
  | .upstreamErr => true
  | _ => false

/-- what `proxyErr` holds when `tryAgain` looks at it -/
inductive ErrKind
  | none | dial | noUpstream | other
  deriving DecidableEq, Repr

def Outcome.errKind : Outcome → ErrKind
  | .dialRefused => .dial
  | _ => .other

/-- program counter of one request inside `Handler.ServeHTTP` -/
inductive Pc
  | start                              -- top of the proxy loop, before `Select`
  | sending (h : HostId)               -- after `countRequest(1)`; the deferred `countRequest(-1)` is pending
  | strikeInc (h : HostId)             -- still in flight; `countFail(1)` done for a bad status, `go` not yet executed
  | exited (h : HostId) (o : Outcome)  -- `reverseProxy` returned or unwound; `countRequest(-1)` done
  | failInc (h : HostId)               -- `countFail(1)` done after a failed attempt, `go` not yet executed
  | done
  deriving DecidableEq, Repr

/-- is the request between `countRequest(1)` and `countRequest(-1)` on host `o`? -/
def Pc.inFlightOn (o : HostId) : Pc → Bool
  | .sending h => h == o
  | .strikeInc h => h == o
  | _ => false

/-- is the request between `countFail(1)` and the `go` statement on host `o`? -/
def Pc.spawningOn (o : HostId) : Pc → Bool
  | .strikeInc h => h == o
  | .failInc h => h == o
  | _ => false

/-- the handler's parameters after `Provision` -/
structure Params where
  passive  : Bool   -- health_checks.passive present
  failDur  : Nat    -- fail_duration in ticks; 0 = failures are not counted
  maxFails : Nat    -- max_fails (Provision turns 0 into 1)
  retries  : Nat    -- load_balancing.retries (try_duration = 0, try_interval = 0)
  maxReq   : Nat    -- unhealthy_request_count → Upstream.MaxRequests of upstreams without their own (0 = unlimited)
  firstMax : Nat    -- `max_requests` of the first configured upstream (0 = not set)
  badStatus : List Nat  -- passive unhealthy_status entries (a value < 100 is a class: 5 = 5xx)
  latency  : Bool   -- passive unhealthy_latency configured (a round trip at least that long is a strike)
  closeStreams : Bool  -- stream_close_delay unset (the default): Cleanup closes upgraded connections at once
  aOn      : Bool   -- active health checks enabled (health_checks.active with a uri)
  aPasses  : Nat    -- active `passes` threshold (Provision turns < 1 into 1)
  aFails   : Nat    -- active `fails` threshold (Provision turns < 1 into 1)
  dynamic  : Bool   -- the upstreams come from a dynamic source (`dynamic_upstreams`): they are provisioned and
                    -- released by every loop iteration, which then is a pool holder of its own (see `CfgSt`)
  aExpect  : Nat := 0      -- active `expect_status` (0 = not set: any 2xx passes; < 100 = a class)
  aBody    : Bool := false -- active `expect_body` set (the correspondence uses the regular expression `^UP`)
  aMax     : Nat := 0      -- active `max_size`: how much of the answer's body is read (0 = all of it)
  aHdr     : Bool := false -- active `headers` carries the header the scripted health endpoint may insist on
  deriving DecidableEq, Repr

/-- healthchecks.go:590-596 — does `countFailure` do anything? -/
def Params.counting (p : Params) : Bool := p.passive && p.failDur != 0

structure Req where
  cfg     : CfgId
  par     : Params
  isGet   : Bool
  retries : Nat
  lastErr : ErrKind
  pc      : Pc
  incs    : Nat                       -- ghost: number of `countRequest(1)` executed
  hist    : List (HostId × Outcome)   -- ghost: every finished attempt
  holder  : Option CfgId := none      -- dynamic upstreams: the holder of the current loop iteration
  deriving Repr

inductive FSt
  | counted    -- `countFail(1)` executed, goroutine not yet started
  | waiting    -- goroutine blocked in `select { <-h.ctx.Done() | <-timer.C }`
  | forgotten  -- `countFail(-1)` executed
  deriving DecidableEq, Repr

/-- one counted failure = one forgetter goroutine's life -/
structure Fail where
  host : HostId
  cfg  : CfgId
  t0   : Nat
  dur  : Nat
  src  : Option Outcome   -- the attempt outcome that was counted; `none` = bad status strike
  st   : FSt
  deriving Repr

def Fail.exp (e : Fail) : Nat := e.t0 + e.dur

/-- one holder of `hosts` pool references with its own end of life: a provisioned handler
    (= configuration generation), or — for handlers with dynamic upstreams — one iteration of the
    proxy loop (reverseproxy.go:496-517: `provisionUpstream` on every dynamic upstream, the deferred
    `hosts.Delete` of each when the iteration returns; `canceled` = the iteration is over) -/
structure CfgSt where
  par      : Params
  ups      : List (Key × HostId)   -- provisioned upstreams, in order
  held     : List Key              -- keys stored in the `hosts` pool and not yet deleted
  canceled : Bool
  owner    : Option Nat := none   -- the request whose loop iteration this holder is (none = a provisioned handler)
  deriving Repr

structure State where
  now      : Nat
  inflight : HostId → Int          -- Host.numRequests
  fails    : HostId → Int          -- Host.fails
  reqs     : List Req
  log      : List Fail
  cfgs     : List CfgSt
  pool     : Key → Option (HostId × Nat)   -- `hosts`: value and usage count
  nextHost : HostId
  aPass    : HostId → Nat := fun _ => 0    -- Host.activePasses (shared through the pool like the other counters)
  aFail    : HostId → Nat := fun _ => 0    -- Host.activeFails
  adown    : List (CfgId × Nat) := []      -- Upstream.unhealthy: (handler, upstream position) marked down by the active checker

def init : State :=
  { now := 0, inflight := fun _ => 0, fails := fun _ => 0, reqs := [], log := [], cfgs := [],
    pool := fun _ => none, nextHost := 0 }

def upd {α : Type} (f : Nat → α) (i : Nat) (v : α) : Nat → α := fun j => if j = i then v else f j

def canceled (s : State) (c : CfgId) : Bool :=
  match s.cfgs[c]? with
  | some cs => cs.canceled
  | none => false

/-- reverseproxy.go:1124-1187 with try_duration = 0, a small positive try_interval and no
    retry_match; `canc` = the handler's context is already cancelled when the `select` between
    the interval timer and `ctx.Done()` is reached (then `ctx.Done()` is the only ready case) -/
def tryAgain (p : Params) (retries : Nat) (e : ErrKind) (isGet : Bool) (canc : Bool) : Bool :=
  p.retries != 0 && decide (retries < p.retries) && !(e == ErrKind.other && !isGet) && !canc

/-- the request after `tryAgain` answered: next loop iteration (`retries++`) or return -/
def Req.decided (q : Req) (e : ErrKind) (canc : Bool) : Req :=
  if tryAgain q.par q.retries e q.isGet canc then { q with lastErr := e, pc := .start, retries := q.retries + 1 }
  else { q with lastErr := e, pc := .done }

def Req.keepErr (q : Req) : ErrKind := if q.lastErr = .none then .noUpstream else q.lastErr

inductive Action
  | newCfg (p : Params)                 -- a handler starts provisioning
  | store (c : CfgId) (k : Key)         -- fillHost: hosts.LoadOrStore(k, new(Host))
  | cancel (c : CfgId)                  -- the configuration's context is cancelled
  | delete (c : CfgId) (k : Key)        -- Cleanup: one upstream of the loop (hosts.Delete(k) if it was stored)
  | newReq (c : CfgId) (get : Bool)     -- ServeHTTP of handler c is entered
  | dispatch (r : Nat) (h : HostId)     -- Select returned an upstream with Host h; countRequest(1)
  | noUpstream (r : Nat)                -- Select returned nil; tryAgain
  | strike (r : Nat)                    -- bad status / latency inside reverseProxy: countFail(1)
  | spawn (r : Nat) (i : Nat)           -- the `go` statement of countFailure (entry i)
  | finish (r : Nat) (out : Outcome)    -- reverseProxy returns or unwinds: deferred countRequest(-1)
  | after (r : Nat)                     -- proxyLoopIteration after reverseProxy returned
  | forget (i : Nat)                    -- forgetter i wakes up (timer or ctx.Done) and runs countFail(-1)
  | newIter (r : Nat)                   -- a loop iteration of a handler with dynamic upstreams begins (its own pool holder)
  | activeCheck (c : CfgId) (i : Nat) (pass : Bool)  -- one active health check of handler c on its i-th upstream completes
  | dialInfoFails (r : Nat)             -- the selected upstream's dial address cannot be filled in for this request
  | fallback (r : Nat)                  -- the dynamic source failed: this iteration uses the handler's static upstreams
  | tick
  deriving Repr

def newFail (q : Req) (h : HostId) (now : Nat) (src : Option Outcome) : Fail :=
  { host := h, cfg := q.cfg, t0 := now, dur := q.par.failDur, src := src, st := .counted }

/-- the Host the request is dealing with in the current loop iteration (none = between two
    iterations, or past the loop: where proxyLoopIteration's deferred deletes have run) -/
def Pc.hostOf : Pc → Option HostId
  | .sending h => some h
  | .strikeInc h => some h
  | .exited h _ => some h
  | .failInc h => some h
  | _ => none

/-- a request with dynamic upstreams can only be sent to an upstream its current iteration
    provisioned (reverseproxy.go:496-521: Select runs over `dUpstreams`) -/
def dynOk (s : State) (r : Nat) (q : Req) (h : HostId) : Bool :=
  if q.par.dynamic then
    match q.holder with
    | some c =>
      match s.cfgs[c]? with
      | some cs => !cs.canceled && cs.owner == some r && cs.ups.any (·.2 == h)
      | none => false
    | none =>
      -- the source failed in this iteration (reverseproxy.go:503-507): the handler's own, static
      -- upstreams are used instead
      match s.cfgs[q.cfg]? with
      | some cs => cs.ups.any (·.2 == h)
      | none => false
  else true

/-- an iteration's holder ends (the deferred deletes start) only when its request is back at
    the top of the loop or has left it; a handler's context can be cancelled at any time -/
def ownerIdle (s : State) (cs : CfgSt) : Bool :=
  match cs.owner with
  | some r =>
    match s.reqs[r]? with
    | some q => q.pc.hostOf == none
    | none => true
  | none => true

def stepDispatch (s : State) (r : Nat) (h : HostId) : Option State :=
  match s.reqs[r]? with
  | some q =>
    match q.pc with
    | .start =>
      if dynOk s r q h then
        some { s with reqs := s.reqs.set r { q with pc := .sending h, incs := q.incs + 1 },
                      inflight := upd s.inflight h (s.inflight h + 1) }
      else none
    | _ => none
  | none => none

/-- reverseproxy.go:494-509 — a loop iteration of a handler with dynamic upstreams begins: it is
    going to provision what the source returns and is a pool holder of its own until it returns -/
def stepNewIter (s : State) (r : Nat) : Option State :=
  match s.reqs[r]? with
  | some q =>
    match q.pc with
    | .start =>
      if q.par.dynamic then
        some { s with cfgs := s.cfgs ++ [{ par := q.par, ups := [], held := [], canceled := false, owner := some r }],
                      reqs := s.reqs.set r { q with holder := some s.cfgs.length } }
      else none
    | _ => none
  | none => none

/-- reverseproxy.go:503-507 — `GetUpstreams` returned an error: this iteration falls back to the
    static upstreams of the handler; nothing is provisioned, nothing will be released -/
def stepFallback (s : State) (r : Nat) : Option State :=
  match s.reqs[r]? with
  | some q =>
    match q.pc with
    | .start =>
      if q.par.dynamic then some { s with reqs := s.reqs.set r { q with holder := none } } else none
    | _ => none
  | none => none

/-- reverseproxy.go:538-544 — an upstream was selected but `fillDialInfo` fails (its dial address
    is a request placeholder that expands to something that is not one dialable socket): the
    iteration returns `true, err` at once.  No Host counter has been touched: `countRequest(1)` is
    the first statement of `reverseProxy`, which is never entered. -/
def stepDialInfoFails (s : State) (r : Nat) : Option State :=
  match s.reqs[r]? with
  | some q =>
    match q.pc with
    | .start => some { s with reqs := s.reqs.set r { q with pc := .done } }
    | _ => none
  | none => none

def stepNoUpstream (s : State) (r : Nat) : Option State :=
  match s.reqs[r]? with
  | some q =>
    match q.pc with
    | .start => some { s with reqs := s.reqs.set r (q.decided q.keepErr (canceled s q.cfg)) }
    | _ => none
  | none => none

def stepStrike (s : State) (r : Nat) : Option State :=
  match s.reqs[r]? with
  | some q =>
    match q.pc with
    | .sending h =>
      if q.par.counting then
        some { s with reqs := s.reqs.set r { q with pc := .strikeInc h },
                      fails := upd s.fails h (s.fails h + 1),
                      log := s.log ++ [newFail q h s.now none] }
      else none
    | _ => none
  | none => none

def spawnOk (q : Req) (h : HostId) (e : Fail) : Bool :=
  e.st == .counted && e.host == h && e.cfg == q.cfg

def stepSpawn (s : State) (r : Nat) (i : Nat) : Option State :=
  match s.reqs[r]?, s.log[i]? with
  | some q, some e =>
    match q.pc with
    | .strikeInc h =>
      if spawnOk q h e then
        some { s with reqs := s.reqs.set r { q with pc := .sending h }, log := s.log.set i { e with st := .waiting } }
      else none
    | .failInc h =>
      if spawnOk q h e then
        some { s with reqs := s.reqs.set r (q.decided q.lastErr (canceled s q.cfg)), log := s.log.set i { e with st := .waiting } }
      else none
    | _ => none
  | _, _ => none

def stepFinish (s : State) (r : Nat) (out : Outcome) : Option State :=
  match s.reqs[r]? with
  | some q =>
    match q.pc with
    | .sending h => some { s with reqs := s.reqs.set r { q with pc := .exited h out, hist := q.hist ++ [(h, out)] },
                                  inflight := upd s.inflight h (s.inflight h - 1) }
    | _ => none
  | none => none

def stepAfter (s : State) (r : Nat) : Option State :=
  match s.reqs[r]? with
  | some q =>
    match q.pc with
    | .exited h out =>
      if out.countable then
        if q.par.counting then
          some { s with reqs := s.reqs.set r { q with pc := .failInc h, lastErr := out.errKind },
                        fails := upd s.fails h (s.fails h + 1),
                        log := s.log ++ [newFail q h s.now (some out)] }
        else some { s with reqs := s.reqs.set r (q.decided out.errKind (canceled s q.cfg)) }
      else some { s with reqs := s.reqs.set r { q with pc := .done } }
    | _ => none
  | none => none

def forgetOk (s : State) (e : Fail) : Bool :=
  e.st == .waiting && (decide (e.exp ≤ s.now) || canceled s e.cfg)

def stepForget (s : State) (i : Nat) : Option State :=
  match s.log[i]? with
  | some e =>
    if forgetOk s e then
      some { s with log := s.log.set i { e with st := .forgotten },
                    fails := upd s.fails e.host (s.fails e.host - 1) }
    else none
  | none => none

def stepStore (s : State) (c : CfgId) (k : Key) : Option State :=
  match s.cfgs[c]? with
  | some cs =>
    if cs.canceled then none else
    match s.pool k with
    | some (o, n) =>
      some { s with pool := upd s.pool k (some (o, n + 1)),
                    cfgs := s.cfgs.set c { cs with ups := cs.ups ++ [(k, o)], held := k :: cs.held } }
    | none =>
      some { s with pool := upd s.pool k (some (s.nextHost, 1)),
                    nextHost := s.nextHost + 1,
                    cfgs := s.cfgs.set c { cs with ups := cs.ups ++ [(k, s.nextHost)], held := k :: cs.held } }
  | none => none

def stepCancel (s : State) (c : CfgId) : Option State :=
  match s.cfgs[c]? with
  | some cs =>
    if ownerIdle s cs then some { s with cfgs := s.cfgs.set c { cs with canceled := true } } else none
  | none => none

/-- usagepool.go Delete: decrement, remove at zero; a missing key is ignored -/
def poolDelete (pool : Key → Option (HostId × Nat)) (k : Key) : Key → Option (HostId × Nat) :=
  match pool k with
  | some (o, n) => if n ≤ 1 then upd pool k none else upd pool k (some (o, n - 1))
  | none => pool

/-- reverseproxy.go:392-407 — Cleanup walks the configured upstreams and releases those whose
    `Host` is set, i.e. the ones `provisionUpstream` stored (`k ∈ held`); for an upstream that was
    never stored (Provision failed earlier; context.go:409-421 still calls Cleanup) the loop body is
    `continue`: the step is a no-op.
    (The pool lookup is done once, here, so that the executable model stays linear; the result is
    `poolDelete s.pool k`, see `Lemmas.stepDelete_spec`.) -/
def stepDelete (s : State) (c : CfgId) (k : Key) : Option State :=
  match s.cfgs[c]? with
  | some cs =>
    if cs.canceled then
      if cs.held.contains k then
        match s.pool k with
        | some (o, n) =>
          if n ≤ 1 then some { s with pool := upd s.pool k none, cfgs := s.cfgs.set c { cs with held := cs.held.erase k } }
          else some { s with pool := upd s.pool k (some (o, n - 1)), cfgs := s.cfgs.set c { cs with held := cs.held.erase k } }
        | none => some { s with cfgs := s.cfgs.set c { cs with held := cs.held.erase k } }
      else some s
    else none
  | none => none

/-- the Cleanup of the code before fix d6561d4 ("Cleanup releases only the upstream hosts that
    Provision acquired"): every configured upstream is deleted from the pool, stored or not.
    Kept only for the `…_old_code_fails` theorems in `Witness.lean`. -/
def stepDeleteOld (s : State) (c : CfgId) (k : Key) : Option State :=
  match s.cfgs[c]? with
  | some cs =>
    if cs.canceled then
      some { s with pool := poolDelete s.pool k, cfgs := s.cfgs.set c { cs with held := cs.held.erase k } }
    else none
  | none => none

def stepNewReq (s : State) (c : CfgId) (get : Bool) : Option State :=
  match s.cfgs[c]? with
  | some cs =>
    some { s with reqs := s.reqs ++ [{ cfg := c, par := cs.par, isGet := get, retries := 0, lastErr := .none,
                                        pc := .start, incs := 0, hist := [] }] }
  | none => none

def isDown (s : State) (c : CfgId) (i : Nat) : Bool := s.adown.contains (c, i)

/-- healthchecks.go doActiveHealthCheck → markHealthy / markUnhealthy, and hosts.go resetHealth:
    the check's result is counted on the Host (`activePasses` / `activeFails`, shared through the
    pool); when the count reaches the handler's threshold and the upstream's status actually
    changes (`setHealthy` reports a flip), both active counters are reset.  Nothing else is
    touched — in particular not `Host.fails`, which belongs to the passive checker and its
    forgetters. -/
def stepActive (s : State) (c : CfgId) (i : Nat) (pass : Bool) : Option State :=
  match s.cfgs[c]? with
  | some cs =>
    match cs.ups[i]? with
    | some u =>
      if pass then
        if decide (cs.par.aPasses ≤ s.aPass u.2 + 1) && isDown s c i then
          some { s with aPass := upd s.aPass u.2 0, aFail := upd s.aFail u.2 0,
                        adown := s.adown.filter (· != (c, i)) }
        else some { s with aPass := upd s.aPass u.2 (s.aPass u.2 + 1) }
      else
        if decide (cs.par.aFails ≤ s.aFail u.2 + 1) && !isDown s c i then
          some { s with aPass := upd s.aPass u.2 0, aFail := upd s.aFail u.2 0, adown := (c, i) :: s.adown }
        else some { s with aFail := upd s.aFail u.2 (s.aFail u.2 + 1) }
    | none => none
  | none => none

/-- the seeded change C09-active-flip-zeroes-passive-fails: `resetHealth` also stores 0 into
    `Host.fails`.  Kept only for the `…_breaks_…` theorem in `Witness.lean`. -/
def stepActiveZeroing (s : State) (c : CfgId) (i : Nat) (pass : Bool) : Option State :=
  match stepActive s c i pass, s.cfgs[c]? with
  | some s', some cs =>
    match cs.ups[i]? with
    | some u => if isDown s' c i != isDown s c i then some { s' with fails := upd s'.fails u.2 0 } else some s'
    | none => some s'
  | _, _ => none

def step (s : State) : Action → Option State
  | .newCfg p => some { s with cfgs := s.cfgs ++ [{ par := p, ups := [], held := [], canceled := false }] }
  | .store c k => stepStore s c k
  | .cancel c => stepCancel s c
  | .delete c k => stepDelete s c k
  | .newReq c get => stepNewReq s c get
  | .dispatch r h => stepDispatch s r h
  | .noUpstream r => stepNoUpstream s r
  | .strike r => stepStrike s r
  | .spawn r i => stepSpawn s r i
  | .finish r out => stepFinish s r out
  | .after r => stepAfter s r
  | .forget i => stepForget s i
  | .newIter r => stepNewIter s r
  | .fallback r => stepFallback s r
  | .dialInfoFails r => stepDialInfoFails s r
  | .activeCheck c i pass => stepActive s c i pass
  | .tick => some { s with now := s.now + 1 }

def run (s : State) : List Action → Option State
  | [] => some s
  | a :: as =>
    match step s a with
    | some s' => run s' as
    | none => none

/-- every state the system can be in, for any number of requests, hosts, configurations, and any
    interleaving of their atomic steps -/
inductive Reachable : State → Prop
  | init : Reachable init
  | step {s s' : State} (a : Action) : Reachable s → step s a = some s' → Reachable s'

/-- the transition system of the code before fix d6561d4 (only the Cleanup delete differs) -/
def stepOld (s : State) : Action → Option State
  | .delete c k => stepDeleteOld s c k
  | a => step s a

/-- the transition system with the seeded change C09-active-flip-zeroes-passive-fails -/
def stepZeroing (s : State) : Action → Option State
  | .activeCheck c i pass => stepActiveZeroing s c i pass
  | a => step s a

def runZeroing (s : State) : List Action → Option State
  | [] => some s
  | a :: as =>
    match stepZeroing s a with
    | some s' => runZeroing s' as
    | none => none

def runOld (s : State) : List Action → Option State
  | [] => some s
  | a :: as =>
    match stepOld s a with
    | some s' => runOld s' as
    | none => none

-- ---------------------------------------------------------------- observations

/-- hosts.go:83-92 without active checks / circuit breaker -/
def healthy (p : Params) (s : State) (o : HostId) : Bool :=
  !p.passive || decide (s.fails o < (p.maxFails : Int))

/-- reverseproxy.go:1218-1231 provisionUpstream — the limit `Full()` uses for the upstream at
    position `i`: its own `max_requests` if set, else the passive checker's
    unhealthy_request_count -/
def maxReqAt (p : Params) (i : Nat) : Nat :=
  if i == 0 && p.firstMax != 0 then p.firstMax else p.maxReq

/-- hosts.go:96-98 -/
def full (p : Params) (i : Nat) (s : State) (o : HostId) : Bool :=
  maxReqAt p i != 0 && decide ((maxReqAt p i : Int) ≤ s.inflight o)

def available (p : Params) (i : Nat) (s : State) (o : HostId) : Bool := healthy p s o && !full p i s o

/-- selectionpolicies.go FirstSelection.Select (`i` = position of the head of the list; `dn` =
    which positions the active checker has marked down: hosts.go:83-92 Healthy() starts with it) -/
def firstAvailableFrom (p : Params) (s : State) (dn : Nat → Bool) : Nat → List (Key × HostId) → Option (Key × HostId)
  | _, [] => none
  | i, u :: rest =>
    if !dn i && available p i s u.2 then some u else firstAvailableFrom p s dn (i + 1) rest

/-- selection among upstreams no active checker looks at (dynamic upstreams) -/
def firstAvailable (p : Params) (s : State) (ups : List (Key × HostId)) : Option (Key × HostId) :=
  firstAvailableFrom p s (fun _ => false) 0 ups

/-- selection among the static upstreams of handler `c` -/
def firstAvailableOf (p : Params) (s : State) (c : CfgId) (ups : List (Key × HostId)) : Option (Key × HostId) :=
  firstAvailableFrom p s (isDown s c) 0 ups

/-- caddyhttp.go:230-240 StatusCodeMatches -/
def statusCodeMatches (actual configured : Nat) : Bool :=
  actual == configured ||
    (decide (configured < 100) && decide (configured * 100 ≤ actual) && decide (actual < (configured + 1) * 100))

/-- reverseproxy.go:916-923 — one `countFailure` per unhealthy_status entry that matches -/
def strikeCount : List Nat → Nat → Nat
  | [], _ => 0
  | c :: rest, actual => (if statusCodeMatches actual c then 1 else 0) + strikeCount rest actual

end CaddyModel.C09
