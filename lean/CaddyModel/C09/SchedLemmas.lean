/-
C09 — the schedule interpreter (`Sched.lean`) only ever composes `Model.step`: every state it
produces is `Reachable`.  Also: the only step that takes a request out of the in-flight place is
its own `finish`.
-/
import CaddyModel.C09.Lemmas
import CaddyModel.C09.Sched

namespace CaddyModel.C09

theorem stores_reachable {s s' : State} {c : CfgId} {ks : List Key} (h : Reachable s)
    (hs : stores s c ks = some s') : Reachable s' := by
  induction ks generalizing s with
  | nil => simp [stores] at hs; subst hs; exact h
  | cons k ks ih =>
    simp only [stores] at hs
    split at hs
    next s1 h1 => exact ih (Reachable.step _ h h1) hs
    next => simp at hs

theorem deletes_reachable {s s' : State} {c : CfgId} {ks : List Key} (h : Reachable s)
    (hs : deletes s c ks = some s') : Reachable s' := by
  induction ks generalizing s with
  | nil => simp [deletes] at hs; subst hs; exact h
  | cons k ks ih =>
    simp only [deletes] at hs
    split at hs
    next s1 h1 => exact ih (Reachable.step _ h h1) hs
    next => simp at hs

theorem unload_reachable {s s' : State} {c : CfgId} {ks : List Key} (h : Reachable s)
    (hs : unload s c ks = some s') : Reachable s' := by
  simp only [unload] at hs
  split at hs
  next s1 h1 => exact deletes_reachable (Reachable.step _ h h1) hs
  next => simp at hs

theorem forgetAll_reachable {s : State} (n : Nat) (h : Reachable s) : Reachable (forgetAll s n) := by
  induction n generalizing s with
  | zero => exact h
  | succ i ih =>
    simp only [forgetAll]
    split
    next s1 h1 => exact ih (Reachable.step _ h h1)
    next => exact ih h

theorem settle_reachable {s : State} (h : Reachable s) : Reachable (settle s) := forgetAll_reachable _ h

theorem spawnLast_reachable {s s' : State} {r : Nat} (h : Reachable s) (hs : spawnLast s r = some s') : Reachable s' := by
  simp only [spawnLast] at hs
  split at hs
  · exact Reachable.step _ h hs
  · simp at hs; subst hs; exact h

theorem endAttempt_reachable {s s' : State} {r : Nat} {out : Outcome} (h : Reachable s)
    (hs : endAttempt s r out = some s') : Reachable s' := by
  simp only [endAttempt] at hs
  split at hs
  next s1 h1 =>
    split at hs
    next s2 h2 => exact spawnLast_reachable (Reachable.step _ (Reachable.step _ h h1) h2) hs
    next => simp at hs
  next => simp at hs

theorem strikesN_reachable {s s' : State} {r n : Nat} (h : Reachable s) (hs : strikesN s r n = some s') : Reachable s' := by
  induction n generalizing s with
  | zero => simp [strikesN] at hs; subst hs; exact h
  | succ n ih =>
    simp only [strikesN] at hs
    split at hs
    next s1 h1 =>
      split at hs
      next s2 h2 => exact ih (spawnLast_reachable (Reachable.step _ h h1) h2) hs
      next => simp at hs
    next => simp at hs

theorem tickN_reachable {s : State} (n : Nat) (h : Reachable s) : Reachable (tickN s n) := by
  induction n generalizing s with
  | zero => exact h
  | succ n ih =>
    simp only [tickN]
    split
    next s1 h1 => exact ih (Reachable.step _ h h1)
    next => exact h

theorem advance_reachable {fuel : Nat} {d : DState} {r : Nat} {x : State × String} (h : Reachable d.s)
    (hs : advance fuel d r = some x) : Reachable x.1 := by
  induction fuel generalizing d with
  | zero => simp [advance] at hs
  | succ fuel ih =>
    simp only [advance] at hs
    split at hs
    · simp at hs
    next q hq =>
      split at hs
      · simp at hs
      next cs hcs =>
        split at hs
        next hsel =>
          split at hs
          · simp at hs
          next s1 h1 =>
            have hr1 := Reachable.step _ h h1
            split at hs
            · simp at hs; subst hs; exact hr1
            · exact ih (d := { d with s := s1 }) hr1 hs
        next u hsel =>
          split at hs
          · split at hs
            · simp at hs
            next s1 h1 => simp at hs; subst hs; exact Reachable.step _ h h1
          · split at hs
            · simp at hs
            next s1 h1 =>
              have hr1 := Reachable.step _ h h1
              split at hs
              · split at hs
                · simp at hs
                next s2 h2 =>
                  have hr2 := endAttempt_reachable hr1 h2
                  split at hs
                  · simp at hs; subst hs; exact hr2
                  · exact ih (d := { d with s := s2 }) hr2 hs
              · simp at hs; subst hs; exact hr1

theorem continueOrRet_reachable {d d' : DState} {s1 : State} {r : Nat} {res ev : String} (h1 : Reachable s1)
    (hs : continueOrRet d s1 r res = some (d', ev)) : Reachable d'.s := by
  simp only [continueOrRet] at hs
  split at hs
  · simp at hs; obtain ⟨hd, _⟩ := hs; subst hd; exact h1
  · cases ha : advance fuel0 { d with s := s1 } r with
    | none => simp [ha] at hs
    | some x =>
      simp [ha] at hs
      obtain ⟨hd, _⟩ := hs; subst hd
      exact advance_reachable (d := { d with s := s1 }) h1 ha

theorem endIteration_reachable {d : DState} {s s' : State} {r : Nat} (h : Reachable s)
    (hs : endIteration d s r = some s') : Reachable s' := by
  simp only [endIteration] at hs
  split at hs
  · exact unload_reachable h hs
  · simp at hs; subst hs; exact h

theorem advanceDyn_reachable {fuel : Nat} {d : DState} {r : Nat} {x : DState × String} (h : Reachable d.s)
    (hs : advanceDyn fuel d r = some x) : Reachable x.1.s := by
  induction fuel generalizing d with
  | zero => simp [advanceDyn] at hs
  | succ fuel ih =>
    simp only [advanceDyn] at hs
    split at hs
    · simp at hs
    next q hq =>
      split at hs
      · simp at hs
      next s0 h0 =>
        have hr0 := Reachable.step _ h h0
        split at hs
        · simp at hs
        next s1 h1 =>
          have hr1 := stores_reachable hr0 h1
          split at hs
          · simp at hs
          next hcs hhs =>
            split at hs
            next hsel =>
              split at hs
              · simp at hs
              next s2 h2 =>
                have hr2 := Reachable.step _ hr1 h2
                split at hs
                · simp at hs
                next s3 h3 =>
                  have hr3 := unload_reachable hr2 h3
                  split at hs
                  · simp at hs; subst hs; exact hr3
                  · exact ih (d := withIter d s3 r d.s.cfgs.length (keysOf d q.cfg)) hr3 hs
            next u hsel =>
              split at hs
              · split at hs
                · simp at hs
                next s2 h2 =>
                  have hr2 := Reachable.step _ hr1 h2
                  split at hs
                  · simp at hs
                  next s3 h3 => simp at hs; subst hs; exact unload_reachable hr2 h3
              · split at hs
                · simp at hs
                next s2 h2 =>
                  have hr2 := Reachable.step _ hr1 h2
                  split at hs
                  · split at hs
                    · simp at hs
                    next s3 h3 =>
                      have hr3 := endAttempt_reachable hr2 h3
                      split at hs
                      · simp at hs
                      next s4 h4 =>
                        have hr4 := unload_reachable hr3 h4
                        split at hs
                        · simp at hs; subst hs; exact hr4
                        · exact ih (d := withIter d s4 r d.s.cfgs.length (keysOf d q.cfg)) hr4 hs
                  · simp at hs; subst hs; exact hr2

theorem advanceFb_reachable {d : DState} {r : Nat} {x : DState × String} (h : Reachable d.s)
    (hs : advanceFb d r = some x) : Reachable x.1.s := by
  simp only [advanceFb] at hs
  split at hs
  · simp at hs
  next s1 h1 =>
    cases ha : advance fuel0 { d with s := s1 } r with
    | none => simp [ha] at hs
    | some y =>
      simp [ha] at hs; subst hs
      exact advance_reachable (d := { d with s := s1 }) (Reachable.step _ h h1) ha

theorem advanceAny_reachable {d : DState} {r : Nat} {x : DState × String} (h : Reachable d.s)
    (hs : advanceAny d r = some x) : Reachable x.1.s := by
  simp only [advanceAny] at hs
  split at hs
  · exact advanceFb_reachable h hs
  · exact advanceDyn_reachable h hs

theorem continueOrRetDyn_reachable {d d' : DState} {s1 : State} {r : Nat} {res ev : String} (h1 : Reachable s1)
    (hs : continueOrRetDyn d s1 r res = some (d', ev)) : Reachable d'.s := by
  simp only [continueOrRetDyn] at hs
  split at hs
  · simp at hs
  next s2 h2 =>
    have hr2 := endIteration_reachable h1 h2
    split at hs
    · simp at hs; obtain ⟨hd, _⟩ := hs; subst hd; exact hr2
    · exact advanceAny_reachable (d := { d with s := s2 }) hr2 hs

theorem roundFrom_reachable {d : DState} {c : CfgId} {p : Params} {s s' : State} {i : Nat} {ups : List (Key × HostId)}
    (h : Reachable s) (hs : roundFrom d c p s i ups = some s') : Reachable s' := by
  induction ups generalizing s i with
  | nil => simp [roundFrom] at hs; subst hs; exact h
  | cons u rest ih =>
    simp only [roundFrom] at hs
    split at hs
    next s1 h1 => exact ih (Reachable.step _ h h1) hs
    next => simp at hs

theorem activeRound_reachable {d : DState} {c : CfgId} {s s' : State} (h : Reachable s)
    (hs : activeRound d s c = some s') : Reachable s' := by
  simp only [activeRound] at hs
  split at hs
  · split at hs
    · exact roundFrom_reachable h hs
    · simp at hs; subst hs; exact h
  · simp at hs

theorem closeStreamsFrom_reachable {d : DState} {c : CfgId} {s : State} (r n : Nat) (h : Reachable s) :
    Reachable (closeStreamsFrom d c s r n) := by
  induction n generalizing s r with
  | zero => exact h
  | succ n ih =>
    simp only [closeStreamsFrom]
    split
    · split
      next s1 h1 =>
        have hr1 := endAttempt_reachable h h1
        split
        next s2 h2 => exact ih _ (endIteration_reachable hr1 h2)
        next => exact ih _ hr1
      next => exact ih _ h
    · exact ih _ h

theorem afterUnload_reachable {d : DState} {c : CfgId} {s : State} (h : Reachable s) :
    Reachable (afterUnload d c s).s := closeStreamsFrom_reachable 0 _ h

theorem loadCore_reachable {d : DState} {ks : List Key} {p : Params} {fb : List Key} {x : DState × String}
    (h : Reachable d.s) (hs : loadCore d ks p fb = some x) : Reachable x.1.s := by
  simp only [loadCore] at hs
  split at hs
  · simp at hs
  next s1 h1 =>
    have hr1 := Reachable.step _ h h1
    split at hs
    · simp at hs
    next s2 h2 =>
      have hr2 := stores_reachable hr1 h2
      split at hs
      · simp at hs; subst hs; exact hr2
      next old =>
        split at hs
        · simp at hs; subst hs; exact hr2
        · split at hs
          · simp at hs
          next s3 h3 => simp at hs; subst hs; exact unload_reachable hr2 h3

theorem sstep_reachable {d d' : DState} {st : SStep} {ev : String} (h : Reachable d.s)
    (hs : sstep d st = some (d', ev)) : Reachable d'.s := by
  cases st with
  | srcFail b =>
    simp only [sstep] at hs
    split at hs
    · simp at hs
    · simp at hs; obtain ⟨hd, _⟩ := hs; subst hd; exact h
  | load ks p fb =>
    simp only [sstep] at hs
    split at hs
    · simp at hs
    next x hx =>
      have hrx := loadCore_reachable h hx
      have hry : Reachable (match replaced d with | some old => afterUnload x.1 old x.1.s | none => x.1).s := by
        split
        · exact afterUnload_reachable hrx
        · exact hrx
      split at hs
      · simp at hs
      next s' h' => simp at hs; obtain ⟨hd, _⟩ := hs; subst hd; exact activeRound_reachable hry h'
  | health k ok =>
    simp only [sstep] at hs
    split at hs
    · simp at hs
    · simp at hs; obtain ⟨hd, _⟩ := hs; subst hd; exact h
  | probe k pr =>
    simp only [sstep] at hs
    simp at hs; obtain ⟨hd, _⟩ := hs; subst hd; exact h
  | round =>
    simp only [sstep] at hs
    split at hs
    · simp at hs
    next c hc =>
      split at hs
      · simp at hs
      next cs hcs =>
        split at hs
        · cases ha : activeRound d d.s c with
          | none => simp [ha] at hs
          | some s' => simp [ha] at hs; obtain ⟨hd, _⟩ := hs; subst hd; exact activeRound_reachable h ha
        · simp at hs
  | badLoad ks =>
    simp only [sstep] at hs
    split at hs
    · simp at hs
    next s1 h1 =>
      have hr1 := Reachable.step _ h h1
      split at hs
      · simp at hs
      next s2 h2 => simp at hs; obtain ⟨hd, _⟩ := hs; subst hd; exact unload_reachable hr1 h2
  | unloadCur =>
    simp only [sstep] at hs
    split at hs
    · simp at hs
    next c =>
      split at hs
      · simp at hs
      next s1 h1 => simp at hs; obtain ⟨hd, _⟩ := hs; subst hd; exact afterUnload_reachable (unload_reachable h h1)
  | newReq get =>
    simp only [sstep] at hs
    split at hs
    · simp at hs
    next c =>
      split at hs
      · simp at hs
      next s1 h1 =>
        have hr1 := Reachable.step _ h h1
        split at hs
        · exact advanceAny_reachable (d := { d with s := s1 }) hr1 hs
        · cases ha : advance fuel0 { d with s := s1 } d.s.reqs.length with
          | none => simp [ha] at hs
          | some x =>
            simp [ha] at hs
            obtain ⟨hd, _⟩ := hs; subst hd
            exact advance_reachable (d := { d with s := s1 }) hr1 ha
  | newReqBad get k =>
    simp only [sstep] at hs
    split at hs
    · simp at hs
    next c =>
      split at hs
      · simp at hs
      next s1 h1 =>
        have hr1 := Reachable.step _ h h1
        split at hs
        · exact advanceAny_reachable (d := { d with s := s1, badDial := (d.s.reqs.length, k) :: d.badDial }) hr1 hs
        · cases ha : advance fuel0 { d with s := s1, badDial := (d.s.reqs.length, k) :: d.badDial } d.s.reqs.length with
          | none => simp [ha] at hs
          | some x =>
            simp [ha] at hs
            obtain ⟨hd, _⟩ := hs; subst hd
            exact advance_reachable (d := { d with s := s1, badDial := (d.s.reqs.length, k) :: d.badDial }) hr1 ha
  | newReqWs =>
    simp only [sstep] at hs
    split at hs
    · simp at hs
    next c =>
      split at hs
      · simp at hs
      next s1 h1 =>
        have hr1 := Reachable.step _ h h1
        split at hs
        · exact advanceAny_reachable (d := { d with s := s1, wsReqs := d.s.reqs.length :: d.wsReqs }) hr1 hs
        · cases ha : advance fuel0 { d with s := s1 } d.s.reqs.length with
          | none => simp [ha] at hs
          | some x =>
            simp [ha] at hs
            obtain ⟨hd, _⟩ := hs; subst hd
            exact advance_reachable (d := { d with s := s1 }) hr1 ha
  | wsBegin r =>
    simp only [sstep] at hs
    split at hs
    · split at hs
      · simp at hs
      next q hq =>
        split at hs
        · simp at hs
        next s1 h1 => simp at hs; obtain ⟨hd, _⟩ := hs; subst hd; exact strikesN_reachable h h1
    · simp at hs
  | streamBegin r =>
    simp only [sstep] at hs
    split at hs
    · split at hs
      · simp at hs
      next q hq =>
        split at hs
        · simp at hs
        next s1 h1 => simp at hs; obtain ⟨hd, _⟩ := hs; subst hd; exact strikesN_reachable h h1
    · simp at hs
  | streamEnd r =>
    simp only [sstep] at hs
    split at hs
    · split at hs
      · simp at hs
      next s1 h1 =>
        have hr1 := endAttempt_reachable h h1
        split at hs
        · exact continueOrRetDyn_reachable (d := { d with streaming := d.streaming.filter (· != r) }) hr1 hs
        · simp at hs; obtain ⟨hd, _⟩ := hs; subst hd; exact hr1
    · simp at hs
  | answer r what =>
    simp only [sstep] at hs
    split at hs
    · simp at hs
    · split at hs
      · split at hs
        · simp at hs
        next q hq =>
          split at hs
          · split at hs
            · simp at hs
            next s1 h1 => exact continueOrRetDyn_reachable (endAttempt_reachable h h1) hs
          · split at hs
            · simp at hs
            next code hcode =>
              split at hs
              · simp at hs
              next s1 h1 =>
                have hr1 := strikesN_reachable h h1
                split at hs
                · split at hs
                  · simp at hs
                  next s2 h2 => exact continueOrRetDyn_reachable (endAttempt_reachable hr1 h2) hs
                · split at hs
                  · split at hs
                    · simp at hs
                    next s2 h2 => exact continueOrRetDyn_reachable (endAttempt_reachable hr1 h2) hs
                  · split at hs
                    · simp at hs
                    next s2 h2 => exact continueOrRetDyn_reachable (endAttempt_reachable hr1 h2) hs
      · split at hs
        · split at hs
          · simp at hs
          next q hq =>
            split at hs
            · split at hs
              · simp at hs
              next s1 h1 => exact continueOrRet_reachable (endAttempt_reachable h h1) hs
            · split at hs
              · simp at hs
              next code hcode =>
                split at hs
                · simp at hs
                next s1 h1 =>
                  have hr1 := strikesN_reachable h h1
                  split at hs
                  · cases he : endAttempt s1 r .panic with
                    | none => simp [he] at hs
                    | some s2 => simp [he] at hs; obtain ⟨hd, _⟩ := hs; subst hd; exact endAttempt_reachable hr1 he
                  · split at hs
                    · cases he : endAttempt s1 r .handlerErr with
                      | none => simp [he] at hs
                      | some s2 => simp [he] at hs; obtain ⟨hd, _⟩ := hs; subst hd; exact endAttempt_reachable hr1 he
                    · cases he : endAttempt s1 r .ok with
                      | none => simp [he] at hs
                      | some s2 => simp [he] at hs; obtain ⟨hd, _⟩ := hs; subst hd; exact endAttempt_reachable hr1 he
        · simp at hs
  | abort r =>
    simp only [sstep] at hs
    split at hs
    · split at hs
      · simp at hs
      next s1 h1 =>
        have hr1 := endAttempt_reachable h h1
        split at hs
        · exact continueOrRetDyn_reachable (d := { d with streaming := d.streaming.filter (· != r) }) hr1 hs
        · simp at hs; obtain ⟨hd, _⟩ := hs; subst hd; exact hr1
    · split at hs
      · split at hs
        · simp at hs
        next s1 h1 =>
          have hr1 := endAttempt_reachable h h1
          split at hs
          · exact continueOrRetDyn_reachable (d := { d with streaming := d.streaming.filter (· != r) }) hr1 hs
          · simp at hs; obtain ⟨hd, _⟩ := hs; subst hd; exact hr1
      · split at hs
        · split at hs
          · simp at hs
          next s1 h1 => exact continueOrRetDyn_reachable (endAttempt_reachable h h1) hs
        · split at hs
          · cases he : endAttempt d.s r .clientAbort with
            | none => simp [he] at hs
            | some s1 => simp [he] at hs; obtain ⟨hd, _⟩ := hs; subst hd; exact endAttempt_reachable h he
          · simp at hs
  | bdown k =>
    simp only [sstep] at hs
    split at hs
    · simp at hs
    · simp at hs; obtain ⟨hd, _⟩ := hs; subst hd; exact h
  | bup k =>
    simp only [sstep] at hs
    split at hs
    · simp at hs; obtain ⟨hd, _⟩ := hs; subst hd; exact h
    · simp at hs
  | ticks n =>
    simp only [sstep] at hs
    simp at hs; obtain ⟨hd, _⟩ := hs; subst hd; exact tickN_reachable n h

theorem abortAllFrom_reachable {s : State} (d : DState) (r n : Nat) (h : Reachable s) : Reachable (abortAllFrom d s r n) := by
  induction n generalizing s r with
  | zero => exact h
  | succ n ih =>
    simp only [abortAllFrom]
    split
    · split
      next s1 h1 =>
        have hr1 := endAttempt_reachable h h1
        split
        next s2 h2 => exact ih _ (settle_reachable (endIteration_reachable hr1 h2))
        next => exact ih _ (settle_reachable hr1)
      next => exact ih _ h
    · exact ih _ h

theorem quiesce_reachable {d : DState} (h : Reachable d.s) : Reachable (quiesce d) := by
  simp only [quiesce]
  have ha := abortAllFrom_reachable d 0 d.s.reqs.length h
  split
  · split
    next s1 h1 => exact settle_reachable (unload_reachable ha h1)
    next => exact settle_reachable ha
  · exact settle_reachable ha

-- ---------------------------------------------------------------- leaving the in-flight place

theorem set_case {l : List Req} {r2 r : Nat} {x q q' : Req} (hq : l[r]? = some q)
    (hq' : (l.set r2 x)[r]? = some q') : (r2 ≠ r ∧ q' = q) ∨ (r2 = r ∧ q' = x) := by
  by_cases h : r2 = r
  · subst h
    have hlt : r2 < l.length := by
      rcases Nat.lt_or_ge r2 l.length with h | h
      · exact h
      · simp [List.getElem?_eq_none h] at hq
    rw [List.getElem?_set_self hlt] at hq'
    simp at hq'
    exact Or.inr ⟨rfl, hq'.symm⟩
  · rw [List.getElem?_set_ne h] at hq'
    rw [hq] at hq'; simp at hq'
    exact Or.inl ⟨h, hq'.symm⟩

theorem leaves_only_by_finish {s s' : State} {a : Action} {r : Nat} {q q' : Req} {o : HostId}
    (hs : step s a = some s') (hq : s.reqs[r]? = some q) (hq' : s'.reqs[r]? = some q')
    (hin : q.pc.inFlightOn o = true) (hout : q'.pc.inFlightOn o = false) : ∃ out, a = .finish r out := by
  have same : s'.reqs = s.reqs → False := by
    intro h; rw [h, hq] at hq'; simp at hq'; subst hq'; simp [hin] at hout
  cases a with
  | newCfg p => simp [step] at hs; subst hs; exact (same rfl).elim
  | store c k =>
    simp only [step, stepStore] at hs
    split at hs
    next cs hcs =>
      split at hs
      · simp at hs
      · split at hs <;> (simp at hs; subst hs; exact (same rfl).elim)
    next => simp at hs
  | cancel c =>
    simp only [step, stepCancel] at hs
    split at hs <;> simp at hs
    obtain ⟨_, hs⟩ := hs; subst hs; exact (same rfl).elim
  | delete c k =>
    simp only [step, stepDelete_spec] at hs
    split at hs
    next cs hcs =>
      split at hs
      · split at hs <;> (simp at hs; subst hs; exact (same rfl).elim)
      · simp at hs
    next => simp at hs
  | newReq c get =>
    simp only [step, stepNewReq] at hs
    split at hs <;> simp at hs
    subst hs
    have hlt : r < s.reqs.length := by
      rcases Nat.lt_or_ge r s.reqs.length with h | h
      · exact h
      · simp [List.getElem?_eq_none h] at hq
    simp only [List.getElem?_append_left hlt] at hq'
    rw [hq] at hq'; simp at hq'; subst hq'; simp [hin] at hout
  | dispatch r2 h =>
    simp only [step, stepDispatch] at hs
    split at hs
    next q2 hq2 =>
      split at hs
      next hpc =>
        simp at hs; obtain ⟨_, hs⟩ := hs; subst hs
        rcases set_case hq hq' with ⟨_, rfl⟩ | ⟨rfl, rfl⟩
        · simp [hin] at hout
        · rw [hq] at hq2; simp at hq2; subst hq2; simp [hpc, Pc.inFlightOn] at hin
      all_goals simp at hs
    next => simp at hs
  | newIter r2 =>
    simp only [step, stepNewIter] at hs
    split at hs
    next q2 hq2 =>
      split at hs
      next hpc =>
        simp at hs; obtain ⟨_, hs⟩ := hs; subst hs
        rcases set_case hq hq' with ⟨_, rfl⟩ | ⟨rfl, rfl⟩
        · simp [hin] at hout
        · rw [hq] at hq2; simp at hq2; subst hq2; simp [hpc, Pc.inFlightOn] at hin
      all_goals simp at hs
    next => simp at hs
  | activeCheck c i pass => exact (same (stepActive_core hs).2.2.2.1).elim
  | dialInfoFails r2 =>
    simp only [step, stepDialInfoFails] at hs
    split at hs
    next q2 hq2 =>
      split at hs
      next hpc =>
        simp at hs; subst hs
        rcases set_case hq hq' with ⟨_, rfl⟩ | ⟨rfl, rfl⟩
        · simp [hin] at hout
        · rw [hq] at hq2; simp at hq2; subst hq2; simp [hpc, Pc.inFlightOn] at hin
      all_goals simp at hs
    next => simp at hs
  | fallback r2 =>
    simp only [step, stepFallback] at hs
    split at hs
    next q2 hq2 =>
      split at hs
      next hpc =>
        simp at hs; obtain ⟨_, hs⟩ := hs; subst hs
        rcases set_case hq hq' with ⟨_, rfl⟩ | ⟨rfl, rfl⟩
        · simp [hin] at hout
        · rw [hq] at hq2; simp at hq2; subst hq2; simp [hpc, Pc.inFlightOn] at hin
      all_goals simp at hs
    next => simp at hs
  | noUpstream r2 =>
    simp only [step, stepNoUpstream] at hs
    split at hs
    next q2 hq2 =>
      split at hs
      next hpc =>
        simp at hs; subst hs
        rcases set_case hq hq' with ⟨_, rfl⟩ | ⟨rfl, rfl⟩
        · simp [hin] at hout
        · rw [hq] at hq2; simp at hq2; subst hq2; simp [hpc, Pc.inFlightOn] at hin
      all_goals simp at hs
    next => simp at hs
  | strike r2 =>
    simp only [step, stepStrike] at hs
    split at hs
    next q2 hq2 =>
      split at hs
      next h hpc =>
        split at hs
        · simp at hs; subst hs
          rcases set_case hq hq' with ⟨_, rfl⟩ | ⟨rfl, rfl⟩
          · simp [hin] at hout
          · rw [hq] at hq2; simp at hq2; subst hq2
            simp [hpc, Pc.inFlightOn] at hin hout; simp [hin] at hout
        · simp at hs
      all_goals simp at hs
    next => simp at hs
  | spawn r2 i =>
    simp only [step, stepSpawn] at hs
    split at hs
    next q2 e hq2 he =>
      split at hs
      next h hpc =>
        split at hs
        · simp at hs; subst hs
          rcases set_case hq hq' with ⟨_, rfl⟩ | ⟨rfl, rfl⟩
          · simp [hin] at hout
          · rw [hq] at hq2; simp at hq2; subst hq2
            simp [hpc, Pc.inFlightOn] at hin hout; simp [hin] at hout
        · simp at hs
      next h hpc =>
        split at hs
        · simp at hs; subst hs
          rcases set_case hq hq' with ⟨_, rfl⟩ | ⟨rfl, rfl⟩
          · simp [hin] at hout
          · rw [hq] at hq2; simp at hq2; subst hq2
            simp [hpc, Pc.inFlightOn] at hin
        · simp at hs
      all_goals simp at hs
    next => simp at hs
  | finish r2 out =>
    simp only [step, stepFinish] at hs
    split at hs
    next q2 hq2 =>
      split at hs
      next h hpc =>
        simp at hs; subst hs
        rcases set_case hq hq' with ⟨_, rfl⟩ | ⟨rfl, rfl⟩
        · simp [hin] at hout
        · exact ⟨out, rfl⟩
      all_goals simp at hs
    next => simp at hs
  | after r2 =>
    simp only [step, stepAfter] at hs
    split at hs
    next q2 hq2 =>
      split at hs
      next h out hpc =>
        have hcontra : r2 = r → False := by
          intro h; subst h; rw [hq] at hq2; simp at hq2; subst hq2; simp [hpc, Pc.inFlightOn] at hin
        split at hs
        · split at hs
          all_goals
            simp at hs; subst hs
            rcases set_case hq hq' with ⟨_, rfl⟩ | ⟨h2, _⟩
            · simp [hin] at hout
            · exact (hcontra h2).elim
        · simp at hs; subst hs
          rcases set_case hq hq' with ⟨_, rfl⟩ | ⟨h2, _⟩
          · simp [hin] at hout
          · exact (hcontra h2).elim
      all_goals simp at hs
    next => simp at hs
  | forget i =>
    simp only [step, stepForget] at hs
    split at hs
    next e he =>
      split at hs
      · simp at hs; subst hs; exact (same rfl).elim
      · simp at hs
    next => simp at hs
  | tick => simp [step] at hs; subst hs; exact (same rfl).elim

end CaddyModel.C09
