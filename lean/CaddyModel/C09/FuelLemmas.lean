/-
C09 — the proxy loop of the schedule interpreter (`Sched.advance`) never runs out of fuel:
every iteration that goes round again has incremented `retries`, and `tryAgain` refuses once
`retries` reaches `load_balancing.retries`.
-/
import CaddyModel.C09.SchedLemmas

namespace CaddyModel.C09

theorem get_set_self {α : Type} {l : List α} {i : Nat} {x y : α} (h : l[i]? = some y) : (l.set i x)[i]? = some x := by
  have hlt : i < l.length := by
    rcases Nat.lt_or_ge i l.length with h' | h'
    · exact h'
    · simp [List.getElem?_eq_none h'] at h
  simp [List.getElem?_set_self hlt]

/-- request `r` is some `q0.decided …` that inherits handler, parameters and retry count of `q` -/
def DecidedFrom (s : State) (r : Nat) (q : Req) : Prop :=
  ∃ q0 e c, s.reqs[r]? = some (Req.decided q0 e c) ∧ q0.par = q.par ∧ q0.retries = q.retries ∧ q0.cfg = q.cfg ∧
    q0.holder = q.holder

theorem decided_start {q : Req} {e : ErrKind} {c : Bool} (h : (q.decided e c).pc ≠ .done) :
    (q.decided e c).pc = .start ∧ (q.decided e c).retries = q.retries + 1 ∧ q.retries < q.par.retries := by
  unfold Req.decided at h ⊢
  split
  next ht => simp [tryAgain] at ht; simp; omega
  next hf => simp [hf] at h

theorem noUpstream_ok {s : State} {r : Nat} {q : Req} (hq : s.reqs[r]? = some q) (hpc : q.pc = .start) :
    ∃ s1, step s (.noUpstream r) = some s1 ∧ s1.cfgs = s.cfgs ∧ DecidedFrom s1 r q := by
  refine ⟨{ s with reqs := s.reqs.set r (q.decided q.keepErr (canceled s q.cfg)) }, ?_, rfl, ?_⟩
  · simp only [step, stepNoUpstream, hq, hpc]
  · exact ⟨q, _, _, get_set_self hq, rfl, rfl, rfl, rfl⟩

theorem firstAvailableFrom_mem {p : Params} {s : State} {dn : Nat → Bool} {i : Nat} {ups : List (Key × HostId)}
    {u : Key × HostId} (h : firstAvailableFrom p s dn i ups = some u) : u ∈ ups := by
  induction ups generalizing i with
  | nil => simp [firstAvailableFrom] at h
  | cons a as ih =>
    simp only [firstAvailableFrom] at h
    split at h
    · simp at h; subst h; simp
    · exact List.mem_cons_of_mem _ (ih h)

theorem dispatch_ok {s : State} {r : Nat} {q : Req} (h : HostId) (hq : s.reqs[r]? = some q) (hpc : q.pc = .start)
    (hok : dynOk s r q h = true) :
    ∃ s1 q1, step s (.dispatch r h) = some s1 ∧ s1.cfgs = s.cfgs ∧ s1.reqs[r]? = some q1 ∧ q1.pc = .sending h ∧
      q1.par = q.par ∧ q1.retries = q.retries ∧ q1.cfg = q.cfg ∧ q1.holder = q.holder := by
  refine ⟨{ s with reqs := s.reqs.set r { q with pc := .sending h, incs := q.incs + 1 },
                   inflight := upd s.inflight h (s.inflight h + 1) },
          { q with pc := .sending h, incs := q.incs + 1 }, ?_, rfl, get_set_self hq, rfl, rfl, rfl, rfl, rfl⟩
  show stepDispatch s r h = some _
  unfold stepDispatch
  rw [hq]
  simp only []
  split
  · simp [hok]
  · simp_all

/-- static upstreams are used: the handler has no dynamic source, or the source failed in this
    iteration (no holder) and the upstream is one of the handler's own -/
theorem dynOk_static {s : State} {r : Nat} {q : Req} {cs : CfgSt} {u : Key × HostId}
    (hm : q.par.dynamic = false ∨ q.holder = none) (hcs : s.cfgs[q.cfg]? = some cs) (hu : u ∈ cs.ups) :
    dynOk s r q u.2 = true := by
  simp only [dynOk]
  cases hd : q.par.dynamic with
  | false => simp
  | true =>
    rcases hm with hm | hm
    · simp [hd] at hm
    · simp only [if_true, hm, hcs, List.any_eq_true]
      exact ⟨u, hu, by simp⟩

/-- a refused dial / upstream error from `sending`: finish, after, (spawn) all succeed and leave
    the request decided -/
theorem endAttempt_fail_ok {s : State} {r : Nat} {q : Req} {h : HostId} {out : Outcome}
    (hq : s.reqs[r]? = some q) (hpc : q.pc = .sending h) (hk : out.countable = true) :
    ∃ s2, endAttempt s r out = some s2 ∧ s2.cfgs = s.cfgs ∧ DecidedFrom s2 r q := by
  -- finish
  let qa : Req := { q with pc := .exited h out, hist := q.hist ++ [(h, out)] }
  let sa : State := { s with reqs := s.reqs.set r qa, inflight := upd s.inflight h (s.inflight h - 1) }
  have h1 : step s (.finish r out) = some sa := by
    simp only [step, stepFinish, hq, hpc]; rfl
  have hqa : sa.reqs[r]? = some qa := get_set_self hq
  have hqapc : qa.pc = .exited h out := rfl
  by_cases hc : q.par.counting = true
  · -- countFailure counts: after, then the `go` statement on the entry just appended
    let qb : Req := { qa with pc := .failInc h, lastErr := out.errKind }
    let sb : State := { sa with reqs := sa.reqs.set r qb, fails := upd sa.fails h (sa.fails h + 1),
                                log := sa.log ++ [newFail qa h sa.now (some out)] }
    have h2 : step sa (.after r) = some sb := by
      have hc' : qa.par.counting = true := hc
      simp only [step, stepAfter, hqa, hqapc, hk, hc', if_true]; rfl
    have hqb : sb.reqs[r]? = some qb := get_set_self hqa
    have hsp : isSpawning sb r = true := by
      simp only [isSpawning, pcOf, hqb]; rfl
    have hlog : sb.log[sb.log.length - 1]? = some (newFail qa h sa.now (some out)) := by
      show (sa.log ++ [newFail qa h sa.now (some out)])[(sa.log ++ [newFail qa h sa.now (some out)]).length - 1]? = _
      simp
    let sc : State := { sb with reqs := sb.reqs.set r (qb.decided qb.lastErr (canceled sb qb.cfg)),
                                log := sb.log.set (sb.log.length - 1) { newFail qa h sa.now (some out) with st := .waiting } }
    have h3 : step sb (.spawn r (sb.log.length - 1)) = some sc := by
      have hpcb : qb.pc = .failInc h := rfl
      have hok : spawnOk qb h (newFail qa h sa.now (some out)) = true := by simp [spawnOk, newFail, qb, qa]
      simp only [step, stepSpawn, hqb, hlog, hpcb, hok, if_true]; rfl
    refine ⟨sc, ?_, rfl, ?_⟩
    · simp only [endAttempt, h1, h2, spawnLast, hsp, if_true, h3]
    · exact ⟨qb, _, _, get_set_self hqb, rfl, rfl, rfl, rfl⟩
  · -- countFailure is a no-op: straight to tryAgain, nothing to spawn
    have hc' : qa.par.counting = false := by simpa using hc
    let sb : State := { sa with reqs := sa.reqs.set r (qa.decided out.errKind (canceled sa qa.cfg)) }
    have h2 : step sa (.after r) = some sb := by
      simp only [step, stepAfter, hqa, hqapc, hk, hc', if_true]; rfl
    have hqb : sb.reqs[r]? = some (qa.decided out.errKind (canceled sa qa.cfg)) := get_set_self hqa
    have hsp : isSpawning sb r = false := by
      simp only [isSpawning, pcOf, hqb]
      rcases decided_pc qa out.errKind (canceled sa qa.cfg) with hp | hp <;> simp [hp]
    refine ⟨sb, ?_, rfl, ?_⟩
    · simp only [endAttempt, h1, h2, spawnLast, hsp]; rfl
    · exact ⟨qa, _, _, hqb, rfl, rfl, rfl, rfl⟩

theorem isDone_false_start {s : State} {r : Nat} {q : Req} (hd : DecidedFrom s r q) (hnd : isDone s r = false) :
    ∃ q1, s.reqs[r]? = some q1 ∧ q1.pc = .start ∧ q1.par = q.par ∧ q1.cfg = q.cfg ∧
      q1.retries = q.retries + 1 ∧ q.retries < q.par.retries ∧ q1.holder = q.holder := by
  obtain ⟨q0, e, c, hq, hp, hr, hc, hh⟩ := hd
  have hne : (q0.decided e c).pc ≠ .done := by
    intro h; simp [isDone, pcOf, hq, h] at hnd
  obtain ⟨h1, h2, h3⟩ := decided_start hne
  exact ⟨_, hq, h1, by simp [hp], by simp [hc], by omega, by rw [← hr, ← hp]; exact h3, by simp [hh]⟩

/-- **advance_never_runs_out_of_fuel** — from the top of the proxy loop, with the request's
    handler present, `advance` succeeds whenever `fuel > retries still allowed`; the wire syntax
    limits `retries` to 8 and the driver passes `fuel0 = 12`. -/
theorem advance_never_runs_out_of_fuel (fuel : Nat) (d : DState) (r : Nat) (q : Req)
    (hq : d.s.reqs[r]? = some q) (hpc : q.pc = .start) (hcfg : ∃ cs, d.s.cfgs[q.cfg]? = some cs)
    (hdyn : q.par.dynamic = false ∨ q.holder = none)
    (hf : q.par.retries - q.retries + 1 ≤ fuel) : (advance fuel d r).isSome = true := by
  induction fuel generalizing d q with
  | zero => omega
  | succ fuel ih =>
    obtain ⟨cs, hcs⟩ := hcfg
    simp only [advance, hq, hcs]
    split
    next hsel =>
      obtain ⟨s1, h1, hc1, hd1⟩ := noUpstream_ok hq hpc
      simp only [h1]
      split
      · rfl
      next hnd =>
        have hnd' : isDone s1 r = false := by simpa using hnd
        obtain ⟨q1, hq1, hp1, hpar, hcf, hr1, hlt, hho⟩ := isDone_false_start hd1 hnd'
        exact ih { d with s := s1 } q1 hq1 hp1 ⟨cs, by simp only [hc1, hcf]; exact hcs⟩ (by rw [hpar, hho]; exact hdyn) (by rw [hpar, hr1]; omega)
    next u hsel =>
      obtain ⟨s1, q1, h1, hc1, hq1, hp1, hpar1, hr1, hcf1, hho1⟩ :=
        dispatch_ok u.2 hq hpc (dynOk_static hdyn hcs (firstAvailableFrom_mem hsel))
      split
      · -- the dial info cannot be filled in: one step, the request returns
        have hb : step d.s (.dialInfoFails r) = some { d.s with reqs := d.s.reqs.set r { q with pc := .done } } := by
          show stepDialInfoFails d.s r = some _
          unfold stepDialInfoFails
          rw [hq]
          simp only []
          split
          · rfl
          · simp_all
        simp only [hb]; rfl
      · simp only [h1]
        split
        · obtain ⟨s2, h2, hc2, hd2⟩ := endAttempt_fail_ok (out := .dialRefused) hq1 hp1 rfl
          simp only [h2]
          split
          · rfl
          next hnd =>
            have hnd' : isDone s2 r = false := by simpa using hnd
            obtain ⟨q2, hq2, hp2, hpar, hcf, hr2, hlt, hho⟩ := isDone_false_start hd2 hnd'
            exact ih { d with s := s2 } q2 hq2 hp2 ⟨cs, by simp only [hc2, hc1, hcf, hcf1]; exact hcs⟩
              (by rw [hpar, hpar1, hho, hho1]; exact hdyn)
              (by rw [hpar, hr2, hpar1, hr1]; rw [hpar1, hr1] at hlt; omega)
        · rfl

end CaddyModel.C09
