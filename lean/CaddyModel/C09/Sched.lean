/-
C09 — the forced schedules the correspondence harness drives, as compositions of `Model.step`.

One harness step (load a configuration, start a request, let the backend answer, …) is a short,
deterministic sequence of atomic actions of the transition system in `Model.lean`: the request
that was moved runs until it is parked inside a backend again or has returned, and every forgetter
that is due has run before the snapshot is taken (`settle`).  `Props.sched_reachable` shows that every
state produced here is `Reachable`, so the invariants apply to exactly what the harness compares.
-/
import CaddyModel.C09.ActiveVerdict

namespace CaddyModel.C09

/-- state of a schedule: the system state plus what the environment (harness) controls -/
structure DState where
  s    : State
  cur  : Option CfgId        -- the loaded configuration new requests go to
  down : List Key            -- backends that refuse connections
  keys : List (List Key)     -- per holder (configuration generation or loop iteration): its upstream keys
  iters : List (Nat × Option CfgId) -- dynamic upstreams: request → the holder of its loop iteration (latest first;
                             -- none = the source failed, the iteration uses the static upstreams)
  fbs : List (CfgId × List Key) -- handlers with dynamic upstreams: their static (fallback) upstream keys
  srcFails : Bool            -- the dynamic source currently answers with an error
  hbad : List Key            -- backends whose health endpoint answers 503
  hprobe : List (Key × Probe) := [] -- backends whose health endpoint was scripted in full (status, body, header
                             -- it insists on); wins over `hbad`
  badDial : List (Nat × Key) -- request → the upstream key whose dial placeholder expands, for this request, to
                             -- something that is not one dialable socket
  streaming : List Nat       -- requests whose response body is being copied (headers arrived, body not finished)
  wsReqs : List Nat          -- requests that asked for a protocol upgrade (Connection: Upgrade)
  wsStreaming : List Nat     -- …whose upgraded connection is open (a subset of `streaming`)
  aged : List Nat            -- requests that were already parked while a slow answer (`sl`) was being waited for:
                             -- their own round trip has taken longer than unhealthy_latency, whatever comes

def dinit : DState := { s := init, cur := none, down := [], keys := [], iters := [], fbs := [], srcFails := false, hbad := [], badDial := [], streaming := [], wsReqs := [], wsStreaming := [], aged := [] }

def stores (s : State) (c : CfgId) : List Key → Option State
  | [] => some s
  | k :: ks =>
    match step s (.store c k) with
    | some s' => stores s' c ks
    | none => none

def deletes (s : State) (c : CfgId) : List Key → Option State
  | [] => some s
  | k :: ks =>
    match step s (.delete c k) with
    | some s' => deletes s' c ks
    | none => none

/-- caddy context cancel: cancel(), then Cleanup of the handler -/
def unload (s : State) (c : CfgId) (ks : List Key) : Option State :=
  match step s (.cancel c) with
  | some s' => deletes s' c ks
  | none => none

/-- let forgetters i-1 … 0 run if they are due -/
def forgetAll (s : State) : Nat → State
  | 0 => s
  | i + 1 =>
    match step s (.forget i) with
    | some s' => forgetAll s' i
    | none => forgetAll s i

def settle (s : State) : State := forgetAll s s.log.length

def pcOf (s : State) (r : Nat) : Option Pc := (s.reqs[r]?).map (·.pc)

def isDone (s : State) (r : Nat) : Bool := pcOf s r == some Pc.done

def isSpawning (s : State) (r : Nat) : Bool :=
  match pcOf s r with
  | some (.failInc _) => true
  | some (.strikeInc _) => true
  | _ => false

/-- the `go` statement right after `countFail(1)`: the entry just appended -/
def spawnLast (s : State) (r : Nat) : Option State :=
  if isSpawning s r then step s (.spawn r (s.log.length - 1)) else some s

/-- reverseProxy returns with `out`, proxyLoopIteration runs to the end of the iteration -/
def endAttempt (s : State) (r : Nat) (out : Outcome) : Option State :=
  match step s (.finish r out) with
  | some s1 =>
    match step s1 (.after r) with
    | some s2 => spawnLast s2 r
    | none => none
  | none => none

/-- `n` matching unhealthy_status entries: countFailure n times while in flight -/
def strikesN (s : State) (r : Nat) : Nat → Option State
  | 0 => some s
  | n + 1 =>
    match step s (.strike r) with
    | some s1 =>
      match spawnLast s1 r with
      | some s2 => strikesN s2 r n
      | none => none
    | none => none

def keyDown (d : DState) (k : Key) : Bool := d.down.contains k

/-- can the dial info of upstream key `k` not be filled in for request `r`? (hosts.go fillDialInfo) -/
def dialBad (d : DState) (r : Nat) (k : Key) : Bool := d.badDial.contains (r, k)

/-- run request `r` from the top of the proxy loop until it is parked in a backend (`P<key>`) or
    has returned (`err`); `fuel` bounds the loop iterations (≤ retries + 1) -/
def advance : Nat → DState → Nat → Option (State × String)
  | 0, _, _ => none
  | fuel + 1, d, r =>
    match d.s.reqs[r]? with
    | none => none
    | some q =>
      match d.s.cfgs[q.cfg]? with
      | none => none
      | some cs =>
        match firstAvailableOf q.par d.s q.cfg cs.ups with
        | none =>
          match step d.s (.noUpstream r) with
          | none => none
          | some s1 => if isDone s1 r then some (s1, "err") else advance fuel { d with s := s1 } r
        | some u =>
          if dialBad d r u.1 then
            -- reverseproxy.go:541-544: `return true, fmt.Errorf("making dial info: …")` — no retry, no counter
            match step d.s (.dialInfoFails r) with
            | none => none
            | some s1 => some (s1, "err")
          else
          match step d.s (.dispatch r u.2) with
          | none => none
          | some s1 =>
            if keyDown d u.1 then
              match endAttempt s1 r .dialRefused with
              | none => none
              | some s2 => if isDone s2 r then some (s2, "err") else advance fuel { d with s := s2 } r
            else some (s1, "P" ++ toString u.1)

def fuel0 : Nat := 12

/-- reverseproxy.go:915-929 — the `countFailure` calls for an answer with status `code`: one per
    matching unhealthy_status entry, one more if the round trip took at least unhealthy_latency
    (only the answer `sl` is that slow) -/
def strikesFor (p : Params) (what : String) (code : Nat) (aged : Bool := false) : Nat :=
  if p.counting then strikeCount p.badStatus code + (if (what == "sl" || aged) && p.latency then 1 else 0) else 0

/-- the steps of a schedule (see harness/internal/c09/c09.go for the wire syntax) -/
inductive SStep
  | load (ks : List Key) (p : Params) (fb : List Key)   -- fb: static upstreams of a handler with a dynamic source
  | srcFail (b : Bool)
  | health (k : Key) (ok : Bool)   -- the health endpoint of backend k starts passing / failing
  | probe (k : Key) (pr : Probe)   -- the health endpoint of backend k is scripted in full (status, body, header)
  | round                          -- one round of active health checks of the loaded configuration
  | newReqBad (get : Bool) (k : Key)   -- a request for which the dial placeholder of upstream k is undialable
  | newReqWs                -- a GET that asks for a protocol upgrade (websocket)
  | wsBegin (r : Nat)       -- the backend switches protocols (101): the connection stays open
  | streamBegin (r : Nat)   -- the backend sends a 200 header and the first part of the body, then pauses
  | streamEnd (r : Nat)     -- …and finishes the body
  | badLoad (ks : List Key)
  | unloadCur
  | newReq (get : Bool)
  | answer (r : Nat) (what : String)
  | abort (r : Nat)
  | bdown (k : Key)
  | bup (k : Key)
  | ticks (n : Nat)
  deriving Repr

def noParams : Params :=
  { passive := false, failDur := 0, maxFails := 1, retries := 0, maxReq := 0, firstMax := 0, badStatus := [], latency := false, closeStreams := false, aOn := false, aPasses := 1, aFails := 1, dynamic := false }

/-- the status code behind an answer token of the wire syntax (`none` = not a complete answer) -/
def answerStatus : String → Option Nat
  | "ok" => some 200
  | "sl" => some 200    -- 200, but only after longer than unhealthy_latency
  | "e5" => some 500
  | "c404" => some 404
  | "c429" => some 429
  | "c502" => some 502
  | "c503" => some 503
  | "hup" => some 200   -- 200 and a body that breaks off
  | "pan" => some 200   -- 200, then a response handler panics
  | "her" => some 200   -- 200, then a response handler fails
  | _ => none

def isParked (s : State) (r : Nat) : Bool :=
  match pcOf s r with
  | some (.sending _) => true
  | _ => false

/-- the `aged` set after a step: a slow answer ages everybody else who is parked; a request that
    was moved starts afresh (it returned, or a new round trip began) -/
def agedAfter (d : DState) : SStep → List Nat
  | .answer r what =>
    if what == "sl" then
      (d.aged.filter (· != r)) ++ (List.range d.s.reqs.length).filter (fun r' => r' != r && isParked d.s r')
    else d.aged.filter (· != r)
  | .abort r => d.aged.filter (· != r)
  | .streamBegin r => d.aged.filter (· != r)
  | .wsBegin r => d.aged.filter (· != r)
  | _ => d.aged

def tickN (s : State) : Nat → State
  | 0 => s
  | n + 1 =>
    match step s .tick with
    | some s' => tickN s' n
    | none => s

/-- the upstream keys configuration `c` was loaded with -/
def keysOf (d : DState) (c : CfgId) : List Key :=
  match d.keys[c]? with
  | some ks => ks
  | none => []

def curLive (d : DState) : Option CfgId :=
  match d.cur with
  | some c => if canceled d.s c then none else some c
  | none => none

/-- the upstreams handler `c` itself holds in the pool: none if they come from a dynamic source -/
def fbOf (d : DState) (c : CfgId) : List Key :=
  match d.fbs.find? (·.1 == c) with
  | some x => x.2
  | none => []

def ownKeys (d : DState) (s : State) (c : CfgId) : List Key :=
  match s.cfgs[c]? with
  | some cs => if cs.par.dynamic then fbOf d c else keysOf d c
  | none => []

/-- does request `r` run on a handler with dynamic upstreams? -/
def isDynReq (s : State) (r : Nat) : Bool :=
  match s.reqs[r]? with
  | some q => q.par.dynamic
  | none => false

def holderOf (d : DState) (r : Nat) : Option CfgId :=
  match d.iters.find? (·.1 == r) with
  | some x => x.2
  | none => none

/-- reverseproxy.go:510-517 — the loop iteration of request `r` returns: its deferred
    `hosts.Delete` of every dynamic upstream it provisioned (the iteration's holder is unloaded) -/
def endIteration (d : DState) (s : State) (r : Nat) : Option State :=
  match holderOf d r with
  | some h => unload s h (keysOf d h)
  | none => some s

/-- bookkeeping of a new loop iteration of `r` whose holder is `h` with upstream keys `ks` -/
def withIter (d : DState) (s : State) (r : Nat) (h : CfgId) (ks : List Key) : DState :=
  { d with s := s, keys := d.keys ++ [ks], iters := (r, some h) :: d.iters }

/-- the proxy loop of a handler with dynamic upstreams (reverseproxy.go:494-597): every iteration
    provisions the upstreams the source returns (a new pool holder: LoadOrStore each), selects among
    them, and releases them when it returns — also when it returns in order to go round again -/
def advanceDyn : Nat → DState → Nat → Option (DState × String)
  | 0, _, _ => none
  | fuel + 1, d, r =>
    match d.s.reqs[r]? with
    | none => none
    | some q =>
      match step d.s (.newIter r) with
      | none => none
      | some s0 =>
        match stores s0 d.s.cfgs.length (keysOf d q.cfg) with
        | none => none
        | some s1 =>
          match s1.cfgs[d.s.cfgs.length]? with
          | none => none
          | some hs =>
            match firstAvailable q.par s1 hs.ups with
            | none =>
              match step s1 (.noUpstream r) with
              | none => none
              | some s2 =>
                match unload s2 d.s.cfgs.length (keysOf d q.cfg) with
                | none => none
                | some s3 =>
                  if isDone s3 r then some (withIter d s3 r d.s.cfgs.length (keysOf d q.cfg), "err")
                  else advanceDyn fuel (withIter d s3 r d.s.cfgs.length (keysOf d q.cfg)) r
            | some u =>
              if dialBad d r u.1 then
                match step s1 (.dialInfoFails r) with
                | none => none
                | some s2 =>
                  match unload s2 d.s.cfgs.length (keysOf d q.cfg) with
                  | none => none
                  | some s3 => some (withIter d s3 r d.s.cfgs.length (keysOf d q.cfg), "err")
              else
              match step s1 (.dispatch r u.2) with
              | none => none
              | some s2 =>
                if keyDown d u.1 then
                  match endAttempt s2 r .dialRefused with
                  | none => none
                  | some s3 =>
                    match unload s3 d.s.cfgs.length (keysOf d q.cfg) with
                    | none => none
                    | some s4 =>
                      if isDone s4 r then some (withIter d s4 r d.s.cfgs.length (keysOf d q.cfg), "err")
                      else advanceDyn fuel (withIter d s4 r d.s.cfgs.length (keysOf d q.cfg)) r
                else some (withIter d s2 r d.s.cfgs.length (keysOf d q.cfg), "P" ++ toString u.1)

/-- reverseproxy.go:503-507 — the source failed: the static proxy loop runs over the handler's
    own upstreams (no holder for these iterations) -/
def advanceFb (d : DState) (r : Nat) : Option (DState × String) :=
  match step d.s (.fallback r) with
  | none => none
  | some s1 =>
    (advance fuel0 { d with s := s1 } r).map fun x => ({ d with s := x.1, iters := (r, none) :: d.iters }, x.2)

/-- the next loop iteration(s) of a request with dynamic upstreams: from the source, or — while
    the source fails — over the handler's static upstreams -/
def advanceAny (d : DState) (r : Nat) : Option (DState × String) :=
  if d.srcFails then advanceFb d r else advanceDyn fuel0 d r

/-- an attempt of a request with dynamic upstreams ended in state `s1`: the iteration returns
    (releasing its upstreams), then the request has returned (`res`) or goes round the loop again -/
def continueOrRetDyn (d : DState) (s1 : State) (r : Nat) (res : String) : Option (DState × String) :=
  match endIteration d s1 r with
  | none => none
  | some s2 =>
    if isDone s2 r then some ({ d with s := s2 }, res)
    else advanceAny { d with s := s2 } r

/-- after an attempt ended: the request returned (`res`) or goes round the loop again -/
def continueOrRet (d : DState) (s1 : State) (r : Nat) (res : String) : Option (DState × String) :=
  if isDone s1 r then some ({ d with s := s1 }, res)
  else (advance fuel0 { d with s := s1 } r).map fun x => ({ d with s := x.1 }, x.2)

/-- what the health endpoint of backend `k` answers now: as scripted in full, else 503 "DOWN" /
    200 "UP" -/
def probeOf (d : DState) (k : Key) : Probe :=
  match d.hprobe.find? (·.1 == k) with
  | some x => x.2
  | none => if d.hbad.contains k then probeDown else probeUp

/-- would an active health check of handler parameters `p` against backend `k` pass now?  (it must
    be reachable and its answer must satisfy the handler's expectations: `ActiveVerdict.verdict`) -/
def effUp (d : DState) (p : Params) (k : Key) : Bool := verdict p (!keyDown d k) (probeOf d k)

/-- healthchecks.go doActiveHealthCheckForAllHosts: one check per upstream of handler `c`
    (`i` = position of the head of `ups`), judged by the expectations `p` of that handler -/
def roundFrom (d : DState) (c : CfgId) (p : Params) : State → Nat → List (Key × HostId) → Option State
  | s, _, [] => some s
  | s, i, u :: rest =>
    match step s (.activeCheck c i (effUp d p u.1)) with
    | some s' => roundFrom d c p s' (i + 1) rest
    | none => none

def activeRound (d : DState) (s : State) (c : CfgId) : Option State :=
  match s.cfgs[c]? with
  | some cs => if cs.par.aOn then roundFrom d c cs.par s 0 cs.ups else some s
  | none => none

/-- does unloading handler `c` close the upgraded connection of request `r`?  (streaming.go
    cleanupConnections with stream_close_delay = 0, the default: Cleanup closes every registered
    connection of the handler at once) -/
def closesStream (d : DState) (c : CfgId) (s : State) (r : Nat) : Bool :=
  match s.reqs[r]? with
  | some q => q.cfg == c && q.par.closeStreams && d.wsStreaming.contains r && isParked s r
  | none => false

/-- …their requests end normally: the copiers stop, `reverseProxy` returns, the deferred
    `countRequest(-1)` runs (and a loop iteration with dynamic upstreams releases them) -/
def closeStreamsFrom (d : DState) (c : CfgId) : State → Nat → Nat → State
  | s, _, 0 => s
  | s, r, n + 1 =>
    if closesStream d c s r then
      match endAttempt s r .ok with
      | some s1 =>
        match endIteration d s1 r with
        | some s2 => closeStreamsFrom d c s2 (r + 1) n
        | none => closeStreamsFrom d c s1 (r + 1) n
      | none => closeStreamsFrom d c s (r + 1) n
    else closeStreamsFrom d c s (r + 1) n

/-- the schedule state after handler `c` was unloaded in state `s` -/
def afterUnload (d : DState) (c : CfgId) (s : State) : DState :=
  { d with s := closeStreamsFrom d c s 0 s.reqs.length,
           streaming := d.streaming.filter (fun r => !closesStream d c s r),
           wsStreaming := d.wsStreaming.filter (fun r => !closesStream d c s r) }

/-- the configuration a load replaces, if it is still loaded -/
def replaced (d : DState) : Option CfgId := curLive d

/-- Provision of a new configuration and unloading of the one it replaces -/
def loadCore (d : DState) (ks : List Key) (p : Params) (fb : List Key) : Option (DState × String) :=
  match step d.s (.newCfg p) with
  | none => none
  | some s1 =>
    match stores s1 d.s.cfgs.length (if p.dynamic then fb else ks) with
    | none => none
    | some s2 =>
      match d.cur with
      | none => some ({ d with s := s2, cur := some d.s.cfgs.length, keys := d.keys ++ [ks], fbs := (d.s.cfgs.length, fb) :: d.fbs }, "L")
      | some old =>
        if canceled s2 old then some ({ d with s := s2, cur := some d.s.cfgs.length, keys := d.keys ++ [ks], fbs := (d.s.cfgs.length, fb) :: d.fbs }, "L")
        else
          match unload s2 old (ownKeys d s2 old) with
          | none => none
          | some s3 => some ({ d with s := s3, cur := some d.s.cfgs.length, keys := d.keys ++ [ks], fbs := (d.s.cfgs.length, fb) :: d.fbs }, "L")

/-- one schedule step: new state and the event token; `none` = the step is not possible here
    (`bad-op`) -/
def sstep (d : DState) : SStep → Option (DState × String)
  | .srcFail b => if d.srcFails == b then none else some ({ d with srcFails := b }, "-")
  | .load ks p fb =>
    -- reverseproxy.go:364-374: Provision starts the active checker, which runs a first round at once
    match loadCore d ks p fb with
    | none => none
    | some x =>
      match activeRound d (match replaced d with | some old => afterUnload x.1 old x.1.s | none => x.1).s d.s.cfgs.length with
      | none => none
      | some s' => some ({ (match replaced d with | some old => afterUnload x.1 old x.1.s | none => x.1) with s := s' }, x.2)
  | .health k ok =>
    if d.hbad.contains k == !ok then none
    else some ({ d with hbad := if ok then d.hbad.filter (· != k) else k :: d.hbad,
                        hprobe := d.hprobe.filter (·.1 != k) }, "-")
  | .probe k pr => some ({ d with hprobe := (k, pr) :: d.hprobe.filter (·.1 != k), hbad := d.hbad.filter (· != k) }, "-")
  | .round =>
    match curLive d with
    | none => none
    | some c =>
      match d.s.cfgs[c]? with
      | none => none
      | some cs =>
        if cs.par.aOn then (activeRound d d.s c).map fun s' => ({ d with s := s' }, "K") else none
  | .badLoad ks =>
    match step d.s (.newCfg noParams) with
    | none => none
    | some s1 =>
      match unload s1 d.s.cfgs.length ks with
      | none => none
      | some s2 => some ({ d with s := s2, keys := d.keys ++ [ks] }, "B")
  | .unloadCur =>
    match curLive d with
    | none => none
    | some c =>
      match unload d.s c (ownKeys d d.s c) with
      | none => none
      | some s1 => some (afterUnload d c s1, "C")
  | .newReq get =>
    match curLive d with
    | none => none
    | some c =>
      match step d.s (.newReq c get) with
      | none => none
      | some s1 =>
        if isDynReq s1 d.s.reqs.length then advanceAny { d with s := s1 } d.s.reqs.length
        else (advance fuel0 { d with s := s1 } d.s.reqs.length).map fun x => ({ d with s := x.1 }, x.2)
  | .newReqBad get k =>
    match curLive d with
    | none => none
    | some c =>
      match step d.s (.newReq c get) with
      | none => none
      | some s1 =>
        if isDynReq s1 d.s.reqs.length then
          advanceAny { d with s := s1, badDial := (d.s.reqs.length, k) :: d.badDial } d.s.reqs.length
        else (advance fuel0 { d with s := s1, badDial := (d.s.reqs.length, k) :: d.badDial } d.s.reqs.length).map fun x =>
          ({ d with s := x.1, badDial := (d.s.reqs.length, k) :: d.badDial }, x.2)
  | .newReqWs =>
    match curLive d with
    | none => none
    | some c =>
      match step d.s (.newReq c true) with
      | none => none
      | some s1 =>
        if isDynReq s1 d.s.reqs.length then
          advanceAny { d with s := s1, wsReqs := d.s.reqs.length :: d.wsReqs } d.s.reqs.length
        else (advance fuel0 { d with s := s1 } d.s.reqs.length).map fun x =>
          ({ d with s := x.1, wsReqs := d.s.reqs.length :: d.wsReqs }, x.2)
  | .wsBegin r =>
    -- 101 Switching Protocols (reverseproxy.go:1019-1024, streaming.go handleUpgradeResponse): strikes
    -- for the status happen first; reverseProxy does not return — the request stays in flight —
    -- until the upgraded connection is closed
    if isParked d.s r && d.wsReqs.contains r && !d.streaming.contains r then
      match d.s.reqs[r]? with
      | none => none
      | some q =>
        match strikesN d.s r (strikesFor q.par "ok" 101 (d.aged.contains r)) with
        | none => none
        | some s1 => some ({ d with s := s1, streaming := r :: d.streaming, wsStreaming := r :: d.wsStreaming }, "S")
    else none
  | .streamBegin r =>
    -- RoundTrip returned the response: status (and latency) strikes happen now; the request stays
    -- in flight while the body is copied (reverseproxy.go:1066 copyResponse inside reverseProxy)
    if isParked d.s r && !d.streaming.contains r then
      match d.s.reqs[r]? with
      | none => none
      | some q =>
        match strikesN d.s r (strikesFor q.par "ok" 200 (d.aged.contains r)) with
        | none => none
        | some s1 => some ({ d with s := s1, streaming := r :: d.streaming }, "S")
    else none
  | .streamEnd r =>
    if d.streaming.contains r && isParked d.s r then
      match endAttempt d.s r .ok with
      | none => none
      | some s1 =>
        if isDynReq d.s r then continueOrRetDyn { d with streaming := d.streaming.filter (· != r) } s1 r "ok"
        else some ({ d with s := s1, streaming := d.streaming.filter (· != r) }, "ok")
    else none
  | .answer r what =>
    if d.streaming.contains r then none
    else if isParked d.s r && isDynReq d.s r then
      match d.s.reqs[r]? with
      | none => none
      | some q =>
        if what == "rst" then
          match endAttempt d.s r .upstreamErr with
          | none => none
          | some s1 => continueOrRetDyn d s1 r "err"
        else
          match answerStatus what with
          | none => none
          | some code =>
            match strikesN d.s r (strikesFor q.par what code (d.aged.contains r)) with
            | none => none
            | some s1 =>
              if what == "hup" || what == "pan" then
                match endAttempt s1 r .panic with
                | none => none
                | some s2 => continueOrRetDyn d s2 r "panic"
              else if what == "her" then
                match endAttempt s1 r .handlerErr with
                | none => none
                | some s2 => continueOrRetDyn d s2 r "err"
              else
                match endAttempt s1 r .ok with
                | none => none
                | some s2 => continueOrRetDyn d s2 r "ok"
    else if isParked d.s r then
      match d.s.reqs[r]? with
      | none => none
      | some q =>
        if what == "rst" then
          -- the connection is closed before any answer: RoundTrip fails
          match endAttempt d.s r .upstreamErr with
          | none => none
          | some s1 => continueOrRet d s1 r "err"
        else
          match answerStatus what with
          | none => none
          | some code =>
            -- RoundTrip returned a response: passive status strikes first (reverseproxy.go:915-929),
            -- then response handlers / the body copy
            match strikesN d.s r (strikesFor q.par what code (d.aged.contains r)) with
            | none => none
            | some s1 =>
              if what == "hup" || what == "pan" then (endAttempt s1 r .panic).map fun s2 => ({ d with s := s2 }, "panic")
              else if what == "her" then (endAttempt s1 r .handlerErr).map fun s2 => ({ d with s := s2 }, "err")
              else (endAttempt s1 r .ok).map fun s2 => ({ d with s := s2 }, "ok")
    else none
  | .abort r =>
    if d.wsStreaming.contains r && isParked d.s r then
      -- the client of an upgraded connection goes away: the backend connection is closed, the
      -- copiers end, the handler returns normally
      match endAttempt d.s r .clientAbort with
      | none => none
      | some s1 =>
        if isDynReq d.s r then continueOrRetDyn { d with streaming := d.streaming.filter (· != r) } s1 r "ok"
        else some ({ d with s := s1, streaming := d.streaming.filter (· != r) }, "ok")
    else if d.streaming.contains r && isParked d.s r then
      -- the client goes away while the body is copied: copyResponse fails, the handler panics
      -- with http.ErrAbortHandler (reverseproxy.go:1073-1084); nothing is counted
      match endAttempt d.s r .panic with
      | none => none
      | some s1 =>
        if isDynReq d.s r then continueOrRetDyn { d with streaming := d.streaming.filter (· != r) } s1 r "panic"
        else some ({ d with s := s1, streaming := d.streaming.filter (· != r) }, "panic")
    else if isParked d.s r && isDynReq d.s r then
      match endAttempt d.s r .clientAbort with
      | none => none
      | some s1 => continueOrRetDyn d s1 r "ok"
    else if isParked d.s r then (endAttempt d.s r .clientAbort).map fun s1 => ({ d with s := s1 }, "ok")
    else none
  | .bdown k => if keyDown d k then none else some ({ d with down := k :: d.down }, "-")
  | .bup k => if keyDown d k then some ({ d with down := d.down.erase k }, "-") else none
  | .ticks n => some ({ d with s := tickN d.s n }, "-")

/-- quiescence: clients of parked requests r-1 … go away in request order, everything is unloaded -/
def abortAllFrom (d : DState) (s : State) : Nat → Nat → State
  | _, 0 => s
  | r, n + 1 =>
    if isParked s r then
      match endAttempt s r .clientAbort with
      | some s1 =>
        match endIteration d s1 r with
        | some s2 => abortAllFrom d (settle s2) (r + 1) n
        | none => abortAllFrom d (settle s1) (r + 1) n
      | none => abortAllFrom d s (r + 1) n
    else abortAllFrom d s (r + 1) n

def quiesce (d : DState) : State :=
  match curLive d with
  | some c =>
    match unload (abortAllFrom d d.s 0 d.s.reqs.length) c (ownKeys d d.s c) with
    | some s1 => settle s1
    | none => settle (abortAllFrom d d.s 0 d.s.reqs.length)
  | none => settle (abortAllFrom d d.s 0 d.s.reqs.length)

end CaddyModel.C09
