/-
C09 — the small abstract account the property talks about: what the counters of the Go code are
*supposed* to equal, as plain counts over the requests, forgetters and configurations that exist.
Each count is `total w list` for a named 0/1 weight `w` of one list element.
-/
import CaddyModel.C09.Model

namespace CaddyModel.C09

def b2n (b : Bool) : Nat := if b then 1 else 0

/-- sum of `f` over a list (the number of tokens in a place, when `f` is 0/1-valued) -/
def total {α : Type} (f : α → Nat) : List α → Nat
  | [] => 0
  | x :: xs => f x + total f xs

-- ---------------------------------------------------------------- weights of one element

/-- request `q` is currently being sent to host object `o` -/
def inFlightW (o : HostId) (q : Req) : Nat := b2n (q.pc.inFlightOn o)

/-- failure `e` was counted on `o` and has not been forgotten yet (its forgetter is still to run) -/
def pendingW (o : HostId) (e : Fail) : Nat := b2n (e.host == o && e.st != FSt.forgotten)

/-- failure `e` was counted on `o` by handler `c` and its forgetter goroutine is not started yet -/
def countedW (o : HostId) (c : CfgId) (e : Fail) : Nat := b2n (e.host == o && e.cfg == c && e.st == FSt.counted)

/-- request `q` of handler `c` stands between `countFail(1)` on `o` and the `go` statement -/
def spawnerW (o : HostId) (c : CfgId) (q : Req) : Nat := b2n (q.pc.spawningOn o && q.cfg == c)

/-- failure `e` is inside its window at the current time and its configuration is still loaded -/
def inWindow (s : State) (e : Fail) : Bool := decide (s.now < e.exp) && !canceled s e.cfg

def windowW (s : State) (o : HostId) (e : Fail) : Nat := b2n (e.host == o && inWindow s e)

/-- handler `cs` references key `k` in the `hosts` pool (with multiplicity) -/
def heldW (k : Key) (cs : CfgSt) : Nat := cs.held.count k

def attemptW (o : HostId) (a : HostId × Outcome) : Nat := b2n (a.1 == o && a.2.countable)

/-- finished attempts of `q` on `o` for which `countFailure` has to be called (handler counts) -/
def failedAttemptsW (o : HostId) (q : Req) : Nat := b2n q.par.counting * total (attemptW o) q.hist

/-- log entry `e` on `o` was counted for an attempt outcome (not for a bad status) -/
def countedAttemptW (o : HostId) (e : Fail) : Nat := b2n (e.host == o && e.src.isSome)

def Pc.owesCountOn (o : HostId) : Pc → Bool
  | .exited h out => h == o && out.countable
  | _ => false

/-- `q`'s failed attempt on `o` has ended but its `countFailure` call is still to come -/
def aboutToCountW (o : HostId) (q : Req) : Nat := b2n (q.par.counting && q.pc.owesCountOn o)

-- ---------------------------------------------------------------- the counts

/-- number of requests currently being sent to host object `o` -/
def sendingCount (s : State) (o : HostId) : Nat := total (inFlightW o) s.reqs

/-- number of counted failures on `o` that have not been forgotten yet (= forgetters still to run) -/
def pendingForgetters (s : State) (o : HostId) : Nat := total (pendingW o) s.log

def countedNotSpawned (s : State) (o : HostId) (c : CfgId) : Nat := total (countedW o c) s.log

def spawners (s : State) (o : HostId) (c : CfgId) : Nat := total (spawnerW o c) s.reqs

/-- #{failures counted on `o` at `tᵢ` with `tᵢ ≤ now < tᵢ + D`, configuration still loaded} -/
def windowCount (s : State) (o : HostId) : Nat := total (windowW s o) s.log

/-- the scheduler has let every forgetter that is due (and every pending `go`) run -/
def Timely (s : State) : Prop := ∀ e ∈ s.log, e.st ≠ FSt.forgotten → inWindow s e = true

/-- no request is inside the handler -/
def Quiescent (s : State) : Prop := ∀ q ∈ s.reqs, q.pc = Pc.done

/-- number of loaded handlers referencing key `k` in the `hosts` pool (with multiplicity) -/
def holders (s : State) (k : Key) : Nat := total (heldW k) s.cfgs

/-- the pool's usage count of `k` (0 = absent) -/
def refs (s : State) (k : Key) : Nat :=
  match s.pool k with
  | some (_, n) => n
  | none => 0

/-- the Host object the pool holds for `k` -/
def poolObj (s : State) (k : Key) : Option HostId := (s.pool k).map (·.1)

def failedAttempts (s : State) (o : HostId) : Nat := total (failedAttemptsW o) s.reqs

def countedAttempts (s : State) (o : HostId) : Nat := total (countedAttemptW o) s.log

def aboutToCount (s : State) (o : HostId) : Nat := total (aboutToCountW o) s.reqs

end CaddyModel.C09
