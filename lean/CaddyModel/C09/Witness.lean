/-
C09 — the clause the tree violated before fix d6561d4, kept as non-vacuity theorems about the
OLD Cleanup (`Model.stepDeleteOld` / `stepOld` / `runOld`), and what the fixed code does on the
same inputs.

STATEMENT (property text: "…also across config reloads that keep the upstream"; DESIGN §4 C09
`host_preserved_across_reload : key ∈ old ∩ new → hostsPool key ≥ 1 throughout`, same Host object):
now proved at full strength as `Props.host_preserved_across_reload`.

It was FALSE for the old code: `Handler.Cleanup` deleted every configured upstream from the `hosts`
pool, and `Context.LoadModule` (context.go:409-421) calls `Cleanup` on a module whose `Provision`
failed — also when it failed *before* `provisionUpstream` stored anything.  The rejected
configuration thereby took away a reference that belonged to the running one; the entry was dropped
from the pool while the running handler still used it, and the next reload that kept the upstream
got a *fresh* Host.  The fix makes Cleanup skip upstreams whose `Host` is nil.  The former witness
line is now a regression case in corpus/C09/ that must pass.
-/
import CaddyModel.C09.Concrete

namespace CaddyModel.C09

theorem run_snoc (s0 : State) (as : List Action) (a : Action) :
    run s0 (as ++ [a]) = (run s0 as).bind (fun s => step s a) := by
  induction as generalizing s0 with
  | nil => simp [run]; cases step s0 a <;> rfl
  | cons b bs ih =>
    simp only [List.cons_append, run]
    cases step s0 b with
    | none => rfl
    | some s1 => exact ih s1

/-- a reachable state, one more step, and facts about both ends — from two `decide`-checked runs -/
theorem witness_step (as : List Action) (a : Action) {P Q : State → Prop}
    (hp : HoldsAfter as P) (hq : HoldsAfter (as ++ [a]) Q) :
    ∃ s s', Reachable s ∧ step s a = some s' ∧ P s ∧ Q s' := by
  obtain ⟨s, hr, hps⟩ := hp
  obtain ⟨s', hr', hqs⟩ := hq
  rw [run_snoc, hr] at hr'
  exact ⟨s, s', reachable_of_run as Reachable.init hr, hr', hps, hqs⟩

def pActW : Params := { pA with maxFails := 3, failDur := 3, retries := 0, aOn := true, aPasses := 1, aFails := 1 }

/-- two passive failures pending on Host 0, then the active checker flips the upstream down -/
def wAct : List Action :=
  [.newCfg pActW, .store 0 7, .activeCheck 0 0 true, .newReq 0 true, .newReq 0 true, .dispatch 0 0, .dispatch 1 0,
   .finish 0 .upstreamErr, .after 0, .spawn 0 0, .finish 1 .upstreamErr, .after 1, .spawn 1 1,
   .activeCheck 0 0 false]

/-- configuration 0 (key 7) is loaded; configuration 1 lists key 7, fails in Provision before
    storing anything and is cancelled; the next step is its Cleanup -/
def wBad : List Action := [.newCfg pA, .store 0 7, .newCfg noParams, .cancel 1]

/-- **host_preserved_old_code_fails** — the statement of `Props.host_preserved_across_reload` is false
    for the old Cleanup: after `wBad`, the unmatched delete of the rejected configuration leaves key 7
    in use by a loaded handler before and after, yet the pool loses its Host object. -/
theorem host_preserved_old_code_fails :
    ∃ (as : List Action) (a : Action) (k : Key),
      HoldsAfterOld as (fun s => 0 < holders s k ∧ poolObj s k = some 0) ∧
      HoldsAfterOld (as ++ [a]) (fun s => 0 < holders s k ∧ poolObj s k = none ∧ refs s k ≠ holders s k) :=
  ⟨wBad, .delete 1 7, 7, by decide, by decide⟩

/-- the next configuration that keeps the key then got a fresh Host object under the old code … -/
theorem reload_after_failed_provision_got_new_host_old_code_fails :
    HoldsAfterOld (wBad ++ [.delete 1 7, .newCfg pA, .store 2 7])
      (fun s => s.cfgs.map (·.ups) = [[(7, 0)], [], [(7, 1)]]) := by decide

/-- … while the fixed code, on the very same action sequence, hands it the Host in use -/
theorem reload_after_failed_provision_keeps_host :
    HoldsAfter (wBad ++ [.delete 1 7, .newCfg pA, .store 2 7])
      (fun s => s.cfgs.map (·.ups) = [[(7, 0)], [], [(7, 0)]] ∧ refs s 7 = 2) := by decide

/-- **active_flip_zeroing_fails_breaks_accounting** — the seeded change
    C09-active-flip-zeroes-passive-fails (`resetHealth` also stores 0 into `Host.fails`), as
    `Model.stepActiveZeroing`: with two passive failures pending, the active status flip leaves
    `fails = 0` while two forgetters are still to run (`fails ≠ pending forgetters`), and when
    they have run the count is −2.  The real `stepActive` keeps `fails = 2` and ends at 0
    (`Props.active_checks_leave_passive_accounting_alone` and the examples next to it). -/
theorem active_flip_zeroing_fails_breaks_accounting :
    ((runZeroing init wAct).map fun s => (s.fails 0, pendingForgetters s 0)) = some (0, 2) ∧
    ((runZeroing init (wAct ++ [.tick, .tick, .tick, .forget 0, .forget 1])).map fun s => s.fails 0) = some (-2) ∧
    ((run init wAct).map fun s => (s.fails 0, pendingForgetters s 0)) = some (2, 2) ∧
    ((run init (wAct ++ [.tick, .tick, .tick, .forget 0, .forget 1])).map fun s => s.fails 0) = some 0 := by decide

/-- the same at the level of the harness schedule `sched 1 L:0:…;B:0;L:0:…` (the former witness
    line, now corpus/C09/regression.txt): the configuration loaded after the rejected one keeps key 0
    and gets the same Host object 0 -/
def wSched : List SStep := [.load [0] pA [], .badLoad [0], .load [0] pA []]

def runSteps (d : DState) : List SStep → Option DState
  | [] => some d
  | st :: rest =>
    match sstep d st with
    | some x => runSteps { x.1 with s := settle x.1.s } rest
    | none => none

theorem sched_reload_after_failed_provision_keeps_host :
    (runSteps dinit wSched).map (fun d => (d.s.cfgs.map (·.ups), poolObj d.s 0, refs d.s 0, d.s.nextHost))
      = some ([[(0, 0)], [], [(0, 0)]], some 0, 1, 1) := by decide

/-- in-flight clause across such a reload: the request of the old configuration is visible to the
    new one (same Host object) -/
theorem inflight_shared_after_failed_provision :
    (runSteps dinit [.load [0] pA [], .newReq true, .badLoad [0], .load [0] pA []]).map
      (fun d => (d.s.inflight 0, d.s.nextHost, d.s.cfgs.map (·.ups))) = some (1, 1, [[(0, 0)], [], [(0, 0)]]) := by decide

end CaddyModel.C09
