/-
C09 — the clause the unchanged tree violates, with a proved counter-example.

FULL STATEMENT (property text: "…also across config reloads that keep the upstream"; DESIGN §4 C09
`host_preserved_across_reload : key ∈ old ∩ new → hostsPool key ≥ 1 throughout` (same Host object)):

    theorem host_preserved_across_reload {s s' : State} {a : Action} (h : Reachable s)
        (hs : step s a = some s') (k : Key) (hb : 0 < holders s k) (ha : 0 < holders s' k) :
        ∃ o, poolObj s k = some o ∧ poolObj s' k = some o

It is FALSE for the code that exists: `Handler.Cleanup` (reverseproxy.go:392-401) deletes every
configured upstream from the `hosts` pool, and `Context.LoadModule` (context.go:409-421) calls
`Cleanup` on a module whose `Provision` failed — also when it failed *before* `provisionUpstream`
stored anything (bad `trusted_proxies`, transport, selection policy, circuit breaker, dynamic
upstream source, embedded header/rewrite handler).  The rejected configuration thereby takes away
a reference that belongs to the running one; the entry is dropped from the pool while the running
handler still uses it, and the next reload that keeps the upstream gets a *fresh* Host: in-flight
count and failure count restart from zero although requests of the old configuration are still
being sent to that upstream.

`Props.host_preserved_across_reload_partial` proves the clause for all runs in which every
Cleanup delete is matched by a store of the same handler (`Action.matched`, decidable).
-/
import CaddyModel.C09.Concrete

namespace CaddyModel.C09

theorem run_snoc (s0 : State) (as : List Action) (a : Action) :
    run s0 (as ++ [a]) = (run s0 as).bind (fun s => step s a) := by
  induction as generalizing s0 with
  | nil => simp [run]; cases step s0 a <;> rfl
  | cons b bs ih =>
    simp only [List.cons_append, run]
    cases step s0 b with
    | none => rfl
    | some s1 => exact ih s1

/-- a reachable state, one more step, and facts about both ends — from two `decide`-checked runs -/
theorem witness_step (as : List Action) (a : Action) {P Q : State → Prop}
    (hp : HoldsAfter as P) (hq : HoldsAfter (as ++ [a]) Q) :
    ∃ s s', Reachable s ∧ step s a = some s' ∧ P s ∧ Q s' := by
  obtain ⟨s, hr, hps⟩ := hp
  obtain ⟨s', hr', hqs⟩ := hq
  rw [run_snoc, hr] at hr'
  exact ⟨s, s', reachable_of_run as Reachable.init hr, hr', hps, hqs⟩

/-- configuration 0 (key 7) is loaded; configuration 1 lists key 7, fails in Provision before
    storing anything and is cancelled; the next step is its Cleanup -/
def wBad : List Action := [.newCfg pA, .store 0 7, .newCfg noParams, .cancel 1]

/-- **host_preserved_full_fails** — negation of the full statement: a reachable state and one step
    (the unmatched Cleanup delete of a rejected configuration) with key 7 in use by a loaded handler
    before and after, yet the pool loses its Host object. -/
theorem host_preserved_full_fails :
    ∃ (s s' : State) (a : Action) (k : Key), Reachable s ∧ step s a = some s' ∧
      0 < holders s k ∧ 0 < holders s' k ∧ ¬ ∃ o, poolObj s k = some o ∧ poolObj s' k = some o := by
  obtain ⟨s, s', hr, hs, ⟨hb, ho⟩, ⟨ha, ho'⟩⟩ :=
    witness_step wBad (.delete 1 7) (P := fun s => 0 < holders s 7 ∧ poolObj s 7 = some 0)
      (Q := fun s => 0 < holders s 7 ∧ poolObj s 7 = none) (by decide) (by decide)
  refine ⟨s, s', .delete 1 7, 7, hr, hs, hb, ha, ?_⟩
  rintro ⟨o, _, h2⟩
  rw [ho'] at h2; cases h2

/-- the excluded region is exactly this: the delete is not matched -/
example : HoldsAfter wBad (fun s => (Action.delete 1 7).matched s = false) := by decide

/-- the same at the level of the harness schedule `sched 1 L:0:…;B:0;L:0:…` (exported as a protocol
    line in `Driver.witnessLines`): the configuration loaded after the rejected one keeps key 0 but
    gets Host object 1 instead of 0, and the pool no longer has the key once the old one is unloaded -/
def wSched : List SStep := [.load [0] pA, .badLoad [0], .load [0] pA]

def runSteps (d : DState) : List SStep → Option DState
  | [] => some d
  | st :: rest =>
    match sstep d st with
    | some x => runSteps { x.1 with s := settle x.1.s } rest
    | none => none

theorem reload_after_failed_provision_gets_new_host :
    (runSteps dinit wSched).map (fun d => (d.s.cfgs.map (·.ups), poolObj d.s 0, d.s.nextHost))
      = some ([[(0, 0)], [], [(0, 1)]], none, 2) := by decide

/-- consequence for the in-flight clause: a request of the old configuration is still being sent to
    key 0, but the Host the new configuration consults for key 0 says nothing is in flight -/
theorem inflight_not_shared_after_failed_provision :
    (runSteps dinit [.load [0] pA, .newReq true, .badLoad [0], .load [0] pA]).map
      (fun d => (d.s.inflight 0, d.s.inflight 1, d.s.cfgs.map (·.ups))) = some (1, 0, [[(0, 0)], [], [(0, 1)]]) := by decide

end CaddyModel.C09
