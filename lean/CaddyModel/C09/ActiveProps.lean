/-
C09 — the verdict of an active health check and what it can do to an upstream (wave h).

`ActiveVerdict.verdict` is healthchecks.go doActiveHealthCheck's decision between markHealthy and
markUnhealthy as a function of the handler's expectations (expect_status, expect_body, max_size,
headers) and of what the health endpoint answers.  The theorems say which inputs decide it, and
that — whatever the verdicts of a whole round of checks are — the passive accounting the property
is about is left alone, while an upstream changes its active status only on a verdict of the
matching kind.
-/
import CaddyModel.C09.SchedLemmas
import CaddyModel.Gen.ActiveVerdict

namespace CaddyModel.C09

/-- **active_verdict_iff** — a check passes iff the request got an answer, the status is the
    expected one (the code itself or its class) or, nothing being expected, a 2xx, and — with
    expect_body — what was read of the body matches. -/
theorem active_verdict_iff (p : Params) (reach : Bool) (pr : Probe) :
    verdict p reach pr = true ↔
      reach = true ∧
      (if p.aExpect = 0 then 200 ≤ seenStatus p.aHdr pr ∧ seenStatus p.aHdr pr < 300
        else statusCodeMatches (seenStatus p.aHdr pr) p.aExpect = true) ∧
      (p.aBody = true → upLit.isPrefixOf (readBody p.aMax pr.body) = true) := by
  simp only [verdict, statusOk, bodyOk, Bool.and_eq_true, Bool.or_eq_true, Bool.not_eq_true', bne_iff_ne, ne_eq]
  by_cases he : p.aExpect = 0
  · cases hb : p.aBody <;> simp [he, and_assoc]
  · cases hb : p.aBody <;> simp [he, and_assoc]

def pExp : Params :=
  { passive := true, failDur := 2, maxFails := 2, retries := 0, maxReq := 0, firstMax := 0, badStatus := [],
    latency := false, closeStreams := false, aOn := true, aPasses := 1, aFails := 1, dynamic := false,
    aExpect := 5, aBody := true, aMax := 2, aHdr := false }

/-- expect_status 5xx, expect_body, max_size 2: a 503 "UPDATE" passes, a 200 "UP" does not -/
example : verdict pExp true { status := 503, body := upLit ++ [68, 65, 84, 69], needsHdr := false } = true := by decide
example : verdict pExp true probeUp = false := by decide

/-- **unreachable_backend_fails_every_check** — no expectation can make a check pass whose request
    failed (healthchecks.go:506-516: `httpClient.Do` error → markUnhealthy). -/
theorem unreachable_backend_fails_every_check (p : Params) (pr : Probe) : verdict p false pr = false := by
  simp [verdict]

example : verdict { pExp with aExpect := 0, aBody := false } false probeUp = false := by decide

/-- **expect_status_replaces_2xx_rule** — with expect_status set (and no expect_body) the verdict
    on an answer is `StatusCodeMatches` alone: a 2xx that is not the expected status fails, an
    expected 4xx/5xx passes. -/
theorem expect_status_replaces_2xx_rule (p : Params) (pr : Probe) (he : p.aExpect ≠ 0) (hb : p.aBody = false) :
    verdict p true pr = statusCodeMatches (seenStatus p.aHdr pr) p.aExpect := by
  simp [verdict, statusOk, bodyOk, he, hb]

example : verdict { pExp with aExpect := 404, aBody := false } true { probeDown with status := 404 } = true := by decide
example : verdict { pExp with aExpect := 404, aBody := false } true probeUp = false := by decide

/-- **max_size_below_literal_never_passes** — max_size limits what is READ, and expect_body is
    matched against that: with a limit shorter than anything the expression can match no answer
    ever passes (healthchecks.go:520-523, 555-578). -/
theorem max_size_below_literal_never_passes (p : Params) (reach : Bool) (pr : Probe)
    (hb : p.aBody = true) (h0 : p.aMax ≠ 0) (h1 : p.aMax < upLit.length) : verdict p reach pr = false := by
  have h : p.aMax = 1 := by simp [upLit] at h1; omega
  simp only [verdict, bodyOk, readBody, hb, h, upLit]
  rcases pr.body with _ | ⟨a, _ | ⟨b, t⟩⟩ <;> simp [List.isPrefixOf]

example : verdict { pExp with aExpect := 0, aMax := 1 } true probeUp = false := by decide
example : verdict { pExp with aExpect := 0, aMax := 2 } true probeUp = true := by decide

/-- **health_header_matters_only_to_a_guarded_endpoint** — the configured `headers` change a
    verdict only through what the endpoint does with them. -/
theorem health_header_matters_only_to_a_guarded_endpoint (p : Params) (reach b : Bool) (pr : Probe)
    (hn : pr.needsHdr = false) : verdict { p with aHdr := b } reach pr = verdict p reach pr := by
  simp [verdict, seenStatus, hn]

/-- a guarded endpoint: the check passes with the header and fails (403) without it — unless 4xx
    is what the handler expects -/
example : verdict { pExp with aExpect := 0, aBody := false, aHdr := true } true { probeUp with needsHdr := true } = true := by decide
example : verdict { pExp with aExpect := 0, aBody := false } true { probeUp with needsHdr := true } = false := by decide
example : verdict { pExp with aExpect := 4, aBody := false } true { probeUp with needsHdr := true } = true := by decide

/-- **active_verdict_sites_match_source** — the shape of `verdict`, regenerated from /repo by
    tools/extract on every run: in healthchecks.go doActiveHealthCheck `markUnhealthy()` is called
    under exactly these five chains of conditions (request error; expect_status set and not
    matched; expect_status not set and status outside 2xx; expect_body set and the read failed /
    the expression did not match), each time followed by `return`; `markHealthy()` is called once,
    unconditionally, after them; and the body is read through `io.LimitReader` iff max_size > 0.
    `verdict` is the conjunction of the negations in this order.  A change of any of these
    conditions in the source breaks this theorem. -/
theorem active_verdict_sites_match_source :
    Gen.activeMarkUnhealthyGuards =
      [["err!=nil"],
       ["h.HealthChecks.Active.ExpectStatus>0", "!caddyhttp.StatusCodeMatches(resp.StatusCode,h.HealthChecks.Active.ExpectStatus)"],
       ["else:h.HealthChecks.Active.ExpectStatus>0", "resp.StatusCode<200||resp.StatusCode>=300"],
       ["h.HealthChecks.Active.bodyRegexp!=nil", "err!=nil"],
       ["h.HealthChecks.Active.bodyRegexp!=nil", "!h.HealthChecks.Active.bodyRegexp.Match(bodyBytes)"]] ∧
    Gen.activeMarkHealthyGuards = [[]] ∧ Gen.activeMarkUnhealthyThenReturn = true ∧
    Gen.activeBodyLimit = "h.HealthChecks.Active.MaxSize>0 => body=io.LimitReader(body,h.HealthChecks.Active.MaxSize)" := by
  decide

example : Gen.activeMarkUnhealthyGuards.length = 5 ∧ Gen.activeMarkHealthyGuards.length = 1 := by decide

-- ---------------------------------------------------------------- what a verdict can do

/-- **only_a_failing_verdict_marks_down** — an upstream that was not held down by the active
    checker is held down after a check only if that check's verdict was `fail` and the Host's
    count of active failures reached the handler's `fails`. -/
theorem only_a_failing_verdict_marks_down {s s' : State} {c : CfgId} {i : Nat} {pass : Bool}
    (hs : step s (.activeCheck c i pass) = some s') (h0 : isDown s c i = false) (h1 : isDown s' c i = true) :
    pass = false ∧ ∃ cs u, s.cfgs[c]? = some cs ∧ cs.ups[i]? = some u ∧ cs.par.aFails ≤ s.aFail u.2 + 1 := by
  simp only [step, stepActive] at hs
  split at hs
  next cs hcs =>
    split at hs
    next u hu =>
      split at hs
      next hp =>
        split at hs
        · simp [h0] at *
        · simp at hs; subst hs; simp [isDown] at h0 h1; simp [h0] at h1
      next hp =>
        split at hs
        next hc =>
          simp only [Bool.and_eq_true, decide_eq_true_eq] at hc
          exact ⟨by simpa using hp, cs, u, hcs, hu, hc.1⟩
        · simp at hs; subst hs; simp [isDown] at h0 h1; simp [h0] at h1
    · simp at hs
  · simp at hs

/-- **only_a_passing_verdict_marks_up** — and it comes back only on a passing verdict -/
theorem only_a_passing_verdict_marks_up {s s' : State} {c : CfgId} {i : Nat} {pass : Bool}
    (hs : step s (.activeCheck c i pass) = some s') (h0 : isDown s c i = true) (h1 : isDown s' c i = false) :
    pass = true := by
  simp only [step, stepActive] at hs
  split at hs
  next cs hcs =>
    split at hs
    next u hu =>
      split at hs
      next hp => exact hp
      next hp =>
        split at hs
        · simp [h0] at *
        · simp at hs; subst hs; simp [isDown] at h0 h1; simp [h0] at h1
    · simp at hs
  · simp at hs

/-- **round_of_checks_leaves_passive_accounting_alone** — a whole round of active checks of a
    handler (doActiveHealthCheckForAllHosts), whatever it expects and whatever the endpoints
    answer, leaves in-flight counts, failure counts, forgetters, requests and the pool as they
    are: the passive verdict `Healthy()` reads is the same before and after. -/
theorem round_of_checks_leaves_passive_accounting_alone {d : DState} {c : CfgId} {s s' : State}
    (hs : activeRound d s c = some s') :
    s'.fails = s.fails ∧ s'.inflight = s.inflight ∧ s'.log = s.log ∧ s'.reqs = s.reqs ∧ s'.pool = s.pool ∧
      ∀ p o, healthy p s' o = healthy p s o := by
  have key : ∀ (p : Params) (ups : List (Key × HostId)) (i : Nat) (s s' : State), roundFrom d c p s i ups = some s' →
      s'.fails = s.fails ∧ s'.inflight = s.inflight ∧ s'.log = s.log ∧ s'.reqs = s.reqs ∧ s'.pool = s.pool := by
    intro p ups
    induction ups with
    | nil => intro i s s' h; simp [roundFrom] at h; subst h; exact ⟨rfl, rfl, rfl, rfl, rfl⟩
    | cons u rest ih =>
      intro i s s' h
      simp only [roundFrom] at h
      split at h
      next s1 h1 =>
        obtain ⟨_, a2, a3, a4, a5, _, a7, _⟩ := stepActive_core (by simpa [step] using h1)
        obtain ⟨b1, b2, b3, b4, b5⟩ := ih _ _ _ h
        exact ⟨b1.trans a3, b2.trans a2, b3.trans a5, b4.trans a4, b5.trans a7⟩
      · simp at h
  have main : s'.fails = s.fails ∧ s'.inflight = s.inflight ∧ s'.log = s.log ∧ s'.reqs = s.reqs ∧ s'.pool = s.pool := by
    simp only [activeRound] at hs
    split at hs
    · split at hs
      · exact key _ _ _ _ _ hs
      · simp at hs; subst hs; exact ⟨rfl, rfl, rfl, rfl, rfl⟩
    · simp at hs
  obtain ⟨m1, m2, m3, m4, m5⟩ := main
  exact ⟨m1, m2, m3, m4, m5, fun p o => by simp [healthy, m1]⟩

end CaddyModel.C09
