/-
C09 — dynamic upstreams: a request that is dealing with a Host in its current loop iteration
(being sent to it, or between the return of `reverseProxy` and the end of the iteration) still has
that iteration's holder alive, owned by itself, with the Host among what it provisioned.
-/
import CaddyModel.C09.SchedLemmas
import CaddyModel.C09.FuelLemmas

namespace CaddyModel.C09

def IterInv (s : State) : Prop :=
  ∀ (r : Nat) (q : Req) (o : HostId) (c : CfgId), s.reqs[r]? = some q → q.par.dynamic = true →
    q.pc.hostOf = some o → q.holder = some c →
    ∃ cs : CfgSt, s.cfgs[c]? = some cs ∧ cs.canceled = false ∧ cs.owner = some r ∧ ∃ k, (k, o) ∈ cs.ups

theorem lt_of_get {α : Type} {l : List α} {i : Nat} {x : α} (h : l[i]? = some x) : i < l.length := by
  rcases Nat.lt_or_ge i l.length with h' | h'
  · exact h'
  · simp [List.getElem?_eq_none h'] at h

/-- one request is rewritten, configurations untouched -/
theorem iter_set {s s' : State} {r0 : Nat} {q0 q0' : Req} (hi : IterInv s) (hq0 : s.reqs[r0]? = some q0)
    (hr : s'.reqs = s.reqs.set r0 q0') (hc : s'.cfgs = s.cfgs)
    (hown : ∀ o c, q0'.par.dynamic = true → q0'.pc.hostOf = some o → q0'.holder = some c →
      ∃ cs : CfgSt, s.cfgs[c]? = some cs ∧ cs.canceled = false ∧ cs.owner = some r0 ∧
        ∃ k, (k, o) ∈ cs.ups) : IterInv s' := by
  intro r q o c hq hd ho hh
  rw [hr] at hq
  rw [hc]
  by_cases h : r0 = r
  · subst h
    rw [get_set_self hq0] at hq; simp at hq; subst hq
    exact hown o c hd ho hh
  · rw [List.getElem?_set_ne h] at hq
    exact hi r q o c hq hd ho hh

/-- the rewritten request keeps handler parameters, holder and the Host it is dealing with -/
theorem iter_set_same {s s' : State} {r0 : Nat} {q0 q0' : Req} (hi : IterInv s) (hq0 : s.reqs[r0]? = some q0)
    (hr : s'.reqs = s.reqs.set r0 q0') (hc : s'.cfgs = s.cfgs) (e1 : q0'.par = q0.par) (e2 : q0'.holder = q0.holder)
    (e3 : ∀ o, q0'.pc.hostOf = some o → q0.pc.hostOf = some o) : IterInv s' := by
  refine iter_set hi hq0 hr hc ?_
  intro o c hd ho hh
  rw [e1] at hd; rw [e2] at hh
  exact hi r0 q0 o c hq0 hd (e3 o ho) hh

/-- requests untouched; every live owned holder a request relies on stays alive, owned, and keeps
    its upstreams -/
theorem iter_cfgs {s s' : State} (hi : IterInv s) (hr : s'.reqs = s.reqs)
    (hk : ∀ (c : CfgId) (cs : CfgSt) (r : Nat) (q : Req) (o : HostId), s.cfgs[c]? = some cs → cs.canceled = false →
      cs.owner = some r → s.reqs[r]? = some q → q.pc.hostOf = some o →
      ∃ cs' : CfgSt, s'.cfgs[c]? = some cs' ∧ cs'.canceled = false ∧ cs'.owner = some r ∧ ∀ x ∈ cs.ups, x ∈ cs'.ups) :
    IterInv s' := by
  intro r q o c hq hd ho hh
  rw [hr] at hq
  obtain ⟨cs, h2, h3, h4, k, h5⟩ := hi r q o c hq hd ho hh
  obtain ⟨cs', g1, g2, g3, g4⟩ := hk c cs r q o h2 h3 h4 hq ho
  exact ⟨cs', g1, g2, g3, k, g4 _ h5⟩

theorem iterInv_init : IterInv init := by
  intro r q o c hq; simp [init] at hq

theorem iterInv_step {s s' : State} (a : Action) (hi : IterInv s) (hs : step s a = some s') : IterInv s' := by
  cases a with
  | newCfg p =>
    simp [step] at hs; subst hs
    refine iter_cfgs hi rfl ?_
    intro c cs r q o hc h1 h2 _ _
    exact ⟨cs, by simp [List.getElem?_append_left (lt_of_get hc), hc], h1, h2, fun x hx => hx⟩
  | store c0 k =>
    simp only [step, stepStore] at hs
    split at hs
    next cs0 hcs0 =>
      split at hs
      · simp at hs
      · split at hs
        all_goals
          simp at hs; subst hs
          refine iter_cfgs hi rfl ?_
          intro c cs r q o hc h1 h2 _ _
          by_cases hcc : c0 = c
          · subst hcc
            rw [hcs0] at hc; simp at hc; subst hc
            exact ⟨_, get_set_self hcs0, h1, h2, fun x hx => by simp [hx]⟩
          · exact ⟨cs, by simp [List.getElem?_set_ne hcc, hc], h1, h2, fun x hx => hx⟩
    next => simp at hs
  | cancel c0 =>
    simp only [step, stepCancel] at hs
    split at hs
    next cs0 hcs0 =>
      split at hs
      next hidle =>
        simp at hs; subst hs
        refine iter_cfgs hi rfl ?_
        intro c cs r q o hc h1 h2 hq ho
        by_cases hcc : c0 = c
        · subst hcc
          rw [hcs0] at hc; simp at hc; subst hc
          simp [ownerIdle, h2, hq, ho] at hidle
        · exact ⟨cs, by simp [List.getElem?_set_ne hcc, hc], h1, h2, fun x hx => hx⟩
      · simp at hs
    next => simp at hs
  | delete c0 k =>
    simp only [step, stepDelete_spec] at hs
    split at hs
    next cs0 hcs0 =>
      split at hs
      next hcanc =>
        split at hs
        · simp at hs; subst hs
          refine iter_cfgs hi rfl ?_
          intro c cs r q o hc h1 h2 _ _
          by_cases hcc : c0 = c
          · subst hcc
            rw [hcs0] at hc; simp at hc; subst hc
            simp [hcanc] at h1
          · exact ⟨cs, by simp [List.getElem?_set_ne hcc, hc], h1, h2, fun x hx => hx⟩
        · simp at hs; subst hs; exact hi
      · simp at hs
    next => simp at hs
  | newReq c get =>
    simp only [step, stepNewReq] at hs
    split at hs <;> simp at hs
    subst hs
    intro r q o c hq hd ho hh
    by_cases hlt : r < s.reqs.length
    · simp only [List.getElem?_append_left hlt] at hq
      exact hi r q o c hq hd ho hh
    · have : r = s.reqs.length ∨ s.reqs.length < r := by omega
      rcases this with h | h
      · subst h; simp at hq; subst hq; simp [Pc.hostOf] at ho
      · rw [List.getElem?_eq_none (by simp; omega)] at hq; simp at hq
  | dispatch r0 h =>
    simp only [step, stepDispatch] at hs
    split at hs
    next q0 hq0 =>
      split at hs
      next hpc =>
        split at hs
        next hok =>
          simp at hs; subst hs
          refine iter_set hi hq0 rfl rfl ?_
          intro o c hd ho hh
          simp [Pc.hostOf] at ho; subst ho
          have hd' : q0.par.dynamic = true := hd
          have hh' : q0.holder = some c := hh
          simp only [dynOk, hd', if_true, hh'] at hok
          split at hok
          next cs hcs =>
            simp only [Bool.and_eq_true, Bool.not_eq_true', beq_iff_eq, List.any_eq_true] at hok
            obtain ⟨⟨h1, h2⟩, x, hx, hxo⟩ := hok
            exact ⟨cs, hcs, h1, h2, x.1, by rw [← hxo]; exact hx⟩
          · simp at hok
        · simp at hs
      all_goals simp at hs
    next => simp at hs
  | noUpstream r0 =>
    simp only [step, stepNoUpstream] at hs
    split at hs
    next q0 hq0 =>
      split at hs
      next hpc =>
        simp at hs; subst hs
        refine iter_set hi hq0 rfl rfl ?_
        intro o c _ ho _; simp at ho
      all_goals simp at hs
    next => simp at hs
  | strike r0 =>
    simp only [step, stepStrike] at hs
    split at hs
    next q0 hq0 =>
      split at hs
      next h hpc =>
        split at hs
        · simp at hs; subst hs
          exact iter_set_same hi hq0 rfl rfl rfl rfl (by intro o ho; simpa [hpc, Pc.hostOf] using ho)
        · simp at hs
      all_goals simp at hs
    next => simp at hs
  | spawn r0 i =>
    simp only [step, stepSpawn] at hs
    split at hs
    next q0 e hq0 he =>
      split at hs
      next h hpc =>
        split at hs
        · simp at hs; subst hs
          exact iter_set_same hi hq0 rfl rfl rfl rfl (by intro o ho; simpa [hpc, Pc.hostOf] using ho)
        · simp at hs
      next h hpc =>
        split at hs
        · simp at hs; subst hs
          refine iter_set hi hq0 rfl rfl ?_
          intro o c _ ho _; simp at ho
        · simp at hs
      all_goals simp at hs
    next => simp at hs
  | finish r0 out =>
    simp only [step, stepFinish] at hs
    split at hs
    next q0 hq0 =>
      split at hs
      next h hpc =>
        simp at hs; subst hs
        exact iter_set_same hi hq0 rfl rfl rfl rfl (by intro o ho; simpa [hpc, Pc.hostOf] using ho)
      all_goals simp at hs
    next => simp at hs
  | after r0 =>
    simp only [step, stepAfter] at hs
    split at hs
    next q0 hq0 =>
      split at hs
      next h out hpc =>
        split at hs
        · split at hs
          · simp at hs; subst hs
            exact iter_set_same hi hq0 rfl rfl rfl rfl (by intro o ho; simpa [hpc, Pc.hostOf] using ho)
          · simp at hs; subst hs
            refine iter_set hi hq0 rfl rfl ?_
            intro o c _ ho _; simp at ho
        · simp at hs; subst hs
          refine iter_set hi hq0 rfl rfl ?_
          intro o c _ ho _; simp [Pc.hostOf] at ho
      all_goals simp at hs
    next => simp at hs
  | forget i =>
    simp only [step, stepForget] at hs
    split at hs
    next e he =>
      split at hs
      · simp at hs; subst hs; exact hi
      · simp at hs
    next => simp at hs
  | newIter r0 =>
    simp only [step, stepNewIter] at hs
    split at hs
    next q0 hq0 =>
      split at hs
      next hpc =>
        split at hs
        · simp at hs; subst hs
          intro r q o c hq hd ho hh
          by_cases h : r0 = r
          · subst h
            rw [get_set_self hq0] at hq; simp at hq; subst hq
            simp [hpc, Pc.hostOf] at ho
          · simp only [List.getElem?_set_ne h] at hq
            obtain ⟨cs, h2, h3, h4, h5⟩ := hi r q o c hq hd ho hh
            exact ⟨cs, by simp [List.getElem?_append_left (lt_of_get h2), h2], h3, h4, h5⟩
        · simp at hs
      all_goals simp at hs
    next => simp at hs
  | dialInfoFails r0 =>
    simp only [step, stepDialInfoFails] at hs
    split at hs
    next q0 hq0 =>
      split at hs
      next hpc =>
        simp at hs; subst hs
        refine iter_set hi hq0 rfl rfl ?_
        intro o c _ ho _; simp [Pc.hostOf] at ho
      all_goals simp at hs
    next => simp at hs
  | fallback r0 =>
    simp only [step, stepFallback] at hs
    split at hs
    next q0 hq0 =>
      split at hs
      next hpc =>
        split at hs
        · simp at hs; subst hs
          refine iter_set hi hq0 rfl rfl ?_
          intro o c _ ho _; simp [hpc, Pc.hostOf] at ho
        · simp at hs
      all_goals simp at hs
    next => simp at hs
  | activeCheck c0 i pass =>
    obtain ⟨_, _, _, h4, _, h6, _, _⟩ := stepActive_core hs
    intro r q o c hq hd ho hh
    rw [h4] at hq; rw [h6]
    exact hi r q o c hq hd ho hh
  | tick => simp [step] at hs; subst hs; exact hi

theorem iterInv_reachable {s : State} (h : Reachable s) : IterInv s := by
  induction h with
  | init => exact iterInv_init
  | step a _ hs ih => exact iterInv_step a ih hs

end CaddyModel.C09
