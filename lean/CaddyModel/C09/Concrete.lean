/-
C09 — concrete reachable states (built by running explicit action sequences through `Model.run`)
used by the `example`s next to every theorem and by the proved counter-examples in `Witness.lean`.
-/
import CaddyModel.C09.Lemmas
import CaddyModel.C09.Sched

namespace CaddyModel.C09

-- ---------------------------------------------------------------- concrete states for the `example`s

theorem reachable_of_run {s s' : State} (as : List Action) (h : Reachable s) (hr : run s as = some s') : Reachable s' := by
  induction as generalizing s with
  | nil => simp [run] at hr; subst hr; exact h
  | cons a as ih =>
    simp only [run] at hr
    split at hr
    next s1 h1 => exact ih (Reachable.step a h h1) hr
    next => simp at hr

/-- `P` holds in the state the action sequence `as` leads to -/
def HoldsAfter (as : List Action) (P : State → Prop) : Prop := ∃ s, run init as = some s ∧ P s

instance (as : List Action) (P : State → Prop) [DecidablePred P] : Decidable (HoldsAfter as P) :=
  match h : run init as with
  | some s => if hp : P s then isTrue ⟨s, h, hp⟩ else isFalse (fun ⟨s', h', hp'⟩ => by rw [h] at h'; cases h'; exact hp hp')
  | none => isFalse (fun ⟨s', h', _⟩ => by rw [h] at h'; cases h')

theorem witness (as : List Action) {P : State → Prop} (h : HoldsAfter as P) : ∃ s, Reachable s ∧ P s := by
  obtain ⟨s, hr, hp⟩ := h
  exact ⟨s, reachable_of_run as Reachable.init hr, hp⟩

/-- `P` holds in the state `as` leads to under the OLD code (Cleanup before fix d6561d4) -/
def HoldsAfterOld (as : List Action) (P : State → Prop) : Prop := ∃ s, runOld init as = some s ∧ P s

instance (as : List Action) (P : State → Prop) [DecidablePred P] : Decidable (HoldsAfterOld as P) :=
  match h : runOld init as with
  | some s => if hp : P s then isTrue ⟨s, h, hp⟩ else isFalse (fun ⟨s', h', hp'⟩ => by rw [h] at h'; cases h'; exact hp hp')
  | none => isFalse (fun ⟨s', h', _⟩ => by rw [h] at h'; cases h')

instance (s : State) : Decidable (Timely s) := by unfold Timely; infer_instance
instance (s : State) : Decidable (Quiescent s) := by unfold Quiescent; infer_instance

def pA : Params := { passive := true, failDur := 2, maxFails := 2, retries := 1, maxReq := 0, firstMax := 0, badStatus := [500], latency := false, closeStreams := false, aOn := false, aPasses := 1, aFails := 1, dynamic := false }

/-- one configuration, Host object 0 (key 7): request 0 failed there (counted at t=0, forgetter
    running), request 1 is being sent to it, request 2 got a bad status and stands between
    `countFail(1)` and `go`; one tick has passed -/
def exA : List Action :=
  [.newCfg pA, .store 0 7, .newReq 0 true, .newReq 0 false, .newReq 0 true, .dispatch 0 0, .dispatch 1 0,
   .finish 0 .upstreamErr, .after 0, .spawn 0 0, .dispatch 2 0, .tick, .strike 2]

/-- `exA` continued: the strike's forgetter is started, request 2 panics, request 1's client goes
    away, request 0 (retried) succeeds; everything has returned and nothing is overdue -/
def exB : List Action :=
  exA ++ [.spawn 2 1, .finish 2 .panic, .after 2, .finish 1 .clientAbort, .after 1, .dispatch 0 0, .finish 0 .ok, .after 0]

/-- `exB` continued until both windows have elapsed and both forgetters have run -/
def exC : List Action := exB ++ [.tick, .forget 0, .tick, .forget 1]

def pB : Params := { pA with retries := 0 }

/-- reload keeping key 7: the new handler stores before the old one is cancelled and cleaned up -/
def exR : List Action :=
  [.newCfg pA, .store 0 7, .store 0 8, .newReq 0 true, .dispatch 0 0, .newCfg pB, .store 1 7, .cancel 0, .delete 0 7, .delete 0 8]


end CaddyModel.C09
