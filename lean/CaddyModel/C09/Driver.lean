/-
C09 line-protocol driver (wire syntax: harness/internal/c09/c09.go).

  sched <K> <step>;<step>;…     forced schedule → one snapshot token per step + `end[…]`
  stress <N> <seed>             un-forced concurrency; the answer is the balance the theorems promise
  static defer                  syntactic premise of dec_on_every_exit; constant answer
-/
import CaddyModel.C09.Sched

namespace CaddyModel.C09

/-- strict decimal: digits only, no leading zero, at most 4 digits -/
def digitsVal : List Char → Nat → Option Nat
  | [], acc => some acc
  | c :: cs, acc => if '0' ≤ c ∧ c ≤ '9' then digitsVal cs (acc * 10 + (c.toNat - 48)) else none

def num (s : String) : Option Nat :=
  match s.toList with
  | [] => none
  | c :: cs =>
    if (c :: cs).length > 4 then none
    else if c == '0' && !cs.isEmpty then none
    else digitsVal (c :: cs) 0

def parseKeys (s : String) (K : Nat) : Option (List Key) :=
  if s.isEmpty then none else
  match (s.splitOn ".").mapM num with
  | some ks => if ks.all (· < K) && ks.length ≤ 8 then some ks else none
  | none => none

/-- the unhealthy_status lists a load step can choose from (same table in c09.go) -/
def statusTable : Nat → List Nat
  | 1 => [500]
  | 2 => [500, 5]
  | 3 => [5]
  | 4 => [502, 404]
  | 5 => [4, 429, 503]
  | 6 => [50]
  | 7 => [200, 2]
  | _ => []

def mkParams (p d m r q st x : Nat) (dyn : Bool := false) (lat : Nat := 0) (act : Nat := 0) : Params :=
  { passive := p == 1,
    failDur := if p == 1 then d else 0,
    maxFails := if m == 0 then 1 else m,     -- reverseproxy.go:359-361
    retries := r,
    maxReq := if p == 1 then q else 0,       -- reverseproxy.go:1218-1223
    firstMax := x,                           -- an upstream's own max_requests wins (reverseproxy.go:1218-1223)
    badStatus := if p == 1 then statusTable st else [],
    latency := p == 1 && lat == 1,
    -- act = 0: no (modelled) active checks; 4..7: enabled with passes = 1 + (act-4)/2, fails = 1 + (act-4)%2
    closeStreams := act == 8,   -- mode 8: stream_close_delay is not set
    aOn := act ≥ 4 && act ≤ 7,
    aPasses := if act ≥ 4 && act ≤ 7 then 1 + (act - 4) / 2 else 1,
    aFails := if act ≥ 4 && act ≤ 7 then 1 + (act - 4) % 2 else 1,
    dynamic := dyn }

/-- the expect_status values a load step can choose from (0 = not set; < 100 = a class) -/
def expectTable : List Nat := [0, 2, 3, 4, 5, 200, 201, 301, 403, 404, 503]

/-- the statuses a scripted health endpoint can answer with -/
def probeStatusTable : List Nat := [200, 201, 301, 404, 503]

/-- the bodies a scripted health endpoint can answer with: "DOWN", "UP", "UPDATE" -/
def probeBody : Nat → List Nat
  | 1 => upLit
  | 2 => upLit ++ [68, 65, 84, 69]
  | _ => [68, 79, 87, 78]

def outcomeNames : List String := ["ok", "sl", "e5", "c404", "c429", "c502", "c503", "rst", "hup", "pan", "her"]

def parseStep (s : String) (K : Nat) : Option SStep :=
  match s.splitOn ":" with
  | ["L", ks, p, d, m, r, q, st] =>
    match parseKeys ks K, num p, num d, num m, num r, num q, num st with
    | some ks, some p, some d, some m, some r, some q, some st =>
      if p ≤ 1 && r ≤ 8 && st ≤ 7 && m ≤ 100 && q ≤ 100 then some (.load ks (mkParams p d m r q st 0) []) else none
    | _, _, _, _, _, _, _ => none
  | ["L", ks, p, d, m, r, q, st, x] =>
    match parseKeys ks K, num p, num d, num m, num r, num q, num st, num x with
    | some ks, some p, some d, some m, some r, some q, some st, some x =>
      if p ≤ 1 && r ≤ 8 && st ≤ 7 && m ≤ 100 && q ≤ 100 && 1 ≤ x && x ≤ 100 then
        some (.load ks (mkParams p d m r q st x) []) else none
    | _, _, _, _, _, _, _, _ => none
  | ["L", ks, p, d, m, r, q, st, x, l] =>
    -- tenth field: passive unhealthy_latency configured (then the ninth may be 0 = no own max_requests)
    match parseKeys ks K, num p, num d, num m, num r, num q, num st, num x, num l with
    | some ks, some p, some d, some m, some r, some q, some st, some x, some l =>
      -- l: 1 = unhealthy_latency, 2 = active health checks in the background (thresholds out of reach:
      -- they change nothing the model sees), 3 = both
      -- 4..7 = active health checks driven round by round (passes/fails thresholds 1 or 2); their
      -- upstreams must be distinct addresses (one Host per check)
      if p ≤ 1 && r ≤ 8 && st ≤ 7 && m ≤ 100 && q ≤ 100 && x ≤ 100 && 1 ≤ l && l ≤ 3 then
        some (.load ks (mkParams p d m r q st x false (if l == 2 then 0 else 1)) [])
      else if p ≤ 1 && r ≤ 8 && st ≤ 7 && m ≤ 100 && q ≤ 100 && x ≤ 100 && 4 ≤ l && l ≤ 7 && ks.eraseDups.length == ks.length then
        some (.load ks (mkParams p d m r q st x false 0 l) [])
      else if p ≤ 1 && r ≤ 8 && st ≤ 7 && m ≤ 100 && q ≤ 100 && x ≤ 100 && l == 8 then
        -- 8 = stream_close_delay unset: unloading the configuration closes its upgraded connections
        some (.load ks (mkParams p d m r q st x false 0 8) [])
      else none
    | _, _, _, _, _, _, _, _, _ => none
  | ["L", ks, p, d, m, r, q, st, x, l, es, eb, mx, hd] =>
    -- active health checks driven by the schedule (l = 4..7) with expectations: es = expect_status
    -- (0 = not set), eb = expect_body `^UP` set, mx = max_size (0 = not set), hd = the health
    -- request carries the header `X-Verif-Hc: yes`
    match parseKeys ks K, num p, num d, num m, num r, num q, num st, num x, num l with
    | some ks, some p, some d, some m, some r, some q, some st, some x, some l =>
      match num es, num eb, num mx, num hd with
      | some es, some eb, some mx, some hd =>
        if p ≤ 1 && r ≤ 8 && st ≤ 7 && m ≤ 100 && q ≤ 100 && x ≤ 100 && 4 ≤ l && l ≤ 7 && ks.eraseDups.length == ks.length
            && expectTable.contains es && eb ≤ 1 && mx ≤ 100 && hd ≤ 1 then
          some (.load ks { mkParams p d m r q st x false 0 l with aExpect := es, aBody := eb == 1, aMax := mx, aHdr := hd == 1 } [])
        else none
      | _, _, _, _ => none
    | _, _, _, _, _, _, _, _, _ => none
  | ["Y", ks, p, d, m, r, q, st] =>
    -- a configuration whose upstreams come from a dynamic source returning `ks`
    match parseKeys ks K, num p, num d, num m, num r, num q, num st with
    | some ks, some p, some d, some m, some r, some q, some st =>
      if p ≤ 1 && r ≤ 8 && st ≤ 7 && m ≤ 100 && q ≤ 100 then some (.load ks (mkParams p d m r q st 0 true) []) else none
    | _, _, _, _, _, _, _ => none
  | ["Y", ks, p, d, m, r, q, st, fb] =>
    -- …and static upstreams `fb` the handler falls back to while the source fails
    match parseKeys ks K, num p, num d, num m, num r, num q, num st, parseKeys fb K with
    | some ks, some p, some d, some m, some r, some q, some st, some fb =>
      if p ≤ 1 && r ≤ 8 && st ≤ 7 && m ≤ 100 && q ≤ 100 then some (.load ks (mkParams p d m r q st 0 true) fb) else none
    | _, _, _, _, _, _, _, _ => none
  | ["H", k, "1"] => (num k).bind fun k => if k < K then some (.health k true) else none
  | ["H", k, "0"] => (num k).bind fun k => if k < K then some (.health k false) else none
  | ["H", k, st, b, hd] =>
    -- the health endpoint of backend k scripted in full: status, body (0 "DOWN", 1 "UP", 2 "UPDATE"),
    -- hd = 1: it answers 403 to a health request without the header `X-Verif-Hc: yes`
    match num k, num st, num b, num hd with
    | some k, some st, some b, some hd =>
      if k < K && probeStatusTable.contains st && b ≤ 2 && hd ≤ 1 then
        some (.probe k { status := st, body := probeBody b, needsHdr := hd == 1 }) else none
    | _, _, _, _ => none
  | ["K"] => some .round
  | ["E", "1"] => some (.srcFail true)
  | ["E", "0"] => some (.srcFail false)
  | ["B", ks] => (parseKeys ks K).map .badLoad
  | ["C"] => some .unloadCur
  | ["N", "G"] => some (.newReq true)
  | ["N", "P"] => some (.newReq false)
  | ["N", "W"] => some .newReqWs
  | ["N", g, k, b] =>
    -- a request for which the dial placeholder of upstream key k expands to something undialable
    -- (b: 1 = named port, 2 = port range, 3 = not set); only in `schedph` schedules
    match num k, num b with
    | some k, some b =>
      if k < K && 1 ≤ b && b ≤ 3 && (g == "G" || g == "P") then some (.newReqBad (g == "G") k) else none
    | _, _ => none
  | ["O", r, "sb"] => (num r).map .streamBegin
  | ["O", r, "wu"] => (num r).map .wsBegin
  | ["O", r, "se"] => (num r).map .streamEnd
  | ["O", r, what] => if outcomeNames.contains what then (num r).map (.answer · what) else none
  | ["A", r] => (num r).map .abort
  | ["D", k] => match num k with
    | some k => if k < K then some (.bdown k) else none
    | none => none
  | ["U", k] => match num k with
    | some k => if k < K then some (.bup k) else none
    | none => none
  | ["T", n] => match num n with
    | some n => if 1 ≤ n && n ≤ 50 then some (.ticks n) else none
    | none => none
  | _ => none

/-- does the schedule load a configuration with unhealthy_latency?  (Such schedules must not let
    time pass: how long a request stays parked would decide whether its round trip was slow.) -/
def usesLatency : List SStep → Bool
  | [] => false
  | .load _ p _ :: rest => p.latency || usesLatency rest
  | _ :: rest => usesLatency rest

/-- does the schedule load a configuration whose active checks it drives itself? -/
def usesActive : List SStep → Bool
  | [] => false
  | .load _ p _ :: rest => p.aOn || usesActive rest
  | _ :: rest => usesActive rest

/-- the tenth field of the load steps of a schedule (0 where there is none) -/
def loadModes (steps : List String) : List Nat :=
  steps.map fun st =>
    match st.splitOn ":" with
    | ["L", _, _, _, _, _, _, _, _, l] => (num l).getD 0
    | ["L", _, _, _, _, _, _, _, _, l, _, _, _, _] => (num l).getD 0
    | _ => 0

/-- free-running background checks (modes 2, 3) would move the active counters of shared Hosts by
    an unknown amount: they cannot be mixed with checks the schedule drives (modes 4..7) -/
def mixesActiveModes (steps : List String) : Bool :=
  (loadModes steps).any (fun l => l == 2 || l == 3) && (loadModes steps).any (fun l => 4 ≤ l && l ≤ 7)

def usesBadDial : List SStep → Bool
  | [] => false
  | .newReqBad _ _ :: _ => true
  | _ :: rest => usesBadDial rest

def totalTicks : List SStep → Nat
  | [] => 0
  | .ticks n :: rest => n + totalTicks rest
  | _ :: rest => totalTicks rest

def showObjs (s : State) : String :=
  ",".intercalate ((List.range s.nextHost).map fun o => toString (s.inflight o) ++ "/" ++ toString (s.fails o))

def showUp (c : CfgId) (p : Params) (s : State) (iu : Nat × (Key × HostId)) : String :=
  toString iu.2.2 ++ (if isDown s c iu.1 || !healthy p s iu.2.2 then "u" else if full p iu.1 s iu.2.2 then "f" else "a") ++
    (if p.aOn then ":" ++ toString (s.aPass iu.2.2) ++ "/" ++ toString (s.aFail iu.2.2) else "")

def showCur (d : DState) : String :=
  match curLive d with
  | some c =>
    match d.s.cfgs[c]? with
    | some cs => ",".intercalate ((List.range cs.ups.length).zip cs.ups |>.map (showUp c cs.par d.s))
    | none => ""
  | none => ""

def showPool (s : State) (K : Nat) : String :=
  ",".intercalate ((List.range K).map fun k =>
    match s.pool k with
    | some (o, n) =>
      -- object and usage count, then what GET /reverse_proxy/upstreams reports for the address:
      -- admin.go ranges over the pool and reads NumRequests()/Fails() of the pooled Host
      toString o ++ "x" ++ toString n ++ ":" ++ toString (s.inflight o) ++ "/" ++ toString (s.fails o)
    | none => "-")

def snapshot (d : DState) (K : Nat) (ev : String) : String :=
  ev ++ "[" ++ showObjs d.s ++ "][" ++ showCur d ++ "][" ++ showPool d.s K ++ "]"

def runSched (K : Nat) : DState → List SStep → List String → Option (List String)
  | d, [], acc =>
    some (acc ++ [snapshot { d with s := quiesce d, cur := none } K "end"])
  | d, st :: rest, acc =>
    match sstep d st with
    | none => none
    | some (d1, ev) =>
      runSched K { d1 with s := settle d1.s, aged := agedAfter d st } rest (acc ++ [snapshot { d1 with s := settle d1.s } K ev])

def handleSched (k steps : String) (ph : Bool := false) : String :=
  match num k with
  | none => "bad-op"
  | some K =>
    if K < 1 || K > 6 then "bad-op" else
    if (steps.splitOn ";").length > 200 then "bad-op" else
    match (steps.splitOn ";").mapM (parseStep · K) with
    | none => "bad-op"
    | some sts =>
      if mixesActiveModes (steps.splitOn ";") then "bad-op" else
      -- `schedph`: every upstream's dial address is a request placeholder; active health checks
      -- cannot use such addresses (modes 2..7); undialable requests exist only there
      if usesBadDial sts && !ph then "bad-op" else
      if ph && (loadModes (steps.splitOn ";")).any (fun l => 2 ≤ l && l ≤ 7) then "bad-op" else
      if totalTicks sts > 99 then "bad-op" else
      if usesLatency sts && totalTicks sts > 0 then "bad-op" else
      match runSched K dinit sts [] with
      | none => "bad-op"
      | some toks => " ".intercalate toks

-- ---------------------------------------------------------------- stress cases

/-- fate of request `i` of a stress case (same table in harness/internal/c09/stress.go) -/
def stressOutcome (seed i : Nat) : String :=
  match ((seed * 131 + i * 7919 + 12345) % 65536 / 16) % 10 with
  | 0 => "ok" | 1 => "ok" | 2 => "ok"
  | 3 => "rst" | 4 => "rst"
  | 5 => "e5"
  | 6 => "hup"
  | 7 => "pan"
  | 8 => "her"
  | _ => "abort"

def stressParams : Params :=
  { passive := true, failDur := 100, maxFails := 100, retries := 0, maxReq := 0, firstMax := 0, badStatus := [500], latency := false, closeStreams := false, aOn := false, aPasses := 1, aFails := 1, dynamic := false }

/-- one request from entry to return, on Host object `i % 2`; returns the new state and how the
    handler returned -/
def stressEnd (s2 : State) (r : Nat) (seed i : Nat) : Option (State × String) :=
  match stressOutcome seed i with
  | "ok" => (endAttempt s2 r .ok).map (·, "ok")
  | "rst" => (endAttempt s2 r .upstreamErr).map (·, "err")
  | "e5" =>
    match strikesN s2 r 1 with
    | none => none
    | some s3 => (endAttempt s3 r .ok).map (·, "ok")
  | "hup" => (endAttempt s2 r .panic).map (·, "panic")
  | "pan" => (endAttempt s2 r .panic).map (·, "panic")
  | "her" => (endAttempt s2 r .handlerErr).map (·, "err")
  | _ => (endAttempt s2 r .clientAbort).map (·, "ok")

/-- one request from entry to return, on Host object `i % 2` (static upstreams), or on the
    `i % 2`-th upstream its loop iteration provisioned (dynamic source); returns the new state and
    how the handler returned -/
def stressReq (dyn : Bool) (s : State) (cur : CfgId) (seed i : Nat) : Option (State × String) := do
  let s1 ← step s (.newReq cur false)
  let r := s.reqs.length
  if dyn then
    let h := s1.cfgs.length
    let s2 ← step s1 (.newIter r)
    let s3 ← stores s2 h [0, 1]
    let hs ← s3.cfgs[h]?
    let u ← hs.ups[i % 2]?
    let s4 ← step s3 (.dispatch r u.2)
    let (s5, res) ← stressEnd s4 r seed i
    let s6 ← unload s5 h [0, 1]
    pure (s6, res)
  else
    let s2 ← step s1 (.dispatch r (i % 2))
    stressEnd s2 r seed i

def stressParamsD (dyn : Bool) : Params := { stressParams with dynamic := dyn }

def stressKeys (dyn : Bool) : List Key := if dyn then [] else [0, 1]

def stressLoop (dyn : Bool) (seed n : Nat) : Nat → Nat → State → CfgId → List String → Option (State × CfgId × List String)
  | 0, _, s, cur, acc => some (s, cur, acc)
  | fuel + 1, i, s, cur, acc =>
    if i == n / 2 && cur == 0 then
      -- the reload that keeps both upstreams
      match step s (.newCfg (stressParamsD dyn)) with
      | none => none
      | some s1 =>
        match stores s1 s.cfgs.length (stressKeys dyn) with
        | none => none
        | some s2 =>
          match unload s2 0 (stressKeys dyn) with
          | none => none
          | some s3 =>
            match stressReq dyn s3 s.cfgs.length seed i with
            | none => none
            | some (s4, res) => stressLoop dyn seed n fuel (i + 1) s4 s.cfgs.length (acc ++ [res])
    else
      match stressReq dyn s cur seed i with
      | none => none
      | some (s1, res) => stressLoop dyn seed n fuel (i + 1) s1 cur (acc ++ [res])

def sumOver (f : Nat → Int) (n : Nat) : Int := (List.range n).foldl (fun a o => a + f o) 0

def handleStress (dyn : Bool) (ns seeds : String) : String :=
  match num ns, num seeds with
  | some n, some seed =>
    if n < 1 || n > 64 then "bad-op" else
    match step init (.newCfg (stressParamsD dyn)) with
    | none => "bad-op"
    | some s0 =>
      match stores s0 0 (stressKeys dyn) with
      | none => "bad-op"
      | some s1 =>
        match stressLoop dyn seed n n 0 s1 0 [] with
        | none => "bad-op"
        | some (s2, cur, res) =>
          match unload s2 cur (stressKeys dyn) with
          | none => "bad-op"
          | some s3 =>
            "n=" ++ toString n ++
            " ok=" ++ toString (res.count "ok") ++ " err=" ++ toString (res.count "err") ++
            " panic=" ++ toString (res.count "panic") ++
            " inc=" ++ toString ((s2.reqs.map (·.incs)).foldl (· + ·) 0) ++
            " dec=" ++ toString ((s2.reqs.map (·.hist.length)).foldl (· + ·) 0) ++
            " fail=" ++ toString s2.log.length ++
            " forget=" ++ toString (((settle s3).log.filter (·.st == FSt.forgotten)).length) ++
            " end=" ++ toString (sumOver s2.inflight s2.nextHost) ++ "/" ++ toString (sumOver (settle s3).fails s3.nextHost) ++
            " pool=" ++ toString (((List.range 2).filter fun k => (s3.pool k).isSome).length)
  | _, _ => "bad-op"

def handle : List String → String
  | ["sched", k, steps] => handleSched k steps
  | ["schedph", k, steps] => handleSched k steps true   -- the same, every dial address is a request placeholder
  | ["schedcf", k, steps] => handleSched k steps   -- same schedule, configuration delivered as Caddyfile
  | ["stress", n, seed] => handleStress false n seed
  | ["stressdyn", n, seed] => handleStress true n seed   -- the same, upstreams from a dynamic source
  | ["static", "defer"] => "defer-ok"
  | _ => "bad-op"

/-- no clause is violated by the current tree: nothing to replay as a counter-example (the former
    witness line is a regression case in corpus/C09/) -/
def witnessLines : List String := []

end CaddyModel.C09
