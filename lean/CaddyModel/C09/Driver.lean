/-
C09 line-protocol driver (wire syntax: harness/internal/c09/c09.go).

  sched <K> <step>;<step>;…     forced schedule → one snapshot token per step + `end[…]`
  stress <N> <seed>             un-forced concurrency; the answer is the balance the theorems promise
  static defer                  syntactic premise of dec_on_every_exit; constant answer
-/
import CaddyModel.C09.Sched

namespace CaddyModel.C09

/-- strict decimal: digits only, no leading zero, at most 4 digits -/
def digitsVal : List Char → Nat → Option Nat
  | [], acc => some acc
  | c :: cs, acc => if '0' ≤ c ∧ c ≤ '9' then digitsVal cs (acc * 10 + (c.toNat - 48)) else none

def num (s : String) : Option Nat :=
  match s.toList with
  | [] => none
  | c :: cs =>
    if (c :: cs).length > 4 then none
    else if c == '0' && !cs.isEmpty then none
    else digitsVal (c :: cs) 0

def parseKeys (s : String) (K : Nat) : Option (List Key) :=
  if s.isEmpty then none else
  match (s.splitOn ".").mapM num with
  | some ks => if ks.all (· < K) && ks.length ≤ 8 then some ks else none
  | none => none

def mkParams (p d m r q st : Nat) : Params :=
  { passive := p == 1,
    failDur := if p == 1 then d else 0,
    maxFails := if m == 0 then 1 else m,     -- reverseproxy.go:359-361
    retries := r,
    maxReq := if p == 1 then q else 0,       -- reverseproxy.go:1218-1223
    strikes := if p == 1 then st else 0 }

def outcomeNames : List String := ["ok", "e5", "rst", "hup", "pan", "her"]

def parseStep (s : String) (K : Nat) : Option SStep :=
  match s.splitOn ":" with
  | ["L", ks, p, d, m, r, q, st] =>
    match parseKeys ks K, num p, num d, num m, num r, num q, num st with
    | some ks, some p, some d, some m, some r, some q, some st =>
      if p ≤ 1 && r ≤ 8 && st ≤ 2 && m ≤ 100 && q ≤ 100 then some (.load ks (mkParams p d m r q st)) else none
    | _, _, _, _, _, _, _ => none
  | ["B", ks] => (parseKeys ks K).map .badLoad
  | ["C"] => some .unloadCur
  | ["N", "G"] => some (.newReq true)
  | ["N", "P"] => some (.newReq false)
  | ["O", r, what] => if outcomeNames.contains what then (num r).map (.answer · what) else none
  | ["A", r] => (num r).map .abort
  | ["D", k] => match num k with
    | some k => if k < K then some (.bdown k) else none
    | none => none
  | ["U", k] => match num k with
    | some k => if k < K then some (.bup k) else none
    | none => none
  | ["T", n] => match num n with
    | some n => if 1 ≤ n && n ≤ 50 then some (.ticks n) else none
    | none => none
  | _ => none

def totalTicks : List SStep → Nat
  | [] => 0
  | .ticks n :: rest => n + totalTicks rest
  | _ :: rest => totalTicks rest

def showObjs (s : State) : String :=
  ",".intercalate ((List.range s.nextHost).map fun o => toString (s.inflight o) ++ "/" ++ toString (s.fails o))

def showUp (p : Params) (s : State) (u : Key × HostId) : String :=
  toString u.2 ++ (if !healthy p s u.2 then "u" else if full p s u.2 then "f" else "a")

def showCur (d : DState) : String :=
  match curLive d with
  | some c =>
    match d.s.cfgs[c]? with
    | some cs => ",".intercalate (cs.ups.map (showUp cs.par d.s))
    | none => ""
  | none => ""

def showPool (s : State) (K : Nat) : String :=
  ",".intercalate ((List.range K).map fun k =>
    match s.pool k with
    | some (o, n) => toString o ++ "x" ++ toString n
    | none => "-")

def snapshot (d : DState) (K : Nat) (ev : String) : String :=
  ev ++ "[" ++ showObjs d.s ++ "][" ++ showCur d ++ "][" ++ showPool d.s K ++ "]"

def runSched (K : Nat) : DState → List SStep → List String → Option (List String)
  | d, [], acc =>
    some (acc ++ [snapshot { d with s := quiesce d, cur := none } K "end"])
  | d, st :: rest, acc =>
    match sstep d st with
    | none => none
    | some (d1, ev) => runSched K { d1 with s := settle d1.s } rest (acc ++ [snapshot { d1 with s := settle d1.s } K ev])

def handleSched (k steps : String) : String :=
  match num k with
  | none => "bad-op"
  | some K =>
    if K < 1 || K > 6 then "bad-op" else
    if (steps.splitOn ";").length > 200 then "bad-op" else
    match (steps.splitOn ";").mapM (parseStep · K) with
    | none => "bad-op"
    | some sts =>
      if totalTicks sts > 99 then "bad-op" else
      match runSched K dinit sts [] with
      | none => "bad-op"
      | some toks => " ".intercalate toks

def handle : List String → String
  | ["sched", k, steps] => handleSched k steps
  | ["static", "defer"] => "defer-ok"
  | _ => "bad-op"

/-- counter-example lines replayed on the implementation on every run (see Witness.lean) -/
def witnessLines : List String :=
  ["C09 sched 1 L:0:1:100:1:0:0:0;B:0;L:0:1:100:1:0:0:0"]

end CaddyModel.C09
