/-
C09 — helper lemmas: sums over lists under `set`/append, and the inductive invariants
(`Inv` for the counters, `PoolInv` for the `hosts` usage pool) with one preservation lemma per
atomic action of `Model.step`.
-/
import CaddyModel.C09.Spec

namespace CaddyModel.C09

-- ---------------------------------------------------------------- sums over lists

theorem total_append {α : Type} (f : α → Nat) (l m : List α) : total f (l ++ m) = total f l + total f m := by
  induction l with
  | nil => simp [total]
  | cons x xs ih => simp [total, ih]; omega

theorem total_snoc {α : Type} (f : α → Nat) (l : List α) (x : α) : total f (l ++ [x]) = total f l + f x := by
  simp [total_append, total]

theorem total_set {α : Type} (f : α → Nat) (l : List α) (i : Nat) (x y : α) (h : l[i]? = some y) :
    total f (l.set i x) + f y = total f l + f x := by
  induction l generalizing i with
  | nil => simp at h
  | cons a as ih =>
    cases i with
    | zero => simp at h; subst h; simp [total]; omega
    | succ j => simp at h; have := ih j h; simp [total]; omega

theorem total_congr {α : Type} (f g : α → Nat) (l : List α) (h : ∀ x ∈ l, f x = g x) : total f l = total g l := by
  induction l with
  | nil => rfl
  | cons a as ih =>
    simp only [total, h a (by simp)]
    rw [ih (fun x hx => h x (by simp [hx]))]

theorem total_zero {α : Type} (f : α → Nat) (l : List α) (h : ∀ x ∈ l, f x = 0) : total f l = 0 := by
  induction l with
  | nil => rfl
  | cons a as ih =>
    simp only [total, h a (by simp)]
    rw [ih (fun x hx => h x (by simp [hx]))]

theorem le_total_of_mem {α : Type} (f : α → Nat) (l : List α) (x : α) (h : x ∈ l) : f x ≤ total f l := by
  induction l with
  | nil => simp at h
  | cons a as ih =>
    simp only [total]
    rcases List.mem_cons.mp h with h | h
    · subst h; omega
    · have := ih h; omega

theorem mem_set_cases {α : Type} {l : List α} {i : Nat} {x a : α} (h : a ∈ l.set i x) : a ∈ l ∨ a = x := by
  rcases List.mem_or_eq_of_mem_set h with h | h
  · exact Or.inl h
  · exact Or.inr h

theorem mem_of_get {α : Type} {l : List α} {i : Nat} {x : α} (h : l[i]? = some x) : x ∈ l :=
  List.mem_of_getElem? h

@[simp] theorem upd_same {α : Type} (f : Nat → α) (i : Nat) (v : α) : upd f i v i = v := by simp [upd]

theorem upd_other {α : Type} (f : Nat → α) (i j : Nat) (v : α) (h : j ≠ i) : upd f i v j = f j := by
  simp [upd, h]

@[simp] theorem b2n_true : b2n true = 1 := rfl
@[simp] theorem b2n_false : b2n false = 0 := rfl

@[simp] theorem fst_ne1 : (FSt.counted != FSt.forgotten) = true := by decide
@[simp] theorem fst_ne2 : (FSt.waiting != FSt.forgotten) = true := by decide
@[simp] theorem fst_ne3 : (FSt.forgotten != FSt.forgotten) = false := by decide
@[simp] theorem fst_eq1 : (FSt.waiting == FSt.counted) = false := by decide
@[simp] theorem fst_eq2 : (FSt.forgotten == FSt.counted) = false := by decide
@[simp] theorem fst_eq3 : (FSt.counted == FSt.counted) = true := by decide

-- ---------------------------------------------------------------- `decided`

theorem decided_pc (q : Req) (e : ErrKind) (c : Bool) :
    (q.decided e c).pc = .start ∨ (q.decided e c).pc = .done := by
  unfold Req.decided; split <;> simp

@[simp] theorem decided_cfg (q : Req) (e : ErrKind) (c : Bool) : (q.decided e c).cfg = q.cfg := by
  unfold Req.decided; split <;> rfl

@[simp] theorem decided_par (q : Req) (e : ErrKind) (c : Bool) : (q.decided e c).par = q.par := by
  unfold Req.decided; split <;> rfl

@[simp] theorem decided_hist (q : Req) (e : ErrKind) (c : Bool) : (q.decided e c).hist = q.hist := by
  unfold Req.decided; split <;> rfl

@[simp] theorem decided_holder (q : Req) (e : ErrKind) (c : Bool) : (q.decided e c).holder = q.holder := by
  unfold Req.decided; split <;> rfl

@[simp] theorem decided_hostOf (q : Req) (e : ErrKind) (c : Bool) : (q.decided e c).pc.hostOf = none := by
  rcases decided_pc q e c with h | h <;> simp [h, Pc.hostOf]

@[simp] theorem decided_incs (q : Req) (e : ErrKind) (c : Bool) : (q.decided e c).incs = q.incs := by
  unfold Req.decided; split <;> rfl

def Pc.inFlight : Pc → Bool
  | .sending _ => true
  | .strikeInc _ => true
  | _ => false

def Pc.notStart : Pc → Bool
  | .start => false
  | _ => true

/-- `tryAgain` only says yes while `retries < load_balancing.retries`: the retry counter never
    exceeds the configured number, and the attempts made never exceed it by more than one -/
theorem decided_retry_ok (q : Req) (e : ErrKind) (c : Bool) (h1 : q.retries ≤ q.par.retries)
    (h2 : q.incs ≤ q.retries + 1) :
    (q.decided e c).retries ≤ (q.decided e c).par.retries ∧
      (q.decided e c).incs ≤ (q.decided e c).retries + b2n (q.decided e c).pc.notStart := by
  unfold Req.decided
  split
  next ht =>
    simp [tryAgain] at ht
    simp [Pc.notStart]; omega
  next => simp [Pc.notStart, b2n]; omega

@[simp] theorem decided_inFlightW (o : HostId) (q : Req) (e : ErrKind) (c : Bool) : inFlightW o (q.decided e c) = 0 := by
  rcases decided_pc q e c with h | h <;> simp [inFlightW, h, Pc.inFlightOn, b2n]

@[simp] theorem decided_spawnerW (o : HostId) (c' : CfgId) (q : Req) (e : ErrKind) (c : Bool) :
    spawnerW o c' (q.decided e c) = 0 := by
  rcases decided_pc q e c with h | h <;> simp [spawnerW, h, Pc.spawningOn, b2n]

@[simp] theorem decided_aboutToCountW (o : HostId) (q : Req) (e : ErrKind) (c : Bool) :
    aboutToCountW o (q.decided e c) = 0 := by
  rcases decided_pc q e c with h | h <;> simp [aboutToCountW, h, Pc.owesCountOn, b2n]

@[simp] theorem decided_failedAttemptsW (o : HostId) (q : Req) (e : ErrKind) (c : Bool) :
    failedAttemptsW o (q.decided e c) = failedAttemptsW o q := by
  simp [failedAttemptsW]

@[simp] theorem decided_inFlight (q : Req) (e : ErrKind) (c : Bool) : (q.decided e c).pc.inFlight = false := by
  rcases decided_pc q e c with h | h <;> simp [h, Pc.inFlight]

-- ---------------------------------------------------------------- `canceled` only grows

theorem canceled_set {s : State} {c : CfgId} {cs cs' : CfgSt} (x : CfgId) (cfgs' : List CfgSt)
    (hc : s.cfgs[c]? = some cs) (h' : cfgs' = s.cfgs.set c cs') (hm : cs.canceled = true → cs'.canceled = true)
    (hx : canceled s x = true) : (match cfgs'[x]? with | some cs => cs.canceled | none => false) = true := by
  subst h'
  unfold canceled at hx
  by_cases hxc : x = c
  · subst hxc
    have hlt : x < s.cfgs.length := by
      rcases Nat.lt_or_ge x s.cfgs.length with h | h
      · exact h
      · simp [List.getElem?_eq_none h] at hc
    simp [hc] at hx
    simp [List.getElem?_set_self hlt, hm hx]
  · simp [List.getElem?_set_ne (Ne.symm hxc)]
    exact hx

theorem canceled_append {s : State} (x : CfgId) (cs' : CfgSt) (hx : canceled s x = true) :
    (match (s.cfgs ++ [cs'])[x]? with | some cs => cs.canceled | none => false) = true := by
  unfold canceled at hx
  have hlt : x < s.cfgs.length := by
    rcases Nat.lt_or_ge x s.cfgs.length with h | h
    · exact h
    · simp [List.getElem?_eq_none h] at hx
  simp [List.getElem?_append_left hlt]
  exact hx

-- ---------------------------------------------------------------- the counter invariant

/-- inductive invariant of the counters, for every reachable state of every interleaving -/
structure Inv (s : State) : Prop where
  inflight_eq : ∀ o, s.inflight o = (sendingCount s o : Int)
  fails_eq : ∀ o, s.fails o = (pendingForgetters s o : Int)
  counted_eq : ∀ o c, countedNotSpawned s o c = spawners s o c
  forgotten_due : ∀ e ∈ s.log, e.st = .forgotten → (e.exp ≤ s.now ∨ canceled s e.cfg = true)
  entry_ok : ∀ e ∈ s.log, e.t0 ≤ s.now ∧ 0 < e.dur
  req_ok : ∀ q ∈ s.reqs, q.incs = q.hist.length + b2n q.pc.inFlight
  retry_ok : ∀ q ∈ s.reqs, q.retries ≤ q.par.retries ∧ q.incs ≤ q.retries + b2n q.pc.notStart
  attempts_eq : ∀ o, countedAttempts s o + aboutToCount s o = failedAttempts s o
  src_countable : ∀ e ∈ s.log, ∀ out, e.src = some out → out.countable = true

theorem inv_init : Inv init := by
  refine ⟨?_, ?_, ?_, ?_, ?_, ?_, ?_, ?_, ?_⟩ <;> simp [init, sendingCount, pendingForgetters, countedNotSpawned,
    spawners, countedAttempts, aboutToCount, failedAttempts, total]

/-- steps that only touch configurations / the pool: cfgs may change, `canceled` only grows -/
theorem inv_cfg_only {s s' : State} (hi : Inv s)
    (h1 : s'.now = s.now) (h2 : s'.inflight = s.inflight) (h3 : s'.fails = s.fails) (h4 : s'.reqs = s.reqs)
    (h5 : s'.log = s.log) (hc : ∀ x, canceled s x = true → canceled s' x = true) : Inv s' := by
  refine ⟨?_, ?_, ?_, ?_, ?_, ?_, ?_, ?_, ?_⟩
  · intro o; simp only [sendingCount, h2, h4]; exact hi.inflight_eq o
  · intro o; simp only [pendingForgetters, h3, h5]; exact hi.fails_eq o
  · intro o c; simp only [countedNotSpawned, spawners, h4, h5]; exact hi.counted_eq o c
  · intro e he hf
    rw [h5] at he
    rcases hi.forgotten_due e he hf with h | h
    · left; rw [h1]; exact h
    · right; exact hc _ h
  · intro e he; rw [h5] at he; rw [h1]; exact hi.entry_ok e he
  · intro q hq; rw [h4] at hq; exact hi.req_ok q hq
  · intro q hq; rw [h4] at hq; exact hi.retry_ok q hq
  · intro o; simp only [countedAttempts, aboutToCount, failedAttempts, h4, h5]; exact hi.attempts_eq o
  · intro e he; rw [h5] at he; exact hi.src_countable e he

theorem inv_newCfg {s : State} (p : Params) (hi : Inv s) :
    Inv { s with cfgs := s.cfgs ++ [{ par := p, ups := [], held := [], canceled := false }] } := by
  refine inv_cfg_only hi rfl rfl rfl rfl rfl ?_
  intro x hx
  exact canceled_append x _ hx

theorem inv_store {s s' : State} {c k} (hi : Inv s) (hs : stepStore s c k = some s') : Inv s' := by
  unfold stepStore at hs
  split at hs
  next cs hcs =>
    split at hs
    · simp at hs
    · split at hs
      all_goals
        simp at hs; subst hs
        refine inv_cfg_only hi rfl rfl rfl rfl rfl ?_
        intro x hx
        exact canceled_set x _ hcs rfl (by simp) hx
  next => simp at hs

theorem inv_cancel {s s' : State} {c} (hi : Inv s) (hs : stepCancel s c = some s') : Inv s' := by
  unfold stepCancel at hs
  split at hs
  next cs hcs =>
    simp at hs; obtain ⟨_, hs⟩ := hs; subst hs
    refine inv_cfg_only hi rfl rfl rfl rfl rfl ?_
    intro x hx
    exact canceled_set x _ hcs rfl (by simp) hx
  next => simp at hs

theorem stepDelete_spec (s : State) (c : CfgId) (k : Key) :
    stepDelete s c k =
      match s.cfgs[c]? with
      | some cs =>
        if cs.canceled then
          if cs.held.contains k then
            some { s with pool := poolDelete s.pool k, cfgs := s.cfgs.set c { cs with held := cs.held.erase k } }
          else some s
        else none
      | none => none := by
  unfold stepDelete
  cases s.cfgs[c]? with
  | none => rfl
  | some cs =>
    simp only []
    cases hcanc : cs.canceled with
    | false => simp
    | true =>
      simp only [if_true]
      cases hh : cs.held.contains k with
      | false => simp
      | true =>
        simp only [if_true]
        cases hp : s.pool k with
        | none => simp [poolDelete, hp]
        | some v =>
          obtain ⟨o, n⟩ := v
          by_cases hn : n ≤ 1 <;> simp [poolDelete, hp, hn]

theorem inv_delete {s s' : State} {c k} (hi : Inv s) (hs : stepDelete s c k = some s') : Inv s' := by
  rw [stepDelete_spec] at hs
  split at hs
  next cs hcs =>
    split at hs
    · split at hs
      · simp at hs; subst hs
        refine inv_cfg_only hi rfl rfl rfl rfl rfl ?_
        intro x hx
        exact canceled_set x _ hcs rfl (by simp) hx
      · simp at hs; subst hs; exact hi
    · simp at hs
  next => simp at hs

theorem inv_tick {s : State} (hi : Inv s) : Inv { s with now := s.now + 1 } := by
  refine ⟨hi.inflight_eq, hi.fails_eq, hi.counted_eq, ?_, ?_, hi.req_ok, hi.retry_ok, hi.attempts_eq, hi.src_countable⟩
  · intro e he hf
    rcases hi.forgotten_due e he hf with h | h
    · left; show e.exp ≤ s.now + 1; omega
    · right; exact h
  · intro e he
    have := hi.entry_ok e he
    show e.t0 ≤ s.now + 1 ∧ 0 < e.dur
    omega

theorem inv_newReq {s s' : State} {c get} (hi : Inv s) (hs : stepNewReq s c get = some s') : Inv s' := by
  unfold stepNewReq at hs
  split at hs
  next cs hcs =>
    simp at hs; subst hs
    refine ⟨?_, hi.fails_eq, ?_, hi.forgotten_due, hi.entry_ok, ?_, ?_, ?_, hi.src_countable⟩
    · intro o
      have h1 := hi.inflight_eq o
      simp only [sendingCount] at h1 ⊢
      rw [total_snoc]
      simp [inFlightW, Pc.inFlightOn, b2n]; omega
    · intro o c'
      have h1 := hi.counted_eq o c'
      simp only [countedNotSpawned, spawners] at h1 ⊢
      rw [total_snoc]
      simp [spawnerW, Pc.spawningOn, b2n]; omega
    · intro q hq
      rcases List.mem_append.mp hq with hm | hm
      · exact hi.req_ok q hm
      · simp at hm; subst hm; simp [Pc.inFlight, b2n]
    · intro q hq
      rcases List.mem_append.mp hq with hm | hm
      · exact hi.retry_ok q hm
      · simp at hm; subst hm; simp [Pc.notStart, b2n]
    · intro o
      have h1 := hi.attempts_eq o
      simp only [countedAttempts, aboutToCount, failedAttempts] at h1 ⊢
      rw [total_snoc, total_snoc]
      simp [aboutToCountW, failedAttemptsW, Pc.owesCountOn, b2n, total]; omega
  next => simp at hs

theorem inv_dispatch {s s' : State} {r h} (hi : Inv s) (hs : stepDispatch s r h = some s') : Inv s' := by
  unfold stepDispatch at hs
  split at hs
  next q hq =>
    split at hs
    next hpc =>
      simp at hs; obtain ⟨_, hs⟩ := hs; subst hs
      refine ⟨?_, hi.fails_eq, ?_, hi.forgotten_due, hi.entry_ok, ?_, ?_, ?_, hi.src_countable⟩
      · intro o
        have h1 := hi.inflight_eq o
        have h2 := total_set (inFlightW o) s.reqs r { q with pc := .sending h, incs := q.incs + 1 } q hq
        simp only [sendingCount] at h1 ⊢
        by_cases ho : o = h
        · subst ho; simp [hpc, inFlightW, Pc.inFlightOn, b2n] at h2 ⊢; omega
        · simp [hpc, inFlightW, Pc.inFlightOn, b2n, upd_other _ _ _ _ ho, Ne.symm ho] at h2 ⊢; omega
      · intro o c
        have h1 := hi.counted_eq o c
        have h2 := total_set (spawnerW o c) s.reqs r { q with pc := .sending h, incs := q.incs + 1 } q hq
        simp only [countedNotSpawned, spawners] at h1 ⊢
        simp [hpc, spawnerW, Pc.spawningOn, b2n] at h2 ⊢; omega
      · intro q' hq'
        rcases mem_set_cases hq' with hm | hm
        · exact hi.req_ok q' hm
        · subst hm
          have := hi.req_ok q (mem_of_get hq)
          simp [hpc, Pc.inFlight, b2n] at this ⊢; omega
      · intro q' hq'
        rcases mem_set_cases hq' with hm | hm
        · exact hi.retry_ok q' hm
        · subst hm
          have := hi.retry_ok q (mem_of_get hq)
          simp [hpc, Pc.notStart, b2n] at this ⊢; omega
      · intro o
        have h1 := hi.attempts_eq o
        have h2 := total_set (aboutToCountW o) s.reqs r { q with pc := .sending h, incs := q.incs + 1 } q hq
        have h3 := total_set (failedAttemptsW o) s.reqs r { q with pc := .sending h, incs := q.incs + 1 } q hq
        simp only [countedAttempts, aboutToCount, failedAttempts] at h1 ⊢
        simp [hpc, aboutToCountW, failedAttemptsW, Pc.owesCountOn, b2n] at h2 h3 ⊢; omega
    all_goals simp at hs
  next => simp at hs

theorem inv_noUpstream {s s' : State} {r} (hi : Inv s) (hs : stepNoUpstream s r = some s') : Inv s' := by
  unfold stepNoUpstream at hs
  split at hs
  next q hq =>
    split at hs
    next hpc =>
      simp at hs; subst hs
      refine ⟨?_, hi.fails_eq, ?_, hi.forgotten_due, hi.entry_ok, ?_, ?_, ?_, hi.src_countable⟩
      · intro o
        have h1 := hi.inflight_eq o
        have h2 := total_set (inFlightW o) s.reqs r (q.decided q.keepErr (canceled s q.cfg)) q hq
        simp only [sendingCount] at h1 ⊢
        simp only [decided_inFlightW] at h2
        simp [hpc, inFlightW, Pc.inFlightOn, b2n] at h2 ⊢; omega
      · intro o c
        have h1 := hi.counted_eq o c
        have h2 := total_set (spawnerW o c) s.reqs r (q.decided q.keepErr (canceled s q.cfg)) q hq
        simp only [countedNotSpawned, spawners] at h1 ⊢
        simp only [decided_spawnerW] at h2
        simp [hpc, spawnerW, Pc.spawningOn, b2n] at h2 ⊢; omega
      · intro q' hq'
        rcases mem_set_cases hq' with hm | hm
        · exact hi.req_ok q' hm
        · subst hm
          have := hi.req_ok q (mem_of_get hq)
          simp only [decided_incs, decided_hist, decided_inFlight]
          simp [hpc, Pc.inFlight, b2n] at this ⊢; omega
      · intro q' hq'
        rcases mem_set_cases hq' with hm | hm
        · exact hi.retry_ok q' hm
        · subst hm
          have := hi.retry_ok q (mem_of_get hq)
          simp [hpc, Pc.notStart] at this
          exact decided_retry_ok q _ _ this.1 (by omega)
      · intro o
        have h1 := hi.attempts_eq o
        have h2 := total_set (aboutToCountW o) s.reqs r (q.decided q.keepErr (canceled s q.cfg)) q hq
        have h3 := total_set (failedAttemptsW o) s.reqs r (q.decided q.keepErr (canceled s q.cfg)) q hq
        simp only [countedAttempts, aboutToCount, failedAttempts] at h1 ⊢
        simp only [decided_aboutToCountW, decided_failedAttemptsW] at h2 h3
        simp [hpc, aboutToCountW, Pc.owesCountOn, b2n] at h2 h3 ⊢; omega
    all_goals simp at hs
  next => simp at hs

theorem inv_strike {s s' : State} {r} (hi : Inv s) (hs : stepStrike s r = some s') : Inv s' := by
  unfold stepStrike at hs
  split at hs
  next q hq =>
    split at hs
    next h hpc =>
      split at hs
      next hcnt =>
        simp at hs; subst hs
        refine ⟨?_, ?_, ?_, ?_, ?_, ?_, ?_, ?_, ?_⟩
        · intro o
          have h1 := hi.inflight_eq o
          have h2 := total_set (inFlightW o) s.reqs r { q with pc := .strikeInc h } q hq
          simp only [sendingCount] at h1 ⊢
          simp [hpc, inFlightW, Pc.inFlightOn] at h2 ⊢; omega
        · intro o
          have h1 := hi.fails_eq o
          simp only [pendingForgetters] at h1 ⊢
          rw [total_snoc]
          by_cases ho : o = h
          · subst ho; simp [pendingW, newFail, b2n]; omega
          · simp [pendingW, newFail, b2n, upd_other _ _ _ _ ho, Ne.symm ho]; omega
        · intro o c
          have h1 := hi.counted_eq o c
          have h2 := total_set (spawnerW o c) s.reqs r { q with pc := .strikeInc h } q hq
          simp only [countedNotSpawned, spawners] at h1 ⊢
          rw [total_snoc]
          simp [hpc, spawnerW, countedW, newFail, Pc.spawningOn] at h2 ⊢; omega
        · intro e he hf
          rcases List.mem_append.mp he with hm | hm
          · exact hi.forgotten_due e hm hf
          · simp at hm; subst hm; simp [newFail] at hf
        · intro e he
          rcases List.mem_append.mp he with hm | hm
          · exact hi.entry_ok e hm
          · simp at hm; subst hm
            simp [Params.counting] at hcnt
            simp [newFail]; omega
        · intro q' hq'
          rcases mem_set_cases hq' with hm | hm
          · exact hi.req_ok q' hm
          · subst hm
            have := hi.req_ok q (mem_of_get hq)
            simp [hpc, Pc.inFlight, b2n] at this ⊢; omega
        · intro q' hq'
          rcases mem_set_cases hq' with hm | hm
          · exact hi.retry_ok q' hm
          · subst hm
            have := hi.retry_ok q (mem_of_get hq)
            simp [hpc, Pc.notStart, b2n] at this ⊢; omega
        · intro o
          have h1 := hi.attempts_eq o
          have h2 := total_set (aboutToCountW o) s.reqs r { q with pc := .strikeInc h } q hq
          have h3 := total_set (failedAttemptsW o) s.reqs r { q with pc := .strikeInc h } q hq
          simp only [countedAttempts, aboutToCount, failedAttempts] at h1 ⊢
          rw [total_snoc]
          simp [hpc, aboutToCountW, failedAttemptsW, countedAttemptW, newFail, Pc.owesCountOn, b2n] at h2 h3 ⊢; omega
        · intro e he out hsrc
          rcases List.mem_append.mp he with hm | hm
          · exact hi.src_countable e hm out hsrc
          · simp at hm; subst hm; simp [newFail] at hsrc
      next => simp at hs
    all_goals simp at hs
  next => simp at hs

theorem inv_finish {s s' : State} {r out} (hi : Inv s) (hs : stepFinish s r out = some s') : Inv s' := by
  unfold stepFinish at hs
  split at hs
  next q hq =>
    split at hs
    next h hpc =>
      simp at hs; subst hs
      refine ⟨?_, hi.fails_eq, ?_, hi.forgotten_due, hi.entry_ok, ?_, ?_, ?_, hi.src_countable⟩
      · intro o
        have h1 := hi.inflight_eq o
        have h2 := total_set (inFlightW o) s.reqs r { q with pc := .exited h out, hist := q.hist ++ [(h, out)] } q hq
        simp only [sendingCount] at h1 ⊢
        by_cases ho : o = h
        · subst ho; simp [hpc, inFlightW, Pc.inFlightOn, b2n] at h2 ⊢; omega
        · simp [hpc, inFlightW, Pc.inFlightOn, b2n, upd_other _ _ _ _ ho, Ne.symm ho] at h2 ⊢; omega
      · intro o c
        have h1 := hi.counted_eq o c
        have h2 := total_set (spawnerW o c) s.reqs r { q with pc := .exited h out, hist := q.hist ++ [(h, out)] } q hq
        simp only [countedNotSpawned, spawners] at h1 ⊢
        simp [hpc, spawnerW, Pc.spawningOn, b2n] at h2 ⊢; omega
      · intro q' hq'
        rcases mem_set_cases hq' with hm | hm
        · exact hi.req_ok q' hm
        · subst hm
          have := hi.req_ok q (mem_of_get hq)
          simp [hpc, Pc.inFlight, b2n] at this ⊢; omega
      · intro q' hq'
        rcases mem_set_cases hq' with hm | hm
        · exact hi.retry_ok q' hm
        · subst hm
          have := hi.retry_ok q (mem_of_get hq)
          simp [hpc, Pc.notStart, b2n] at this ⊢; omega
      · intro o
        have h1 := hi.attempts_eq o
        have h2 := total_set (aboutToCountW o) s.reqs r { q with pc := .exited h out, hist := q.hist ++ [(h, out)] } q hq
        have h3 := total_set (failedAttemptsW o) s.reqs r { q with pc := .exited h out, hist := q.hist ++ [(h, out)] } q hq
        simp only [countedAttempts, aboutToCount, failedAttempts] at h1 ⊢
        simp only [aboutToCountW, failedAttemptsW, total_snoc, attemptW, hpc, Pc.owesCountOn] at h2 h3 ⊢
        cases hc : q.par.counting <;> cases hk : out.countable <;> by_cases ho : h = o <;>
          simp [hc, hk, ho, b2n] at h2 h3 ⊢ <;> omega
    all_goals simp at hs
  next => simp at hs

theorem inv_after {s s' : State} {r} (hi : Inv s) (hs : stepAfter s r = some s') : Inv s' := by
  unfold stepAfter at hs
  split at hs
  next q hq =>
    split at hs
    next h out hpc =>
      split at hs
      next hk =>
        split at hs
        next hcnt =>
          -- countFailure: countFail(1), entry appended
          simp at hs; subst hs
          refine ⟨?_, ?_, ?_, ?_, ?_, ?_, ?_, ?_, ?_⟩
          · intro o
            have h1 := hi.inflight_eq o
            have h2 := total_set (inFlightW o) s.reqs r { q with pc := .failInc h, lastErr := out.errKind } q hq
            simp only [sendingCount] at h1 ⊢
            simp [hpc, inFlightW, Pc.inFlightOn, b2n] at h2 ⊢; omega
          · intro o
            have h1 := hi.fails_eq o
            simp only [pendingForgetters] at h1 ⊢
            rw [total_snoc]
            by_cases ho : o = h
            · subst ho; simp [pendingW, newFail, b2n]; omega
            · simp [pendingW, newFail, b2n, upd_other _ _ _ _ ho, Ne.symm ho]; omega
          · intro o c
            have h1 := hi.counted_eq o c
            have h2 := total_set (spawnerW o c) s.reqs r { q with pc := .failInc h, lastErr := out.errKind } q hq
            simp only [countedNotSpawned, spawners] at h1 ⊢
            rw [total_snoc]
            simp [hpc, spawnerW, countedW, newFail, Pc.spawningOn] at h2 ⊢; omega
          · intro e he hf
            rcases List.mem_append.mp he with hm | hm
            · exact hi.forgotten_due e hm hf
            · simp at hm; subst hm; simp [newFail] at hf
          · intro e he
            rcases List.mem_append.mp he with hm | hm
            · exact hi.entry_ok e hm
            · simp at hm; subst hm
              simp [Params.counting] at hcnt
              simp [newFail]; omega
          · intro q' hq'
            rcases mem_set_cases hq' with hm | hm
            · exact hi.req_ok q' hm
            · subst hm
              have := hi.req_ok q (mem_of_get hq)
              simp [hpc, Pc.inFlight, b2n] at this ⊢; omega
          · intro q' hq'
            rcases mem_set_cases hq' with hm | hm
            · exact hi.retry_ok q' hm
            · subst hm
              have := hi.retry_ok q (mem_of_get hq)
              simp [hpc, Pc.notStart, b2n] at this ⊢; omega
          · intro o
            have h1 := hi.attempts_eq o
            have h2 := total_set (aboutToCountW o) s.reqs r { q with pc := .failInc h, lastErr := out.errKind } q hq
            have h3 := total_set (failedAttemptsW o) s.reqs r { q with pc := .failInc h, lastErr := out.errKind } q hq
            simp only [countedAttempts, aboutToCount, failedAttempts] at h1 ⊢
            rw [total_snoc]
            by_cases ho : h = o <;>
              simp [hpc, hk, hcnt, ho, aboutToCountW, failedAttemptsW, countedAttemptW, newFail, Pc.owesCountOn, b2n] at h2 h3 ⊢ <;> omega
          · intro e he out' hsrc
            rcases List.mem_append.mp he with hm | hm
            · exact hi.src_countable e hm out' hsrc
            · simp at hm; subst hm; simp [newFail] at hsrc; subst hsrc; exact hk
        next hcnt =>
          -- countFailure is a no-op: straight to tryAgain
          simp at hs; subst hs
          refine ⟨?_, hi.fails_eq, ?_, hi.forgotten_due, hi.entry_ok, ?_, ?_, ?_, hi.src_countable⟩
          · intro o
            have h1 := hi.inflight_eq o
            have h2 := total_set (inFlightW o) s.reqs r (q.decided out.errKind (canceled s q.cfg)) q hq
            simp only [sendingCount] at h1 ⊢
            simp only [decided_inFlightW] at h2
            simp [hpc, inFlightW, Pc.inFlightOn, b2n] at h2 ⊢; omega
          · intro o c
            have h1 := hi.counted_eq o c
            have h2 := total_set (spawnerW o c) s.reqs r (q.decided out.errKind (canceled s q.cfg)) q hq
            simp only [countedNotSpawned, spawners] at h1 ⊢
            simp only [decided_spawnerW] at h2
            simp [hpc, spawnerW, Pc.spawningOn, b2n] at h2 ⊢; omega
          · intro q' hq'
            rcases mem_set_cases hq' with hm | hm
            · exact hi.req_ok q' hm
            · subst hm
              have := hi.req_ok q (mem_of_get hq)
              simp only [decided_incs, decided_hist, decided_inFlight]
              simp [hpc, Pc.inFlight, b2n] at this ⊢; omega
          · intro q' hq'
            rcases mem_set_cases hq' with hm | hm
            · exact hi.retry_ok q' hm
            · subst hm
              have := hi.retry_ok q (mem_of_get hq)
              simp [hpc, Pc.notStart] at this
              exact decided_retry_ok q _ _ this.1 (by omega)
          · intro o
            have h1 := hi.attempts_eq o
            have h2 := total_set (aboutToCountW o) s.reqs r (q.decided out.errKind (canceled s q.cfg)) q hq
            have h3 := total_set (failedAttemptsW o) s.reqs r (q.decided out.errKind (canceled s q.cfg)) q hq
            simp only [countedAttempts, aboutToCount, failedAttempts] at h1 ⊢
            simp only [decided_aboutToCountW, decided_failedAttemptsW] at h2 h3
            simp [hpc, hcnt, aboutToCountW, Pc.owesCountOn, b2n] at h2 h3 ⊢; omega
      next hk =>
        -- success / cancel / handler error / panic: return without counting
        simp at hs; subst hs
        refine ⟨?_, hi.fails_eq, ?_, hi.forgotten_due, hi.entry_ok, ?_, ?_, ?_, hi.src_countable⟩
        · intro o
          have h1 := hi.inflight_eq o
          have h2 := total_set (inFlightW o) s.reqs r { q with pc := .done } q hq
          simp only [sendingCount] at h1 ⊢
          simp [hpc, inFlightW, Pc.inFlightOn, b2n] at h2 ⊢; omega
        · intro o c
          have h1 := hi.counted_eq o c
          have h2 := total_set (spawnerW o c) s.reqs r { q with pc := .done } q hq
          simp only [countedNotSpawned, spawners] at h1 ⊢
          simp [hpc, spawnerW, Pc.spawningOn, b2n] at h2 ⊢; omega
        · intro q' hq'
          rcases mem_set_cases hq' with hm | hm
          · exact hi.req_ok q' hm
          · subst hm
            have := hi.req_ok q (mem_of_get hq)
            simp [hpc, Pc.inFlight, b2n] at this ⊢; omega
        · intro q' hq'
          rcases mem_set_cases hq' with hm | hm
          · exact hi.retry_ok q' hm
          · subst hm
            have := hi.retry_ok q (mem_of_get hq)
            simp [hpc, Pc.notStart, b2n] at this ⊢; omega
        · intro o
          have h1 := hi.attempts_eq o
          have h2 := total_set (aboutToCountW o) s.reqs r { q with pc := .done } q hq
          have h3 := total_set (failedAttemptsW o) s.reqs r { q with pc := .done } q hq
          simp only [countedAttempts, aboutToCount, failedAttempts] at h1 ⊢
          simp [hpc, hk, aboutToCountW, failedAttemptsW, Pc.owesCountOn, b2n] at h2 h3 ⊢; omega
    all_goals simp at hs
  next => simp at hs

theorem spawnOk_iff {q : Req} {h : HostId} {e : Fail} :
    spawnOk q h e = true ↔ e.st = .counted ∧ e.host = h ∧ e.cfg = q.cfg := by
  simp [spawnOk, and_assoc]

theorem inv_spawn {s s' : State} {r i} (hi : Inv s) (hs : stepSpawn s r i = some s') : Inv s' := by
  unfold stepSpawn at hs
  split at hs
  next q e hq he =>
    split at hs
    next h hpc =>
      -- countFailure called from inside reverseProxy (bad status): back to `sending`
      split at hs
      next hok =>
        obtain ⟨hst, hhost, hcfg⟩ := spawnOk_iff.mp hok
        simp at hs; subst hs
        refine ⟨?_, ?_, ?_, ?_, ?_, ?_, ?_, ?_, ?_⟩
        · intro o
          have h1 := hi.inflight_eq o
          have h2 := total_set (inFlightW o) s.reqs r { q with pc := .sending h } q hq
          simp only [sendingCount] at h1 ⊢
          simp [hpc, inFlightW, Pc.inFlightOn] at h2 ⊢; omega
        · intro o
          have h1 := hi.fails_eq o
          have h2 := total_set (pendingW o) s.log i { e with st := .waiting } e he
          simp only [pendingForgetters] at h1 ⊢
          simp [pendingW, hst] at h2 ⊢; omega
        · intro o c
          have h1 := hi.counted_eq o c
          have h2 := total_set (spawnerW o c) s.reqs r { q with pc := .sending h } q hq
          have h3 := total_set (countedW o c) s.log i { e with st := .waiting } e he
          simp only [countedNotSpawned, spawners] at h1 ⊢
          simp [hpc, spawnerW, countedW, Pc.spawningOn, hst, hhost, hcfg] at h2 h3 ⊢; omega
        · intro e' he' hf
          rcases mem_set_cases he' with hm | hm
          · exact hi.forgotten_due e' hm hf
          · subst hm; simp at hf
        · intro e' he'
          rcases mem_set_cases he' with hm | hm
          · exact hi.entry_ok e' hm
          · subst hm; exact hi.entry_ok e (mem_of_get he)
        · intro q' hq'
          rcases mem_set_cases hq' with hm | hm
          · exact hi.req_ok q' hm
          · subst hm
            have := hi.req_ok q (mem_of_get hq)
            simp [hpc, Pc.inFlight] at this ⊢; omega
        · intro q' hq'
          rcases mem_set_cases hq' with hm | hm
          · exact hi.retry_ok q' hm
          · subst hm
            have := hi.retry_ok q (mem_of_get hq)
            simp [hpc, Pc.notStart, b2n] at this ⊢; omega
        · intro o
          have h1 := hi.attempts_eq o
          have h2 := total_set (aboutToCountW o) s.reqs r { q with pc := .sending h } q hq
          have h3 := total_set (failedAttemptsW o) s.reqs r { q with pc := .sending h } q hq
          have h4 := total_set (countedAttemptW o) s.log i { e with st := .waiting } e he
          simp only [countedAttempts, aboutToCount, failedAttempts] at h1 ⊢
          simp [hpc, aboutToCountW, failedAttemptsW, countedAttemptW, Pc.owesCountOn] at h2 h3 h4 ⊢; omega
        · intro e' he' out hsrc
          rcases mem_set_cases he' with hm | hm
          · exact hi.src_countable e' hm out hsrc
          · subst hm; exact hi.src_countable e (mem_of_get he) out hsrc
      next => simp at hs
    next h hpc =>
      -- countFailure called after a failed attempt: on to tryAgain
      split at hs
      next hok =>
        obtain ⟨hst, hhost, hcfg⟩ := spawnOk_iff.mp hok
        simp at hs; subst hs
        refine ⟨?_, ?_, ?_, ?_, ?_, ?_, ?_, ?_, ?_⟩
        · intro o
          have h1 := hi.inflight_eq o
          have h2 := total_set (inFlightW o) s.reqs r (q.decided q.lastErr (canceled s q.cfg)) q hq
          simp only [sendingCount] at h1 ⊢
          simp only [decided_inFlightW] at h2
          simp [hpc, inFlightW, Pc.inFlightOn] at h2 ⊢; omega
        · intro o
          have h1 := hi.fails_eq o
          have h2 := total_set (pendingW o) s.log i { e with st := .waiting } e he
          simp only [pendingForgetters] at h1 ⊢
          simp [pendingW, hst] at h2 ⊢; omega
        · intro o c
          have h1 := hi.counted_eq o c
          have h2 := total_set (spawnerW o c) s.reqs r (q.decided q.lastErr (canceled s q.cfg)) q hq
          have h3 := total_set (countedW o c) s.log i { e with st := .waiting } e he
          simp only [countedNotSpawned, spawners] at h1 ⊢
          simp only [decided_spawnerW] at h2
          simp [hpc, spawnerW, countedW, Pc.spawningOn, hst, hhost, hcfg] at h2 h3 ⊢; omega
        · intro e' he' hf
          rcases mem_set_cases he' with hm | hm
          · exact hi.forgotten_due e' hm hf
          · subst hm; simp at hf
        · intro e' he'
          rcases mem_set_cases he' with hm | hm
          · exact hi.entry_ok e' hm
          · subst hm; exact hi.entry_ok e (mem_of_get he)
        · intro q' hq'
          rcases mem_set_cases hq' with hm | hm
          · exact hi.req_ok q' hm
          · subst hm
            have := hi.req_ok q (mem_of_get hq)
            simp only [decided_incs, decided_hist, decided_inFlight]
            simp [hpc, Pc.inFlight] at this ⊢; omega
        · intro q' hq'
          rcases mem_set_cases hq' with hm | hm
          · exact hi.retry_ok q' hm
          · subst hm
            have := hi.retry_ok q (mem_of_get hq)
            simp [hpc, Pc.notStart] at this
            exact decided_retry_ok q _ _ this.1 (by omega)
        · intro o
          have h1 := hi.attempts_eq o
          have h2 := total_set (aboutToCountW o) s.reqs r (q.decided q.lastErr (canceled s q.cfg)) q hq
          have h3 := total_set (failedAttemptsW o) s.reqs r (q.decided q.lastErr (canceled s q.cfg)) q hq
          have h4 := total_set (countedAttemptW o) s.log i { e with st := .waiting } e he
          simp only [countedAttempts, aboutToCount, failedAttempts] at h1 ⊢
          simp only [decided_aboutToCountW, decided_failedAttemptsW] at h2 h3
          simp [hpc, aboutToCountW, countedAttemptW, Pc.owesCountOn] at h2 h3 h4 ⊢; omega
        · intro e' he' out hsrc
          rcases mem_set_cases he' with hm | hm
          · exact hi.src_countable e' hm out hsrc
          · subst hm; exact hi.src_countable e (mem_of_get he) out hsrc
      next => simp at hs
    all_goals simp at hs
  next => simp at hs

theorem forgetOk_iff {s : State} {e : Fail} :
    forgetOk s e = true ↔ e.st = .waiting ∧ (e.exp ≤ s.now ∨ canceled s e.cfg = true) := by
  simp [forgetOk]

theorem inv_forget {s s' : State} {i} (hi : Inv s) (hs : stepForget s i = some s') : Inv s' := by
  unfold stepForget at hs
  split at hs
  next e he =>
    split at hs
    next hok =>
      obtain ⟨hst, hdue⟩ := forgetOk_iff.mp hok
      simp at hs; subst hs
      refine ⟨hi.inflight_eq, ?_, ?_, ?_, ?_, hi.req_ok, hi.retry_ok, ?_, ?_⟩
      · intro o
        have h1 := hi.fails_eq o
        have h2 := total_set (pendingW o) s.log i { e with st := .forgotten } e he
        simp only [pendingForgetters] at h1 ⊢
        by_cases ho : o = e.host
        · subst ho; simp [pendingW, hst] at h2 ⊢; omega
        · have hb : (e.host == o) = false := by simpa using Ne.symm ho
          simp [pendingW, hst, upd_other _ _ _ _ ho, hb] at h2 ⊢; omega
      · intro o c
        have h1 := hi.counted_eq o c
        have h3 := total_set (countedW o c) s.log i { e with st := .forgotten } e he
        simp only [countedNotSpawned, spawners] at h1 ⊢
        simp [countedW, hst] at h3 ⊢; omega
      · intro e' he' hf
        rcases mem_set_cases he' with hm | hm
        · exact hi.forgotten_due e' hm hf
        · subst hm; exact hdue
      · intro e' he'
        rcases mem_set_cases he' with hm | hm
        · exact hi.entry_ok e' hm
        · subst hm; exact hi.entry_ok e (mem_of_get he)
      · intro o
        have h1 := hi.attempts_eq o
        have h4 := total_set (countedAttemptW o) s.log i { e with st := .forgotten } e he
        simp only [countedAttempts, aboutToCount, failedAttempts] at h1 ⊢
        simp [countedAttemptW] at h4 ⊢; omega
      · intro e' he' out hsrc
        rcases mem_set_cases he' with hm | hm
        · exact hi.src_countable e' hm out hsrc
        · subst hm; exact hi.src_countable e (mem_of_get he) out hsrc
    next => simp at hs
  next => simp at hs

/-- a step that rewrites one request without touching anything the counters are compared with
    (program counter, handler, parameters, history, ghost counts); configurations may be added -/
theorem inv_req_same {s s' : State} {r : Nat} {q q' : Req} (hi : Inv s) (hq : s.reqs[r]? = some q)
    (hr : s'.reqs = s.reqs.set r q') (h1 : s'.now = s.now) (h2 : s'.inflight = s.inflight)
    (h3 : s'.fails = s.fails) (h5 : s'.log = s.log) (hc : ∀ x, canceled s x = true → canceled s' x = true)
    (e1 : q'.pc = q.pc) (e2 : q'.cfg = q.cfg) (e3 : q'.par = q.par) (e4 : q'.hist = q.hist)
    (e5 : q'.incs = q.incs) (e6 : q'.retries = q.retries) : Inv s' := by
  refine ⟨?_, ?_, ?_, ?_, ?_, ?_, ?_, ?_, ?_⟩
  · intro o
    have h := total_set (inFlightW o) s.reqs r q' q hq
    have : inFlightW o q' = inFlightW o q := by simp [inFlightW, e1]
    simp only [sendingCount, h2, hr]; rw [hi.inflight_eq o]; simp only [sendingCount]; omega
  · intro o; simp only [pendingForgetters, h3, h5]; exact hi.fails_eq o
  · intro o c
    have h := total_set (spawnerW o c) s.reqs r q' q hq
    have : spawnerW o c q' = spawnerW o c q := by simp [spawnerW, e1, e2]
    have := hi.counted_eq o c
    simp only [countedNotSpawned, spawners, h5, hr] at this ⊢; omega
  · intro e he hf
    rw [h5] at he
    rcases hi.forgotten_due e he hf with h | h
    · left; rw [h1]; exact h
    · right; exact hc _ h
  · intro e he; rw [h5] at he; rw [h1]; exact hi.entry_ok e he
  · intro x hx
    rw [hr] at hx
    rcases mem_set_cases hx with hm | hm
    · exact hi.req_ok x hm
    · subst hm; have := hi.req_ok q (mem_of_get hq); rw [e5, e4, e1]; exact this
  · intro x hx
    rw [hr] at hx
    rcases mem_set_cases hx with hm | hm
    · exact hi.retry_ok x hm
    · subst hm; have := hi.retry_ok q (mem_of_get hq); rw [e6, e3, e5, e1]; exact this
  · intro o
    have h := total_set (aboutToCountW o) s.reqs r q' q hq
    have h' := total_set (failedAttemptsW o) s.reqs r q' q hq
    have : aboutToCountW o q' = aboutToCountW o q := by simp [aboutToCountW, e1, e3]
    have : failedAttemptsW o q' = failedAttemptsW o q := by simp [failedAttemptsW, e3, e4]
    have := hi.attempts_eq o
    simp only [countedAttempts, aboutToCount, failedAttempts, h5, hr] at this ⊢; omega
  · intro e he; rw [h5] at he; exact hi.src_countable e he

theorem inv_newIter {s s' : State} {r} (hi : Inv s) (hs : stepNewIter s r = some s') : Inv s' := by
  unfold stepNewIter at hs
  split at hs
  next q hq =>
    split at hs
    next hpc =>
      split at hs
      · simp at hs; subst hs
        refine inv_req_same hi hq rfl rfl rfl rfl rfl ?_ rfl rfl rfl rfl rfl rfl
        intro x hx
        exact canceled_append x _ hx
      · simp at hs
    all_goals simp at hs
  next => simp at hs

theorem inv_fallback {s s' : State} {r} (hi : Inv s) (hs : stepFallback s r = some s') : Inv s' := by
  unfold stepFallback at hs
  split at hs
  next q hq =>
    split at hs
    next hpc =>
      split at hs
      · simp at hs; subst hs
        exact inv_req_same hi hq rfl rfl rfl rfl rfl (fun _ h => h) rfl rfl rfl rfl rfl rfl
      · simp at hs
    all_goals simp at hs
  next => simp at hs

/-- what an active health check touches: the Host's active counters and the upstream's active
    status — nothing the passive accounting, the in-flight accounting or the pool is made of -/
theorem stepActive_core {s s' : State} {c i pass} (hs : stepActive s c i pass = some s') :
    s'.now = s.now ∧ s'.inflight = s.inflight ∧ s'.fails = s.fails ∧ s'.reqs = s.reqs ∧ s'.log = s.log ∧
      s'.cfgs = s.cfgs ∧ s'.pool = s.pool ∧ s'.nextHost = s.nextHost := by
  unfold stepActive at hs
  split at hs
  · split at hs
    · split at hs
      · split at hs <;> (simp at hs; subst hs; exact ⟨rfl, rfl, rfl, rfl, rfl, rfl, rfl, rfl⟩)
      · split at hs <;> (simp at hs; subst hs; exact ⟨rfl, rfl, rfl, rfl, rfl, rfl, rfl, rfl⟩)
    · simp at hs
  · simp at hs

theorem inv_active {s s' : State} {c i pass} (hi : Inv s) (hs : stepActive s c i pass = some s') : Inv s' := by
  obtain ⟨h1, h2, h3, h4, h5, h6, _, _⟩ := stepActive_core hs
  refine inv_cfg_only hi h1 h2 h3 h4 h5 ?_
  intro x hx
  simpa only [canceled, h6] using hx

theorem inv_dialInfoFails {s s' : State} {r} (hi : Inv s) (hs : stepDialInfoFails s r = some s') : Inv s' := by
  unfold stepDialInfoFails at hs
  split at hs
  next q hq =>
    split at hs
    next hpc =>
      simp at hs; subst hs
      refine ⟨?_, hi.fails_eq, ?_, hi.forgotten_due, hi.entry_ok, ?_, ?_, ?_, hi.src_countable⟩
      · intro o
        have h1 := hi.inflight_eq o
        have h2 := total_set (inFlightW o) s.reqs r { q with pc := .done } q hq
        simp only [sendingCount] at h1 ⊢
        simp [hpc, inFlightW, Pc.inFlightOn, b2n] at h2 ⊢; omega
      · intro o c
        have h1 := hi.counted_eq o c
        have h2 := total_set (spawnerW o c) s.reqs r { q with pc := .done } q hq
        simp only [countedNotSpawned, spawners] at h1 ⊢
        simp [hpc, spawnerW, Pc.spawningOn, b2n] at h2 ⊢; omega
      · intro q' hq'
        rcases mem_set_cases hq' with hm | hm
        · exact hi.req_ok q' hm
        · subst hm
          have := hi.req_ok q (mem_of_get hq)
          simp [hpc, Pc.inFlight, b2n] at this ⊢; omega
      · intro q' hq'
        rcases mem_set_cases hq' with hm | hm
        · exact hi.retry_ok q' hm
        · subst hm
          have := hi.retry_ok q (mem_of_get hq)
          simp [hpc, Pc.notStart, b2n] at this ⊢; omega
      · intro o
        have h1 := hi.attempts_eq o
        have h2 := total_set (aboutToCountW o) s.reqs r { q with pc := .done } q hq
        have h3 := total_set (failedAttemptsW o) s.reqs r { q with pc := .done } q hq
        simp only [countedAttempts, aboutToCount, failedAttempts] at h1 ⊢
        simp [hpc, aboutToCountW, failedAttemptsW, Pc.owesCountOn, b2n] at h2 h3 ⊢; omega
    all_goals simp at hs
  next => simp at hs

theorem inv_step {s s' : State} (a : Action) (hi : Inv s) (hs : step s a = some s') : Inv s' := by
  cases a with
  | newCfg p => simp [step] at hs; subst hs; exact inv_newCfg p hi
  | store c k => exact inv_store hi hs
  | cancel c => exact inv_cancel hi hs
  | delete c k => exact inv_delete hi hs
  | newReq c get => exact inv_newReq hi hs
  | dispatch r h => exact inv_dispatch hi hs
  | noUpstream r => exact inv_noUpstream hi hs
  | strike r => exact inv_strike hi hs
  | spawn r i => exact inv_spawn hi hs
  | finish r out => exact inv_finish hi hs
  | after r => exact inv_after hi hs
  | forget i => exact inv_forget hi hs
  | newIter r => exact inv_newIter hi hs
  | fallback r => exact inv_fallback hi hs
  | dialInfoFails r => exact inv_dialInfoFails hi hs
  | activeCheck c i pass => exact inv_active hi hs
  | tick => simp [step] at hs; subst hs; exact inv_tick hi

theorem inv_reachable {s : State} (h : Reachable s) : Inv s := by
  induction h with
  | init => exact inv_init
  | step a _ hs ih => exact inv_step a ih hs

end CaddyModel.C09
