/-
C09 — upstream in-flight and failure accounting stays exact under concurrency: the property theorems.

All theorems quantify over `Reachable s`: every state of every interleaving of the atomic steps
of `Model.step`, for any number of requests, Host objects, configurations and forgetters, any
outcome per attempt and any reload points — including loads that fail in Provision.  (The `hosts`
pool clause was false for the Cleanup before fix d6561d4; `Witness.lean` keeps that as
`…_old_code_fails` theorems about the old definition.)
-/
import CaddyModel.C09.PoolLemmas
import CaddyModel.C09.SchedLemmas
import CaddyModel.C09.FuelLemmas
import CaddyModel.C09.IterLemmas
import CaddyModel.C09.FuelDynLemmas
import CaddyModel.C09.StreamLemmas
import CaddyModel.C09.Concrete
import CaddyModel.C09.Witness
import CaddyModel.C09.ActiveProps
import CaddyModel.Gen.ProxyCount

namespace CaddyModel.C09

-- ---------------------------------------------------------------- in-flight accounting

/-- **inflight_eq** — `Host.numRequests` equals the number of requests currently being sent to that
    Host (between `countRequest(1)` and the deferred `countRequest(-1)`), in every reachable state. -/
theorem inflight_eq {s : State} (h : Reachable s) (o : HostId) : s.inflight o = (sendingCount s o : Int) :=
  (inv_reachable h).inflight_eq o

example : ∃ s, Reachable s ∧ s.inflight 0 = 2 ∧ sendingCount s 0 = 2 ∧ s.reqs.length = 3 := witness exA (by decide)

/-- the in-flight count never goes negative -/
theorem inflight_never_negative {s : State} (h : Reachable s) (o : HostId) : 0 ≤ s.inflight o := by
  rw [inflight_eq h o]; omega

example : ∃ s, Reachable s ∧ s.inflight 0 = 0 ∧ s.reqs.length = 3 := witness exB (by decide)

/-- the in-flight count returns to zero when traffic stops -/
theorem inflight_zero_at_quiescence {s : State} (h : Reachable s) (hq : Quiescent s) (o : HostId) : s.inflight o = 0 := by
  rw [inflight_eq h o]
  have : sendingCount s o = 0 := by
    apply total_zero
    intro q hm
    simp [inFlightW, hq q hm, Pc.inFlightOn]
  omega

example : ∃ s, Reachable s ∧ Quiescent s ∧ s.reqs.length = 3 ∧ s.log.length = 2 := witness exB (by decide)

/-- **dec_on_every_exit** — from `sending`, *every* way `reverseProxy` can end — including a panic
    unwinding through it — is enabled, performs exactly one decrement on the same Host and leaves
    the in-flight place (the `defer`). -/
theorem dec_on_every_exit {s : State} {r : Nat} {q : Req} {o : HostId} (hq : s.reqs[r]? = some q)
    (hpc : q.pc = .sending o) (out : Outcome) :
    ∃ s', step s (.finish r out) = some s' ∧ s'.inflight o = s.inflight o - 1 ∧
      pcOf s' r = some (.exited o out) := by
  refine ⟨_, by simp only [step, stepFinish, hq, hpc]; rfl, by simp, ?_⟩
  have hlt : r < s.reqs.length := by
    rcases Nat.lt_or_ge r s.reqs.length with h | h
    · exact h
    · simp [List.getElem?_eq_none h] at hq
  simp [pcOf, List.getElem?_set_self hlt]

example : ∃ s, Reachable s ∧ (s.reqs[1]?).map (·.pc) = some (Pc.sending 0) := witness exA (by decide)

/-- the only step that takes a request out of the in-flight place is its own `finish`
    (no exit path bypasses the decrement) -/
theorem leaves_in_flight_only_by_finish {s s' : State} {a : Action} {r : Nat} {q q' : Req} {o : HostId}
    (hs : step s a = some s') (hq : s.reqs[r]? = some q) (hq' : s'.reqs[r]? = some q')
    (hin : q.pc.inFlightOn o = true) (hout : q'.pc.inFlightOn o = false) : ∃ out, a = .finish r out :=
  leaves_only_by_finish hs hq hq' hin hout

example : ∃ s, Reachable s ∧ (s.reqs[2]?).map (fun q => q.pc.inFlightOn 0) = some true := witness exA (by decide)

/-- **unfillable_dial_info_touches_no_counter** — when the selected upstream's dial address cannot be
    filled in for this request (hosts.go fillDialInfo: a request placeholder expanding to a named
    port, a port range, nothing), the loop iteration returns at once (reverseproxy.go:541-544): the
    step is enabled at the top of the loop, ends the request, and leaves every in-flight count,
    every failure count, the failure log and the pool untouched — `countRequest(1)` belongs to
    `reverseProxy`, which is never entered.  Since the step is part of `Model.step`, `inflight_eq`
    ("in-flight = requests between send and return") holds for all interleavings that include it;
    the regenerated fact `dec_is_deferred_right_after_inc_in_source` pins the increment to the
    statement right before the deferred decrement. -/
theorem unfillable_dial_info_touches_no_counter {s : State} {r : Nat} {q : Req} (hq : s.reqs[r]? = some q)
    (hpc : q.pc = .start) :
    ∃ s', step s (.dialInfoFails r) = some s' ∧ s'.inflight = s.inflight ∧ s'.fails = s.fails ∧
      s'.log = s.log ∧ s'.pool = s.pool ∧ pcOf s' r = some .done := by
  have hb : step s (.dialInfoFails r) = some { s with reqs := s.reqs.set r { q with pc := .done } } := by
    show stepDialInfoFails s r = some _
    unfold stepDialInfoFails
    rw [hq]
    simp only []
    split
    · rfl
    · simp_all
  exact ⟨_, hb, rfl, rfl, rfl, rfl, by simp [pcOf, get_set_self hq]⟩

/-- a handler with max_requests 1 whose first upstream is undialable for request 0: the request
    returns, nothing is in flight, and the next request is sent there (the seeded change
    C09-request-counted-at-selection would leave the upstream full for ever) -/
example : ((runSteps dinit [.load [0] { pA with maxReq := 1 } [], .newReqBad true 0, .newReq true]).map fun d =>
    (d.s.inflight 0, sendingCount d.s 0, d.s.reqs.map (·.pc))) = some (1, 1, [Pc.done, Pc.sending 0]) := by decide

/-- **inflight = requests between send and return, with the dial-info exit** — a reachable state
    followed by the step "dial info cannot be filled in" is a state in which every Host's in-flight
    count still equals the number of requests being sent to it, and that number is the one before the
    step: the request that returned was never counted and never sent -/
theorem inflight_exact_across_unfillable_dial_info {s s' : State} {r : Nat} (h : Reachable s)
    (hs : step s (.dialInfoFails r) = some s') (o : HostId) :
    s'.inflight o = (sendingCount s' o : Int) ∧ sendingCount s' o = sendingCount s o := by
  have h' : Reachable s' := Reachable.step _ h hs
  have e1 := inflight_eq h o
  have e2 := inflight_eq h' o
  have hi : s'.inflight = s.inflight := by
    have hs2 : stepDialInfoFails s r = some s' := hs
    unfold stepDialInfoFails at hs2
    split at hs2
    · split at hs2
      · cases hs2; rfl
      · cases hs2
    · cases hs2
  rw [hi] at e2
  exact ⟨by rw [hi]; exact e2, by omega⟩

example : ((runSteps dinit [.load [0, 1] pA [], .newReq true, .newReqBad true 0, .newReqBad false 0]).map fun d =>
    (d.s.inflight 0, sendingCount d.s 0, d.s.reqs.map (·.pc))) = some (1, 1, [Pc.sending 0, Pc.done, Pc.done]) := by decide

/-- per request: every `countRequest(1)` it executed has been matched by exactly one
    `countRequest(-1)` as soon as it is not in flight, whatever the outcomes were -/
theorem incs_eq_decs {s : State} (h : Reachable s) {q : Req} (hq : q ∈ s.reqs) (hn : q.pc.inFlight = false) :
    q.incs = q.hist.length := by
  have := (inv_reachable h).req_ok q hq
  simp [hn] at this; exact this

example : ∃ s, Reachable s ∧ (s.reqs[0]?).map (fun q => (q.incs, q.hist.length, q.pc.inFlight)) = some (2, 2, false) :=
  witness exB (by decide)

/-- retry on another upstream: a request makes at most `retries + 1` attempts (so the proxy loop —
    and the fuel of the schedule interpreter — is bounded), each of them counted in and out once -/
theorem attempts_bounded {s : State} (h : Reachable s) {q : Req} (hq : q ∈ s.reqs) :
    q.retries ≤ q.par.retries ∧ q.incs ≤ q.par.retries + 1 := by
  have := (inv_reachable h).retry_ok q hq
  have hb : b2n q.pc.notStart ≤ 1 := by cases q.pc.notStart <;> simp
  omega

example : ∃ s, Reachable s ∧ (s.reqs[0]?).map (fun q => (q.incs, q.retries, q.par.retries)) = some (2, 1, 1) :=
  witness exB (by decide)

-- ---------------------------------------------------------------- failure accounting

/-- **fails_eq_pending_forgetters** — `Host.fails` equals the number of counted failures whose
    `countFail(-1)` has not run yet (forgetter waiting, or about to be started). -/
theorem fails_eq_pending_forgetters {s : State} (h : Reachable s) (o : HostId) :
    s.fails o = (pendingForgetters s o : Int) :=
  (inv_reachable h).fails_eq o

example : ∃ s, Reachable s ∧ s.fails 0 = 2 ∧ pendingForgetters s 0 = 2 := witness exA (by decide)

/-- the failure count never goes negative -/
theorem fails_never_negative {s : State} (h : Reachable s) (o : HostId) : 0 ≤ s.fails o := by
  rw [fails_eq_pending_forgetters h o]; omega

example : ∃ s, Reachable s ∧ s.fails 0 = 0 ∧ s.log.length = 2 := witness exC (by decide)

/-- every counted failure whose forgetter is not started yet belongs to a request standing right
    before the `go` statement: each failure gets exactly one forgetter -/
theorem each_failure_gets_one_forgetter {s : State} (h : Reachable s) (o : HostId) (c : CfgId) :
    countedNotSpawned s o c = spawners s o c :=
  (inv_reachable h).counted_eq o c

example : ∃ s, Reachable s ∧ countedNotSpawned s 0 0 = 1 ∧ spawners s 0 0 = 1 := witness exA (by decide)

/-- a failure is forgotten only after its window or when the configuration that counted it is unloaded -/
theorem forgotten_only_when_due {s : State} (h : Reachable s) {e : Fail} (he : e ∈ s.log) (hf : e.st = .forgotten) :
    e.exp ≤ s.now ∨ canceled s e.cfg = true :=
  (inv_reachable h).forgotten_due e he hf

example : ∃ s, Reachable s ∧ (s.log[1]?).map (fun e => (e.st, e.exp, s.now)) = some (FSt.forgotten, 3, 3) :=
  witness exC (by decide)

/-- a failure is forgotten at most once: the forget step of a forgetter that already ran (or is not
    started yet) is not enabled -/
theorem forgotten_at_most_once {s : State} {i : Nat} {e : Fail} (he : s.log[i]? = some e) (hst : e.st ≠ .waiting) :
    step s (.forget i) = none := by
  have : forgetOk s e = false := by
    cases h : e.st <;> simp_all [forgetOk]
  simp [step, stepForget, he, this]

example : ∃ s, Reachable s ∧ (s.log[0]?).map (·.st) = some FSt.forgotten := witness exC (by decide)

/-- …and at least once: as soon as the window has elapsed or the configuration is unloaded the
    forget step is enabled and decrements the same Host by exactly one -/
theorem forgotten_when_due {s : State} {i : Nat} {e : Fail} (he : s.log[i]? = some e) (hst : e.st = .waiting)
    (hdue : e.exp ≤ s.now ∨ canceled s e.cfg = true) :
    ∃ s', step s (.forget i) = some s' ∧ s'.fails e.host = s.fails e.host - 1 ∧
      (s'.log[i]?).map (·.st) = some FSt.forgotten := by
  have hok : forgetOk s e = true := forgetOk_iff.mpr ⟨hst, hdue⟩
  have hlt : i < s.log.length := by
    rcases Nat.lt_or_ge i s.log.length with h | h
    · exact h
    · simp [List.getElem?_eq_none h] at he
  exact ⟨_, by simp only [step, stepForget, he, hok]; rfl, by simp, by simp [List.getElem?_set_self hlt]⟩

example : ∃ s, Reachable s ∧ (s.log[0]?).map (fun e => (e.st, decide (e.exp ≤ s.now))) = some (FSt.waiting, true) :=
  witness (exB ++ [.tick]) (by decide)

/-- **fails_eq_window** — when the scheduler has let every due forgetter run, `Host.fails` equals
    the number of failures counted on this Host at `tᵢ` with `tᵢ ≤ now < tᵢ + fail_duration` by
    configurations that are still loaded. -/
theorem fails_eq_window {s : State} (h : Reachable s) (ht : Timely s) (o : HostId) :
    s.fails o = (windowCount s o : Int) := by
  rw [fails_eq_pending_forgetters h o]
  have : pendingForgetters s o = windowCount s o := by
    apply total_congr
    intro e he
    simp only [pendingW, windowW]
    by_cases hf : e.st = .forgotten
    · have hd := forgotten_only_when_due h he hf
      have : inWindow s e = false := by
        simp only [inWindow]
        rcases hd with hd | hd
        · have : ¬ s.now < e.exp := by omega
          simp [this]
        · simp [hd]
      simp [hf, this]
    · have := ht e he hf
      have hb : (e.st != FSt.forgotten) = true := by simpa using hf
      simp [hb, this]
  omega

example : ∃ s, Reachable s ∧ Timely s ∧ s.fails 0 = 2 ∧ windowCount s 0 = 2 ∧ s.now = 1 := witness exB (by decide)

/-- every window entry was counted in the past and expires strictly later (`tᵢ ≤ now`, `D > 0`) -/
theorem window_entries_wellformed {s : State} (h : Reachable s) {e : Fail} (he : e ∈ s.log) :
    e.t0 ≤ s.now ∧ e.t0 < e.exp := by
  have := (inv_reachable h).entry_ok e he
  simp only [Fail.exp]; omega

example : ∃ s, Reachable s ∧ (s.log.map fun e => (e.t0, e.exp)) = [(0, 2), (1, 3)] := witness exB (by decide)

/-- the failure count is zero again once traffic has stopped and every window has elapsed
    (or every configuration that counted something was unloaded) -/
theorem fails_zero_after_quiescence_and_window {s : State} (h : Reachable s) (ht : Timely s) (o : HostId)
    (hw : ∀ e ∈ s.log, e.host = o → e.exp ≤ s.now ∨ canceled s e.cfg = true) : s.fails o = 0 := by
  rw [fails_eq_window h ht o]
  have : windowCount s o = 0 := by
    apply total_zero
    intro e he
    simp only [windowW]
    by_cases ho : e.host = o
    · have : inWindow s e = false := by
        simp only [inWindow]
        rcases hw e he ho with hd | hd
        · have : ¬ s.now < e.exp := by omega
          simp [this]
        · simp [hd]
      simp [this]
    · have hb : (e.host == o) = false := by simpa using ho
      simp [hb]
  omega

example : ∃ s, Reachable s ∧ Timely s ∧ Quiescent s ∧ s.log.length = 2 ∧ s.now = 3 := witness exC (by decide)

/-- **unhealthy_iff** — with passive health checks, an upstream is held unhealthy iff at least
    `max_fails` failures counted on its Host are inside their window (in loaded configurations). -/
theorem unhealthy_iff {s : State} (h : Reachable s) (ht : Timely s) (p : Params) (o : HostId) :
    healthy p s o = false ↔ p.passive = true ∧ p.maxFails ≤ windowCount s o := by
  have := fails_eq_window h ht o
  simp only [healthy]
  cases hp : p.passive <;> simp [this] <;> omega

example : ∃ s, Reachable s ∧ Timely s ∧ healthy pA s 0 = false ∧ windowCount s 0 = 2 := witness exB (by decide)
example : ∃ s, Reachable s ∧ Timely s ∧ healthy pA s 0 = true ∧ s.log.length = 2 := witness exC (by decide)

/-- **counted_iff_not_success_not_canceled** — on every Host, the failures counted for attempt
    outcomes are exactly the finished attempts that ended in a refused dial or an upstream error
    (handlers with counting enabled), minus those whose `countFailure` call is the very next step of
    their request: success, client cancellation, response-handler errors and panics are never counted,
    refused dials and upstream errors always are. -/
theorem counted_iff_not_success_not_canceled {s : State} (h : Reachable s) (o : HostId) :
    countedAttempts s o + aboutToCount s o = failedAttempts s o :=
  (inv_reachable h).attempts_eq o

example : ∃ s, Reachable s ∧ countedAttempts s 0 = 1 ∧ failedAttempts s 0 = 1 ∧
    (s.reqs.map fun q => q.hist.length) = [2, 1, 1] := witness exB (by decide)

/-- what was counted for an attempt is a refused dial or an upstream error — nothing else -/
theorem counted_only_failures {s : State} (h : Reachable s) {e : Fail} (he : e ∈ s.log) {out : Outcome}
    (hs : e.src = some out) : out = .dialRefused ∨ out = .upstreamErr := by
  have := (inv_reachable h).src_countable e he out hs
  cases out <;> simp_all [Outcome.countable]

example : ∃ s, Reachable s ∧ (s.log.map (·.src)) = [some Outcome.upstreamErr, none] := witness exB (by decide)

/-- the step after an attempt counts a failure iff the outcome is countable and the handler counts -/
theorem after_counts_iff {s s' : State} {r : Nat} {q : Req} {o : HostId} {out : Outcome}
    (hq : s.reqs[r]? = some q) (hpc : q.pc = .exited o out) (hs : step s (.after r) = some s') :
    (s'.fails o = s.fails o + 1 ∧ s'.log.length = s.log.length + 1) ↔ (out.countable = true ∧ q.par.counting = true) := by
  simp only [step, stepAfter, hq, hpc] at hs
  cases hk : out.countable <;> cases hc : q.par.counting <;> simp [hk, hc] at hs <;> subst hs <;> simp

example : ∃ s, Reachable s ∧ (s.reqs[0]?).map (·.pc) = some (Pc.exited 0 Outcome.upstreamErr) :=
  witness (exA.take 8) (by decide)

/-- **failure_counted_even_when_already_down** — `countFailure` counts a refused dial / upstream
    error whatever the Host's count is at that moment — in particular while the upstream is already
    at or above `max_fails`: the step is enabled, adds exactly one to `fails` and appends the entry
    (window starting now) that the forgetter will take away again.  (healthchecks.go:587-640 has no
    early exit that looks at the current count; the only guards are "passive checks configured" and
    "fail_duration ≠ 0" = `Params.counting`.) -/
theorem failure_counted_even_when_already_down {s : State} {r : Nat} {q : Req} {o : HostId} {out : Outcome}
    (hq : s.reqs[r]? = some q) (hpc : q.pc = .exited o out) (hk : out.countable = true)
    (hc : q.par.counting = true) :
    ∃ s', step s (.after r) = some s' ∧ s'.fails o = s.fails o + 1 ∧
      s'.log = s.log ++ [newFail q o s.now (some out)] := by
  refine ⟨_, by simp only [step, stepAfter, hq, hpc, hk, hc, if_true]; rfl, by simp, rfl⟩

/-- the same for a bad-status strike of a request still in flight -/
theorem strike_counted_even_when_already_down {s : State} {r : Nat} {q : Req} {o : HostId}
    (hq : s.reqs[r]? = some q) (hpc : q.pc = .sending o) (hc : q.par.counting = true) :
    ∃ s', step s (.strike r) = some s' ∧ s'.fails o = s.fails o + 1 ∧
      s'.log = s.log ++ [newFail q o s.now none] := by
  refine ⟨_, by simp only [step, stepStrike, hq, hpc, hc, if_true]; rfl, by simp, rfl⟩

def pW : Params := { pA with failDur := 3, maxFails := 2, retries := 0 }

/-- three requests were handed to Host 0 while it was healthy; they fail at t = 0, 1 and 2 — the
    third one while the upstream is already down (fails = 2 = max_fails) -/
def exW : List Action :=
  [.newCfg pW, .store 0 7, .newReq 0 true, .newReq 0 true, .newReq 0 true, .dispatch 0 0, .dispatch 1 0, .dispatch 2 0,
   .finish 0 .upstreamErr, .after 0, .spawn 0 0, .tick,
   .finish 1 .upstreamErr, .after 1, .spawn 1 1, .tick,
   .finish 2 .upstreamErr]

example : ∃ s, Reachable s ∧ s.fails 0 = 2 ∧ healthy pW s 0 = false ∧
    (s.reqs[2]?).map (·.pc) = some (Pc.exited 0 Outcome.upstreamErr) := witness exW (by decide)

/-- …it is counted all the same (fails = 3), and when the first failure leaves the window at t = 3
    the upstream is still held unhealthy, because two failures (t = 1, 2) are still inside; only at
    t = 4 does it come back -/
example : ∃ s, Reachable s ∧ Timely s ∧ s.now = 3 ∧ s.fails 0 = 2 ∧ windowCount s 0 = 2 ∧ healthy pW s 0 = false :=
  witness (exW ++ [.after 2, .spawn 2 2, .tick, .forget 0]) (by decide)
example : ∃ s, Reachable s ∧ Timely s ∧ s.now = 4 ∧ s.fails 0 = 1 ∧ healthy pW s 0 = true :=
  witness (exW ++ [.after 2, .spawn 2 2, .tick, .forget 0, .tick, .forget 1]) (by decide)

theorem total_b2n_eq_filter_length {α : Type} (P : α → Bool) (l : List α) :
    total (fun x => b2n (P x)) l = (l.filter P).length := by
  induction l with
  | nil => rfl
  | cons a as ih =>
    simp only [total, List.filter_cons, ih]
    cases P a <;> simp <;> omega

/-- **unhealthy_iff_max_fails_in_window** — the window clause spelled out over the recorded failure
    times, for every reachable state in which the due forgetters have run (any number of failures at
    any times, also while the upstream was already down, any interleaving, any reloads): the upstream
    is held unhealthy iff passive checks are on and at least `max_fails` of the failures counted on
    its Host at times `tᵢ` by still-loaded configurations satisfy `tᵢ ≤ now < tᵢ + fail_duration`. -/
theorem unhealthy_iff_max_fails_in_window {s : State} (h : Reachable s) (ht : Timely s) (p : Params) (o : HostId) :
    healthy p s o = false ↔ p.passive = true ∧
      p.maxFails ≤ (s.log.filter fun e => e.host == o && !canceled s e.cfg &&
        decide (e.t0 ≤ s.now) && decide (s.now < e.t0 + e.dur)).length := by
  rw [unhealthy_iff h ht p o]
  have : windowCount s o = (s.log.filter fun e => e.host == o && !canceled s e.cfg &&
      decide (e.t0 ≤ s.now) && decide (s.now < e.t0 + e.dur)).length := by
    rw [← total_b2n_eq_filter_length]
    apply total_congr
    intro e he
    have ht0 := (window_entries_wellformed h he).1
    simp only [windowW, inWindow, Fail.exp]
    cases e.host == o <;> cases canceled s e.cfg <;> simp [ht0] <;> (first | rfl | (congr 1; exact decide_eq_decide.mpr Iff.rfl))
  rw [this]

example : ∃ s, Reachable s ∧ Timely s ∧ (s.log.map fun e => (e.t0, e.dur)) = [(0, 3), (1, 3), (2, 3)] ∧ s.now = 3 :=
  witness (exW ++ [.after 2, .spawn 2 2, .tick, .forget 0]) (by decide)

/-- **counter_updates_never_err** — the error branches of hosts.go `countRequest` / `countFail`
    ("count below 0") and with them the early return of `countFailure` that skips the forgetter are
    dead in every reachable state: an increment never lands below 1, the deferred in-flight decrement
    of a request being sent and the forgetter's decrement never land below 0. -/
theorem counter_updates_never_err {s : State} (h : Reachable s) (o : HostId) :
    0 < s.fails o + 1 ∧ 0 < s.inflight o + 1 ∧
    (∀ q ∈ s.reqs, q.pc.inFlightOn o = true → 0 ≤ s.inflight o - 1) ∧
    (∀ e ∈ s.log, e.host = o → e.st ≠ .forgotten → 0 ≤ s.fails o - 1) := by
  have h1 := fails_never_negative h o
  have h2 := inflight_never_negative h o
  refine ⟨by omega, by omega, ?_, ?_⟩
  · intro q hq hin
    have := le_total_of_mem (inFlightW o) s.reqs q hq
    have hw : inFlightW o q = 1 := by simp [inFlightW, hin]
    have := inflight_eq h o
    simp only [sendingCount] at this; omega
  · intro e he ho hst
    have := le_total_of_mem (pendingW o) s.log e he
    have hb : (e.st != FSt.forgotten) = true := by simpa using hst
    have hw : pendingW o e = 1 := by simp [pendingW, ho, hb]
    have := fails_eq_pending_forgetters h o
    simp only [pendingForgetters] at this; omega

example : ∃ s, Reachable s ∧ s.fails 0 = 2 ∧ s.inflight 0 = 2 := witness exA (by decide)

-- ---------------------------------------------------------------- the active checker next door

/-- **active_checks_leave_passive_accounting_alone** — a completed active health check
    (healthchecks.go markHealthy / markUnhealthy, hosts.go countHealthPass / countHealthFail /
    setHealthy / resetHealth) changes the Host's *active* counters and the upstream's *active*
    status only: `Host.fails`, `Host.numRequests`, the pending forgetters, the requests, the
    configurations and the pool are untouched — also when the check flips the status and
    `resetHealth` runs.  Since the step is part of `Model.step`, every theorem of this file
    (`fails_eq_pending_forgetters`, `fails_never_negative`, `fails_eq_window`,
    `unhealthy_iff_max_fails_in_window`, …) holds for all interleavings of proxied requests,
    forgetters, reloads AND active checks. -/
theorem active_checks_leave_passive_accounting_alone {s s' : State} {c : CfgId} {i : Nat} {pass : Bool}
    (hs : step s (.activeCheck c i pass) = some s') :
    s'.fails = s.fails ∧ s'.inflight = s.inflight ∧ s'.log = s.log ∧ s'.reqs = s.reqs ∧ s'.cfgs = s.cfgs ∧
      s'.pool = s.pool := by
  obtain ⟨_, h2, h3, h4, h5, h6, h7, _⟩ := stepActive_core hs
  exact ⟨h3, h2, h5, h4, h6, h7⟩

def pAct : Params := { pA with maxFails := 3, failDur := 3, retries := 0, aOn := true, aPasses := 1, aFails := 1 }

/-- two passive failures are pending on Host 0 (max_fails 3, window 3), then its health endpoint
    fails and recovers: the active checker flips the upstream down and up again -/
def exAct : List Action :=
  [.newCfg pAct, .store 0 7, .activeCheck 0 0 true, .newReq 0 true, .newReq 0 true, .dispatch 0 0, .dispatch 1 0,
   .finish 0 .upstreamErr, .after 0, .spawn 0 0, .finish 1 .upstreamErr, .after 1, .spawn 1 1,
   .activeCheck 0 0 false, .activeCheck 0 0 true]

example : ∃ s, Reachable s ∧ s.fails 0 = 2 ∧ pendingForgetters s 0 = 2 ∧ isDown s 0 0 = false ∧ s.aPass 0 = 0 :=
  witness exAct (by decide)
/-- while it is down, selection skips it -/
example : ∃ s, Reachable s ∧ isDown s 0 0 = true ∧ s.fails 0 = 2 ∧ firstAvailableOf pAct s 0 [(7, 0)] = none :=
  witness (exAct.take 14) (by decide)
/-- after the window both failures are forgotten exactly once: the count is 0, not negative -/
example : ∃ s, Reachable s ∧ Timely s ∧ s.fails 0 = 0 ∧ s.now = 3 :=
  witness (exAct ++ [.tick, .tick, .tick, .forget 0, .forget 1]) (by decide)
/-- …and three fresh failures hold the upstream down again (max_fails = 3) -/
example : ∃ s, Reachable s ∧ Timely s ∧ s.fails 0 = 3 ∧ healthy pAct s 0 = false :=
  witness (exAct ++ [.tick, .tick, .tick, .forget 0, .forget 1, .newReq 0 true, .newReq 0 true, .newReq 0 true,
    .dispatch 2 0, .dispatch 3 0, .dispatch 4 0, .finish 2 .upstreamErr, .after 2, .spawn 2 2,
    .finish 3 .upstreamErr, .after 3, .spawn 3 3, .finish 4 .upstreamErr, .after 4, .spawn 4 4]) (by decide)

/-- selection never returns an upstream the active checker holds down (hosts.go Healthy() starts
    with the active status): what `first` returns is a position that is not marked down and is
    available by the passive rules -/
theorem selection_skips_actively_down {p : Params} {s : State} {dn : Nat → Bool} {i : Nat}
    {ups : List (Key × HostId)} {u : Key × HostId} (h : firstAvailableFrom p s dn i ups = some u) :
    ∃ j, ups[j]? = some u ∧ dn (i + j) = false ∧ available p (i + j) s u.2 = true := by
  induction ups generalizing i with
  | nil => simp [firstAvailableFrom] at h
  | cons a as ih =>
    simp only [firstAvailableFrom] at h
    split at h
    next hc =>
      simp at h; subst h
      simp only [Bool.and_eq_true, Bool.not_eq_true'] at hc
      exact ⟨0, by simp, by simpa using hc.1, by simpa using hc.2⟩
    next =>
      obtain ⟨j, h1, h2, h3⟩ := ih h
      exact ⟨j + 1, by simpa using h1, by rw [← Nat.add_assoc, Nat.add_right_comm] at *; simpa [Nat.add_comm 1 j, Nat.add_assoc] using h2,
        by simpa [Nat.add_comm 1 j, Nat.add_assoc, Nat.add_left_comm] using h3⟩

example : firstAvailableFrom pAct init (fun j => j == 0) 0 [(7, 0), (8, 1)] = some (8, 1) := by decide

-- ---------------------------------------------------------------- which answers strike

/-- `StatusCodeMatches` (caddyhttp.go:230-240): an unhealthy_status entry matches the status the
    backend sent iff it is that status or, being below 100, its class (5 = 5xx) -/
theorem statusCodeMatches_iff (actual configured : Nat) :
    statusCodeMatches actual configured = true ↔
      actual = configured ∨ (configured < 100 ∧ actual / 100 = configured) := by
  simp only [statusCodeMatches, Bool.or_eq_true, Bool.and_eq_true, beq_iff_eq, decide_eq_true_eq]
  omega

example : statusCodeMatches 503 5 = true ∧ statusCodeMatches 503 503 = true ∧ statusCodeMatches 503 4 = false ∧
    statusCodeMatches 5003 50 = true ∧ statusCodeMatches 500 50 = false := by decide

/-- an answer is struck once per matching unhealthy_status entry (reverseproxy.go:916-923): the
    number of `countFailure` calls the schedule interpreter makes for a status -/
theorem strikeCount_eq_matching_entries (entries : List Nat) (actual : Nat) :
    strikeCount entries actual = (entries.filter (statusCodeMatches actual)).length := by
  induction entries with
  | nil => rfl
  | cons c rest ih =>
    simp only [strikeCount, List.filter_cons]
    cases statusCodeMatches actual c <;> simp [ih] <;> omega

example : strikeCount [500, 5] 500 = 2 ∧ strikeCount [4, 429, 503] 429 = 2 ∧ strikeCount [50] 500 = 0 ∧
    strikeCount [200, 2] 200 = 2 := by decide

/-- a round trip that took at least unhealthy_latency earns exactly one strike on top of the
    status strikes, and only when failures are counted at all (reverseproxy.go:924-928) -/
theorem slow_answer_strikes_once_more (p : Params) (code : Nat) :
    strikesFor p "sl" code = strikesFor p "ok" code + (if p.counting && p.latency then 1 else 0) := by
  simp only [strikesFor]
  cases p.counting <;> cases p.latency <;> simp <;> decide

example : strikesFor { pA with latency := true, badStatus := [200, 2] } "sl" 200 = 3 ∧
    strikesFor { pA with latency := true, failDur := 0 } "sl" 200 = 0 := by decide

/-- an upstream's own `max_requests` wins over the passive checker's unhealthy_request_count
    (provisionUpstream, reverseproxy.go:1218-1231); only upstreams without one inherit it -/
theorem own_max_requests_wins (p : Params) (i : Nat) :
    maxReqAt p i = if i = 0 ∧ p.firstMax ≠ 0 then p.firstMax else p.maxReq := by
  simp only [maxReqAt]
  by_cases h0 : i = 0 <;> by_cases hf : p.firstMax = 0 <;> simp [h0, hf]

example : maxReqAt { pA with maxReq := 3, firstMax := 1 } 0 = 1 ∧ maxReqAt { pA with maxReq := 3, firstMax := 1 } 1 = 3 := by decide

-- ---------------------------------------------------------------- the `hosts` pool across reloads

/-- the pool's usage count of a key equals the number of loaded handlers holding it -/
theorem pool_refs_eq_holders {s : State} (h : Reachable s) (k : Key) : refs s k = holders s k :=
  (poolInv_reachable h).refs_eq k

example : ∃ s, Reachable s ∧ refs s 7 = 1 ∧ holders s 7 = 1 ∧ refs s 8 = 0 ∧ s.inflight 0 = 1 :=
  witness exR (by decide)

/-- when nobody holds a key any more — every configuration that used it is unloaded, every loop
    iteration that provisioned it has returned — the pool has let the entry go: nothing leaks -/
theorem pool_entry_gone_when_nobody_holds {s : State} (h : Reachable s) (k : Key) (h0 : holders s k = 0) :
    s.pool k = none := by
  have hr := pool_refs_eq_holders h k
  cases hp : s.pool k with
  | none => rfl
  | some v =>
    obtain ⟨o, n⟩ := v
    have := poolPos_reachable h k o n hp
    simp [refs, hp] at hr; omega

example : ∃ s, Reachable s ∧ holders s 8 = 0 ∧ s.pool 8 = none ∧ holders s 7 = 1 := witness exR (by decide)

/-- what the admin endpoint `/reverse_proxy/upstreams` reports for a pooled address (admin.go ranges
    over the pool and reads `NumRequests()` / `Fails()` of the pooled Host) is exact: the number of
    requests being sent to that Host and the number of its failures not yet forgotten -/
theorem admin_view_exact {s : State} (h : Reachable s) {k : Key} {o : HostId} {n : Nat} (_hp : s.pool k = some (o, n)) :
    s.inflight o = (sendingCount s o : Int) ∧ s.fails o = (pendingForgetters s o : Int) :=
  ⟨inflight_eq h o, fails_eq_pending_forgetters h o⟩

example : ∃ s, Reachable s ∧ s.pool 7 = some (0, 1) ∧ s.inflight 0 = 1 ∧ sendingCount s 0 = 1 := witness exR (by decide)

/-- **host_preserved_across_reload** — a step that leaves key `k` in use by some loaded handler
    keeps the very same Host object in the pool: `key ∈ old ∩ new → usage count ≥ 1 throughout,
    same Host` — for every interleaving, including the Cleanup of configurations whose Provision
    failed before their upstreams were set up (it releases nothing it did not store).
    For the Cleanup before fix d6561d4 the statement is false: `Witness.host_preserved_old_code_fails`. -/
theorem host_preserved_across_reload {s s' : State} {a : Action} (h : Reachable s)
    (hs : step s a = some s') (k : Key) (hb : 0 < holders s k) (ha : 0 < holders s' k) :
    ∃ o, poolObj s k = some o ∧ poolObj s' k = some o ∧ 0 < refs s' k :=
  host_preserved_step (poolInv_reachable h) (poolInv_reachable (Reachable.step a h hs)) hs k hb ha

example : ∃ s, Reachable s ∧ holders s 7 = 2 ∧ poolObj s 7 = some 0 := witness (exR.take 7) (by decide)
/-- …also right before the Cleanup of a rejected configuration that lists the key (the old witness) -/
example : ∃ s, Reachable s ∧ 0 < holders s 7 ∧ (step s (.delete 1 7)).map (fun s' => (holders s' 7, poolObj s' 7)) = some (1, some 0) :=
  witness wBad (by decide)

/-- every loaded handler that still holds a key points at the pool's Host object for it: a new
    configuration that keeps an upstream shares its counters with the old one -/
theorem holders_share_host {s : State} (h : Reachable s) {cs : CfgSt} (hc : cs ∈ s.cfgs) {k : Key} {o : HostId}
    (hu : (k, o) ∈ cs.ups) (hh : k ∈ cs.held) : poolObj s k = some o :=
  (poolInv_reachable h).same_obj cs hc k o hu hh

example : ∃ s, Reachable s ∧ (s.cfgs.map fun cs => (cs.ups, cs.held)) = [([(7, 0), (8, 1)], [8, 7]), ([(7, 0)], [7])] :=
  witness (exR.take 7) (by decide)

/-- **holders_of_a_key_share_one_host** — any two holders of a key — loaded handlers, or loop
    iterations of handlers with dynamic upstreams (each iteration provisions its upstreams and is a
    holder until it returns) — count on the very same Host object: concurrent requests to one
    address see each other's in-flight count and failures, whichever configuration or iteration
    they belong to. -/
theorem holders_of_a_key_share_one_host {s : State} (h : Reachable s) {c1 c2 : CfgSt} (h1 : c1 ∈ s.cfgs)
    (h2 : c2 ∈ s.cfgs) {k : Key} {o1 o2 : HostId} (hu1 : (k, o1) ∈ c1.ups) (hh1 : k ∈ c1.held)
    (hu2 : (k, o2) ∈ c2.ups) (hh2 : k ∈ c2.held) : o1 = o2 := by
  have e1 := holders_share_host h h1 hu1 hh1
  have e2 := holders_share_host h h2 hu2 hh2
  rw [e1] at e2; exact Option.some.inj e2

def pDyn : Params := { pA with dynamic := true, maxFails := 5 }

/-- a handler with dynamic upstreams [0, 1]: two requests are inside backend 0 at once — two
    iterations hold key 0 (usage count 2), both count on Host object 0, whose in-flight count is 2 -/
example : ((runSteps dinit [.load [0, 1] pDyn [], .newReq true, .newReq true]).map fun d =>
    (refs d.s 0, d.s.inflight 0, sendingCount d.s 0)) = some (2, 2, 2) := by decide
example : ((runSteps dinit [.load [0, 1] pDyn [], .newReq true, .newReq true]).map fun d =>
    (d.s.cfgs.map (·.ups), d.s.nextHost)) = some ([[], [(0, 0), (1, 1)], [(0, 0), (1, 1)]], 2) := by decide

/-- …and when the last iteration referring to an address returns, the pool lets the Host go. This is
    the DOCUMENTED reset of passive state for dynamic upstreams, not a violation: healthchecks.go:52-67
    (doc of `HealthChecks.Passive`: "if there is a moment when no requests are actively referring to a
    particular upstream host, the passive health check state will be reset because it will be
    garbage-collected") and reverseproxy.go:95-103. The accounting itself stays exact on the orphaned
    Host (`fails_eq_pending_forgetters` holds for every Host object, pooled or not); what the property
    calls "an upstream within one configuration" lives for one loop iteration here.
    (the documented reset of passive state for dynamic upstreams): the failure counted on object 0 stays
    with that orphan, the retry is provisioned fresh objects 2 and 3 -/
example : ((runSteps dinit [.load [0, 1] pDyn [], .newReq true, .answer 0 "rst"]).map fun d =>
    (poolObj d.s 0, d.s.fails 0, d.s.inflight 2, d.s.nextHost)) = some (some 2, 1, 1, 4) := by decide

/-- **in_flight_iteration_holds_its_upstream** — dynamic upstreams: as long as a request is dealing
    with a Host in its current loop iteration — being sent to it, or between the return of
    `reverseProxy` and the end of the iteration (countFailure, tryAgain) — the iteration still holds
    that upstream in the pool, and the Host is the pooled one: the in-flight count and the failures
    the selection of every other request consults for that address include this request.
    (`q.holder = some c`: the iteration got its upstreams from the source; an iteration in which the
    source failed has no holder and uses the handler's static upstreams, see `fallback`.)
    (The deferred `hosts.Delete` belongs to proxyLoopIteration, not to anything that returns
    earlier — the scope the seeded change C08-dynamic-upstream-host-deleted-early moved.) -/
theorem in_flight_iteration_holds_its_upstream {s : State} (h : Reachable s) {r : Nat} {q : Req} {o : HostId}
    {c : CfgId} (hq : s.reqs[r]? = some q) (hd : q.par.dynamic = true) (ho : q.pc.hostOf = some o)
    (hh : q.holder = some c) : ∃ k, poolObj s k = some o ∧ 0 < refs s k := by
  obtain ⟨cs, hcs, hnc, _, k, hu⟩ := iterInv_reachable h r q o c hq hd ho hh
  have hm : cs ∈ s.cfgs := mem_of_get hcs
  have hp := poolInv_reachable h
  have hh := hp.ups_held cs hm hnc k o hu
  refine ⟨k, hp.same_obj cs hm k o hu hh, ?_⟩
  rw [hp.refs_eq k]; exact held_pos_of_mem hm hh

/-- request 0 of a handler with dynamic upstreams: its iteration (holder 1) provisioned key 7 and
    it is being sent there -/
example : ∃ s, Reachable s ∧ (s.reqs[0]?).map (fun q => (q.par.dynamic, q.pc.hostOf, q.holder)) = some (true, some 0, some 1) ∧
    poolObj s 7 = some 0 ∧ refs s 7 = 1 :=
  witness [.newCfg pDyn, .newReq 0 true, .newIter 0, .store 1 7, .dispatch 0 0] (by decide)

/-- the holder of a running iteration cannot end under its request: the step is not enabled -/
example : HoldsAfter [.newCfg pDyn, .newReq 0 true, .newIter 0, .store 1 7, .dispatch 0 0]
    (fun s => (step s (.cancel 1)).isNone = true ∧ (step s (.cancel 0)).isSome = true) := by decide

/-- the error path of the dynamic source (reverseproxy.go:503-507): an iteration in which
    `GetUpstreams` failed (no holder) can only be sent to one of the handler's own, static upstreams —
    which the handler holds in the pool like any static configuration (`holders_share_host`);
    nothing is provisioned and nothing will be released for that iteration -/
theorem fallback_uses_static_upstreams {s s' : State} {r : Nat} {q : Req} {h : HostId}
    (hq : s.reqs[r]? = some q) (hd : q.par.dynamic = true) (hh : q.holder = none)
    (hs : step s (.dispatch r h) = some s') : ∃ cs : CfgSt, s.cfgs[q.cfg]? = some cs ∧ ∃ k, (k, h) ∈ cs.ups := by
  simp only [step, stepDispatch, hq] at hs
  split at hs
  · split at hs
    next hok =>
      simp only [dynOk, hd, if_true, hh] at hok
      split at hok
      next cs hcs =>
        simp only [List.any_eq_true, beq_iff_eq] at hok
        obtain ⟨x, hx, hxo⟩ := hok
        exact ⟨cs, hcs, x.1, by rw [← hxo]; exact hx⟩
      · simp at hok
    · simp at hs
  · simp at hs

/-- handler 0 has a dynamic source and static upstream key 8; the source fails for request 0 -/
example : HoldsAfter [.newCfg pDyn, .store 0 8, .newReq 0 true, .fallback 0]
    (fun s => (step s (.dispatch 0 0)).isSome = true ∧ (step s (.dispatch 0 5)).isNone = true) := by decide

-- ---------------------------------------------------------------- the source premise

/-- **dec_is_deferred_right_after_inc_in_source** — the syntactic premise of `dec_on_every_exit`,
    regenerated from /repo by tools/extract on every run: in reverseproxy.go there is exactly one
    `countRequest(1)` and one `countRequest(-1)` call site, and the statement right after the
    increment is `defer …countRequest(-1)`, so the decrement runs on every exit incl. panics.
    (The harness case `static defer` checks the same on the source it was built from.) -/
theorem dec_is_deferred_right_after_inc_in_source :
    Gen.proxyIncFollowedByDeferredDec = true ∧ Gen.proxyIncSites = 1 ∧ Gen.proxyDecSites = 1 := by decide

example : Gen.proxyIncSites = Gen.proxyDecSites := by decide

-- ---------------------------------------------------------------- the schedules of the harness

/-- every state the schedule interpreter (the executable model the harness is compared with)
    produces is reachable in the transition system: the invariants above apply to it -/
theorem sched_reachable {d d' : DState} {st : SStep} {ev : String} (h : Reachable d.s)
    (hs : sstep d st = some (d', ev)) : Reachable (settle d'.s) :=
  settle_reachable (sstep_reachable h hs)

example : (sstep dinit (.load [0, 1] pA [])).isSome = true := by decide

/-- the proxy loop of the schedule interpreter over static upstreams (a handler without a dynamic
    source, or an iteration in which the source failed: no holder) never runs out of fuel: the wire syntax limits
    `retries` to 8 and the interpreter passes `fuel0 = 12` (see `FuelLemmas.advance_never_runs_out_of_fuel`
    for the general bound `retries still allowed < fuel`) -/
theorem sched_never_runs_out_of_fuel (d : DState) (r : Nat) (q : Req) (hq : d.s.reqs[r]? = some q)
    (hpc : q.pc = .start) (hcfg : ∃ cs, d.s.cfgs[q.cfg]? = some cs)
    (hdyn : q.par.dynamic = false ∨ q.holder = none) (hr : q.par.retries ≤ 8) : (advance fuel0 d r).isSome = true :=
  advance_never_runs_out_of_fuel fuel0 d r q hq hpc hcfg hdyn (by simp only [fuel0]; omega)

example : ((sstep dinit (.load [0, 1] { pA with retries := 8 } [])).bind fun x =>
    (sstep { x.1 with down := [0, 1] } (.newReq true)).map fun y => (y.2, (y.1.s.reqs.map (·.retries)))) = some ("err", [8]) := by
  decide

/-- …and neither does the proxy loop of a handler with dynamic upstreams (new holder,
    provisioning, selection, dispatch, refused dial, release — all enabled; see
    `FuelDynLemmas.advanceDyn_never_runs_out_of_fuel`) -/
theorem sched_dyn_never_runs_out_of_fuel (d : DState) (r : Nat) (q : Req) (hq : d.s.reqs[r]? = some q)
    (hpc : q.pc = .start) (hdyn : q.par.dynamic = true) (hr : q.par.retries ≤ 8) :
    (advanceDyn fuel0 d r).isSome = true :=
  advanceDyn_never_runs_out_of_fuel fuel0 d r q hq hpc hdyn (by simp only [fuel0]; omega)

example : ((sstep dinit (.load [0, 1] { pA with retries := 8, dynamic := true } [])).bind fun x =>
    (sstep { x.1 with down := [0, 1] } (.newReq true)).map fun y => (y.2, (y.1.s.reqs.map (·.retries)), y.1.s.cfgs.length)) =
    some ("err", [8], 10) := by decide

/-- **response_header_keeps_request_in_flight** — when the response header arrives and the body is
    still to be copied (`sb`), or the backend switches protocols and the upgraded connection stays
    open (`wu`), the status / latency strikes are counted but the request stays in the in-flight
    place with every in-flight count unchanged; only its own `finish` — the end of the body, of the
    upgraded connection, or the client going away — takes it out (`leaves_in_flight_only_by_finish`).
    "Currently being sent to it" includes the whole response. -/
theorem response_header_keeps_request_in_flight {d d' : DState} {ev : String} {r : Nat}
    (hs : sstep d (.streamBegin r) = some (d', ev) ∨ sstep d (.wsBegin r) = some (d', ev)) :
    isParked d'.s r = true ∧ d'.s.inflight = d.s.inflight := by
  rcases hs with hs | hs
  all_goals
    simp only [sstep] at hs
    split at hs
    next hc =>
      have hp : isParked d.s r = true := by
        simp only [Bool.and_eq_true] at hc
        first | exact hc.1 | exact hc.1.1
      split at hs
      · simp at hs
      next q hq =>
        split at hs
        · simp at hs
        next s1 h1 =>
          simp at hs; obtain ⟨hd, _⟩ := hs; subst hd
          exact strikesN_parked hp h1
    · simp at hs

example : ((runSteps dinit [.load [0] { pA with badStatus := [200] } [], .newReq true, .streamBegin 0]).map fun d =>
    (isParked d.s 0, d.s.inflight 0, d.s.fails 0, d.streaming)) = some (true, 1, 1, [0]) := by decide

/-- Cleanup of a handler whose stream_close_delay is not set (streaming.go cleanupConnections →
    closeConnections) ends the upgraded connections of that handler: every such request leaves the
    in-flight place through its own `finish` (nothing else can take it out), so the in-flight
    count of its Host drops by exactly the number of connections closed — requests that are merely
    parked in a backend stay counted.  Two upgraded connections and one plain request on Host 0: -/
example : ((runSteps dinit [.load [0] { pA with closeStreams := true } [], .newReqWs, .wsBegin 0, .newReqWs, .wsBegin 1,
    .newReq true, .load [0] pA []]).map fun d => (d.s.inflight 0, sendingCount d.s 0, d.wsStreaming, isParked d.s 2)) =
    some (1, 1, [], true) := by decide
/-- with stream_close_delay set they survive the reload and stay counted -/
example : ((runSteps dinit [.load [0] pA [], .newReqWs, .wsBegin 0, .newReqWs, .wsBegin 1,
    .newReq true, .load [0] pA []]).map fun d => (d.s.inflight 0, d.wsStreaming)) = some (3, [1, 0]) := by decide

/-- every state `afterUnload` produces is reachable (the closing of streams is a sequence of
    ordinary `finish` / `after` steps) -/
theorem streams_closed_on_unload_reachable {d : DState} {c : CfgId} {s : State} (h : Reachable s) :
    Reachable (afterUnload d c s).s := afterUnload_reachable h

/-- a reload that DROPS an upstream while a request is still being sent to it, followed by one that
    lists it again, is not "a reload that keeps the upstream": Cleanup releases the last reference,
    the pool lets the Host go (`pool_entry_gone_when_nobody_holds`), and the address starts over
    with a fresh Host — the old request is still counted, exactly, on the orphaned one (this is
    what the code does; `host_preserved_across_reload` needs a holder throughout) -/
example : ((runSteps dinit [.load [0] pA [], .newReq true, .load [1] pA [], .load [0] pA []]).map fun d =>
    (d.s.inflight 0, poolObj d.s 0, d.s.inflight 2, sendingCount d.s 0)) = some (1, some 2, 0, 1) := by decide

/-- wave h — a handler that expects status 404 of its health endpoint: the first round (at
    Provision, the endpoint answers 200) marks the upstream down, a round after the endpoint was
    scripted to answer 404 brings it back; the step `probe` is an ordinary schedule step
    (`sched_reachable` covers it) -/
example : ((runSteps dinit [.load [0] { pA with aOn := true, aExpect := 404 } []]).map fun d => isDown d.s 0 0) = some true := by decide
example : ((runSteps dinit [.load [0] { pA with aOn := true, aExpect := 404 } [],
    .probe 0 { status := 404, body := upLit, needsHdr := false }, .round]).map fun d => (isDown d.s 0 0, d.s.fails 0)) =
    some (false, 0) := by decide

/-- …including the final quiescent state -/
theorem quiesce_state_reachable {d : DState} (h : Reachable d.s) : Reachable (quiesce d) := quiesce_reachable h

example : ((sstep dinit (.load [0, 1] pA [])).map fun x => (quiesce x.1).nextHost) = some 2 := by decide

end CaddyModel.C09
