/-
C09 — while a response is streamed (body copy, or an upgraded connection) the request stays in
the in-flight place: the strikes for the response header do not move it, and nothing but `finish`
can (`leaves_only_by_finish`).
-/
import CaddyModel.C09.FuelLemmas

namespace CaddyModel.C09

theorem isParked_iff {s : State} {r : Nat} : isParked s r = true ↔ ∃ q h, s.reqs[r]? = some q ∧ q.pc = .sending h := by
  simp only [isParked, pcOf]
  cases hq : s.reqs[r]? with
  | none => simp
  | some q =>
    cases hp : q.pc <;> simp [hp]

theorem spawn_strike_result {s s' : State} {r i : Nat} {q : Req} {h : HostId} (hq : s.reqs[r]? = some q)
    (hpc : q.pc = .strikeInc h) (hs : stepSpawn s r i = some s') :
    (∃ q', s'.reqs[r]? = some q' ∧ q'.pc = .sending h) ∧ s'.inflight = s.inflight := by
  unfold stepSpawn at hs
  split at hs
  next q2 e hq2 he =>
    rw [hq] at hq2; simp at hq2; subst hq2
    split at hs
    next h' hpc' =>
      rw [hpc] at hpc'; simp at hpc'; subst hpc'
      split at hs
      · simp at hs; subst hs
        exact ⟨⟨_, get_set_self hq, rfl⟩, rfl⟩
      · simp at hs
    next h' hpc' => rw [hpc] at hpc'; simp at hpc'
    next hne1 hne2 => exact absurd hpc (hne1 h)
  next => simp at hs

theorem strike_result {s s' : State} {r : Nat} {q : Req} {h : HostId} (hq : s.reqs[r]? = some q)
    (hpc : q.pc = .sending h) (hs : stepStrike s r = some s') :
    (∃ q', s'.reqs[r]? = some q' ∧ q'.pc = .strikeInc h) ∧ s'.inflight = s.inflight := by
  unfold stepStrike at hs
  rw [hq] at hs
  simp only [hpc] at hs
  split at hs
  · simp at hs; subst hs
    exact ⟨⟨_, get_set_self hq, rfl⟩, rfl⟩
  · simp at hs

/-- one status / latency strike with its `go` statement: back in `sending` on the same Host,
    in-flight counts untouched -/
theorem strike_spawn_parked {s s1 s2 : State} {r : Nat} (hp : isParked s r = true)
    (h1 : step s (.strike r) = some s1) (h2 : spawnLast s1 r = some s2) :
    isParked s2 r = true ∧ s2.inflight = s.inflight := by
  obtain ⟨q, h, hq, hpc⟩ := isParked_iff.mp hp
  obtain ⟨⟨q1, hq1, hpc1⟩, hi1⟩ := strike_result hq hpc h1
  have hsp : isSpawning s1 r = true := by simp [isSpawning, pcOf, hq1, hpc1]
  simp only [spawnLast, hsp, if_true] at h2
  obtain ⟨⟨q2, hq2, hpc2⟩, hi2⟩ := spawn_strike_result hq1 hpc1 h2
  exact ⟨isParked_iff.mpr ⟨q2, h, hq2, hpc2⟩, by rw [hi2, hi1]⟩

theorem strikesN_parked {s s' : State} {r n : Nat} (hp : isParked s r = true) (hs : strikesN s r n = some s') :
    isParked s' r = true ∧ s'.inflight = s.inflight := by
  induction n generalizing s with
  | zero => simp [strikesN] at hs; subst hs; exact ⟨hp, rfl⟩
  | succ n ih =>
    simp only [strikesN] at hs
    split at hs
    next s1 h1 =>
      split at hs
      next s2 h2 =>
        obtain ⟨hp2, hi2⟩ := strike_spawn_parked hp h1 h2
        obtain ⟨hp', hi'⟩ := ih hp2 hs
        exact ⟨hp', by rw [hi', hi2]⟩
      next => simp at hs
    next => simp at hs

end CaddyModel.C09
