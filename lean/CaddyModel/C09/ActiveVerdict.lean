/-
C09 — the verdict of one active health check (healthchecks.go doActiveHealthCheck 386-585).

The transition system's step `activeCheck c i pass` takes the result of a check as a Boolean.
This file is the code that computes it: the request must get an answer, the status must be the
expected one (`expect_status`, a code or a class) or — nothing expected — any 2xx, and the part
of the body that is read (`max_size`) must match `expect_body`.  The request carries the
configured `headers`; the scripted health endpoint of the correspondence may insist on one
(it answers 403 without it), which is how a header decides a verdict.

In the correspondence `expect_body` is the regular expression `^UP` (a literal prefix), so that
matching needs no regexp engine in the model.
-/
import CaddyModel.C09.Model

namespace CaddyModel.C09

/-- what the health endpoint of a backend answers -/
structure Probe where
  status   : Nat         -- the status it sends
  body     : List Nat    -- the body it sends (bytes)
  needsHdr : Bool        -- it answers 403 (same body) to a request without the header `X-Verif-Hc: yes`
  deriving DecidableEq, Repr

/-- "UP" -/
def upLit : List Nat := [85, 80]

def probeUp : Probe := { status := 200, body := upLit, needsHdr := false }
/-- "DOWN" -/
def probeDown : Probe := { status := 503, body := [68, 79, 87, 78], needsHdr := false }

/-- the status the checker sees: the endpoint's, or 403 if it insists on a header the handler's
    `headers` do not carry -/
def seenStatus (hdr : Bool) (pr : Probe) : Nat := if pr.needsHdr && !hdr then 403 else pr.status

/-- healthchecks.go:531-552 — `if ExpectStatus > 0 { !StatusCodeMatches → down } else if code < 200
    || code >= 300 → down` -/
def statusOk (expect code : Nat) : Bool :=
  if expect != 0 then statusCodeMatches code expect else decide (200 ≤ code) && decide (code < 300)

/-- healthchecks.go:520-523 — `io.LimitReader(body, MaxSize)` when max_size > 0 -/
def readBody (maxSize : Nat) (b : List Nat) : List Nat := if maxSize != 0 then b.take maxSize else b

/-- healthchecks.go:555-578 — with `expect_body` the part of the body that was read must match
    (here: start with "UP") -/
def bodyOk (re : Bool) (maxSize : Nat) (b : List Nat) : Bool := !re || upLit.isPrefixOf (readBody maxSize b)

/-- the result of one active health check: `true` = markHealthy, `false` = markUnhealthy -/
def verdict (p : Params) (reachable : Bool) (pr : Probe) : Bool :=
  reachable && statusOk p.aExpect (seenStatus p.aHdr pr) && bodyOk p.aBody p.aMax pr.body

end CaddyModel.C09
