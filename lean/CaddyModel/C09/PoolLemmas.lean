/-
C09 — the `hosts` usage pool across configuration loads: the invariant `PoolInv`
(usage count = number of loaded handlers holding the key; every holder points at the pool's Host
object) for all interleavings of LoadOrStore / cancel / Delete steps.  (Cleanup releases only what
the handler stored — fix d6561d4; the old Cleanup broke this invariant, see `Witness.lean`.)
-/
import CaddyModel.C09.Lemmas

namespace CaddyModel.C09

structure PoolInv (s : State) : Prop where
  refs_eq : ∀ k, refs s k = holders s k
  same_obj : ∀ cs ∈ s.cfgs, ∀ k o, (k, o) ∈ cs.ups → k ∈ cs.held → poolObj s k = some o
  ups_held : ∀ cs ∈ s.cfgs, cs.canceled = false → ∀ k o, (k, o) ∈ cs.ups → k ∈ cs.held

theorem poolInv_init : PoolInv init := by
  refine ⟨?_, ?_, ?_⟩ <;> simp [init, refs, holders, total]

theorem held_pos_of_mem {s : State} {cs : CfgSt} {k : Key} (hm : cs ∈ s.cfgs) (hk : k ∈ cs.held) : 0 < holders s k := by
  have h1 := le_total_of_mem (heldW k) s.cfgs cs hm
  have h2 : 0 < heldW k cs := by simp only [heldW]; exact List.count_pos_iff.mpr hk
  simp only [holders]; omega

theorem not_held_of_holders_zero {s : State} {cs : CfgSt} {k : Key} (hm : cs ∈ s.cfgs) (h0 : holders s k = 0) : k ∉ cs.held := by
  intro hk
  have := held_pos_of_mem hm hk
  omega

theorem poolInv_newCfg {s : State} (p : Params) (hi : PoolInv s) :
    PoolInv { s with cfgs := s.cfgs ++ [{ par := p, ups := [], held := [], canceled := false }] } := by
  refine ⟨?_, ?_, ?_⟩
  · intro k
    have := hi.refs_eq k
    simp only [refs, holders] at this ⊢
    rw [total_snoc]; simp [heldW]; exact this
  · intro cs hcs k o hu hh
    rcases List.mem_append.mp hcs with hm | hm
    · exact hi.same_obj cs hm k o hu hh
    · simp at hm; subst hm; simp at hu
  · intro cs hcs hc k o hu
    rcases List.mem_append.mp hcs with hm | hm
    · exact hi.ups_held cs hm hc k o hu
    · simp at hm; subst hm; simp at hu

theorem poolInv_cancel {s s' : State} {c} (hi : PoolInv s) (hs : stepCancel s c = some s') : PoolInv s' := by
  unfold stepCancel at hs
  split at hs
  next cs hcs =>
    simp at hs; obtain ⟨_, hs⟩ := hs; subst hs
    refine ⟨?_, ?_, ?_⟩
    · intro k
      have h1 := hi.refs_eq k
      have h2 := total_set (heldW k) s.cfgs c { cs with canceled := true } cs hcs
      simp only [refs, holders] at h1 ⊢
      simp [heldW] at h2 ⊢; omega
    · intro cs' hcs' k o hu hh
      rcases mem_set_cases hcs' with hm | hm
      · exact hi.same_obj cs' hm k o hu hh
      · subst hm; exact hi.same_obj cs (mem_of_get hcs) k o hu hh
    · intro cs' hcs' hc k o hu
      rcases mem_set_cases hcs' with hm | hm
      · exact hi.ups_held cs' hm hc k o hu
      · subst hm; simp at hc
  next => simp at hs

theorem poolInv_store {s s' : State} {c k} (hi : PoolInv s) (hs : stepStore s c k = some s') : PoolInv s' := by
  unfold stepStore at hs
  split at hs
  next cs hcs =>
    split at hs
    · simp at hs
    next hnc =>
      have hnc' : cs.canceled = false := by simpa using hnc
      split at hs
      next o n hp =>
        -- loaded: usage count + 1, same object
        simp at hs; subst hs
        have hobj : poolObj s k = some o := by simp [poolObj, hp]
        refine ⟨?_, ?_, ?_⟩
        · intro k'
          have h1 := hi.refs_eq k'
          have h2 := total_set (heldW k') s.cfgs c { cs with ups := cs.ups ++ [(k, o)], held := k :: cs.held } cs hcs
          simp only [refs, holders] at h1 ⊢
          by_cases hk : k' = k
          · subst hk; simp [heldW, hp] at h1 h2 ⊢; omega
          · have hb : (k == k') = false := by simpa using Ne.symm hk
            simp [heldW, upd_other _ _ _ _ hk, List.count_cons, hb] at h1 h2 ⊢; omega
        · intro cs' hcs' k2 o2 hu hh
          by_cases hk : k2 = k
          · subst hk
            have : poolObj s k2 = some o2 := by
              rcases mem_set_cases hcs' with hm | hm
              · have hin : cs' ∈ s.cfgs := hm
                by_cases hh' : k2 ∈ cs'.held
                · exact hi.same_obj cs' hin k2 o2 hu hh'
                · -- cs' holds k2 after the step but not before: impossible for an untouched element
                  exact hi.same_obj cs' hin k2 o2 hu hh
              · subst hm
                simp at hu
                rcases hu with hu | hu
                · exact hi.same_obj cs (mem_of_get hcs) k2 o2 hu (hi.ups_held cs (mem_of_get hcs) hnc' k2 o2 hu)
                · rw [hu]; exact hobj
            rw [hobj] at this
            simp at this; subst this
            simp [poolObj]
          · have hpo : poolObj { s with pool := upd s.pool k (some (o, n + 1)),
                                        cfgs := s.cfgs.set c { cs with ups := cs.ups ++ [(k, o)], held := k :: cs.held } } k2
                = poolObj s k2 := by simp [poolObj, upd_other _ _ _ _ hk]
            rw [hpo]
            rcases mem_set_cases hcs' with hm | hm
            · exact hi.same_obj cs' hm k2 o2 hu hh
            · subst hm
              simp [hk] at hu hh
              exact hi.same_obj cs (mem_of_get hcs) k2 o2 hu hh
        · intro cs' hcs' hc k2 o2 hu
          rcases mem_set_cases hcs' with hm | hm
          · exact hi.ups_held cs' hm hc k2 o2 hu
          · subst hm
            simp at hu ⊢
            rcases hu with hu | hu
            · right; exact hi.ups_held cs (mem_of_get hcs) hnc' k2 o2 hu
            · left; exact hu.1
      next hp =>
        -- stored: a new Host object, usage count 1
        simp at hs; subst hs
        have h0 : holders s k = 0 := by
          have := hi.refs_eq k
          simp [refs, hp] at this; omega
        refine ⟨?_, ?_, ?_⟩
        · intro k'
          have h1 := hi.refs_eq k'
          have h2 := total_set (heldW k') s.cfgs c { cs with ups := cs.ups ++ [(k, s.nextHost)], held := k :: cs.held } cs hcs
          simp only [refs, holders] at h1 ⊢
          by_cases hk : k' = k
          · subst hk; simp [heldW, hp] at h1 h2 ⊢; omega
          · have hb : (k == k') = false := by simpa using Ne.symm hk
            simp [heldW, upd_other _ _ _ _ hk, List.count_cons, hb] at h1 h2 ⊢; omega
        · intro cs' hcs' k2 o2 hu hh
          by_cases hk : k2 = k
          · subst hk
            rcases mem_set_cases hcs' with hm | hm
            · exact absurd hh (not_held_of_holders_zero hm h0)
            · subst hm
              simp at hu
              rcases hu with hu | hu
              · exact absurd (hi.ups_held cs (mem_of_get hcs) hnc' k2 o2 hu) (not_held_of_holders_zero (mem_of_get hcs) h0)
              · rw [hu]; simp [poolObj]
          · have hpo : poolObj { s with pool := upd s.pool k (some (s.nextHost, 1)), nextHost := s.nextHost + 1,
                                        cfgs := s.cfgs.set c { cs with ups := cs.ups ++ [(k, s.nextHost)], held := k :: cs.held } } k2
                = poolObj s k2 := by simp [poolObj, upd_other _ _ _ _ hk]
            rw [hpo]
            rcases mem_set_cases hcs' with hm | hm
            · exact hi.same_obj cs' hm k2 o2 hu hh
            · subst hm
              simp [hk] at hu hh
              exact hi.same_obj cs (mem_of_get hcs) k2 o2 hu hh
        · intro cs' hcs' hc k2 o2 hu
          rcases mem_set_cases hcs' with hm | hm
          · exact hi.ups_held cs' hm hc k2 o2 hu
          · subst hm
            simp at hu ⊢
            rcases hu with hu | hu
            · right; exact hi.ups_held cs (mem_of_get hcs) hnc' k2 o2 hu
            · left; exact hu.1
  next => simp at hs

theorem poolDelete_other (pool : Key → Option (HostId × Nat)) (k k' : Key) (h : k' ≠ k) :
    poolDelete pool k k' = pool k' := by
  unfold poolDelete
  cases hp : pool k with
  | none => simp
  | some v =>
    obtain ⟨o, n⟩ := v
    by_cases hn : n ≤ 1 <;> simp [hn, upd_other _ _ _ _ h]

theorem poolDelete_self_le (pool : Key → Option (HostId × Nat)) (k : Key) (o : HostId) (n : Nat)
    (hp : pool k = some (o, n)) (hn : n ≤ 1) : poolDelete pool k k = none := by
  unfold poolDelete; simp [hp, hn]

theorem poolDelete_self_gt (pool : Key → Option (HostId × Nat)) (k : Key) (o : HostId) (n : Nat)
    (hp : pool k = some (o, n)) (hn : ¬ n ≤ 1) : poolDelete pool k k = some (o, n - 1) := by
  unfold poolDelete; simp [hp, hn]

/-- Cleanup: a stored upstream is released, an upstream that was never stored is skipped -/
theorem poolInv_delete {s s' : State} {c k} (hi : PoolInv s) (hs : stepDelete s c k = some s') : PoolInv s' := by
  rw [stepDelete_spec] at hs
  split at hs
  next cs hcs =>
    split at hs
    next hcanc =>
     split at hs
     next hcont =>
      simp at hs; subst hs
      have hheld : k ∈ cs.held := by simpa using hcont
      have hpos := held_pos_of_mem (mem_of_get hcs) hheld
      have hr := hi.refs_eq k
      -- the pool has the key, with a positive usage count
      obtain ⟨o, n, hp, hn⟩ : ∃ o n, s.pool k = some (o, n) ∧ 0 < n := by
        cases hp : s.pool k with
        | none => simp [refs, hp] at hr; omega
        | some v => exact ⟨v.1, v.2, rfl, by simp [refs, hp] at hr; omega⟩
      have hrefs : ∀ k', refs { s with pool := poolDelete s.pool k,
                                       cfgs := s.cfgs.set c { cs with held := cs.held.erase k } } k'
          = holders { s with pool := poolDelete s.pool k,
                             cfgs := s.cfgs.set c { cs with held := cs.held.erase k } } k' := by
        intro k'
        have h1 := hi.refs_eq k'
        have h2 := total_set (heldW k') s.cfgs c { cs with held := cs.held.erase k } cs hcs
        simp only [refs, holders] at h1 ⊢
        by_cases hk : k' = k
        · subst hk
          have hc : 0 < cs.held.count k' := List.count_pos_iff.mpr hheld
          by_cases hn1 : n ≤ 1
          · simp [heldW, poolDelete, hp, hn1, List.count_erase_self] at h1 h2 ⊢; omega
          · simp [heldW, poolDelete, hp, hn1, List.count_erase_self] at h1 h2 ⊢; omega
        · simp [heldW, poolDelete_other _ _ _ hk, List.count_erase_of_ne hk] at h1 h2 ⊢; omega
      refine ⟨hrefs, ?_, ?_⟩
      · intro cs' hcs' k2 o2 hu hh
        -- cs' (in the new list) holds k2, hence the new usage count of k2 is positive
        have hpos' := held_pos_of_mem hcs' hh
        have hold : (k2, o2) ∈ cs'.ups → ∃ cs0 ∈ s.cfgs, (k2, o2) ∈ cs0.ups ∧ k2 ∈ cs0.held := by
          intro hu
          rcases mem_set_cases hcs' with hm' | hm'
          · exact ⟨cs', hm', hu, hh⟩
          · subst hm'
            exact ⟨cs, mem_of_get hcs, hu, List.mem_of_mem_erase hh⟩
        obtain ⟨cs0, hcs0, hu0, hh0⟩ := hold hu
        have hobj := hi.same_obj cs0 hcs0 k2 o2 hu0 hh0
        by_cases hk : k2 = k
        · subst hk
          have hr' := hrefs k2
          simp [poolObj, hp] at hobj; subst hobj
          by_cases hn1 : n ≤ 1
          · simp only [refs, poolDelete_self_le _ _ _ _ hp hn1] at hr'; omega
          · simp only [poolObj, poolDelete_self_gt _ _ _ _ hp hn1]; rfl
        · simp only [poolObj, poolDelete_other _ _ _ hk] at hobj ⊢; exact hobj
      · intro cs' hcs' hc k2 o2 hu
        rcases mem_set_cases hcs' with hm' | hm'
        · exact hi.ups_held cs' hm' hc k2 o2 hu
        · subst hm'; simp [hcanc] at hc
     next => simp at hs; subst hs; exact hi
    next => simp at hs
  next => simp at hs

/-- the four actions that touch configurations or the `hosts` pool -/
def Action.isCfg : Action → Bool
  | .newCfg _ => true
  | .store _ _ => true
  | .cancel _ => true
  | .delete _ _ => true
  | .newIter _ => true
  | _ => false

macro "keep_pool" h:ident : tactic =>
  `(tactic| ((repeat' (split at $h:ident)) <;> (simp at $h:ident) <;>
      (first | (subst $h:ident) | (obtain ⟨_, $h:ident⟩ := $h:ident; subst $h:ident)) <;> (exact ⟨rfl, rfl⟩)))

/-- actions that are neither a configuration nor a pool step leave both untouched -/
theorem step_keeps_pool {s s' : State} (a : Action) (hna : a.isCfg = false) (hs : step s a = some s') :
    s'.cfgs = s.cfgs ∧ s'.pool = s.pool := by
  cases a with
  | newCfg p => simp [Action.isCfg] at hna
  | store c k => simp [Action.isCfg] at hna
  | cancel c => simp [Action.isCfg] at hna
  | delete c k => simp [Action.isCfg] at hna
  | newIter r => simp [Action.isCfg] at hna
  | newReq c get => simp only [step, stepNewReq] at hs; keep_pool hs
  | dispatch r h => simp only [step, stepDispatch] at hs; keep_pool hs
  | noUpstream r => simp only [step, stepNoUpstream] at hs; keep_pool hs
  | strike r => simp only [step, stepStrike] at hs; keep_pool hs
  | spawn r i => simp only [step, stepSpawn] at hs; keep_pool hs
  | finish r out => simp only [step, stepFinish] at hs; keep_pool hs
  | after r => simp only [step, stepAfter] at hs; keep_pool hs
  | forget i => simp only [step, stepForget] at hs; keep_pool hs
  | fallback r => simp only [step, stepFallback] at hs; keep_pool hs
  | dialInfoFails r => simp only [step, stepDialInfoFails] at hs; keep_pool hs
  | activeCheck c i pass => obtain ⟨_, _, _, _, _, h6, h7, _⟩ := stepActive_core hs; exact ⟨h6, h7⟩
  | tick => simp [step] at hs; subst hs; exact ⟨rfl, rfl⟩

theorem poolInv_of_same {s s' : State} (hi : PoolInv s) (h : s'.cfgs = s.cfgs ∧ s'.pool = s.pool) : PoolInv s' := by
  obtain ⟨hc, hp⟩ := h
  refine ⟨?_, ?_, ?_⟩
  · intro k; simp only [refs, holders, hc, hp]; exact hi.refs_eq k
  · intro cs hcs k o hu hh
    rw [hc] at hcs
    simp only [poolObj, hp]; exact hi.same_obj cs hcs k o hu hh
  · intro cs hcs; rw [hc] at hcs; exact hi.ups_held cs hcs

/-- a new loop iteration is a new holder that holds nothing yet -/
theorem poolInv_newIter {s s' : State} {r} (hi : PoolInv s) (hs : stepNewIter s r = some s') : PoolInv s' := by
  unfold stepNewIter at hs
  split at hs
  next q hq =>
    split at hs
    next hpc =>
      split at hs
      · simp at hs; subst hs
        refine ⟨?_, ?_, ?_⟩
        · intro k
          have := hi.refs_eq k
          simp only [refs, holders] at this ⊢
          rw [total_snoc]; simp [heldW]; exact this
        · intro cs hcs k o hu hh
          rcases List.mem_append.mp hcs with hm | hm
          · exact hi.same_obj cs hm k o hu hh
          · simp at hm; subst hm; simp at hu
        · intro cs hcs hc k o hu
          rcases List.mem_append.mp hcs with hm | hm
          · exact hi.ups_held cs hm hc k o hu
          · simp at hm; subst hm; simp at hu
      · simp at hs
    all_goals simp at hs
  next => simp at hs

theorem poolInv_step {s s' : State} (a : Action) (hi : PoolInv s) (hs : step s a = some s') : PoolInv s' := by
  cases a with
  | newCfg p => simp [step] at hs; subst hs; exact poolInv_newCfg p hi
  | store c k => exact poolInv_store hi hs
  | cancel c => exact poolInv_cancel hi hs
  | delete c k => exact poolInv_delete hi hs
  | newIter r => exact poolInv_newIter hi hs
  | newReq c get => exact poolInv_of_same hi (step_keeps_pool _ rfl hs)
  | dispatch r h => exact poolInv_of_same hi (step_keeps_pool _ rfl hs)
  | noUpstream r => exact poolInv_of_same hi (step_keeps_pool _ rfl hs)
  | strike r => exact poolInv_of_same hi (step_keeps_pool _ rfl hs)
  | spawn r i => exact poolInv_of_same hi (step_keeps_pool _ rfl hs)
  | finish r out => exact poolInv_of_same hi (step_keeps_pool _ rfl hs)
  | after r => exact poolInv_of_same hi (step_keeps_pool _ rfl hs)
  | forget i => exact poolInv_of_same hi (step_keeps_pool _ rfl hs)
  | fallback r => exact poolInv_of_same hi (step_keeps_pool _ rfl hs)
  | dialInfoFails r => exact poolInv_of_same hi (step_keeps_pool _ rfl hs)
  | activeCheck c i pass => exact poolInv_of_same hi (step_keeps_pool _ rfl hs)
  | tick => exact poolInv_of_same hi (step_keeps_pool _ rfl hs)

theorem poolInv_reachable {s : State} (h : Reachable s) : PoolInv s := by
  induction h with
  | init => exact poolInv_init
  | step a _ hs ih => exact poolInv_step a ih hs

/-- how one step can change the pool -/
theorem step_pool_cases {s s' : State} {a : Action} (hs : step s a = some s') :
    s'.pool = s.pool ∨
    (∃ c k o n, a = .store c k ∧ s.pool k = some (o, n) ∧ s'.pool = upd s.pool k (some (o, n + 1))) ∨
    (∃ c k, a = .store c k ∧ s.pool k = none ∧ s'.pool = upd s.pool k (some (s.nextHost, 1))) ∨
    (∃ c k, a = .delete c k ∧ s'.pool = poolDelete s.pool k) := by
  by_cases hc : a.isCfg = false
  · exact Or.inl (step_keeps_pool a hc hs).2
  · cases a with
    | newCfg p => simp [step] at hs; subst hs; exact Or.inl rfl
    | cancel c =>
      simp only [step, stepCancel] at hs
      split at hs <;> simp at hs
      obtain ⟨_, hs⟩ := hs; subst hs; exact Or.inl rfl
    | newIter r =>
      simp only [step, stepNewIter] at hs
      split at hs <;> try (simp at hs)
      split at hs <;> try (simp at hs)
      obtain ⟨_, hs⟩ := hs; subst hs; exact Or.inl rfl
    | store c k =>
      simp only [step, stepStore] at hs
      split at hs
      next cs hcs =>
        split at hs
        · simp at hs
        · split at hs
          next o n hp => simp at hs; subst hs; exact Or.inr (Or.inl ⟨c, k, o, n, rfl, hp, rfl⟩)
          next hp => simp at hs; subst hs; exact Or.inr (Or.inr (Or.inl ⟨c, k, rfl, hp, rfl⟩))
      next => simp at hs
    | delete c k =>
      simp only [step, stepDelete_spec] at hs
      split at hs
      next cs hcs =>
        split at hs
        · split at hs
          · simp at hs; subst hs; exact Or.inr (Or.inr (Or.inr ⟨c, k, rfl, rfl⟩))
          · simp at hs; subst hs; exact Or.inl rfl
        · simp at hs
      next => simp at hs
    | _ => simp [Action.isCfg] at hc

theorem host_preserved_step {s s' : State} {a : Action} (hi : PoolInv s) (hi' : PoolInv s')
    (hs : step s a = some s') (k : Key) (hb : 0 < holders s k) (ha : 0 < holders s' k) :
    ∃ o, poolObj s k = some o ∧ poolObj s' k = some o ∧ 0 < refs s' k := by
  have hr := hi.refs_eq k
  have hr' := hi'.refs_eq k
  obtain ⟨o, n, hp, hn⟩ : ∃ o n, s.pool k = some (o, n) ∧ 0 < n := by
    cases hp : s.pool k with
    | none => simp [refs, hp] at hr; omega
    | some v => exact ⟨v.1, v.2, rfl, by simp [refs, hp] at hr; omega⟩
  refine ⟨o, by simp [poolObj, hp], ?_, by omega⟩
  rcases step_pool_cases hs with h | ⟨c, k2, o2, n2, _, hp2, h⟩ | ⟨c, k2, _, hp2, h⟩ | ⟨c, k2, _, h⟩
  · simp [poolObj, h, hp]
  · by_cases hk : k = k2
    · subst hk; rw [hp] at hp2; simp at hp2; simp [poolObj, h, hp2.1]
    · simp [poolObj, h, upd_other _ _ _ _ hk, hp]
  · by_cases hk : k = k2
    · subst hk; rw [hp] at hp2; simp at hp2
    · simp [poolObj, h, upd_other _ _ _ _ hk, hp]
  · by_cases hk : k = k2
    · subst hk
      by_cases hn1 : n ≤ 1
      · simp only [refs, h, poolDelete_self_le _ _ _ _ hp hn1] at hr'; omega
      · simp [poolObj, h, poolDelete_self_gt _ _ _ _ hp hn1]
    · simp [poolObj, h, poolDelete_other _ _ _ hk, hp]

/-- every pool entry has a positive usage count (LoadOrStore starts at 1, Delete removes at 0) -/
def PoolPos (s : State) : Prop := ∀ k o n, s.pool k = some (o, n) → 0 < n

theorem poolPos_step {s s' : State} {a : Action} (hi : PoolPos s) (hs : step s a = some s') : PoolPos s' := by
  intro k' o' n' hp'
  rcases step_pool_cases hs with h | ⟨c, k, o, n, _, hp, h⟩ | ⟨c, k, _, hp, h⟩ | ⟨c, k, _, h⟩
  · rw [h] at hp'; exact hi k' o' n' hp'
  · rw [h] at hp'
    by_cases hk : k' = k
    · subst hk; simp at hp'; omega
    · rw [upd_other _ _ _ _ hk] at hp'; exact hi k' o' n' hp'
  · rw [h] at hp'
    by_cases hk : k' = k
    · subst hk; simp at hp'; omega
    · rw [upd_other _ _ _ _ hk] at hp'; exact hi k' o' n' hp'
  · rw [h] at hp'
    by_cases hk : k' = k
    · subst hk
      cases hp : s.pool k' with
      | none => simp [poolDelete, hp] at hp'
      | some v =>
        obtain ⟨o, n⟩ := v
        by_cases hn : n ≤ 1
        · rw [poolDelete_self_le _ _ _ _ hp hn] at hp'; simp at hp'
        · rw [poolDelete_self_gt _ _ _ _ hp hn] at hp'; simp at hp'; omega
    · rw [poolDelete_other _ _ _ hk] at hp'; exact hi k' o' n' hp'

theorem poolPos_reachable {s : State} (h : Reachable s) : PoolPos s := by
  induction h with
  | init => intro k o n hp; simp [init] at hp
  | step a _ hs ih => exact poolPos_step ih hs

end CaddyModel.C09
