import CaddyModel.Util.DrvMain
import CaddyModel.C09.Driver

def main (args : List String) : IO Unit :=
  CaddyModel.drvMain "C09" CaddyModel.C09.handle CaddyModel.C09.witnessLines args
