/-
C16 — import-argument placeholders `{args[N]}` / `{args.N}` (caddyfile/importargs.go
`makeArgsReplacer`): the index text is whatever `args\[(.+)]` / `args\.(.+)` captured,
`strconv.Atoi` turns it into an int (optional sign, decimal digits, int64 range), and
`args[value]` is a Go slice access — a `panic` outcome here when the index is outside the
slice.  Since 9ba7071 a negative value is "out of bounds" like a too large one (`lookup`);
before, only `value >= len(args)` was tested (`lookupOld`).
-/
import CaddyModel.Util.Hex

namespace CaddyModel.C16

inductive ArgRes where
  /-- replaced by that argument -/
  | val (a : Bytes)
  /-- not replaced (not an args placeholder / invalid index / out of bounds): left as written -/
  | kept
  /-- Go runtime panic: index out of range -/
  | panic
  deriving DecidableEq, Repr

def isDigit (b : UInt8) : Bool := 48 ≤ b && b ≤ 57

def digitsVal : Nat → Bytes → Nat
  | acc, [] => acc
  | acc, b :: bs => digitsVal (acc * 10 + (b.toNat - 48)) bs

/-- `strconv.Atoi` (64-bit int): `none` = syntax or range error -/
def atoi (s : Bytes) : Option Int :=
  match s with
  | [] => none
  | 45 :: ds =>   -- '-'
    if !ds.isEmpty && ds.all isDigit then
      (if digitsVal 0 ds ≤ 9223372036854775808 then some (-(digitsVal 0 ds : Int)) else none)
    else none
  | 43 :: ds =>   -- '+'
    if !ds.isEmpty && ds.all isDigit then
      (if digitsVal 0 ds ≤ 9223372036854775807 then some (digitsVal 0 ds : Int) else none)
    else none
  | ds =>
    if ds.all isDigit then
      (if digitsVal 0 ds ≤ 9223372036854775807 then some (digitsVal 0 ds : Int) else none)
    else none

/-- `args[value]` -/
def sliceAt (args : List Bytes) (v : Int) : ArgRes :=
  if v < 0 then .panic
  else match args[v.toNat]? with
    | some a => .val a
    | none => .panic

/-- the `{args[N]}` branch as it is; `bracket = false`: the deprecated `{args.N}` branch
(no test for a `:` there) -/
def lookup (bracket : Bool) (idx : Bytes) (args : List Bytes) : ArgRes :=
  if idx.isEmpty then .kept                       -- `(.+)` needs one character
  else if bracket && idx.contains 58 then .kept   -- "variadic placeholder must be a token on its own"
  else match atoi idx with
    | none => .kept                               -- "has an invalid index"
    | some v =>
      if v < 0 || v ≥ (args.length : Int) then .kept   -- "index is out of bounds"
      else sliceAt args v

/-- before 9ba7071: only `value >= len(args)` was tested -/
def lookupOld (bracket : Bool) (idx : Bytes) (args : List Bytes) : ArgRes :=
  if idx.isEmpty then .kept
  else if bracket && idx.contains 58 then .kept
  else match atoi idx with
    | none => .kept
    | some v =>
      if v ≥ (args.length : Int) then .kept
      else sliceAt args v

end CaddyModel.C16
