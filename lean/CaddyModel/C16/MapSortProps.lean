/-
C16 — determinism of "collect from a map, then sort" (`MapSort.lean`).

* `sortByKey_perm_invariant`: if the sort key is INJECTIVE on the collected entries and compared
  by a strict total order, every permutation of the entries (every map iteration order) sorts to
  the same list — full strength: any entry type, any key type, any number of entries;
* `sortByKey_noninjective_fails`: with a key that two entries share, two iteration orders give
  two different outputs;
* `copyHeaderRoutes_iteration_independent`: forward_auth's copy routes do not depend on the
  order in which `headersToCopy` is ranged over (its keys, the spellings as written, are distinct);
  `copyHeaderRoutesCanon_depends_on_iteration`: sorting by the canonical name does.
-/
import CaddyModel.C16.MapSort
import CaddyModel.C16.Lemmas

namespace CaddyModel.C16

structure StrictTotal {κ : Type} (lt : κ → κ → Bool) : Prop where
  irrefl : ∀ a, lt a a = false
  trans : ∀ a b c, lt a b = true → lt b c = true → lt a c = true
  total : ∀ a b, lt a b = true ∨ a = b ∨ lt b a = true

section
variable {α κ : Type} (lt : κ → κ → Bool) (key : α → κ)

/-- head-to-tail strictly descending keys (the reversed sorted prefix) -/
def DescK (l : List α) : Prop := l.Pairwise (fun y z => lt (key z) (key y) = true)

theorem insR_descK (st : StrictTotal lt) (x : α) :
    ∀ (acc : List α), DescK lt key acc → (∀ z ∈ acc, key z ≠ key x) →
      DescK lt key (insR (fun a b => lt (key a) (key b)) x acc)
  | [], _, _ => by simp [insR, DescK]
  | y :: ys, hd, hne => by
    have hd' := List.pairwise_cons.1 hd
    simp only [insR]
    split
    · rename_i hxy
      refine List.pairwise_cons.2 ⟨?_, insR_descK st x ys hd'.2 (fun z hz => hne z (by simp [hz]))⟩
      intro z hz
      rcases (mem_insR _ x z ys).1 hz with e | e
      · subst e; exact hxy
      · exact hd'.1 z e
    · rename_i hxy
      have hyx : lt (key y) (key x) = true := by
        rcases st.total (key x) (key y) with h | h | h
        · exact absurd h hxy
        · exact absurd h.symm (hne y (by simp))
        · exact h
      refine List.pairwise_cons.2 ⟨?_, hd⟩
      intro z hz
      rcases List.mem_cons.1 hz with e | e
      · subst e; exact hyx
      · exact st.trans _ _ _ (hd'.1 z e) hyx

theorem foldl_insR_descK (st : StrictTotal lt) :
    ∀ (l acc : List α), DescK lt key acc → ((l ++ acc).map key).Nodup →
      DescK lt key (l.foldl (fun a x => insR (fun a b => lt (key a) (key b)) x a) acc)
  | [], acc, hd, _ => hd
  | x :: xs, acc, hd, hn => by
    simp only [List.foldl_cons]
    have hn' : (key x :: (xs ++ acc).map key).Nodup := by simpa using hn
    have hx := (List.nodup_cons.1 hn').1
    apply foldl_insR_descK st xs _ (insR_descK lt key st x acc hd ?_) ?_
    · intro z hz e
      exact hx (List.mem_map.2 ⟨z, by simp [hz], e⟩)
    · have hp : (xs ++ insR (fun a b => lt (key a) (key b)) x acc).Perm (x :: (xs ++ acc)) :=
        (List.Perm.append_left xs (insR_perm _ x acc)).trans (by simp)
      exact ((hp.map key).nodup_iff).2 (by simpa using hn')

/-- the sorted result is strictly ascending -/
theorem sortByKey_ascending (st : StrictTotal lt) (l : List α) (hn : (l.map key).Nodup) :
    (sortByKey lt key l).Pairwise (fun a b => lt (key a) (key b) = true) := by
  unfold sortByKey insertionSort isortR
  rw [List.pairwise_reverse]
  exact foldl_insR_descK lt key st l [] List.Pairwise.nil (by simpa using hn)

/-- two strictly ascending lists with the same elements are equal -/
theorem ascending_perm_unique (st : StrictTotal lt) :
    ∀ (a b : List α), a.Pairwise (fun x y => lt (key x) (key y) = true) →
      b.Pairwise (fun x y => lt (key x) (key y) = true) → a.Perm b → a = b
  | [], b, _, _, hp => (List.Perm.nil_eq hp)
  | x :: xs, [], _, _, hp => by simpa using hp.length_eq
  | x :: xs, y :: ys, ha, hb, hp => by
    have ha' := List.pairwise_cons.1 ha
    have hb' := List.pairwise_cons.1 hb
    have hxy : x = y := by
      by_cases e : x = y
      · exact e
      · exfalso
        have hx : x ∈ ys := by
          have : x ∈ y :: ys := hp.subset (by simp)
          rcases List.mem_cons.1 this with h | h
          · exact absurd h e
          · exact h
        have hy : y ∈ xs := by
          have : y ∈ x :: xs := hp.symm.subset (by simp)
          rcases List.mem_cons.1 this with h | h
          · exact absurd h.symm e
          · exact h
        have h1 := hb'.1 x hx
        have h2 := ha'.1 y hy
        have := st.trans _ _ _ h1 h2
        rw [st.irrefl] at this
        exact Bool.false_ne_true this
    subst hxy
    congr 1
    exact ascending_perm_unique st xs ys ha'.2 hb'.2 (List.Perm.cons_inv hp)

/-- FULL STRENGTH: whatever order the map was ranged over in, the sorted slice is the same —
provided the sort key tells all collected entries apart -/
theorem sortByKey_perm_invariant (st : StrictTotal lt) (l l' : List α)
    (hp : l.Perm l') (hn : (l.map key).Nodup) : sortByKey lt key l = sortByKey lt key l' := by
  have hn' : (l'.map key).Nodup := ((hp.map key).nodup_iff).1 hn
  apply ascending_perm_unique lt key st _ _ (sortByKey_ascending lt key st l hn) (sortByKey_ascending lt key st l' hn')
  unfold sortByKey
  exact (insertionSort_perm' _ l).trans (hp.trans (insertionSort_perm' _ l').symm)

end

/-- byte-wise string comparison is a strict total order -/
theorem stringLt_strictTotal : StrictTotal (fun (a b : String) => decide (a < b)) where
  irrefl := fun a => by simp [String.lt_irrefl]
  trans := fun a b c h1 h2 => by
    have h1' : a < b := by simpa using h1
    have h2' : b < c := by simpa using h2
    simpa using String.lt_trans h1' h2'
  total := fun a b => by
    by_cases h : a < b
    · exact Or.inl (by simpa using h)
    · by_cases h2 : b < a
      · exact Or.inr (Or.inr (by simpa using h2))
      · exact Or.inr (Or.inl (String.le_antisymm (String.not_lt.1 h2) (String.not_lt.1 h)))

/-- NON-VACUITY of the injectivity hypothesis: two entries that share the sort key come out in
the order they were collected in -/
theorem sortByKey_noninjective_fails :
    ∃ (l l' : List (String × Nat)), l.Perm l' ∧
      sortByKey (fun (a b : String) => decide (a < b)) (·.1) l ≠ sortByKey (fun (a b : String) => decide (a < b)) (·.1) l' :=
  ⟨[("k", 1), ("k", 2)], [("k", 2), ("k", 1)], List.Perm.swap _ _ _, by decide⟩

/-! ### forward_auth copy_headers -/

/-- the copy routes do not depend on the order in which `headersToCopy` is ranged over -/
theorem copyHeaderRoutes_iteration_independent (iter iter' : List (String × String))
    (hp : iter.Perm iter') (hn : (iter.map (·.1)).Nodup) :
    copyHeaderRoutes iter = copyHeaderRoutes iter' := by
  unfold copyHeaderRoutes
  rw [sortByKey_perm_invariant _ _ stringLt_strictTotal iter iter' hp hn]

/-- the entries of `headersToCopy` have pairwise distinct keys (it is a map) -/
theorem setEntry_keys_nodup : ∀ (m : List (String × String)) (k v : String),
    (m.map (·.1)).Nodup → ((setEntry m k v).map (·.1)).Nodup ∧
      ∀ x, x ∈ (setEntry m k v).map (·.1) ↔ x = k ∨ x ∈ m.map (·.1)
  | [], k, v, _ => by simp [setEntry]
  | (k', v') :: rest, k, v, h => by
    have h' : k' ∉ rest.map (·.1) ∧ (rest.map (·.1)).Nodup :=
      List.nodup_cons.1 (show (k' :: rest.map (·.1)).Nodup from h)
    by_cases e : k' = k
    · subst e
      have hs : setEntry ((k', v') :: rest) k' v = (k', v) :: rest := by simp [setEntry]
      rw [hs]
      refine ⟨show (k' :: rest.map (·.1)).Nodup from h, fun x => ?_⟩
      show x ∈ k' :: rest.map (·.1) ↔ x = k' ∨ x ∈ k' :: rest.map (·.1)
      constructor
      · intro hh; exact Or.inr hh
      · rintro (hh | hh)
        · exact List.mem_cons.2 (Or.inl hh)
        · exact hh
    · obtain ⟨i1, i2⟩ := setEntry_keys_nodup rest k v h'.2
      have hb : (k' == k) = false := by simpa using e
      have hs : setEntry ((k', v') :: rest) k v = (k', v') :: setEntry rest k v := by simp [setEntry, hb]
      rw [hs]
      refine ⟨show (k' :: (setEntry rest k v).map (·.1)).Nodup from List.nodup_cons.2 ⟨?_, i1⟩, fun x => ?_⟩
      · intro hm
        rcases (i2 k').1 hm with h1 | h1
        · exact e h1
        · exact h'.1 h1
      · show x ∈ k' :: (setEntry rest k v).map (·.1) ↔ x = k ∨ x ∈ k' :: rest.map (·.1)
        constructor
        · intro hh
          rcases List.mem_cons.1 hh with h1 | h1
          · exact Or.inr (List.mem_cons.2 (Or.inl h1))
          · rcases (i2 x).1 h1 with h2 | h2
            · exact Or.inl h2
            · exact Or.inr (List.mem_cons.2 (Or.inr h2))
        · rintro (hh | hh)
          · exact List.mem_cons.2 (Or.inr ((i2 x).2 (Or.inl hh)))
          · rcases List.mem_cons.1 hh with h1 | h1
            · exact List.mem_cons.2 (Or.inl h1)
            · exact List.mem_cons.2 (Or.inr ((i2 x).2 (Or.inr h1)))

theorem headersToCopy_keys_nodup (args : List (String × String)) :
    ((headersToCopy args).map (·.1)).Nodup := by
  unfold headersToCopy
  suffices ∀ (l : List (String × String)) (m : List (String × String)), (m.map (·.1)).Nodup →
      ((l.foldl (fun m kv => setEntry m kv.1 kv.2) m).map (·.1)).Nodup from this args [] (by simp)
  intro l
  induction l with
  | nil => intro m h; exact h
  | cons kv rest ih => intro m h; exact ih _ (setEntry_keys_nodup m kv.1 kv.2 h).1

/-- THE CLAUSE for this directive: the same `copy_headers` arguments give the same routes under
every iteration order of the map -/
theorem copy_headers_deterministic (args : List (String × String)) (iter : List (String × String))
    (hp : (headersToCopy args).Perm iter) :
    copyHeaderRoutes iter = copyHeaderRoutes (headersToCopy args) :=
  (copyHeaderRoutes_iteration_independent _ _ hp (headersToCopy_keys_nodup args)).symm

example : copyHeaderRoutes [("remote-user", "X-Webauth-User"), ("Remote-User", "Remote-User")]
    = [("Remote-User", "Remote-User"), ("X-Webauth-User", "Remote-User")] := by decide
example : canonicalHeaderKey "x-wEBauth-user" = "X-Webauth-User" ∧ canonicalHeaderKey "a b" = "a b" := by decide

/-- NON-VACUITY: sorting by the canonical source name depends on the iteration order as soon as
two spellings of one header are copied -/
theorem copyHeaderRoutesCanon_depends_on_iteration :
    ∃ (iter iter' : List (String × String)), iter.Perm iter' ∧ (iter.map (·.1)).Nodup ∧
      copyHeaderRoutesCanon iter ≠ copyHeaderRoutesCanon iter' :=
  ⟨[("Remote-User", "Remote-User"), ("remote-user", "X-Webauth-User")],
   [("remote-user", "X-Webauth-User"), ("Remote-User", "Remote-User")],
   List.Perm.swap _ _ _, by decide, by decide⟩

end CaddyModel.C16
