/-
PROPOSAL — NOT THE CODE AS IT IS.  This file models / proves facts about a CANDIDATE repair of
`sortRoutes` (/verif/.run/fixes/C16-sortroutes.patch: precomputed per-route keys compared as a
strict total order) that was reviewed and NOT applied, because it changes the route order of
existing configs with 20 or fewer routes.  It is not imported by the driver, Props or Audit and
is not part of what `./check C16` builds; it is kept as a worked-out option should upstream
want a comparator that is a strict weak order.  The tree's `sortRoutes` is `Model.lean` +
`Stable.lean`; its over-20-routes defect stays a known finding (`Witness.lean`).
-/
/-
C16 — theorems about the key-based `sortRoutes` (`Keyed.lean`).

* `lessWithin_*`, `lessKey_*`: the comparison handed to `sort.SliceStable` is a strict total
  order on the keyed routes of a block (irreflexive, asymmetric, transitive, total up to equal
  keys) — so ANY correct sorting algorithm returns the same, unique, arrangement; the former
  comparator was not a strict weak order (`Witness.sameDirLess_not_strict_weak_order`), which
  is what made the result depend on how `sort.SliceStable` merges blocks above 20 routes
  (`Witness.sort_cross_kind_invariant_full_fails`).
* `keyed_filter_dir`: the key of a route depends only on the routes of its own directive.
* `sortKeyed_reorder_invariant`: reordering directives of different kinds does not change the
  sorted result (unconditional where `sort.SliceStable` is one insertion sort; above that the
  statement rests on `sort.SliceStable` sorting correctly under a strict total order, which is
  checked by the correspondence stream up to 64 routes and listed in the trusted base).
-/
import CaddyModel.C16.ProposalKeyed
import CaddyModel.C16.Spec
import CaddyModel.C16.Lemmas

namespace CaddyModel.C16

/-! ### the comparison is a strict total order -/

theorem lessWithin_iff (a b : SortKey) :
    lessWithin a b = true ↔
      a.slot < b.slot ∨ (a.slot = b.slot ∧ (a.score > b.score ∨ (a.score = b.score ∧ a.seq < b.seq))) := by
  unfold lessWithin
  by_cases h1 : a.slot = b.slot
  · by_cases h2 : a.score = b.score
    · simp [h1, h2]
    · simp [h1, h2]
  · simp [h1]

theorem lessWithin_irrefl (a : SortKey) : lessWithin a a = false := by simp [lessWithin]

theorem lessWithin_asymm (a b : SortKey) (h : lessWithin a b = true) : lessWithin b a = false := by
  have h' := (lessWithin_iff a b).1 h
  cases hb : lessWithin b a with
  | false => rfl
  | true =>
    have := (lessWithin_iff b a).1 hb
    omega

theorem lessWithin_trans (a b c : SortKey) (h1 : lessWithin a b = true) (h2 : lessWithin b c = true) :
    lessWithin a c = true := by
  have h1' := (lessWithin_iff a b).1 h1
  have h2' := (lessWithin_iff b c).1 h2
  apply (lessWithin_iff a c).2
  omega

/-- two keys are ordered one way or the other unless slot, score and seq all agree -/
theorem lessWithin_total (a b : SortKey) :
    lessWithin a b = true ∨ lessWithin b a = true ∨ (a.slot = b.slot ∧ a.score = b.score ∧ a.seq = b.seq) := by
  rw [lessWithin_iff, lessWithin_iff]
  omega

/-- the `vars` reversal is decided consistently for two routes at the same position (true for
routes that passed `buildSubroute`'s guard: same position = same directive) -/
def VarsConsistent (a b : RouteVal × SortKey) : Prop :=
  a.2.dirPos = b.2.dirPos → (a.1.dir == "vars") = (b.1.dir == "vars")

theorem lessKey_irrefl (a : RouteVal × SortKey) : lessKey a a = false := by
  simp [lessKey, lessWithin_irrefl]

theorem lessKey_asymm (a b : RouteVal × SortKey) (hv : VarsConsistent a b)
    (h : lessKey a b = true) : lessKey b a = false := by
  unfold lessKey at *
  by_cases e : a.2.dirPos = b.2.dirPos
  · have hv' := hv e
    by_cases va : (a.1.dir == "vars") = true
    · have vb : (b.1.dir == "vars") = true := by rw [← hv']; exact va
      simp_all [lessWithin_asymm]
    · have va' : (a.1.dir == "vars") = false := by simpa using va
      have vb : (b.1.dir == "vars") = false := by rw [← hv']; exact va'
      simp_all
      exact lessWithin_asymm _ _ h
  · have e' : ¬ b.2.dirPos = a.2.dirPos := fun x => e x.symm
    simp_all
    omega

theorem lessKey_total (a b : RouteVal × SortKey) (hv : VarsConsistent a b) :
    lessKey a b = true ∨ lessKey b a = true ∨
      (a.2.dirPos = b.2.dirPos ∧ a.2.slot = b.2.slot ∧ a.2.score = b.2.score ∧ a.2.seq = b.2.seq) := by
  unfold lessKey
  by_cases e : a.2.dirPos = b.2.dirPos
  · have hv' := hv e
    by_cases va : (a.1.dir == "vars") = true
    · have vb : (b.1.dir == "vars") = true := by rw [← hv']; exact va
      rcases lessWithin_total a.2 b.2 with h | h | h
      · simp_all
      · simp_all
      · simp_all
    · have va' : (a.1.dir == "vars") = false := by simpa using va
      have vb : (b.1.dir == "vars") = false := by rw [← hv']; exact va'
      rcases lessWithin_total a.2 b.2 with h | h | h
      · simp_all
      · simp_all
      · simp_all
  · have e' : ¬ b.2.dirPos = a.2.dirPos := fun x => e x.symm
    simp_all
    omega

/-! ### a key depends only on the routes of its own directive -/

theorem counter_bump (m : List (String × Nat)) (k d : String) :
    counter (bump m k) d = if k == d then counter m d + 1 else counter m d := by
  induction m with
  | nil => by_cases h : k = d <;> simp [bump, counter, h]
  | cons kv rest ih =>
    obtain ⟨k', v⟩ := kv
    by_cases h1 : k' = k
    · subst h1
      by_cases h2 : k' = d <;> simp [bump, counter, h2]
    · by_cases h2 : k' = d
      · subst h2
        have : ¬ k = k' := fun e => h1 e.symm
        simp [bump, counter, h1, this]
      · simp [bump, counter, h1, h2, ih]

/-- the loop of `keyedFrom` run on the routes of ONE directive, with plain counters -/
def keyedOneFrom (order : List String) : Nat → Nat → List RouteVal → List (RouteVal × SortKey)
  | _, _, [] => []
  | w, s, x :: xs =>
    (x, keyOf order [(x.dir, w)] [(x.dir, s)] x) ::
      keyedOneFrom order (w + 1) (if isSeparator x then s + 1 else s) xs

theorem keyOf_counters (order : List String) (written separators : List (String × Nat)) (x : RouteVal) :
    keyOf order written separators x =
      keyOf order [(x.dir, counter written x.dir)] [(x.dir, counter separators x.dir)] x := by
  simp [keyOf, counter]

theorem keyedFrom_filter_dir (order : List String) (d : String) :
    ∀ (l : List RouteVal) (written separators : List (String × Nat)),
      (keyedFrom order written separators l).filter (fun a => a.1.dir == d)
        = keyedOneFrom order (counter written d) (counter separators d) (l.filter (fun x => x.dir == d))
  | [], _, _ => rfl
  | x :: xs, written, separators => by
    by_cases h : x.dir = d
    · subst h
      have ih := keyedFrom_filter_dir order x.dir xs (bump written x.dir)
        (if isSeparator x then bump separators x.dir else separators)
      simp only [keyedFrom, List.filter, beq_self_eq_true, keyedOneFrom]
      rw [ih, keyOf_counters]
      by_cases hs : isSeparator x = true <;> simp [hs, counter_bump]
    · have hb : (x.dir == d) = false := by simpa using h
      have ih := keyedFrom_filter_dir order d xs (bump written x.dir)
        (if isSeparator x then bump separators x.dir else separators)
      simp only [keyedFrom, List.filter, hb]
      rw [ih]
      by_cases hs : isSeparator x = true <;> simp [hs, counter_bump, hb]

/-- the keyed routes of one directive are a function of that directive's routes alone -/
theorem keyed_filter_dir (order : List String) (d : String) (l : List RouteVal) :
    (keyed order l).filter (fun a => a.1.dir == d) = keyedOneFrom order 0 0 (l.filter (fun x => x.dir == d)) := by
  simpa [keyed, counter] using keyedFrom_filter_dir order d l [] []

theorem keyedFrom_dirPos (order : List String) :
    ∀ (l : List RouteVal) (w s : List (String × Nat)) (a : RouteVal × SortKey),
      a ∈ keyedFrom order w s l → a.2.dirPos = dirPos order a.1.dir ∧ a.1 ∈ l
  | [], _, _, a, h => by simp [keyedFrom] at h
  | x :: xs, w, s, a, h => by
    simp only [keyedFrom, List.mem_cons] at h
    rcases h with h | h
    · subst h
      refine ⟨?_, by simp⟩
      unfold keyOf; split <;> (try split) <;> rfl
    · obtain ⟨h1, h2⟩ := keyedFrom_dirPos order xs _ _ a h
      exact ⟨h1, by simp [h2]⟩

theorem keyedFrom_length (order : List String) :
    ∀ (l : List RouteVal) (w s : List (String × Nat)), (keyedFrom order w s l).length = l.length
  | [], _, _ => rfl
  | x :: xs, w, s => by simp [keyedFrom, keyedFrom_length order xs]

/-! ### cross-kind order-insensitivity -/

theorem lessKey_cross_kind : CrossKind (fun a : RouteVal × SortKey => a.2.dirPos) lessKey lessKey where
  diff := by
    intro x y h
    simp [lessKey, h]
  same := fun _ _ _ => rfl

/-- THE PROPERTY'S CLAUSE for the repaired sorter: reordering directives of different kinds
(never swapping two routes of the same directive) does not change the keyed insertion sort,
for any number of routes -/
theorem insertionSortKeyed_reorder_invariant (order : List String) (l l' : List RouteVal)
    (ho : AllOrdered order l) (ho' : AllOrdered order l') (h : SameDirectiveSubsequences l l') :
    insertionSort lessKey (keyed order l) = insertionSort lessKey (keyed order l') := by
  unfold insertionSort
  rw [isort_cross_kind_invariant (fun a : RouteVal × SortKey => a.2.dirPos) lessKey lessKey lessKey_cross_kind]
  -- per-position subsequences of the keyed lists agree
  have hd : ∀ d, (keyed order l).filter (fun a => a.1.dir == d) = (keyed order l').filter (fun a => a.1.dir == d) := by
    intro d
    rw [keyed_filter_dir, keyed_filter_dir, h d]
  have info : ∀ (m : List RouteVal), AllOrdered order m → ∀ a ∈ keyed order m,
      a.2.dirPos = dirPos order a.1.dir ∧ a.1.dir ∈ order := by
    intro m hm a ha
    obtain ⟨h1, h2⟩ := keyedFrom_dirPos order m [] [] a ha
    exact ⟨h1, hm _ h2⟩
  intro c
  by_cases hex : ∃ a, (a ∈ keyed order l ∨ a ∈ keyed order l') ∧ a.2.dirPos = c
  · obtain ⟨a, ha, hc⟩ := hex
    have hao : a.2.dirPos = dirPos order a.1.dir ∧ a.1.dir ∈ order := ha.elim (info l ho a) (info l' ho' a)
    have key : ∀ (m : List RouteVal), AllOrdered order m →
        (keyed order m).filter (fun b => b.2.dirPos == c) = (keyed order m).filter (fun b => b.1.dir == a.1.dir) := by
      intro m hm
      apply List.filter_congr
      intro b hb
      obtain ⟨hb1, hb2⟩ := info m hm b hb
      by_cases hdir : b.1.dir = a.1.dir
      · have h1 : (b.2.dirPos == c) = true := by simp [hb1, hdir, ← hc, hao.1]
        have h2 : (b.1.dir == a.1.dir) = true := by simp [hdir]
        show (b.2.dirPos == c) = (b.1.dir == a.1.dir)
        rw [h1, h2]
      · have : b.2.dirPos ≠ c := by
          intro e
          apply hdir
          apply dirPos_injective order b.1.dir a.1.dir hb2 hao.2
          rw [← hb1, ← hao.1, e, hc]
        have h1 : (b.2.dirPos == c) = false := by simpa using this
        have h2 : (b.1.dir == a.1.dir) = false := by simpa using hdir
        show (b.2.dirPos == c) = (b.1.dir == a.1.dir)
        rw [h1, h2]
    rw [key l ho, key l' ho', hd a.1.dir]
  · have nil : ∀ (m : List (RouteVal × SortKey)), (∀ b ∈ m, b ∈ keyed order l ∨ b ∈ keyed order l') →
        m.filter (fun b => b.2.dirPos == c) = [] := by
      intro m hm
      rw [List.filter_eq_nil_iff]
      intro b hb hk
      exact hex ⟨b, hm b hb, by simpa using hk⟩
    rw [nil _ (fun b hb => Or.inl hb), nil _ (fun b hb => Or.inr hb)]

/-- the same for `sortRoutes` where `sort.SliceStable` is one insertion sort -/
theorem sortKeyed_reorder_invariant (order : List String) (l l' : List RouteVal)
    (hl : l.length ≤ blockSize) (hl' : l'.length ≤ blockSize)
    (ho : AllOrdered order l) (ho' : AllOrdered order l') (h : SameDirectiveSubsequences l l') :
    sortRoutesKeyed order l = sortRoutesKeyed order l' := by
  unfold sortRoutesKeyed stableSort
  have e1 : (keyed order l).length ≤ blockSize := by simpa [keyed, keyedFrom_length] using hl
  have e2 : (keyed order l').length ≤ blockSize := by simpa [keyed, keyedFrom_length] using hl'
  simp only [e1, e2, if_true]
  rw [insertionSortKeyed_reorder_invariant order l l' ho ho' h]

end CaddyModel.C16

namespace CaddyModel.C16

/-! non-vacuity -/
example : lessKey (⟨"respond", true, 1, [str "/abc"]⟩, ⟨32, 0, 8, 1⟩) (⟨"respond", true, 1, [str "/a*"]⟩, ⟨32, 0, 3, 0⟩) = true := by decide
example : (keyed Gen.defaultDirectiveOrder
    [⟨"respond", true, 1, [str "/a"]⟩, ⟨"respond", true, 1, []⟩, ⟨"header", true, 0, []⟩, ⟨"respond", true, 1, [str "/abc"]⟩]).map (·.2)
    = [⟨32, 0, 4, 0⟩, ⟨32, 1, 0, 1⟩, ⟨9, lastSlot, 0, 0⟩, ⟨32, 2, 8, 2⟩] := by decide
example : sortRoutesKeyed Gen.defaultDirectiveOrder
    [⟨"respond", true, 1, [str "/a*"]⟩, ⟨"header", true, 0, []⟩, ⟨"respond", true, 1, [str "/a"]⟩]
    = [⟨"header", true, 0, []⟩, ⟨"respond", true, 1, [str "/a"]⟩, ⟨"respond", true, 1, [str "/a*"]⟩] := by decide
example : VarsConsistent (⟨"vars", true, 0, []⟩, ⟨2, lastSlot, 0, 0⟩) (⟨"vars", true, 1, [str "/a"]⟩, ⟨2, 0, 4, 1⟩) := fun _ => rfl

end CaddyModel.C16
