/-
C16 — the `order` global option and the process-wide directive order
(httpcaddyfile/options.go `parseOptOrder`, httptype.go `ServerType.Setup`).

`directiveOrder` is a package-level variable.  `parseOptOrder` removes the directive from the
order in effect (`slices.DeleteFunc`: every occurrence) and re-inserts it first / last /
before / after another directive; an unknown directive or a missing anchor rejects the file.
Since 1ea4f8f `Setup` works on a clone of the variable and puts the original back when it
returns (`adapt`); before that the assignment simply stayed (`adaptOld`), so one Caddyfile
with an `order` option changed how every later Caddyfile of the same process was sorted.

A file is reduced to what matters here: its `order` options and the route values of one
sorted block.  Core Lean only, structural recursion.
-/
import CaddyModel.C16.Stable

namespace CaddyModel.C16

inductive OrderOp where
  | first (d : String)
  | last (d : String)
  | before (d other : String)
  | after (d other : String)
  deriving DecidableEq, Repr

/-- `slices.Index` -/
def indexOf (d : String) : List String → Option Nat
  | [] => none
  | x :: xs => if x == d then some 0 else (indexOf d xs).map (· + 1)

/-- `slices.Insert(l, i, d)` -/
def insertAt (l : List String) (i : Nat) (d : String) : List String := l.take i ++ d :: l.drop i

/-- `slices.DeleteFunc(order, func(x) bool { return x == d })` -/
def without (order : List String) (d : String) : List String := order.filter (· != d)

/-- `parseOptOrder` on the order in effect; `none`: the option (and with it the file) is rejected -/
def applyOp (registered order : List String) : OrderOp → Option (List String)
  | .first d => if registered.contains d then some (d :: without order d) else none
  | .last d => if registered.contains d then some (without order d ++ [d]) else none
  | .before d o =>
    if registered.contains d then
      match indexOf o (without order d) with
      | some i => some (insertAt (without order d) i d)
      | none => none
    else none
  | .after d o =>
    if registered.contains d then
      match indexOf o (without order d) with
      | some i => some (insertAt (without order d) (i + 1) d)
      | none => none
    else none

/-- the global options block: options in file order; stops at the first rejected one.
Returns the order reached and whether every option was accepted. -/
def applyOps (registered : List String) : List String → List OrderOp → List String × Bool
  | o, [] => (o, true)
  | o, op :: ops =>
    match applyOp registered o op with
    | some o' => applyOps registered o' ops
    | none => (o, false)

/-- a Caddyfile, as far as route ordering is concerned -/
structure CFile where
  ops : List OrderOp
  routes : List RouteVal
  deriving Repr

inductive Adapted where
  | rejected
  | ok (sorted : List RouteVal)
  deriving DecidableEq, Repr

/-- `buildSubroute` under the order in effect when the options have been read -/
def adaptedUnder (order : List String) (accepted : Bool) (f : CFile) : Adapted :=
  if accepted && allOrdered order f.routes then .ok (sortRoutes (less order) f.routes) else .rejected

/-- `Setup` as it is: `directiveOrder = slices.Clone(directiveOrder)`, the options act on the
clone, `defer` puts the original back.  Returns the result and the package-level order afterwards. -/
def adapt (registered global : List String) (f : CFile) : Adapted × List String :=
  (adaptedUnder (applyOps registered global f.ops).1 (applyOps registered global f.ops).2 f, global)

/-- `Setup` before 1ea4f8f: the options act on the package-level variable and stay.
(The in-place edit of the default order's backing array on a rejected option is not modelled.) -/
def adaptOld (registered global : List String) (f : CFile) : Adapted × List String :=
  (adaptedUnder (applyOps registered global f.ops).1 (applyOps registered global f.ops).2 f,
   (applyOps registered global f.ops).1)

/-- the package-level order after a process has adapted `hist` (oldest first) -/
def orderAfter (step : List String → CFile → Adapted × List String) : List String → List CFile → List String
  | g, [] => g
  | g, f :: fs => orderAfter step (step g f).2 fs

/-- every result of a process that adapts `hist` in turn -/
def runAll (step : List String → CFile → Adapted × List String) : List String → List CFile → List Adapted
  | _, [] => []
  | g, f :: fs => (step g f).1 :: runAll step (step g f).2 fs

end CaddyModel.C16
