/-
C16 — the `servers` global option applied to the servers of a Caddyfile
(httpcaddyfile: `evaluateGlobalOptionsBlock`'s sort + duplicate-address check, and
`applyServerOptions` in serveroptions.go), for servers `srv<i>` that listen on given addresses.

* the option blocks are sorted by the length of their listener address, longest first
  (`sort.Slice`; for the ≤ 12 blocks a file realistically has that is an insertion sort, hence
  stable), two blocks with the same address are rejected;
* a server takes the FIRST block whose address is empty or among its listen addresses;
* two blocks with the same name are rejected; every server's final name is computed from the
  names as they were (since 42cbd3d) and a name two servers would share is rejected.
  Before, the renames were applied one at a time in Go map order (`renameOld`, with the
  iteration order as an explicit argument).
-/
import CaddyModel.C16.Stable

namespace CaddyModel.C16

/-- one `servers [<addr>] { name …; timeouts { idle … } }` block -/
structure SrvOpt where
  addr : String
  name : Option String
  idle : Option Nat
  deriving DecidableEq, Repr

/-- a server before the options are applied: default name, listen addresses -/
structure Srv where
  name : String
  listen : List String
  idle : Option Nat := none
  deriving DecidableEq, Repr

/-- `sort.Slice(serverOpts, len(i.addr) > len(j.addr))` (insertion sort region) -/
def sortOpts (opts : List SrvOpt) : List SrvOpt :=
  insertionSort (fun a b => decide (a.addr.length > b.addr.length)) opts

/-- the first block that applies to a server -/
def optFor (sorted : List SrvOpt) (s : Srv) : Option SrvOpt :=
  sorted.find? fun o => o.addr == "" || s.listen.contains o.addr

def hasDup : List String → Bool
  | [] => false
  | x :: xs => xs.contains x || hasDup xs

def optNames (opts : List SrvOpt) : List String := opts.filterMap (·.name)

/-- the server with its options set and its final name -/
def applyOne (sorted : List SrvOpt) (s : Srv) : Srv :=
  match optFor sorted s with
  | none => s
  | some o => ⟨o.name.getD s.name, s.listen, o.idle⟩

/-- `none`: the Caddyfile is rejected -/
def applyServerOptions (opts : List SrvOpt) (servers : List Srv) : Option (List Srv) :=
  if hasDup (opts.map (·.addr)) then none                       -- duplicate listener addresses
  else if hasDup (optNames opts) then none                      -- duplicate server name
  else if hasDup ((servers.map (applyOne (sortOpts opts))).map (·.name)) then none   -- one name, two servers
  else some (servers.map (applyOne (sortOpts opts)))

/-! ### the rename loop before 42cbd3d -/

def removeName (m : List (String × Srv)) (k : String) : List (String × Srv) := m.filter (·.1 != k)

/-- `servers[new] = servers[old]; delete(servers, old)` for the renames in the given order -/
def renameOld : List (String × String) → List (String × Srv) → List (String × Srv)
  | [], m => m
  | (old, new) :: rest, m =>
    match m.find? (·.1 == old) with
    | none => renameOld rest (removeName (removeName m new) old)   -- servers[new] = nil entry; not reached in the witnesses
    | some (_, s) => renameOld rest ((new, s) :: removeName (removeName m new) old)

end CaddyModel.C16
