/-
C16 — the JSON encoder behind every status code the Caddyfile adapter emits:
`caddyhttp.WeakString.MarshalJSON` (modules/caddyhttp/caddyhttp.go).

The Caddyfile parsers of `respond`, `error`, `file_server status`, `redir`, `replace_status`,
`copy_response`, … keep the status TOKEN as written (some test it with strconv.Atoi, some do not test it at
all) and leave the encoding to WeakString:

    "true" / "false"            → the JSON booleans
    strconv.Atoi(s) succeeds    → json.Marshal(the int)       — NOT the text: Atoi accepts `0200`, `+404`, `-007`
    otherwise                   → json.Marshal(the string)

If the encoder writes something that is not JSON, json.Marshal of the handler fails, caddyconfig.JSONModuleObject
turns the failure into a warning and returns nil, and the adapter "succeeds" with `"handle":[null]` — output that
no server loads.  So the clause "the JSON of an accepted Caddyfile loads" needs, across this glue:
for EVERY token text the encoder's output is a JSON value (`weakMarshal_is_json`).

`jsonQuote` is encoding/json's appendString with escapeHTML (go1.23): ", \ and the control characters escaped,
<, >, & as \u00XX, invalid UTF-8 as \ufffd, U+2028 / U+2029 as \u2028 / \u2029, everything else copied.
-/
import CaddyModel.C16.Args

namespace CaddyModel.C16

/-! ### the integer branch: decimal text of the value -/

/-- drop leading zeros, keeping the last digit -/
def stripZeros : Bytes → Bytes
  | [] => []
  | [d] => [d]
  | d :: e :: ds => if d == 48 then stripZeros (e :: ds) else d :: e :: ds

/-- `strconv.FormatInt(v, 10)` for the value written as sign + digits `ds` (all decimal digits, not empty) -/
def intText (neg : Bool) (ds : Bytes) : Bytes :=
  let z := stripZeros ds
  if z == [48] then [48] else if neg then 45 :: z else z

/-- the digits of a token `strconv.Atoi` accepts, and its sign -/
def signDigits : Bytes → Bool × Bytes
  | [] => (false, [])
  | 45 :: ds => (true, ds)
  | 43 :: ds => (false, ds)
  | ds => (false, ds)

/-! ### the string branch: encoding/json appendString, escapeHTML = true -/

def hexd (n : UInt8) : UInt8 := if n < 10 then 48 + n else 87 + n

/-- one byte below 0x80 -/
def escAscii (b : UInt8) : Bytes :=
  if b == 34 || b == 92 then [92, b]
  else if b == 8 then [92, 98]
  else if b == 12 then [92, 102]
  else if b == 10 then [92, 110]
  else if b == 13 then [92, 114]
  else if b == 9 then [92, 116]
  else if b < 32 || b == 60 || b == 62 || b == 38 then [92, 117, 48, 48, hexd (b >>> 4), hexd (b &&& 15)]
  else [b]

def cont (b : UInt8) : Bool := 128 ≤ b && b ≤ 191

/-- the range utf8.DecodeRune accepts for the SECOND byte after the first byte `b0` -/
def second (b0 b1 : UInt8) : Bool :=
  if b0 == 224 then 160 ≤ b1 && b1 ≤ 191
  else if b0 == 237 then 128 ≤ b1 && b1 ≤ 159
  else if b0 == 240 then 144 ≤ b1 && b1 ≤ 191
  else if b0 == 244 then 128 ≤ b1 && b1 ≤ 143
  else cont b1

def ufffd : Bytes := [92, 117, 102, 102, 102, 100]

/-- one step of appendString at a byte `b` followed by `rest`: what is written, and how many FURTHER bytes of
`rest` the step consumed (the continuation bytes of a well-formed rune) -/
def step (b : UInt8) (rest : Bytes) : Bytes × Nat :=
  if b < 128 then (escAscii b, 0)
  else if 194 ≤ b && b ≤ 223 then
    match rest with
    | b1 :: _ => if cont b1 then ([b, b1], 1) else (ufffd, 0)
    | [] => (ufffd, 0)
  else if 224 ≤ b && b ≤ 239 then
    match rest with
    | b1 :: b2 :: _ =>
      if cont b1 && second b b1 && cont b2 then
        (if b == 226 && b1 == 128 && (b2 == 168 || b2 == 169) then
          ([92, 117, 50, 48, 50, hexd (b2 &&& 15)], 2)
        else ([b, b1, b2], 2))
      else (ufffd, 0)
    | _ => (ufffd, 0)
  else if 240 ≤ b && b ≤ 244 then
    match rest with
    | b1 :: b2 :: b3 :: _ =>
      if cont b1 && second b b1 && cont b2 && cont b3 then ([b, b1, b2, b3], 3) else (ufffd, 0)
    | _ => (ufffd, 0)
  else (ufffd, 0)

/-- the body and the closing quote; `skip` = bytes already written by the previous step -/
def quoteGo : Nat → Bytes → Bytes
  | _, [] => [34]
  | k + 1, _ :: rest => quoteGo k rest
  | 0, b :: rest => (step b rest).1 ++ quoteGo (step b rest).2 rest

def jsonQuote (s : Bytes) : Bytes := 34 :: quoteGo 0 s

/-! ### WeakString.MarshalJSON -/

def weakMarshal (s : Bytes) : Bytes :=
  if s == str "true" then str "true"
  else if s == str "false" then str "false"
  else match atoi s with
    | some _ => intText (signDigits s).1 (signDigits s).2
    | none => jsonQuote s

/-- the slip: "an integer is its own JSON encoding" -/
def weakMarshalVerbatim (s : Bytes) : Bytes :=
  if s == str "true" then str "true"
  else if s == str "false" then str "false"
  else match atoi s with
    | some _ => s
    | none => jsonQuote s

/-! ### what a JSON value is (RFC 8259 number and string, bytes) -/

def dropDigits : Bytes → Bytes
  | [] => []
  | d :: ds => if isDigit d then dropDigits ds else d :: ds

/-- `[ "." digits ] [ (e|E) [+|-] digits ]` up to the end -/
def fracExp (r : Bytes) : Bool :=
  let afterFrac : Option Bytes :=
    match r with
    | 46 :: d :: r' => if isDigit d then some (dropDigits r') else none
    | [46] => none
    | r => some r
  match afterFrac with
  | none => false
  | some [] => true
  | some (e :: r2) =>
    if e == 101 || e == 69 then
      let r3 := match r2 with
        | 43 :: x => x
        | 45 :: x => x
        | x => x
      match r3 with
      | d :: r4 => isDigit d && (dropDigits r4).isEmpty
      | [] => false
    else false

/-- `[-] (0 | [1-9] digits) frac exp` -/
def isJsonNumber (s : Bytes) : Bool :=
  let s1 := match s with
    | [] => []
    | c :: r => if c == 45 then r else c :: r
  match s1 with
  | [] => false
  | d :: r =>
    if d == 48 then fracExp r
    else if 49 ≤ d && d ≤ 57 then fracExp (dropDigits r)
    else false

def isHex (b : UInt8) : Bool := (48 ≤ b && b ≤ 57) || (97 ≤ b && b ≤ 102) || (65 ≤ b && b ≤ 70)

def simpleEsc (e : UInt8) : Bool :=
  e == 34 || e == 92 || e == 47 || e == 98 || e == 102 || e == 110 || e == 114 || e == 116

/-- after the opening quote: unescaped bytes ≥ 0x20 other than `"` and `\`, the escapes of RFC 8259, and the closing
quote as the LAST byte -/
def strBody : Bytes → Bool
  | [] => false
  | b :: rest =>
    if b == 34 then rest.isEmpty
    else if b == 92 then
      match rest with
      | [] => false
      | e :: rest' =>
        if e == 117 then
          match rest' with
          | h1 :: h2 :: h3 :: h4 :: r => isHex h1 && isHex h2 && isHex h3 && isHex h4 && strBody r
          | _ => false
        else simpleEsc e && strBody rest'
    else 32 ≤ b && strBody rest

def isJsonString : Bytes → Bool
  | 34 :: rest => strBody rest
  | _ => false

def isJsonValue (s : Bytes) : Bool :=
  s == str "true" || s == str "false" || isJsonNumber s || isJsonString s

end CaddyModel.C16
