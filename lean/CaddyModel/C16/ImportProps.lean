/-
C16 depth round h — theorems on import expansion under the cycle check (model: Import.lean).

What the totality clause needs from importgraph.go: an `import` whose target already leads back to
the importing node is REFUSED (the check is complete for reachability — a depth-first search that
stops early, forgets a successor list or tests the wrong direction breaks `import_that_returns_is_refused`
or the correspondence), the search itself terminates (visit_never_runs_out_of_fuel), and edges are
never forgotten while a parse goes on (addEdge_keeps_edges), so that the chain of nested imports a
token came through is a path of the graph.
-/
import CaddyModel.C16.Import

namespace CaddyModel.C16.Import

/-- b is reachable from a through at least one edge -/
inductive Reach (g : Graph) : Nat → Nat → Prop
  | edge {a b : Nat} : b ∈ succs g a → Reach g a b
  | step {a c b : Nat} : c ∈ succs g a → Reach g c b → Reach g a b

/-- what `visit` returns contains what was collected, what was on the stack, and every successor
of every node it collected itself -/
theorem visit_inv (g : Graph) : ∀ (fuel : Nat) (stack coll R : List Nat),
    visit g fuel stack coll = some R →
    (∀ x, x ∈ coll → x ∈ R) ∧ (∀ x, x ∈ stack → x ∈ R) ∧
    (∀ x, x ∈ R → x ∉ coll → ∀ y, y ∈ succs g x → y ∈ R) := by
  intro fuel
  induction fuel with
  | zero =>
    intro stack coll R h
    cases stack with
    | nil =>
      simp [visit] at h; subst h
      exact ⟨fun _ h => h, by simp, fun x hx hn => absurd hx hn⟩
    | cons s rest => simp [visit] at h
  | succ n ih =>
    intro stack coll R h
    cases stack with
    | nil =>
      simp [visit] at h; subst h
      exact ⟨fun _ h => h, by simp, fun x hx hn => absurd hx hn⟩
    | cons s rest =>
      simp only [visit] at h
      by_cases hc : coll.contains s = true
      · rw [if_pos hc] at h
        obtain ⟨h1, h2, h3⟩ := ih rest coll R h
        refine ⟨h1, ?_, h3⟩
        intro x hx
        cases List.mem_cons.mp hx with
        | inl e => subst e; exact h1 _ (by simpa using hc)
        | inr e => exact h2 _ e
      · rw [if_neg hc] at h
        obtain ⟨h1, h2, h3⟩ := ih _ _ R h
        refine ⟨fun x hx => h1 x (List.mem_cons_of_mem _ hx), ?_, ?_⟩
        · intro x hx
          cases List.mem_cons.mp hx with
          | inl e => subst e; exact h1 _ (List.mem_cons_self ..)
          | inr e => exact h2 _ (List.mem_append_right _ e)
        · intro x hx hn y hy
          by_cases e : x = s
          · subst e; exact h2 _ (List.mem_append_left _ hy)
          · exact h3 x hx (by simp [e, hn]) y hy

theorem closed_contains_reach {g : Graph} {R : List Nat}
    (hcl : ∀ x, x ∈ R → ∀ y, y ∈ succs g x → y ∈ R) :
    ∀ {a b : Nat}, Reach g a b → (∀ y, y ∈ succs g a → y ∈ R) → b ∈ R := by
  intro a b h
  induction h with
  | edge h => exact fun hs => hs _ h
  | step hc _ ih => exact fun hs => ih (hcl _ (hs _ hc))

/-- THE CYCLE CHECK IS COMPLETE: whenever `to` is reachable from `from`, willCycle says so. -/
theorem willCycle_complete (g : Graph) (a b : Nat) (r : Bool)
    (hr : Reach g a b) (h : willCycle g a b = some r) : r = true := by
  unfold willCycle at h
  cases hv : visit g (visitFuel g) (succs g a) [] with
  | none => simp [hv] at h
  | some R =>
    simp [hv] at h
    obtain ⟨_, h2, h3⟩ := visit_inv g _ _ _ _ hv
    have hb : b ∈ R := closed_contains_reach (fun x hx => h3 x hx (by simp)) hr h2
    subst h; simpa using hb

/-! ### the search terminates -/

/-- edges whose source has not been collected yet -/
def openEdges (es : List (Nat × Nat)) (coll : List Nat) : Nat :=
  (es.filter (fun e => !coll.contains e.1)).length

theorem openEdges_mark (es : List (Nat × Nat)) (coll : List Nat) (s : Nat) (hs : coll.contains s = false) :
    (es.filter (fun e => e.1 == s)).length + openEdges es (s :: coll) = openEdges es coll := by
  induction es with
  | nil => simp [openEdges]
  | cons e es ih =>
    unfold openEdges at ih ⊢
    have hs' : s ∉ coll := by simpa using hs
    by_cases he : e.1 = s
    · have h1 : (e.1 == s) = true := by simp [he]
      have h2 : (!(s :: coll).contains e.1) = false := by simp [he]
      have h3 : (!coll.contains e.1) = true := by simp [he, hs']
      simp only [List.filter_cons, h1, h2, h3, if_true, List.length_cons]
      simp only [Bool.false_eq_true, if_false]
      omega
    · have h1 : (e.1 == s) = false := by simp [he]
      have h2 : (!(s :: coll).contains e.1) = (!coll.contains e.1) := by simp [he]
      simp only [List.filter_cons, h1, h2, Bool.false_eq_true, if_false]
      cases hc : (!coll.contains e.1) with
      | true => simp only [if_true, List.length_cons]; omega
      | false => simp only [Bool.false_eq_true, if_false]; omega

theorem visit_fuel_enough (g : Graph) : ∀ (fuel : Nat) (stack coll : List Nat),
    stack.length + openEdges g.edges coll ≤ fuel → (visit g fuel stack coll).isSome = true := by
  intro fuel
  induction fuel with
  | zero =>
    intro stack coll h
    cases stack with
    | nil => simp [visit]
    | cons s rest => simp at h
  | succ n ih =>
    intro stack coll h
    cases stack with
    | nil => simp [visit]
    | cons s rest =>
      simp only [visit]
      by_cases hc : coll.contains s = true
      · rw [if_pos hc]; apply ih; simp at h; omega
      · rw [if_neg hc]; apply ih
        have hm := openEdges_mark g.edges coll s (by simpa using hc)
        have : (succs g s).length = (g.edges.filter (fun e => e.1 == s)).length := by simp [succs]
        simp at h ⊢
        omega

/-- willCycle always answers: the fuel of the model (2·|edges| + 1 visit calls) is never used up. -/
theorem visit_never_runs_out_of_fuel (g : Graph) (a b : Nat) : (willCycle g a b).isSome = true := by
  unfold willCycle
  have h : (visit g (visitFuel g) (succs g a) []).isSome = true := by
    apply visit_fuel_enough
    have h1 : (succs g a).length ≤ g.edges.length := by
      simp [succs]; exact List.length_filter_le _ _
    have h2 : openEdges g.edges [] ≤ g.edges.length := by
      unfold openEdges; exact List.length_filter_le _ _
    unfold visitFuel; omega
  cases hv : visit g (visitFuel g) (succs g a) [] with
  | none => simp [hv] at h
  | some R => simp

/-! ### what the parser gets from it -/

/-- AN IMPORT THAT RETURNS IS REFUSED: if the target already leads back to the importing node
(through at least one edge), addEdge does not succeed — doImport returns the cycle error instead
of splicing the tokens in. -/
theorem import_that_returns_is_refused (g g' : Graph) (frm to : Nat) (hr : Reach g to frm) :
    addEdge g frm to ≠ .ok g' := by
  unfold addEdge
  split
  · simp
  · cases hw : willCycle g to frm with
    | none => simp
    | some r =>
      have := willCycle_complete g to frm r hr hw
      subst this; simp

/-- addEdge always answers `ok`, `cycle` or `no node` (never out of fuel) -/
theorem addEdge_never_runs_out_of_fuel (g : Graph) (frm to : Nat) : addEdge g frm to ≠ .fuel := by
  unfold addEdge
  have h := visit_never_runs_out_of_fuel g to frm
  split
  · simp
  · cases hw : willCycle g to frm with
    | none => simp [hw] at h
    | some r => cases r <;> simp <;> split <;> simp

/-- a successful addEdge forgets no edge and leaves frm → to in the graph: the import chain a
token came through stays a path of the graph for the rest of the parse -/
theorem addEdge_keeps_edges (g g' : Graph) (frm to : Nat) (h : addEdge g frm to = .ok g') :
    (∀ e, e ∈ g.edges → e ∈ g'.edges) ∧ to ∈ succs g' frm := by
  unfold addEdge at h
  split at h
  · simp at h
  · cases hw : willCycle g to frm with
    | none => simp [hw] at h
    | some r =>
      cases r with
      | true => simp [hw] at h
      | false =>
        simp only [hw] at h
        by_cases hc : areConnected g frm to = true
        · rw [if_pos hc] at h
          injection h with h; subst h
          exact ⟨fun _ he => he, by simpa [areConnected] using hc⟩
        · rw [if_neg hc] at h
          injection h with h; subst h
          refine ⟨fun e he => by simp [he], ?_⟩
          simp [succs]

/-- the second nested self-import is refused: once a → a is in the graph, a further `import a`
met inside a is the cycle error (the FIRST one is expanded: see self_import_expanded_once) -/
theorem self_import_refused_second_time (g g' : Graph) (a : Nat) (h : a ∈ succs g a) :
    addEdge g a a ≠ .ok g' :=
  import_that_returns_is_refused g g' a a (.edge h)

/-- consecutive elements are edges of the graph -/
def isChain (g : Graph) : List Nat → Bool
  | a :: b :: rest => (succs g a).contains b && isChain g (b :: rest)
  | _ => true

theorem chain_reach (g : Graph) : ∀ (c : List Nat) (a last : Nat),
    isChain g (a :: (c ++ [last])) = true → Reach g a last := by
  intro c
  induction c with
  | nil =>
    intro a last h
    simp [isChain] at h
    exact .edge h
  | cons b c ih =>
    intro a last h
    simp only [List.cons_append, isChain, Bool.and_eq_true] at h
    exact .step (by simpa using h.1) (ih b last h.2)

/-- NO NESTED IMPORT RETURNS TO ITS OWN CHAIN: if the chain of imports x → … → last that leads to
the importing node is in the graph (it is: addEdge_keeps_edges), `import x` met in `last` is
refused.  With finitely many files and snippets this bounds the nesting depth of an expansion (a
node can follow itself once — self_import_expanded_once — and can never come back later), so
the expansion of every import line is a finite tree. -/
theorem import_of_chain_member_is_refused (g g' : Graph) (x last : Nat) (c : List Nat)
    (h : isChain g (x :: (c ++ [last])) = true) : addEdge g last x ≠ .ok g' :=
  import_that_returns_is_refused g g' last x (chain_reach g c x last h)

example : isChain ⟨[0, 1, 2, 3], [(0, 1), (1, 2), (2, 3)]⟩ (1 :: ([2] ++ [3])) = true := by decide
example : addEdge ⟨[0, 1, 2, 3], [(0, 1), (1, 2), (2, 3)]⟩ 3 1 = .cycle := by decide

/-! ### instances (hypotheses inhabited, quirks kept) -/

-- a two-cycle: s1 imports f2, f2 imports s1 — refused when f2's import of s1 is met
example : run [⟨false, [.imp 1]⟩, ⟨true, [.marker 1, .imp 2]⟩, ⟨false, [.marker 2, .imp 1]⟩] = .cycle := by decide
-- QUIRK KEPT: a snippet that imports itself is expanded ONCE more before the check sees the
-- loop (willCycle(a, a) looks for a among the nodes reachable from a's successors, and a has none yet)
theorem self_import_expanded_once :
    addEdge ⟨[1], []⟩ 1 1 = .ok ⟨[1], [(1, 1)]⟩ ∧ addEdge ⟨[1], [(1, 1)]⟩ 1 1 = .cycle := by decide
-- a diamond is no cycle: both paths are expanded
example : run [⟨false, [.imp 1, .imp 2]⟩, ⟨false, [.marker 1, .imp 3]⟩, ⟨false, [.marker 2, .imp 3]⟩, ⟨true, [.marker 3]⟩]
    = .ok [1, 3, 2, 3] := by decide
example : Reach ⟨[0, 1, 2], [(0, 1), (1, 2)]⟩ 0 2 := .step (c := 1) (by decide) (.edge (by decide))
example : addEdge ⟨[0, 1, 2], [(0, 1), (1, 2)]⟩ 2 0 = .cycle := by decide
example : willCycle ⟨[0, 1, 2], [(0, 1), (1, 2), (2, 0)]⟩ 0 0 = some true := by decide
example : (addEdge ⟨[0, 1], []⟩ 0 1 = .ok ⟨[0, 1], [(0, 1)]⟩) := by decide
example : visit ⟨[], [(0, 1), (1, 0), (1, 2)]⟩ 7 [1] [] = some [2, 0, 1] := by decide
example : openEdges [(0, 1), (1, 0), (1, 2)] [1] = 1 := by decide

end CaddyModel.C16.Import
