/-
C16 — the first stage of `Adapter.Adapt` is the Caddyfile lexer; its model lives with C17
(`CaddyModel/C17/Lexer.lean`, one structural recursion over the input runes, validated
byte-for-byte against `caddyfile.Tokenize` by C17's correspondence stream and, on C16's own
corpus mutations, by the `lex:` part of the `adapt` answers).  Totality and determinism of
that stage hold by construction: the model is a total function.
-/
import CaddyModel.C17.Lexer

namespace CaddyModel.C16

open CaddyModel.C17 (tokenize decodeUtf8 Token LexErr)

/-- `caddyfile.Tokenize` on the bytes of a file -/
def lex (inp : Bytes) : Except LexErr (List Token) := tokenize (decodeUtf8 inp)

/-- lexing any byte string terminates with tokens or an error (no third outcome, no fuel) -/
theorem lex_total (inp : Bytes) : (∃ ts, lex inp = .ok ts) ∨ (∃ e, lex inp = .error e) := by
  cases h : lex inp with
  | ok ts => exact Or.inl ⟨ts, rfl⟩
  | error e => exact Or.inr ⟨e, rfl⟩

/-- the same bytes always lex to the same tokens -/
theorem lex_deterministic (a b : Bytes) (h : a = b) : lex a = lex b := by rw [h]

/-- canonical summary used in the line protocol -/
def lexSummary (inp : Bytes) : String :=
  match lex inp with
  | .ok ts => "lex:ok:" ++ toString ts.length
  | .error _ => "lex:err"

example : lexSummary (str ":80 {\n\trespond \"a b\" 200\n}\n") = "lex:ok:6" := by decide
example : lexSummary (str "a \"unterminated") = "lex:ok:2" := by decide
example : lexSummary (str "a <<EOF\nx") = "lex:err" := by decide

end CaddyModel.C16
