/-
C16 depth round h: import expansion under the cycle check.

Model of caddyconfig/caddyfile/importgraph.go (importGraph: addNode, addEdge, areConnected,
willCycle) and of the part of parser.doImport (parse.go) that decides WHETHER an `import` line is
expanded: node names (the file of the importing token, `file:snippet` for a token that lives in a
snippet), the nodes an import adds (the snippet, or every matched file), the edge check, and the
splice of the imported tokens IN FRONT of the rest of the token stream (so that their own imports
are met next, with the graph as it is by then).

Nodes are numbers: node k = definition k of the case (0 = the body of the site block in the main
file, k ≥ 1 = a snippet `(s<k>)` of the main file or the file `f<k>.conf` next to it).
Core Lean only; structural recursion on fuel.
-/
namespace CaddyModel.C16.Import

/-- importGraph: `nodes` is the key set of the Go map, `edges` the adjacency lists flattened in
insertion order (`edges[from] = append(edges[from], to)`). -/
structure Graph where
  nodes : List Nat
  edges : List (Nat × Nat)
deriving Repr, DecidableEq

def Graph.empty : Graph := ⟨[], []⟩

/-- `i.edges[a]` -/
def succs (g : Graph) (a : Nat) : List Nat :=
  (g.edges.filter (fun e => e.1 == a)).map (fun e => e.2)

/-- addNode -/
def addNode (g : Graph) (a : Nat) : Graph :=
  if g.nodes.contains a then g else { g with nodes := g.nodes ++ [a] }

/-- addNodes -/
def addNodes (g : Graph) : List Nat → Graph
  | [] => g
  | a :: as => addNodes (addNode g a) as

/-- The closure `visit` of willCycle as a work list: the head of `stack` is the node being
visited, `coll` is the `collector` map.  `visit(start)`: if start is not collected yet, collect it
and visit `edges[start]` in order.  One unit of fuel per visit call. -/
def visit (g : Graph) : Nat → List Nat → List Nat → Option (List Nat)
  | _, [], coll => some coll
  | 0, _ :: _, _ => none
  | fuel + 1, s :: rest, coll =>
    if coll.contains s then visit g fuel rest coll
    else visit g fuel (succs g s ++ rest) (s :: coll)

/-- enough for every call of `visit` from willCycle (visit_never_runs_out_of_fuel) -/
def visitFuel (g : Graph) : Nat := 2 * g.edges.length + 1

/-- willCycle(from, to): is `to` among the nodes collected from the successors of `from`? -/
def willCycle (g : Graph) (frm to : Nat) : Option Bool :=
  (visit g (visitFuel g) (succs g frm) []).map (fun c => c.contains to)

/-- areConnected -/
def areConnected (g : Graph) (frm to : Nat) : Bool := (succs g frm).contains to

inductive EdgeRes where
  | ok (g : Graph)
  | noNode
  | cycle
  | fuel
deriving Repr, DecidableEq

/-- addEdge(from, to) — note the argument order of the cycle test: willCycle(to, from). -/
def addEdge (g : Graph) (frm to : Nat) : EdgeRes :=
  if !(g.nodes.contains frm && g.nodes.contains to) then .noNode
  else match willCycle g to frm with
    | none => .fuel
    | some true => .cycle
    | some false =>
      if areConnected g frm to then .ok g
      else .ok { g with edges := g.edges ++ [(frm, to)] }

/-- addEdges -/
def addEdges (g : Graph) (frm : Nat) : List Nat → EdgeRes
  | [] => .ok g
  | t :: ts =>
    match addEdge g frm t with
    | .ok g' => addEdges g' frm ts
    | r => r

/-! ### the expansion -/

inductive Item where
  | marker (m : Nat)      -- a directive line `m<m>`
  | imp (k : Nat)         -- `import s<k>` / `import f<k>.conf`
deriving Repr, DecidableEq

structure Def where
  isSnippet : Bool
  body : List Item
deriving Repr, DecidableEq

inductive Verdict where
  | ok (markers : List Nat)
  | cycle
  | missing
  | noNode
  | fuel
deriving Repr, DecidableEq

/-- the `nodes` of doImport: a snippet contributes `file:snippet` of its FIRST token (nothing
when it has no token), a file import contributes every matched file (here: the one file). -/
def importNodes (d : Def) (k : Nat) : List Nat :=
  if d.isSnippet && d.body.isEmpty then [] else [k]

/-- tokens of definition k, each carrying the node its own imports will be charged to -/
def tagged (k : Nat) (body : List Item) : List (Nat × Item) := body.map (fun it => (k, it))

/-- parser.directives / doImport over the token stream `work` (token = (node, item)).  An import
line is REPLACED by the tokens of what it names, in place, and the parser continues with the first
of them; the graph is the parser's one importGraph. -/
def expand (defs : List Def) : Nat → Graph → List (Nat × Item) → List Nat → Verdict
  | _, _, [], out => .ok out.reverse
  | 0, _, _ :: _, _ => .fuel
  | fuel + 1, g, (_, .marker m) :: rest, out => expand defs fuel g rest (m :: out)
  | fuel + 1, g, (n, .imp k) :: rest, out =>
    match defs[k]? with
    | none => .missing
    | some d =>
      match addEdges (addNodes (addNode g n) (importNodes d k)) n (importNodes d k) with
      | .ok g' => expand defs fuel g' (tagged k d.body ++ rest) out
      | .cycle => .cycle
      | .noNode => .noNode
      | .fuel => .fuel

def expandFuel : Nat := 200000

/-- Parse of the main file: the site block's body is definition 0. -/
def run (defs : List Def) : Verdict :=
  match defs with
  | [] => .ok []
  | d :: _ => expand defs expandFuel Graph.empty (tagged 0 d.body) []

end CaddyModel.C16.Import
