/-
C16 — `sort.SliceStable` above its insertion-sort block size: `stable_func`, `symMerge_func`
and `rotate_func` of Go's `sort/zsortfunc.go` (go1.24), statement by statement, on a list.

Slices `data[x:y]` are `slice d x y`; the three binary-search loops share one shape
(`bsearch`); the element moves (`Swap` runs, `rotate_func`) never consult the comparator and
are written as the block exchanges they implement.  Indices are always in range; `lessAt`
answers `false` outside the list only to be total (nothing is proved from that answer:
the only statements about `symMerge` are closed instances checked by `decide`, and the
correspondence stream compares it with the real `sort.SliceStable` up to 64 elements).
-/
import CaddyModel.C16.Model

namespace CaddyModel.C16

section Stable
variable {α : Type}

def slice (d : List α) (x y : Nat) : List α := (d.drop x).take (y - x)

/-- `data.Less(i, j)` -/
def lessAt (lt : α → α → Bool) (d : List α) (i j : Nat) : Bool :=
  match d[i]?, d[j]? with
  | some x, some y => lt x y
  | _, _ => false

/-- `for i < j { h := int(uint(i+j) >> 1); if right(h) { i = h + 1 } else { j = h } }`; returns `i` -/
def bsearch (right : Nat → Bool) : Nat → Nat → Nat → Nat
  | 0, i, _ => i
  | f + 1, i, j =>
    if i < j then
      if right ((i + j) / 2) then bsearch right f ((i + j) / 2 + 1) j
      else bsearch right f i ((i + j) / 2)
    else i

/-- `rotate_func(data, a, m, b)`: exchange the blocks `data[a:m]` and `data[m:b]` -/
def rotate (d : List α) (a m b : Nat) : List α :=
  d.take a ++ slice d m b ++ slice d a m ++ d.drop b

/-- `symMerge_func(data, a, m, b)` -/
def symMerge (lt : α → α → Bool) : Nat → List α → Nat → Nat → Nat → List α
  | 0, d, _, _, _ => d
  | f + 1, d, a, m, b =>
    if m - a == 1 then
      -- insert data[a] into data[m:b]: lowest i with !less(data[i], data[a])
      let i := bsearch (fun h => lessAt lt d h a) (b + 1) m b
      d.take a ++ slice d (a + 1) i ++ slice d a (a + 1) ++ d.drop i
    else if b - m == 1 then
      -- insert data[m] into data[a:m]: lowest i with less(data[m], data[i])
      let i := bsearch (fun h => !lessAt lt d m h) (b + 1) a m
      d.take i ++ slice d m (m + 1) ++ slice d i m ++ d.drop (m + 1)
    else
      let mid := (a + b) / 2
      let n := mid + m
      let start0 := if m > mid then n - b else a
      let r0 := if m > mid then mid else m
      let p := n - 1
      let start := bsearch (fun c => !lessAt lt d (p - c) c) (b + 1) start0 r0
      let stop := n - start
      let d1 := if start < m && m < stop then rotate d start m stop else d
      let d2 := if a < start && start < mid then symMerge lt f d1 a start mid else d1
      if mid < stop && stop < b then symMerge lt f d2 mid stop b else d2

/-- the inner `for b <= n { symMerge(a, a+blockSize, b) … }` loop and the trailing partial pair -/
def mergeRow (lt : α → α → Bool) (bs n : Nat) : Nat → List α → Nat → List α
  | 0, d, _ => d
  | f + 1, d, a =>
    if a + 2 * bs ≤ n then mergeRow lt bs n f (symMerge lt n d a (a + bs) (a + 2 * bs)) (a + 2 * bs)
    else if a + bs < n then symMerge lt n d a (a + bs) n
    else d

/-- `for blockSize < n { …; blockSize *= 2 }` -/
def mergePasses (lt : α → α → Bool) (n : Nat) : Nat → List α → Nat → List α
  | 0, d, _ => d
  | f + 1, d, bs => if bs < n then mergePasses lt n f (mergeRow lt bs n n d 0) (2 * bs) else d

/-- the first loop of `stable_func`: insertion sort on consecutive blocks of `blockSize` -/
def sortBlocks (lt : α → α → Bool) : Nat → List α → List α
  | 0, l => l
  | f + 1, l =>
    if l.length ≤ blockSize then insertionSort lt l
    else insertionSort lt (l.take blockSize) ++ sortBlocks lt f (l.drop blockSize)

/-- `sort.SliceStable(data, less)` -/
def stableSort (lt : α → α → Bool) (l : List α) : List α :=
  if l.length ≤ blockSize then insertionSort lt l
  else mergePasses lt l.length l.length (sortBlocks lt l.length l) blockSize

end Stable

/-- `sortRoutes` (generic in the element type so that the driver can carry indices along) -/
def sortRoutes {α : Type} (lt : α → α → Bool) (l : List α) : List α := stableSort lt l

theorem sortRoutes_small {α : Type} (lt : α → α → Bool) (l : List α) (h : l.length ≤ blockSize) :
    sortRoutes lt l = insertionSort lt l := by
  simp [sortRoutes, stableSort, h]

end CaddyModel.C16
