/-
C16 — the small abstract account the property talks about.

"Reordering directives of different kinds inside a site block": two lists of route values
are cross-kind reorderings of each other when, for every directive, the subsequence of that
directive's values is the same in both (`SameDirectiveSubsequences`) — i.e. one is a
permutation of the other that never swaps two values of the same directive.  The sorter
itself only sees positions in the directive order (`kindOf`), so the version it is proved
for first is `SameKindSubsequences`.
-/
import CaddyModel.C16.Model

namespace CaddyModel.C16

/-- what the comparator consults across different directives: the position in the order in
effect (0 for a directive that is not listed — Go map zero value) -/
def kindOf (order : List String) (x : RouteVal) : Nat := dirPos order x.dir

/-- `l'` is a permutation of `l` preserving the relative order inside every kind -/
def SameKindSubsequences (order : List String) (l l' : List RouteVal) : Prop :=
  ∀ c : Nat, l.filter (fun x => kindOf order x == c) = l'.filter (fun x => kindOf order x == c)

/-- the same, spoken in directive names (what a user reorders) -/
def SameDirectiveSubsequences (l l' : List RouteVal) : Prop :=
  ∀ d : String, l.filter (fun x => x.dir == d) = l'.filter (fun x => x.dir == d)

/-- the guard of `buildSubroute` as a proposition -/
def AllOrdered (order : List String) (l : List RouteVal) : Prop := ∀ x ∈ l, x.dir ∈ order

/-- directives come out in the order of the table -/
def KindAscending (order : List String) (l : List RouteVal) : Prop :=
  l.Pairwise (fun a b => kindOf order a ≤ kindOf order b)

end CaddyModel.C16
