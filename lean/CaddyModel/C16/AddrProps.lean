/-
C16 — theorems about site addresses (`Addr.lean`).

* `parseAddress_port_in_range`: an accepted address has no port or a decimal port 0…65535;
* `parseAddress_path_shape`: its path is empty or starts with `/`;
* `listenerPort_cases`, `listenerPort_convention`, `listenerPort_scheme`: an accepted site key
  listens on its explicit port, else the HTTP port for `http://`, else the HTTPS port; never on
  the HTTPS port with `http://` nor on the HTTP port with `https://`; only for the schemes
  http, https and none.
-/
import CaddyModel.C16.Addr

namespace CaddyModel.C16

theorem parseAddress_port_in_range (s : Bytes) (a : Address) (h : parseAddress s = some a) :
    a.port = [] ∨ ∃ v, atoi a.port = some v ∧ 0 ≤ v ∧ v ≤ 65535 := by
  unfold parseAddress at h
  split at h
  · rename_i hp
    have : a.port = (hostAndPort (addrHostPort (addrRest (C13.trimSpace (s.take 4096))))).2 := by
      have := Option.some.inj h
      rw [← this]
    rw [this]
    unfold portOK at hp
    by_cases he : (hostAndPort (addrHostPort (addrRest (C13.trimSpace (s.take 4096))))).2.isEmpty = true
    · exact Or.inl (by simpa using he)
    · right
      simp only [he, Bool.false_or] at hp
      split at hp
      · rename_i v hv
        exact ⟨v, hv, by simpa using hp⟩
      · simp at hp
  · simp at h

theorem parseAddress_path_shape (s : Bytes) (a : Address) (h : parseAddress s = some a) :
    a.path = [] ∨ a.path.head? = some 47 := by
  unfold parseAddress at h
  split at h
  · have : a.path = addrPath (addrRest (C13.trimSpace (s.take 4096))) := by
      have := Option.some.inj h
      rw [← this]
    rw [this]
    unfold addrPath
    split
    · exact Or.inr rfl
    · exact Or.inl rfl
  · simp at h

/-- what an accepted key satisfies, read off the three tests -/
theorem listenerPort_some (hp hsp scheme port lp : Bytes) (h : listenerPort hp hsp scheme port = some lp) :
    lp = lnPortOf hp hsp scheme port ∧
    (scheme == sHttps || scheme == sHttp || scheme.isEmpty) = true ∧
    (scheme == sHttp && lp == hsp) = false ∧ (scheme == sHttps && lp == hp) = false := by
  unfold listenerPort at h
  split at h
  · simp at h
  · rename_i h0
    split at h
    · simp at h
    · rename_i h1
      split at h
      · simp at h
      · rename_i h2
        have e : lp = lnPortOf hp hsp scheme port := (Option.some.inj h).symm
        subst e
        refine ⟨rfl, ?_, by simpa using h1, by simpa using h2⟩
        cases hb : (scheme == sHttps || scheme == sHttp || scheme.isEmpty) with
        | true => rfl
        | false => simp [hb] at h0

/-- the listener port is the explicit port, else the HTTP port for http, else the HTTPS port -/
theorem listenerPort_cases (hp hsp scheme port lp : Bytes) (h : listenerPort hp hsp scheme port = some lp) :
    (port ≠ [] ∧ lp = port) ∨ (port = [] ∧ scheme = sHttp ∧ lp = hp) ∨ (port = [] ∧ scheme ≠ sHttp ∧ lp = hsp) := by
  obtain ⟨e, _, _, _⟩ := listenerPort_some hp hsp scheme port lp h
  subst e
  unfold lnPortOf
  by_cases hpe : port = []
  · subst hpe
    by_cases hs : scheme = sHttp
    · simp [hs]
    · simp [hs]
  · have : port.isEmpty = false := by simpa using hpe
    simp [this, hpe]

/-- scheme and port never violate convention -/
theorem listenerPort_convention (hp hsp scheme port lp : Bytes) (h : listenerPort hp hsp scheme port = some lp) :
    ¬ (scheme = sHttp ∧ lp = hsp) ∧ ¬ (scheme = sHttps ∧ lp = hp) := by
  obtain ⟨_, _, h1, h2⟩ := listenerPort_some hp hsp scheme port lp h
  constructor
  · rintro ⟨rfl, rfl⟩; simp at h1
  · rintro ⟨rfl, rfl⟩; simp at h2

/-- only http, https and scheme-less keys get a listener -/
theorem listenerPort_scheme (hp hsp scheme port lp : Bytes) (h : listenerPort hp hsp scheme port = some lp) :
    scheme = sHttps ∨ scheme = sHttp ∨ scheme = [] := by
  obtain ⟨_, h0, _, _⟩ := listenerPort_some hp hsp scheme port lp h
  simp only [Bool.or_eq_true, beq_iff_eq, List.isEmpty_iff] at h0
  rcases h0 with (h0 | h0) | h0
  · exact Or.inl h0
  · exact Or.inr (Or.inl h0)
  · exact Or.inr (Or.inr h0)

example : parseAddress (str " https://A.Test:8443/x ") = some ⟨str "https", str "A.Test", str "8443", str "/x"⟩ := by decide
example : parseAddress (str "a.test:65536") = none ∧ parseAddress (str "[::1]:80") = some ⟨[], str "::1", str "80", []⟩ := by decide
example : listenerPort (str "80") (str "443") sHttp [] = some (str "80")
    ∧ listenerPort (str "80") (str "443") sHttp (str "443") = none
    ∧ listenerPort (str "80") (str "443") (str "ws") [] = none
    ∧ listenerPort (str "80") (str "443") [] [] = some (str "443") := by decide

end CaddyModel.C16
