import CaddyModel.Util.DrvMain
import CaddyModel.C16.Driver
import CaddyModel.C16.Witness
import CaddyModel.C16.BindProps

def main (args : List String) : IO Unit :=
  CaddyModel.drvMain "C16" CaddyModel.C16.handle (CaddyModel.C16.witnessLines ++ CaddyModel.C16.bindWitnessLines) args
