import CaddyModel.Util.DrvMain
import CaddyModel.C16.Driver
import CaddyModel.C16.Witness

def main (args : List String) : IO Unit :=
  CaddyModel.drvMain "C16" CaddyModel.C16.handle CaddyModel.C16.witnessLines args
