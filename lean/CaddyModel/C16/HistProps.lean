/-
C16 — property theorems about what used to be two defects of the tree and is repaired now:

* determinism across the life of a process ("the same text always adapts to byte-identical
  JSON"): the `order` global option acts on the file that carries it and on no other
  (1ea4f8f); `order_option_old_code_fails` keeps the counter-example of the code before;
* totality of import-argument expansion: a negative `{args[N]}` / `{args.N}` index is out of
  bounds, not a slice access (9ba7071); `args_index_old_code_fails` keeps the counter-example.
-/
import CaddyModel.C16.History
import CaddyModel.C16.Args

namespace CaddyModel.C16

/-! ### the `order` option is scoped to one adaptation -/

/-- an adaptation leaves the package-level order as it found it -/
theorem adapt_restores_order (registered global : List String) (f : CFile) :
    (adapt registered global f).2 = global := rfl

theorem orderAfter_adapt (registered global : List String) :
    ∀ hist : List CFile, orderAfter (adapt registered) global hist = global
  | [] => rfl
  | f :: fs => by simp [orderAfter, adapt_restores_order, orderAfter_adapt registered global fs]

/-- FULL STRENGTH: whatever the process adapted before (any number of files with any `order`
options, accepted or rejected), a file adapts to what it adapts to in a fresh process -/
theorem adapt_history_independent (registered global : List String) (hist : List CFile) (f : CFile) :
    (adapt registered (orderAfter (adapt registered) global hist) f).1 = (adapt registered global f).1 := by
  rw [orderAfter_adapt]

/-- the same, on the stream of results of a process -/
theorem runAll_adapt (registered global : List String) :
    ∀ hist : List CFile, runAll (adapt registered) global hist = hist.map (fun f => (adapt registered global f).1)
  | [] => rfl
  | f :: fs => by simp [runAll, adapt_restores_order, runAll_adapt registered global fs]

/-- the option still does its job inside its own file -/
example : (adapt Gen.defaultDirectiveOrder Gen.defaultDirectiveOrder
    ⟨[.first "respond"], [⟨"header", true, 0, []⟩, ⟨"respond", true, 0, []⟩]⟩).1
    = .ok [⟨"respond", true, 0, []⟩, ⟨"header", true, 0, []⟩] := by decide

/-- non-vacuity of the clause: the code before 1ea4f8f violated it — after a file with
`order respond first`, a file with `header` + `respond` (no option of its own) came out with
respond first -/
theorem order_option_old_code_fails :
    ∃ (hist : List CFile) (f : CFile),
      (adaptOld Gen.defaultDirectiveOrder (orderAfter (adaptOld Gen.defaultDirectiveOrder) Gen.defaultDirectiveOrder hist) f).1
        ≠ (adaptOld Gen.defaultDirectiveOrder Gen.defaultDirectiveOrder f).1 :=
  ⟨[⟨[.first "respond"], []⟩], ⟨[], [⟨"header", true, 0, []⟩, ⟨"respond", true, 0, []⟩]⟩, by decide⟩

/-! ### import-argument indices -/

theorem sliceAt_in_range (args : List Bytes) (v : Int) (h0 : 0 ≤ v) (h1 : v < (args.length : Int)) :
    ∃ a, args[v.toNat]? = some a ∧ sliceAt args v = .val a := by
  have hlt : v.toNat < args.length := by omega
  refine ⟨args[v.toNat], List.getElem?_eq_getElem hlt, ?_⟩
  have hn : ¬ v < 0 := by omega
  simp [sliceAt, hn, List.getElem?_eq_getElem hlt]

/-- FULL STRENGTH (totality of the expansion step): for every index text and every argument
list, `{args[…]}` / `{args.…}` is either replaced or left as written — the slice access is
never reached with an index outside the slice -/
theorem args_index_never_panics (bracket : Bool) (idx : Bytes) (args : List Bytes) :
    lookup bracket idx args ≠ .panic := by
  unfold lookup
  split
  · simp
  · split
    · simp
    · split
      · simp
      · rename_i v _
        split
        · simp
        · rename_i h
          have h0 : 0 ≤ v := by
            have : ¬ v < 0 := fun hv => h (by simp [hv])
            omega
          have h1 : v < (args.length : Int) := by
            have : ¬ v ≥ (args.length : Int) := fun hv => h (by simp [hv])
            omega
          obtain ⟨a, _, e⟩ := sliceAt_in_range args v h0 h1
          simp [e]

/-- a negative index is out of bounds: the placeholder is left as written -/
theorem negative_index_is_out_of_bounds (bracket : Bool) (idx : Bytes) (args : List Bytes) (v : Int)
    (h : atoi idx = some v) (hv : v < 0) : lookup bracket idx args = .kept := by
  unfold lookup
  split
  · rfl
  · split
    · rfl
    · simp [h, hv]

/-- an index inside the argument list is replaced by that argument -/
theorem in_range_index_substitutes (bracket : Bool) (idx : Bytes) (args : List Bytes) (v : Int)
    (hne : idx.isEmpty = false) (hcolon : (bracket && idx.contains 58) = false)
    (h : atoi idx = some v) (h0 : 0 ≤ v) (h1 : v < (args.length : Int)) :
    ∃ a, args[v.toNat]? = some a ∧ lookup bracket idx args = .val a := by
  obtain ⟨a, e1, e2⟩ := sliceAt_in_range args v h0 h1
  refine ⟨a, e1, ?_⟩
  unfold lookup
  simp only [hne, hcolon, h, Bool.false_eq_true, if_false]
  split
  · rename_i hc
    exfalso
    simp at hc
    omega
  · exact e2

example : lookup true (str "1") [str "a", str "b"] = .val (str "b") := by decide
example : lookup true (str "-1") [str "a"] = .kept ∧ lookup false (str "-1") [str "a"] = .kept := by decide
example : atoi (str "-1") = some (-1) ∧ atoi (str "+2") = some 2 ∧ atoi (str "1x") = none
    ∧ atoi (str "99999999999999999999") = none := by decide

/-- non-vacuity: before 9ba7071 both forms reached `args[-1]` -/
theorem args_index_old_code_fails :
    ∃ (idx : Bytes) (args : List Bytes),
      lookupOld true idx args = .panic ∧ lookupOld false idx args = .panic :=
  ⟨str "-1", [str "a"], by decide⟩

end CaddyModel.C16
