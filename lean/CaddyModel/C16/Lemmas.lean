/-
C16 — lemmas: cross-kind order-insensitivity of Go-style stable insertion sort (the spike of
DESIGN Appendix B, on the model's `insR` / `isortR`).

`lt` is only assumed to be decided by the kind when kinds differ and to be an ARBITRARY
relation `R` inside a kind — the real comparator is not a strict weak order there.
Route: the reversed sorted prefix is kind-descending (`KindDesc`); inserting `x` leaves every
other kind's subsequence untouched and acts on its own kind's subsequence exactly like
insertion with `R` alone (`insR_step`); a kind-descending list is determined by its per-kind
subsequences (`kindDesc_ext`).
-/
import CaddyModel.C16.Model
import CaddyModel.C16.Stable

namespace CaddyModel.C16

variable {α : Type}


/-- head-to-tail kinds are non-increasing (this is the *reversed* sorted prefix) -/
def KindDesc (kind : α → Nat) : List α → Prop
  | [] => True
  | y :: ys => (∀ z ∈ ys, kind z ≤ kind y) ∧ KindDesc kind ys

theorem mem_insR (lt : α → α → Bool) (x z : α) (l : List α) :
    z ∈ insR lt x l ↔ z = x ∨ z ∈ l := by
  induction l with
  | nil => simp [insR]
  | cons y ys ih =>
    simp only [insR]
    split
    · simp only [List.mem_cons, ih]; constructor <;> (intro h; rcases h with h | h | h <;> simp [h])
    · simp [List.mem_cons]

structure CrossKind (kind : α → Nat) (R lt : α → α → Bool) : Prop where
  diff : ∀ x y, kind x ≠ kind y → lt x y = decide (kind x < kind y)
  same : ∀ x y, kind x = kind y → lt x y = R x y

theorem filter_eq_nil_of_lt (kind : α → Nat) (c : Nat) (l : List α)
    (h : ∀ z ∈ l, kind z < c) : l.filter (fun z => kind z == c) = [] := by
  induction l with
  | nil => rfl
  | cons y ys ih =>
    have hy := h y (by simp)
    have : (kind y == c) = false := by simp; omega
    simp [List.filter, this, ih (fun z hz => h z (by simp [hz]))]

theorem insR_step (kind : α → Nat) (R lt : α → α → Bool) (hk : CrossKind kind R lt)
    (x : α) (acc : List α) (hd : KindDesc kind acc) :
    KindDesc kind (insR lt x acc) ∧
    ∀ c, (insR lt x acc).filter (fun z => kind z == c) =
      if kind x = c then insR R x (acc.filter (fun z => kind z == c))
      else acc.filter (fun z => kind z == c) := by
  induction acc with
  | nil =>
    refine ⟨by simp [insR, KindDesc], fun c => ?_⟩
    by_cases hc : kind x = c <;> simp [insR, List.filter, hc]
  | cons y ys ih =>
    obtain ⟨hy, hys⟩ := hd
    obtain ⟨ihd, ihf⟩ := ih hys
    by_cases hxy : kind x = kind y
    · -- same kind: behaves like R
      have hlt : lt x y = R x y := hk.same x y hxy
      by_cases hr : R x y = true
      · have : lt x y = true := by rw [hlt, hr]
        simp only [insR, this, if_true]
        refine ⟨⟨?_, ihd⟩, fun c => ?_⟩
        · intro z hz
          rcases (mem_insR lt x z ys).1 hz with h | h
          · subst h; omega
          · exact hy z h
        · by_cases hc : kind x = c
          · have hyc : (kind y == c) = true := by simp; omega
            simp [List.filter, hyc, ihf c, hc, insR, hr]
          · have hyc : (kind y == c) = false := by simp; omega
            simp [List.filter, hyc, ihf c, hc]
      · have hr' : R x y = false := by simpa using hr
        have : lt x y = false := by rw [hlt, hr']
        simp only [insR, this]
        refine ⟨⟨?_, hy, hys⟩, fun c => ?_⟩
        · intro z hz
          rcases List.mem_cons.1 hz with h | h
          · subst h; omega
          · have := hy z h; omega
        · by_cases hc : kind x = c
          · have hyc : (kind y == c) = true := by simp; omega
            have hxc : (kind x == c) = true := by simp; omega
            simp [List.filter, hyc, hc, insR, hr']
          · have hyc : (kind y == c) = false := by simp; omega
            have hxc : (kind x == c) = false := by simp; omega
            simp [List.filter, hyc, hxc, hc]
    · by_cases hlt' : kind x < kind y
      · have : lt x y = true := by rw [hk.diff x y hxy]; simp [hlt']
        simp only [insR, this, if_true]
        refine ⟨⟨?_, ihd⟩, fun c => ?_⟩
        · intro z hz
          rcases (mem_insR lt x z ys).1 hz with h | h
          · subst h; omega
          · exact hy z h
        · by_cases hc : kind x = c
          · have hyc : (kind y == c) = false := by simp; omega
            simp [List.filter, hyc, ihf c, hc]
          · by_cases hyc : (kind y == c) = true
            · simp [List.filter, hyc, ihf c, hc]
            · have hyc' : (kind y == c) = false := by simpa using hyc
              simp [List.filter, hyc', ihf c, hc]
      · have hgt : kind y < kind x := by omega
        have : lt x y = false := by rw [hk.diff x y hxy]; simp; omega
        simp only [insR, this]
        refine ⟨⟨?_, hy, hys⟩, fun c => ?_⟩
        · intro z hz
          rcases List.mem_cons.1 hz with h | h
          · subst h; omega
          · have := hy z h; omega
        · by_cases hc : kind x = c
          · have hnil : (y :: ys).filter (fun z => kind z == c) = [] := by
              apply filter_eq_nil_of_lt
              intro z hz
              rcases List.mem_cons.1 hz with h | h
              · subst h; omega
              · have := hy z h; omega
            have hxc : (kind x == c) = true := by simp; omega
            rw [hnil]
            have hnil' := hnil
            simp only [List.filter] at hnil'
            simp [List.filter, hc, insR]
            simpa [List.filter] using hnil
          · have hxc : (kind x == c) = false := by simp; omega
            simp [List.filter, hxc, hc]

theorem fold_inv (kind : α → Nat) (R lt : α → α → Bool) (hk : CrossKind kind R lt)
    (l acc : List α) (hd : KindDesc kind acc) :
    KindDesc kind (l.foldl (fun a x => insR lt x a) acc) ∧
    ∀ c, (l.foldl (fun a x => insR lt x a) acc).filter (fun z => kind z == c) =
      (l.filter (fun z => kind z == c)).foldl (fun a x => insR R x a)
        (acc.filter (fun z => kind z == c)) := by
  induction l generalizing acc with
  | nil => exact ⟨hd, fun c => rfl⟩
  | cons x xs ih =>
    obtain ⟨h1, h2⟩ := insR_step kind R lt hk x acc hd
    obtain ⟨i1, i2⟩ := ih (insR lt x acc) h1
    refine ⟨i1, fun c => ?_⟩
    simp only [List.foldl_cons]
    rw [i2 c, h2 c]
    by_cases hc : kind x = c
    · simp [List.filter, hc]
    · have : (kind x == c) = false := by simp [hc]
      simp [List.filter, this, hc]

theorem kindDesc_ext (kind : α → Nat) : ∀ (a b : List α), KindDesc kind a → KindDesc kind b →
    (∀ c, a.filter (fun z => kind z == c) = b.filter (fun z => kind z == c)) → a = b
  | [], [], _, _, _ => rfl
  | [], y :: ys, _, _, h => by
    have := h (kind y); simp [List.filter] at this
  | x :: xs, [], _, _, h => by
    have := h (kind x); simp [List.filter] at this
  | x :: xs, y :: ys, ⟨hx, hxs⟩, ⟨hy, hys⟩, h => by
    have hkxy : kind x = kind y := by
      rcases Nat.lt_trichotomy (kind x) (kind y) with hlt | heq | hgt
      · exfalso
        have h1 := h (kind y)
        have : (x :: xs).filter (fun z => kind z == kind y) = [] := by
          apply filter_eq_nil_of_lt
          intro z hz
          rcases List.mem_cons.1 hz with e | e
          · subst e; exact hlt
          · have := hx z e; omega
        rw [this] at h1
        simp [List.filter] at h1
      · exact heq
      · exfalso
        have h1 := h (kind x)
        have : (y :: ys).filter (fun z => kind z == kind x) = [] := by
          apply filter_eq_nil_of_lt
          intro z hz
          rcases List.mem_cons.1 hz with e | e
          · subst e; exact hgt
          · have := hy z e; omega
        rw [this] at h1
        simp [List.filter] at h1
    have h0 := h (kind x)
    have e1 : (kind x == kind x) = true := by simp
    have e2 : (kind y == kind x) = true := by simp [hkxy]
    simp only [List.filter, e1, e2] at h0
    have hxy : x = y := (List.cons.inj h0).1
    subst hxy
    congr 1
    apply kindDesc_ext kind xs ys hxs hys
    intro c
    have hc := h c
    by_cases hh : (kind x == c) = true
    · simp only [List.filter, hh] at hc
      exact (List.cons.inj hc).2
    · have hh' : (kind x == c) = false := by simpa using hh
      simpa [List.filter, hh'] using hc

/-- Main statement: the result depends only on the per-kind subsequences, for ANY within-kind relation R. -/
theorem isort_cross_kind_invariant (kind : α → Nat) (R lt : α → α → Bool) (hk : CrossKind kind R lt)
    (l l' : List α)
    (h : ∀ c, l.filter (fun z => kind z == c) = l'.filter (fun z => kind z == c)) :
    isortR lt l = isortR lt l' := by
  unfold isortR
  obtain ⟨d1, f1⟩ := fold_inv kind R lt hk l [] trivial
  obtain ⟨d2, f2⟩ := fold_inv kind R lt hk l' [] trivial
  apply kindDesc_ext kind _ _ d1 d2
  intro c
  rw [f1 c, f2 c, h c]


end CaddyModel.C16

namespace CaddyModel.C16

variable {α : Type}

/-! ### the sorter permutes -/

theorem insR_perm (lt : α → α → Bool) (x : α) (l : List α) : (insR lt x l).Perm (x :: l) := by
  induction l with
  | nil => simp [insR]
  | cons y ys ih =>
    simp only [insR]
    split
    · exact (List.Perm.cons y ih).trans (List.Perm.swap x y ys)
    · exact List.Perm.refl _

theorem foldl_insR_perm (lt : α → α → Bool) (l acc : List α) :
    (l.foldl (fun a x => insR lt x a) acc).Perm (l ++ acc) := by
  induction l generalizing acc with
  | nil => simp
  | cons x xs ih =>
    simp only [List.foldl_cons]
    refine (ih (insR lt x acc)).trans ?_
    refine (List.Perm.append_left xs (insR_perm lt x acc)).trans ?_
    simp

theorem insertionSort_perm' (lt : α → α → Bool) (l : List α) : (insertionSort lt l).Perm l := by
  unfold insertionSort isortR
  exact (List.reverse_perm _).trans (by simpa using foldl_insR_perm lt l [])

/-! ### kind-descending = pairwise -/

theorem kindDesc_iff_pairwise (kind : α → Nat) (l : List α) :
    KindDesc kind l ↔ l.Pairwise (fun y z => kind z ≤ kind y) := by
  induction l with
  | nil => simp [KindDesc]
  | cons y ys ih => simp [KindDesc, List.pairwise_cons, ih]

/-! ### `dirPositions` -/

theorem dirPosFrom_not_mem (d : String) : ∀ (l : List String) (i acc : Nat), d ∉ l → dirPosFrom d i acc l = acc
  | [], _, _, _ => rfl
  | x :: xs, i, acc, h => by
    have hx : ¬ x = d := fun e => h (by simp [e])
    have hxs : d ∉ xs := fun e => h (by simp [e])
    simp [dirPosFrom, hx, dirPosFrom_not_mem d xs (i + 1) acc hxs]

theorem dirPosFrom_mem (d : String) : ∀ (l : List String) (i acc : Nat), d ∈ l →
    ∃ k, l[k]? = some d ∧ dirPosFrom d i acc l = i + k
  | [], _, _, h => by simp at h
  | x :: xs, i, acc, h => by
    by_cases hxs : d ∈ xs
    · obtain ⟨k, hk, he⟩ := dirPosFrom_mem d xs (i + 1) (if x == d then i else acc) hxs
      refine ⟨k + 1, by simpa using hk, ?_⟩
      simp only [dirPosFrom]
      rw [he]; omega
    · have hx : x = d := by
        rcases List.mem_cons.1 h with e | e
        · exact e.symm
        · exact absurd e hxs
      refine ⟨0, by simp [hx], ?_⟩
      simp [dirPosFrom, hx, dirPosFrom_not_mem d xs (i + 1) i hxs]

/-- a listed directive's position really holds that directive -/
theorem dirPos_getElem (order : List String) (d : String) (h : d ∈ order) :
    order[dirPos order d]? = some d := by
  obtain ⟨k, hk, he⟩ := dirPosFrom_mem d order 0 0 h
  simp [dirPos, he, hk]

/-- listed directives with equal positions are the same directive -/
theorem dirPos_injective (order : List String) (d₁ d₂ : String) (h₁ : d₁ ∈ order) (h₂ : d₂ ∈ order)
    (h : dirPos order d₁ = dirPos order d₂) : d₁ = d₂ := by
  have e₁ := dirPos_getElem order d₁ h₁
  have e₂ := dirPos_getElem order d₂ h₂
  rw [h, e₂] at e₁
  exact (Option.some.inj e₁).symm

/-! ### pairwise distinct kinds -/

theorem filter_kind_length_le_one {α : Type} (kind : α → Nat) (c : Nat) :
    ∀ (l : List α), (l.map kind).Nodup → (l.filter (fun x => kind x == c)).length ≤ 1
  | [], _ => by simp
  | x :: xs, h => by
    have hx : kind x ∉ xs.map kind := (List.nodup_cons.1 (by simpa using h)).1
    have hxs : (xs.map kind).Nodup := (List.nodup_cons.1 (by simpa using h)).2
    by_cases hc : kind x = c
    · have : xs.filter (fun y => kind y == c) = [] := by
        rw [List.filter_eq_nil_iff]
        intro y hy hk
        exact hx (List.mem_map.2 ⟨y, hy, by simpa [hc] using hk⟩)
      simp [List.filter, hc, this]
    · have : (kind x == c) = false := by simpa using hc
      simpa [List.filter, this] using filter_kind_length_le_one kind c xs hxs

theorem perm_eq_of_length_le_one {α : Type} : ∀ (a b : List α), a.Perm b → a.length ≤ 1 → a = b
  | [], b, h, _ => (List.Perm.nil_eq h)
  | [x], b, h, _ => (List.singleton_perm.1 h)
  | _ :: _ :: _, _, _, h => by simp at h

end CaddyModel.C16
