/-
PROPOSAL — NOT THE CODE AS IT IS.  This file models / proves facts about a CANDIDATE repair of
`sortRoutes` (/verif/.run/fixes/C16-sortroutes.patch: precomputed per-route keys compared as a
strict total order) that was reviewed and NOT applied, because it changes the route order of
existing configs with 20 or fewer routes.  It is not imported by the driver, Props or Audit and
is not part of what `./check C16` builds; it is kept as a worked-out option should upstream
want a comparator that is a strict weak order.  The tree's `sortRoutes` is `Model.lean` +
`Stable.lean`; its over-20-routes defect stays a known finding (`Witness.lean`).
-/
/-
C16 — `sortRoutes` as it is after the repair of the over-20-routes defect: every route gets a
sort key once (`keyOf`, computed in written order with two per-directive counters) and
`sort.SliceStable` compares keys (`lessKey`), which is a strict total order on the keyed
routes of a block; the comparator of before (`less`, `sameDirLess` in `Model.lean`) was not
even a strict weak order.

  dirPos  position of the directive in the order in effect (Go map semantics, `dirPos`)
  slot    2·s for a route with a single path, 2·s+1 for a route with a matcher but no single
          path (s = how many such "separator" routes of the same directive were written
          before it), `lastSlot` for a route without matcher / a value that is not a Route
  score   2·len(path), minus 3 if the path ends in `*`
  seq     how many routes of the same directive were written before it
-/
import CaddyModel.C16.Stable

namespace CaddyModel.C16

structure SortKey where
  dirPos : Nat
  slot : Nat
  score : Int
  seq : Nat
  deriving DecidableEq, Repr

/-- `int(^uint(0) >> 1)` -/
def lastSlot : Nat := 9223372036854775807

/-- a Go `map[string]int` read with zero default -/
def counter (m : List (String × Nat)) (d : String) : Nat :=
  match m with
  | [] => 0
  | (k, v) :: rest => if k == d then v else counter rest d

/-- `m[d]++` -/
def bump (m : List (String × Nat)) (d : String) : List (String × Nat) :=
  match m with
  | [] => [(d, 1)]
  | (k, v) :: rest => if k == d then (k, v + 1) :: rest else (k, v) :: bump rest d

/-- has a matcher and is a Route -/
def hasMatcher (x : RouteVal) : Bool := x.isRoute && decide (x.nsets > 0)

/-- `len(pm) == 1 && len(pm[0]) > 0` -/
def singlePath (x : RouteVal) : Bool := hasMatcher x && decide (pathLen x > 0)

/-- `strings.HasSuffix(p, "*")` -/
def endsInStar (p : Bytes) : Bool := p.getLast? == some 42

def scoreOf (x : RouteVal) : Int :=
  if endsInStar (firstPath x) then 2 * (pathLen x : Int) - 3 else 2 * (pathLen x : Int)

/-- the key of one route given the counters before it -/
def keyOf (order : List String) (written separators : List (String × Nat)) (x : RouteVal) : SortKey :=
  if singlePath x then ⟨dirPos order x.dir, 2 * counter separators x.dir, scoreOf x, counter written x.dir⟩
  else if hasMatcher x then ⟨dirPos order x.dir, 2 * counter separators x.dir + 1, 0, counter written x.dir⟩
  else ⟨dirPos order x.dir, lastSlot, 0, counter written x.dir⟩

/-- is a separator: has a matcher but no single path -/
def isSeparator (x : RouteVal) : Bool := hasMatcher x && !singlePath x

/-- the loop that builds `keyed` -/
def keyedFrom (order : List String) : List (String × Nat) → List (String × Nat) → List RouteVal → List (RouteVal × SortKey)
  | _, _, [] => []
  | written, separators, x :: xs =>
    (x, keyOf order written separators x) ::
      keyedFrom order (bump written x.dir) (if isSeparator x then bump separators x.dir else separators) xs

def keyed (order : List String) (l : List RouteVal) : List (RouteVal × SortKey) := keyedFrom order [] [] l

/-- the part of the comparison below the directive test -/
def lessWithin (a b : SortKey) : Bool :=
  if a.slot != b.slot then decide (a.slot < b.slot)
  else if a.score != b.score then decide (a.score > b.score)
  else decide (a.seq < b.seq)

/-- the `less` closure handed to `sort.SliceStable` -/
def lessKey (a b : RouteVal × SortKey) : Bool :=
  if a.2.dirPos != b.2.dirPos then decide (a.2.dirPos < b.2.dirPos)
  else if a.1.dir == "vars" then lessWithin b.2 a.2
  else lessWithin a.2 b.2

/-- `sortRoutes` -/
def sortRoutesKeyed (order : List String) (l : List RouteVal) : List RouteVal :=
  (stableSort lessKey (keyed order l)).map (·.1)

end CaddyModel.C16
