/-
C16 — model of `sortRoutes` (caddyconfig/httpcaddyfile/directives.go:436-520), the one place
where the Caddyfile adapter decides the order of HTTP handler directives, as the code is:

* `dirPositions` is a Go map filled by ranging over `directiveOrder`: a directive listed twice
  gets its LAST index, a directive that is not listed reads the zero value 0 (`dirPos`);
* the comparator (`less`) consults only those positions when the two directive names differ;
  for equal names it is the path-length heuristic (`sameDirLess`), which is NOT a strict weak
  order (see `Witness.lean`), reversed for `vars`, and constantly false when a value is not a
  `caddyhttp.Route`;
* `handle_path` is renamed to `handle` before sorting (`normalizeDirectiveName`, httptype.go);
* `sort.SliceStable` is `stable_func` of Go's `sort` package: insertion sort on blocks of 20
  (`insR`/`isortR`: the inner loop moves the new element left while `less new prev`), followed,
  when there are more than 20 elements, by SymMerge passes (`symMerge`, `mergePasses`).

Strings that are only compared for equality (directive names) are `String`; path matchers are
byte strings (`len`, `strings.TrimSuffix` work on bytes).  Core Lean only, structural recursion.
-/
import CaddyModel.Util.Hex
import CaddyModel.Gen.DirectiveOrder

namespace CaddyModel.C16

/-- one `ConfigValue` of class "route" as `sortRoutes` sees it -/
structure RouteVal where
  /-- `ConfigValue.directive` (already normalized) -/
  dir : String
  /-- `Value.(caddyhttp.Route)` succeeds -/
  isRoute : Bool
  /-- `len(Route.MatcherSetsRaw)` -/
  nsets : Nat
  /-- the `path` matcher of the first matcher set (`[]`: none) -/
  paths : List Bytes
  deriving DecidableEq, Repr

/-- `normalizeDirectiveName` (httptype.go:1388) -/
def normalizeDirectiveName (d : String) : String :=
  if d == "handle_path" then "handle" else d

/-- `for i, dir := range directiveOrder { dirPositions[dir] = i }` then `dirPositions[d]` -/
def dirPosFrom (d : String) : Nat → Nat → List String → Nat
  | _, acc, [] => acc
  | i, acc, x :: xs => dirPosFrom d (i + 1) (if x == d then i else acc) xs

def dirPos (order : List String) (d : String) : Nat := dirPosFrom d 0 0 order

/-- the decoded path matcher: only looked at when there is exactly one matcher set -/
def pm (x : RouteVal) : List Bytes := if x.nsets == 1 then x.paths else []

/-- `iPathLen`: length of the path if the matcher has exactly one path, else 0 -/
def pathLen (x : RouteVal) : Nat :=
  match pm x with
  | [p] => p.length
  | _ => 0

/-- `iPM[0]` (only read when `pathLen > 0`) -/
def firstPath (x : RouteVal) : Bytes :=
  match pm x with
  | [p] => p
  | _ => []

/-- `strings.TrimSuffix(p, "*")` -/
def trimStar (p : Bytes) : Bytes := if p.getLast? == some 42 then p.dropLast else p

/-- the closure `sortByPath` -/
def sortByPath (i j : RouteVal) : Bool :=
  if decide (pathLen i > 0) && decide (pathLen j > 0) then
    if trimStar (firstPath i) == trimStar (firstPath j) then decide (pathLen i < pathLen j)
    else decide (pathLen i > pathLen j)
  else decide (i.nsets > 0) && j.nsets == 0

/-- the comparator for two values of the SAME directive -/
def sameDirLess (i j : RouteVal) : Bool :=
  if !i.isRoute then false
  else if !j.isRoute then false
  else if i.dir == "vars" then !sortByPath i j
  else sortByPath i j

/-- the `less` closure handed to `sort.SliceStable` -/
def less (order : List String) (i j : RouteVal) : Bool :=
  if i.dir != j.dir then decide (dirPos order i.dir < dirPos order j.dir)
  else sameDirLess i j

/-! ### `sort.SliceStable` -/

section Isort
variable {α : Type}

/-- one run of the inner loop of `insertionSort_func` on the REVERSED sorted prefix:
`for j := i; j > a && less(data[j], data[j-1]); j-- { swap }` -/
def insR (lt : α → α → Bool) (x : α) : List α → List α
  | [] => [x]
  | y :: ys => if lt x y then y :: insR lt x ys else x :: y :: ys

/-- `insertionSort_func(data, 0, n)`; the result is held reversed -/
def isortR (lt : α → α → Bool) (l : List α) : List α :=
  l.foldl (fun acc x => insR lt x acc) []

/-- insertion sort, in order -/
def insertionSort (lt : α → α → Bool) (l : List α) : List α := (isortR lt l).reverse

end Isort

/-- Go's block size below which `stable_func` is a single insertion sort -/
def blockSize : Nat := 20

/-- `sortRoutes` for at most `blockSize` values (above it see `Stable.lean`) -/
def sortRoutesSmall (order : List String) (l : List RouteVal) : List RouteVal :=
  insertionSort (less order) l

/-- the guard of `buildSubroute`: every directive must be in the order in effect -/
def allOrdered (order : List String) (l : List RouteVal) : Bool :=
  l.all fun x => order.contains x.dir

end CaddyModel.C16
