/-
C16 — "collect from a Go map, then sort": the pattern by which the per-directive unmarshalers turn
a `map[string]…` of Caddyfile arguments into an ordered part of the JSON.  A Go map is ranged over
in an arbitrary order, i.e. the collected slice is an arbitrary PERMUTATION of the entries; the
output is deterministic iff the sort that follows does not depend on that permutation.

`sortByKey` is the sort (insertion-sort region of `sort.Strings` / `sort.Slice`; the theorem is
about any sort that returns the sorted permutation).  `forward_auth`'s `copy_headers`
(modules/caddyhttp/reverseproxy/forwardauth/caddyfile.go) is the instance transliterated here:
the map is keyed by the header name AS WRITTEN, the keys are sorted as strings, and only then
canonicalised (`copyHeaderRoutes`); sorting by the canonical name instead (`copyHeaderRoutesCanon`)
is the variant whose key is not injective on the map's keys.
-/
import CaddyModel.C16.Stable

namespace CaddyModel.C16

/-- sort the collected entries by a key -/
def sortByKey {α κ : Type} (lt : κ → κ → Bool) (key : α → κ) (l : List α) : List α :=
  insertionSort (fun a b => lt (key a) (key b)) l

/-! ### forward_auth copy_headers -/

def isTokenChar (c : Char) : Bool :=
  c.isAlphanum || "!#$%&'*+-.^_`|~".toList.contains c

/-- `http.CanonicalHeaderKey` on ASCII: unchanged if a byte is not a token character; otherwise
upper-case the first letter and every letter after `-`, lower-case the rest -/
def canonLoop : Bool → List Char → List Char
  | _, [] => []
  | upper, c :: cs => (if upper then c.toUpper else c.toLower) :: canonLoop (c == '-') cs

def canonicalHeaderKey (s : String) : String :=
  if s.toList.all isTokenChar then String.ofList (canonLoop true s.toList) else s

/-- `headersToCopy[from] = to` for the arguments in order (`a>b`, or `a` = `a>a`): a later
argument with the same spelling replaces the earlier one; the result lists the map's entries in
first-insertion order (one of the orders Go may range in) -/
def setEntry (m : List (String × String)) (k v : String) : List (String × String) :=
  match m with
  | [] => [(k, v)]
  | (k', v') :: rest => if k' == k then (k, v) :: rest else (k', v') :: setEntry rest k v

def headersToCopy (args : List (String × String)) : List (String × String) :=
  args.foldl (fun m kv => setEntry m kv.1 kv.2) []

/-- the copy routes, given the order `iter` in which the map happened to be ranged over:
(header set on the request, header of the auth response it is taken from) -/
def copyHeaderRoutes (iter : List (String × String)) : List (String × String) :=
  (sortByKey (fun (a b : String) => decide (a < b)) (·.1) iter).map fun e =>
    (canonicalHeaderKey e.2, canonicalHeaderKey e.1)

/-- the variant that canonicalises first and sorts by the canonical source name -/
def copyHeaderRoutesCanon (iter : List (String × String)) : List (String × String) :=
  (sortByKey (fun (a b : String) => decide (a < b)) (·.2)
    (iter.map fun e => (canonicalHeaderKey e.2, canonicalHeaderKey e.1)))

end CaddyModel.C16
